From Coq Require Import Reals Lra.
From Interval Require Import Tactic.
From RV Require Import IR.Model IR.Proofs.
Open Scope R_scope.
Lemma r_A02_9 : rio_reads A02_c A02_e A02_lo A02_hi floor_volts ctol (Build_rio (Fin (5854679515581645 / 2251799813685248)) (Fin (0 / 1)) (Fin (3715469692580659 / 1125899906842624)) (Fin (6 / 1)) (Fin (12 / 1)) true true true ((Fin (0 / 1)) :: (Fin (0 / 1)) :: (Fin (0 / 1)) :: (Fin (0 / 1)) :: (Fin (27 / 4)) :: (Fin (45 / 1)) :: nil)) (45 / 2).
Proof. apply (A02_rio_fin _ (5854679515581645 / 2251799813685248)); [reflexivity | apply (A02_q_lo 5854679515581645 2251799813685248 45 2); [vm_compute; reflexivity | unfold fr, ctol, A02_lo, A02_c, A02_e; interval with (i_prec 80)]]. Qed.
Lemma r_A02_42 : rio_reads A02_c A02_e A02_lo A02_hi floor_volts ctol (Build_rio (Fin (4154238440335507 / 9007199254740992)) (Fin (5 / 1)) (Fin (3715469692580659 / 1125899906842624)) (Fin (6 / 1)) (Fin (12 / 1)) true true false ((Fin (0 / 1)) :: (Fin (0 / 1)) :: (Fin (0 / 1)) :: (Fin (0 / 1)) :: (Fin (27 / 4)) :: (Fin (45 / 1)) :: nil)) (145 / 1).
Proof. apply (A02_rio_fin _ (4154238440335507 / 9007199254740992)); [reflexivity | apply (A02_q_hi 4154238440335507 9007199254740992 145 1); [vm_compute; reflexivity | unfold fr, ctol, A02_hi, A02_c, A02_e; interval with (i_prec 80)]]. Qed.
Lemma r_A02_58 : rio_reads A02_c A02_e A02_lo A02_hi floor_volts ctol (Build_rio (Fin (1895 / 4096)) (Fin (2589569785738035 / 562949953421312)) (Fin (3602879701896397 / 1125899906842624)) (Fin (0 / 1)) (Fin (7093169413108531 / 1125899906842624)) true true false ((Fin (0 / 1)) :: (Fin (0 / 1)) :: (Fin (0 / 1)) :: (Fin (120 / 1)) :: (Fin (27 / 4)) :: (Fin (45 / 1)) :: nil)) (5084476096464495 / 35184372088832).
Proof. apply (A02_rio_fin _ (1895 / 4096)); [reflexivity | apply (A02_q_mid 1895 4096 5084476096464495 35184372088832); [vm_compute; reflexivity | unfold fr, close, ctol, A02_c, A02_e; interval with (i_prec 80)]]. Qed.
Lemma r_A02_74 : rio_reads A02_c A02_e A02_lo A02_hi floor_volts ctol (Build_rio (Fin (35 / 256)) (Fin (2227 / 512)) (Fin (3611 / 1024)) (Fin (6 / 1)) (Fin (12 / 1)) true false true ((Fin (2129 / 1024)) :: (Fin (1341 / 1024)) :: (Fin (2981 / 1024)) :: (Fin (130481 / 1024)) :: (Fin (4367 / 512)) :: (Fin (9203 / 128)) :: nil)) (145 / 1).
Proof. apply (A02_rio_fin _ (35 / 256)); [reflexivity | apply (A02_q_hi 35 256 145 1); [vm_compute; reflexivity | unfold fr, ctol, A02_hi, A02_c, A02_e; interval with (i_prec 80)]]. Qed.
Lemma r_A02_90 : rio_reads A02_c A02_e A02_lo A02_hi floor_volts ctol (Build_rio (Fin (115 / 256)) (Fin (4333 / 1024)) (Fin (3667 / 1024)) (Fin (5185 / 1024)) (Fin (10759 / 1024)) true true true ((Fin (385 / 1024)) :: (Fin (621 / 512)) :: (Fin (299 / 512)) :: (Fin (24017 / 128)) :: (Fin (2139 / 512)) :: (Fin (66797 / 1024)) :: nil)) (145 / 1).
Proof. apply (A02_rio_fin _ (115 / 256)); [reflexivity | apply (A02_q_hi 115 256 145 1); [vm_compute; reflexivity | unfold fr, ctol, A02_hi, A02_c, A02_e; interval with (i_prec 80)]]. Qed.
Lemma r_A02_106 : rio_reads A02_c A02_e A02_lo A02_hi floor_volts ctol (Build_rio (Fin (195 / 256)) (Fin (9087 / 1024)) (Fin (2953 / 1024)) (Fin (4367 / 1024)) (Fin (10865 / 1024)) true true true ((Fin (959 / 1024)) :: (Fin (23 / 1024)) :: (Fin (675 / 256)) :: (Fin (69473 / 512)) :: (Fin (109 / 16)) :: (Fin (63405 / 1024)) :: nil)) (5899410963499547 / 70368744177664).
Proof. apply (A02_rio_fin _ (195 / 256)); [reflexivity | apply (A02_q_mid 195 256 5899410963499547 70368744177664); [vm_compute; reflexivity | unfold fr, close, ctol, A02_c, A02_e; interval with (i_prec 80)]]. Qed.
Lemma r_A02_122 : rio_reads A02_c A02_e A02_lo A02_hi floor_volts ctol (Build_rio (Fin (275 / 256)) (Fin (255 / 64)) (Fin (1381 / 512)) (Fin (6203 / 1024)) (Fin (12 / 1)) true false true ((Fin (529 / 512)) :: (Fin (989 / 1024)) :: (Fin (5 / 16)) :: (Fin (8925 / 1024)) :: (Fin (7929 / 1024)) :: (Fin (22413 / 1024)) :: nil)) (4052986385534681 / 70368744177664).
Proof. apply (A02_rio_fin _ (275 / 256)); [reflexivity | apply (A02_q_mid 275 256 4052986385534681 70368744177664); [vm_compute; reflexivity | unfold fr, close, ctol, A02_c, A02_e; interval with (i_prec 80)]]. Qed.
Lemma r_A02_138 : rio_reads A02_c A02_e A02_lo A02_hi floor_volts ctol (Build_rio (Fin (355 / 256)) (Fin (2581 / 512)) (Fin (0 / 1)) (Fin (5911 / 1024)) (Fin (12167 / 1024)) true true false ((Fin (653 / 1024)) :: (Fin (537 / 512)) :: (Fin (239 / 512)) :: (Fin (53991 / 512)) :: (Fin (5773 / 1024)) :: (Fin (2401 / 32)) :: nil)) (6133481796696959 / 140737488355328).
Proof. apply (A02_rio_fin _ (355 / 256)); [reflexivity | apply (A02_q_mid 355 256 6133481796696959 140737488355328); [vm_compute; reflexivity | unfold fr, close, ctol, A02_c, A02_e; interval with (i_prec 80)]]. Qed.
Lemma r_A02_154 : rio_reads A02_c A02_e A02_lo A02_hi floor_volts ctol (Build_rio (Fin (435 / 256)) (Fin (4407 / 1024)) (Fin (707 / 256)) (Fin (2471 / 512)) (Fin (13153 / 1024)) true true true ((Fin (2733 / 1024)) :: (Fin (163 / 256)) :: (Fin (983 / 512)) :: (Fin (147213 / 1024)) :: (Fin (4273 / 512)) :: (Fin (68097 / 1024)) :: nil)) (4912767073357109 / 140737488355328).
Proof. apply (A02_rio_fin _ (435 / 256)); [reflexivity | apply (A02_q_mid 435 256 4912767073357109 140737488355328); [vm_compute; reflexivity | unfold fr, close, ctol, A02_c, A02_e; interval with (i_prec 80)]]. Qed.
Lemma r_A02_170 : rio_reads A02_c A02_e A02_lo A02_hi floor_volts ctol (Build_rio (Fin (515 / 256)) (Fin (767 / 512)) (Fin (781 / 256)) (Fin (5907 / 1024)) (Fin (4951 / 512)) false true true ((Fin (2683 / 1024)) :: (Fin (101 / 256)) :: (Fin (2309 / 1024)) :: (Fin (33085 / 256)) :: (Fin (6819 / 1024)) :: (Fin ((-6401) / 512)) :: nil)) (8171333648162603 / 281474976710656).
Proof. apply (A02_rio_fin _ (515 / 256)); [reflexivity | apply (A02_q_mid 515 256 8171333648162603 281474976710656); [vm_compute; reflexivity | unfold fr, close, ctol, A02_c, A02_e; interval with (i_prec 80)]]. Qed.
Lemma r_A02_186 : rio_reads A02_c A02_e A02_lo A02_hi floor_volts ctol (Build_rio (Fin (595 / 256)) (Fin (5487 / 1024)) (Fin (10561 / 1024)) (Fin (711 / 128)) (Fin (4941 / 512)) true false true ((Fin (757 / 512)) :: (Fin (107 / 512)) :: (Fin (2617 / 1024)) :: (Fin (53391 / 512)) :: (Fin (8499 / 1024)) :: (Fin (9691 / 1024)) :: nil)) (436208303766823 / 17592186044416).
Proof. apply (A02_rio_fin _ (595 / 256)); [reflexivity | apply (A02_q_mid 595 256 436208303766823 17592186044416); [vm_compute; reflexivity | unfold fr, close, ctol, A02_c, A02_e; interval with (i_prec 80)]]. Qed.
Lemma r_A02_202 : rio_reads A02_c A02_e A02_lo A02_hi floor_volts ctol (Build_rio (Fin (85 / 32)) (Fin (0 / 1)) (Fin (3655 / 1024)) PInf (Fin (3839 / 256)) true false false ((Fin (371 / 128)) :: (Fin (1919 / 1024)) :: (Fin (3043 / 1024)) :: (Fin (89639 / 1024)) :: (Fin (1869 / 256)) :: (Fin (27151 / 1024)) :: nil)) (45 / 2).
Proof. apply (A02_rio_fin _ (85 / 32)); [reflexivity | apply (A02_q_lo 85 32 45 2); [vm_compute; reflexivity | unfold fr, ctol, A02_lo, A02_c, A02_e; interval with (i_prec 80)]]. Qed.
Lemma r_A02_218 : rio_reads A02_c A02_e A02_lo A02_hi floor_volts ctol (Build_rio (Fin (95 / 32)) (Fin (1 / 1)) (Fin (3715469692580659 / 1125899906842624)) NInf (Fin (6439 / 512)) true false true ((Fin (2333 / 1024)) :: (Fin (717 / 512)) :: (Fin (1809 / 1024)) :: (Fin (94345 / 1024)) :: (Fin (605 / 128)) :: (Fin (33855 / 1024)) :: nil)) (45 / 2).
Proof. apply (A02_rio_fin _ (95 / 32)); [reflexivity | apply (A02_q_lo 95 32 45 2); [vm_compute; reflexivity | unfold fr, ctol, A02_lo, A02_c, A02_e; interval with (i_prec 80)]]. Qed.
Lemma r_A02_234 : rio_reads A02_c A02_e A02_lo A02_hi floor_volts ctol (Build_rio (Fin (105 / 32)) (Fin (5 / 1)) (Fin (3121 / 1024)) (Fin (601 / 1024)) (Fin (4235 / 512)) true true false ((Fin (1361 / 1024)) :: (Fin (167 / 128)) :: (Fin (169 / 256)) :: (Fin (82129 / 1024)) :: (Fin (1617 / 256)) :: (Fin (37939 / 1024)) :: nil)) (45 / 2).
Proof. apply (A02_rio_fin _ (105 / 32)); [reflexivity | apply (A02_q_lo 105 32 45 2); [vm_compute; reflexivity | unfold fr, ctol, A02_lo, A02_c, A02_e; interval with (i_prec 80)]]. Qed.
Lemma r_A02_250 : rio_reads A02_c A02_e A02_lo A02_hi floor_volts ctol (Build_rio (Fin (115 / 32)) (Fin (100000000000000001097906362944045541740492309677311846336810682903157585404911491537163328978494688899061249669721172515611590283743140088328307009198146046031271664502933027185697489699588559043338384466165001178426897626212945177628091195786707458122783970171784415105291802893207873272974885715430223118336 / 1)) (Fin (3715469692580659 / 1125899906842624)) (Fin (1 / 1)) (Fin (12 / 1)) false true false ((Fin (389 / 256)) :: (Fin (261 / 512)) :: (Fin (1 / 512)) :: (Fin (8891 / 128)) :: (Fin (8759 / 1024)) :: (Fin (48853 / 512)) :: nil)) (45 / 2).
Proof. apply (A02_rio_fin _ (115 / 32)); [reflexivity | apply (A02_q_lo 115 32 45 2); [vm_compute; reflexivity | unfold fr, ctol, A02_lo, A02_c, A02_e; interval with (i_prec 80)]]. Qed.
Lemma r_A02_266 : rio_reads A02_c A02_e A02_lo A02_hi floor_volts ctol (Build_rio (Fin (125 / 32)) (Fin (5113 / 1024)) (Fin (173 / 64)) (Fin (6 / 1)) (Fin (12 / 1)) false true true ((Fin (525 / 256)) :: (Fin (737 / 512)) :: (Fin (2641 / 1024)) :: (Fin (32127 / 1024)) :: (Fin (619 / 128)) :: (Fin ((-493) / 32)) :: nil)) (45 / 2).
Proof. apply (A02_rio_fin _ (125 / 32)); [reflexivity | apply (A02_q_lo 125 32 45 2); [vm_compute; reflexivity | unfold fr, ctol, A02_lo, A02_c, A02_e; interval with (i_prec 80)]]. Qed.
Lemma r_A02_282 : rio_reads A02_c A02_e A02_lo A02_hi floor_volts ctol (Build_rio (Fin (135 / 32)) (Fin (5 / 1)) (Fin (3715469692580659 / 1125899906842624)) (Fin (5043 / 1024)) (Fin (11757 / 1024)) true true true ((Fin (7 / 8)) :: (Fin (1085 / 1024)) :: (Fin (45 / 32)) :: (Fin (166801 / 1024)) :: (Fin (635 / 128)) :: (Fin (45651 / 512)) :: nil)) (45 / 2).
Proof. apply (A02_rio_fin _ (135 / 32)); [reflexivity | apply (A02_q_lo 135 32 45 2); [vm_compute; reflexivity | unfold fr, ctol, A02_lo, A02_c, A02_e; interval with (i_prec 80)]]. Qed.
Lemma r_A02_298 : rio_reads A02_c A02_e A02_lo A02_hi floor_volts ctol (Build_rio (Fin (145 / 32)) (Fin (5345 / 1024)) (Fin (3715469692580659 / 1125899906842624)) (Fin (91 / 16)) (Fin (12501 / 1024)) false false true ((Fin (645 / 1024)) :: (Fin (817 / 512)) :: (Fin (651 / 1024)) :: (Fin (172625 / 1024)) :: (Fin (2715 / 512)) :: (Fin ((-6017) / 512)) :: nil)) (45 / 2).
Proof. apply (A02_rio_fin _ (145 / 32)); [reflexivity | apply (A02_q_lo 145 32 45 2); [vm_compute; reflexivity | unfold fr, ctol, A02_lo, A02_c, A02_e; interval with (i_prec 80)]]. Qed.
Lemma r_A02_314 : rio_reads A02_c A02_e A02_lo A02_hi floor_volts ctol (Build_rio (Fin (155 / 32)) (Fin (14831 / 1024)) (Fin (3469 / 1024)) (Fin (6 / 1)) (Fin (9961 / 1024)) true true true ((Fin (541 / 256)) :: (Fin (535 / 512)) :: (Fin (79 / 128)) :: (Fin (18089 / 128)) :: (Fin (1537 / 256)) :: (Fin (31869 / 1024)) :: nil)) (45 / 2).
Proof. apply (A02_rio_fin _ (155 / 32)); [reflexivity | apply (A02_q_lo 155 32 45 2); [vm_compute; reflexivity | unfold fr, ctol, A02_lo, A02_c, A02_e; interval with (i_prec 80)]]. Qed.
Lemma r_A02_330 : rio_reads A02_c A02_e A02_lo A02_hi floor_volts ctol (Build_rio (Fin (949111150888795 / 281474976710656)) (Fin (1339 / 256)) (Fin (1495 / 512)) (Fin (5169 / 1024)) (Fin (12 / 1)) true true false ((Fin (1263 / 512)) :: (Fin (333 / 512)) :: (Fin (483 / 1024)) :: (Fin (13853 / 128)) :: (Fin (2045 / 256)) :: (Fin (1459 / 1024)) :: nil)) (45 / 2).
Proof. apply (A02_rio_fin _ (949111150888795 / 281474976710656)); [reflexivity | apply (A02_q_lo 949111150888795 281474976710656 45 2); [vm_compute; reflexivity | unfold fr, ctol, A02_lo, A02_c, A02_e; interval with (i_prec 80)]]. Qed.
Lemma r_A02_346 : rio_reads A02_c A02_e A02_lo A02_hi floor_volts ctol (Build_rio (Fin (85479877438815 / 17592186044416)) (Fin (5035 / 1024)) (Fin (1361 / 512)) (Fin (5927 / 1024)) (Fin (15165 / 1024)) false true true ((Fin (1305 / 512)) :: (Fin (457 / 1024)) :: (Fin (603 / 1024)) :: (Fin (21757 / 1024)) :: (Fin (2451 / 512)) :: (Fin (4441 / 128)) :: nil)) (45 / 2).
Proof. apply (A02_rio_fin _ (85479877438815 / 17592186044416)); [reflexivity | apply (A02_q_lo 85479877438815 17592186044416 45 2); [vm_compute; reflexivity | unfold fr, ctol, A02_lo, A02_c, A02_e; interval with (i_prec 80)]]. Qed.
Lemma r_A02_362 : rio_reads A02_c A02_e A02_lo A02_hi floor_volts ctol (Build_rio (Fin (5259379893265185 / 1125899906842624)) (Fin (5 / 1)) (Fin (369 / 128)) (Fin (2681 / 512)) (Fin (2683 / 256)) true true true ((Fin (1241 / 1024)) :: (Fin (1927 / 1024)) :: (Fin (2031 / 1024)) :: (Fin (15959 / 128)) :: (Fin (6307 / 1024)) :: (Fin ((-6939) / 1024)) :: nil)) (45 / 2).
Proof. apply (A02_rio_fin _ (5259379893265185 / 1125899906842624)); [reflexivity | apply (A02_q_lo 5259379893265185 1125899906842624 45 2); [vm_compute; reflexivity | unfold fr, ctol, A02_lo, A02_c, A02_e; interval with (i_prec 80)]]. Qed.
Lemma r_A02_378 : rio_reads A02_c A02_e A02_lo A02_hi floor_volts ctol (Build_rio (Fin (4463274090848615 / 9007199254740992)) (Fin (4985 / 1024)) (Fin (3491 / 1024)) (Fin (2887 / 512)) (Fin (5423 / 512)) false true true ((Fin (713 / 256)) :: (Fin (877 / 512)) :: (Fin (2103 / 1024)) :: (Fin (5009 / 128)) :: (Fin (513 / 64)) :: (Fin ((-4357) / 256)) :: nil)) (4717248474515707 / 35184372088832).
Proof. apply (A02_rio_fin _ (4463274090848615 / 9007199254740992)); [reflexivity | apply (A02_q_mid 4463274090848615 9007199254740992 4717248474515707 35184372088832); [vm_compute; reflexivity | unfold fr, close, ctol, A02_c, A02_e; interval with (i_prec 80)]]. Qed.
Lemma r_A02_396 : rio_reads A02_c A02_e A02_lo A02_hi floor_volts ctol (Build_rio (Fin (5178839611444081 / 70368744177664)) (Fin (5281 / 1024)) (Fin (3223 / 1024)) (Fin (6491 / 1024)) (Fin (12 / 1)) false true true ((Fin (113 / 128)) :: (Fin (81 / 256)) :: (Fin (757 / 1024)) :: (Fin (188901 / 1024)) :: (Fin (7125 / 1024)) :: (Fin (29105 / 512)) :: nil)) (45 / 2).
Proof. apply (A02_rio_fin _ (5178839611444081 / 70368744177664)); [reflexivity | apply (A02_q_lo 5178839611444081 70368744177664 45 2); [vm_compute; reflexivity | unfold fr, ctol, A02_lo, A02_c, A02_e; interval with (i_prec 80)]]. Qed.
Lemma r_A02_415 : rio_reads A02_c A02_e A02_lo A02_hi floor_volts ctol (Build_rio (Fin (3310087176100891 / 18014398509481984)) (Fin (2127 / 512)) (Fin (727 / 256)) PInf (Fin (9187 / 1024)) true true true ((Fin (435 / 256)) :: (Fin (9 / 1024)) :: (Fin (741 / 256)) :: (Fin (182503 / 1024)) :: (Fin (6669 / 1024)) :: (Fin (4935 / 64)) :: nil)) (145 / 1).
Proof. apply (A02_rio_fin _ (3310087176100891 / 18014398509481984)); [reflexivity | apply (A02_q_hi 3310087176100891 18014398509481984 145 1); [vm_compute; reflexivity | unfold fr, ctol, A02_hi, A02_c, A02_e; interval with (i_prec 80)]]. Qed.
Lemma d_A02_6u : close ctol (1459500756917977 / 2251799813685248) (volts_A02 (100 / 1)).
Proof. apply (A02_q_volts_mid 100 1 1459500756917977 2251799813685248); [vm_compute; reflexivity | unfold fr, close, ctol, A02_lo, A02_hi, A02_c, A02_e; interval with (i_prec 80)]. Qed.
Lemma d_A02_14u : close ctol (8308476880671015 / 18014398509481984) (volts_A02 (150 / 1)).
Proof. apply (A02_q_volts_hi 150 1 8308476880671015 18014398509481984); [vm_compute; reflexivity | unfold fr, close, ctol, A02_lo, A02_hi, A02_c, A02_e; interval with (i_prec 80)]. Qed.
Lemma d_A02_22u : close ctol (357539307115111 / 140737488355328) (volts_A02 ((-1) / 1)).
Proof. apply (A02_q_volts_lo (-1) 1 357539307115111 140737488355328); [vm_compute; reflexivity | unfold fr, close, ctol, A02_lo, A02_hi, A02_c, A02_e; interval with (i_prec 80)]. Qed.
Lemma d_A02_30u : close ctol (357539307115111 / 140737488355328) (volts_A02 (10 / 1)).
Proof. apply (A02_q_volts_lo 10 1 357539307115111 140737488355328); [vm_compute; reflexivity | unfold fr, close, ctol, A02_lo, A02_hi, A02_c, A02_e; interval with (i_prec 80)]. Qed.
Lemma d_A02_38u : close ctol (8308476880671015 / 18014398509481984) (volts_A02 (1000000 / 1)).
Proof. apply (A02_q_volts_hi 1000000 1 8308476880671015 18014398509481984); [vm_compute; reflexivity | unfold fr, close, ctol, A02_lo, A02_hi, A02_c, A02_e; interval with (i_prec 80)]. Qed.
Lemma d_A02_46u : close ctol (5720628913841775 / 2251799813685248) (volts_A02 (6333186975989761 / 281474976710656)).
Proof. apply (A02_q_volts_mid 6333186975989761 281474976710656 5720628913841775 2251799813685248); [vm_compute; reflexivity | unfold fr, close, ctol, A02_lo, A02_hi, A02_c, A02_e; interval with (i_prec 80)]. Qed.
Lemma d_A02_54u : close ctol (8308476880671015 / 18014398509481984) (volts_A02 (146 / 1)).
Proof. apply (A02_q_volts_hi 146 1 8308476880671015 18014398509481984); [vm_compute; reflexivity | unfold fr, close, ctol, A02_lo, A02_hi, A02_c, A02_e; interval with (i_prec 80)]. Qed.
Lemma d_A02_64r : rio_reads A02_c A02_e A02_lo A02_hi floor_volts ctol (Build_rio (Fin (357539307115111 / 140737488355328)) (Fin (0 / 1)) (Fin (3715469692580659 / 1125899906842624)) (Fin (5287 / 1024)) (Fin (12 / 1)) true true true ((Fin (461 / 1024)) :: (Fin (1983 / 1024)) :: (Fin (447 / 1024)) :: (Fin (61675 / 1024)) :: (Fin (7891 / 1024)) :: (Fin ((-8635) / 1024)) :: nil)) (45 / 2).
Proof. apply (A02_rio_fin _ (357539307115111 / 140737488355328)); [reflexivity | apply (A02_q_lo 357539307115111 140737488355328 45 2); [vm_compute; reflexivity | unfold fr, ctol, A02_lo, A02_c, A02_e; interval with (i_prec 80)]]. Qed.
Lemma d_A02_77u : close ctol (8308476880671015 / 18014398509481984) (volts_A02 (6472189996839281 / 17592186044416)).
Proof. apply (A02_q_volts_hi 6472189996839281 17592186044416 8308476880671015 18014398509481984); [vm_compute; reflexivity | unfold fr, close, ctol, A02_lo, A02_hi, A02_c, A02_e; interval with (i_prec 80)]. Qed.
Lemma d_A02_90u : close ctol (5792471811345275 / 9007199254740992) (volts_A02 (7097297711230941 / 70368744177664)).
Proof. apply (A02_q_volts_mid 7097297711230941 70368744177664 5792471811345275 9007199254740992); [vm_compute; reflexivity | unfold fr, close, ctol, A02_lo, A02_hi, A02_c, A02_e; interval with (i_prec 80)]. Qed.
Lemma d_A02_103u : close ctol (8209439364325771 / 9007199254740992) (volts_A02 (303102912436421 / 4398046511104)).
Proof. apply (A02_q_volts_mid 303102912436421 4398046511104 8209439364325771 9007199254740992); [vm_compute; reflexivity | unfold fr, close, ctol, A02_lo, A02_hi, A02_c, A02_e; interval with (i_prec 80)]. Qed.
Lemma d_A02_116u : close ctol (357539307115111 / 140737488355328) (volts_A02 ((-8920843347092071) / 1125899906842624)).
Proof. apply (A02_q_volts_lo (-8920843347092071) 1125899906842624 357539307115111 140737488355328); [vm_compute; reflexivity | unfold fr, close, ctol, A02_lo, A02_hi, A02_c, A02_e; interval with (i_prec 80)]. Qed.
Lemma d_A02_128r : rio_reads A02_c A02_e A02_lo A02_hi floor_volts ctol (Build_rio (Fin (5398693473690173 / 9007199254740992)) (Fin (4821 / 1024)) (Fin (1469 / 512)) (Fin (1 / 1)) (Fin (161 / 512)) true true false ((Fin (2031 / 1024)) :: (Fin (1841 / 1024)) :: (Fin (2151 / 1024)) :: (Fin (12753 / 256)) :: (Fin (7181 / 1024)) :: (Fin (58981 / 1024)) :: nil)) (3832226858477481 / 35184372088832).
Proof. apply (A02_rio_fin _ (5398693473690173 / 9007199254740992)); [reflexivity | apply (A02_q_mid 5398693473690173 9007199254740992 3832226858477481 35184372088832); [vm_compute; reflexivity | unfold fr, close, ctol, A02_c, A02_e; interval with (i_prec 80)]]. Qed.
Lemma d_A02_141u : close ctol (1338657200475841 / 2251799813685248) (volts_A02 (7733355264453317 / 70368744177664)).
Proof. apply (A02_q_volts_mid 7733355264453317 70368744177664 1338657200475841 2251799813685248); [vm_compute; reflexivity | unfold fr, close, ctol, A02_lo, A02_hi, A02_c, A02_e; interval with (i_prec 80)]. Qed.
Lemma d_A02_154u : close ctol (8308476880671015 / 18014398509481984) (volts_A02 (153 / 1)).
Proof. apply (A02_q_volts_hi 153 1 8308476880671015 18014398509481984); [vm_compute; reflexivity | unfold fr, close, ctol, A02_lo, A02_hi, A02_c, A02_e; interval with (i_prec 80)]. Qed.
Lemma d_A02_167u : close ctol (5830281334936427 / 4503599627370496) (volts_A02 (3305846859546345 / 70368744177664)).
Proof. apply (A02_q_volts_mid 3305846859546345 70368744177664 5830281334936427 4503599627370496); [vm_compute; reflexivity | unfold fr, close, ctol, A02_lo, A02_hi, A02_c, A02_e; interval with (i_prec 80)]. Qed.
Lemma d_A02_180u : close ctol (8457246601925297 / 18014398509481984) (volts_A02 (5003813694923367 / 35184372088832)).
Proof. apply (A02_q_volts_mid 5003813694923367 35184372088832 8457246601925297 18014398509481984); [vm_compute; reflexivity | unfold fr, close, ctol, A02_lo, A02_hi, A02_c, A02_e; interval with (i_prec 80)]. Qed.
Lemma d_A02_192r : rio_reads A02_c A02_e A02_lo A02_hi floor_volts ctol (Build_rio (Fin (3736187130282513 / 2251799813685248)) (Fin (5395 / 1024)) (Fin (2705 / 1024)) (Fin (1523 / 256)) (Fin (1 / 202402253307310618352495346718917307049556649764142118356901358027430339567995346891960383701437124495187077864316811911389808737385793476867013399940738509921517424276566361364466907742093216341239767678472745068562007483424692698618103355649159556340810056512358769552333414615230502532186327508646006263307707741093494784)) true true true ((Fin (77 / 32)) :: (Fin (213 / 512)) :: (Fin (51 / 256)) :: (Fin (127889 / 1024)) :: (Fin (2053 / 512)) :: (Fin (85841 / 1024)) :: nil)) (2521151069651905 / 70368744177664).
Proof. apply (A02_rio_fin _ (3736187130282513 / 2251799813685248)); [reflexivity | apply (A02_q_mid 3736187130282513 2251799813685248 2521151069651905 70368744177664); [vm_compute; reflexivity | unfold fr, close, ctol, A02_c, A02_e; interval with (i_prec 80)]]. Qed.
Lemma d_A02_205u : close ctol (2232873927460905 / 4503599627370496) (volts_A02 (2357197531524031 / 17592186044416)).
Proof. apply (A02_q_volts_mid 2357197531524031 17592186044416 2232873927460905 4503599627370496); [vm_compute; reflexivity | unfold fr, close, ctol, A02_lo, A02_hi, A02_c, A02_e; interval with (i_prec 80)]. Qed.
Lemma d_A02_218u : close ctol (329786227079267 / 281474976710656) (volts_A02 (7372872902236827 / 140737488355328)).
Proof. apply (A02_q_volts_mid 7372872902236827 140737488355328 329786227079267 281474976710656); [vm_compute; reflexivity | unfold fr, close, ctol, A02_lo, A02_hi, A02_c, A02_e; interval with (i_prec 80)]. Qed.
Lemma d_A02_231u : close ctol (8308476880671015 / 18014398509481984) (volts_A02 (178 / 1)).
Proof. apply (A02_q_volts_hi 178 1 8308476880671015 18014398509481984); [vm_compute; reflexivity | unfold fr, close, ctol, A02_lo, A02_hi, A02_c, A02_e; interval with (i_prec 80)]. Qed.
Lemma d_A02_244u : close ctol (5077427675760399 / 9007199254740992) (volts_A02 (4097768949416857 / 35184372088832)).
Proof. apply (A02_q_volts_mid 4097768949416857 35184372088832 5077427675760399 9007199254740992); [vm_compute; reflexivity | unfold fr, close, ctol, A02_lo, A02_hi, A02_c, A02_e; interval with (i_prec 80)]. Qed.
Lemma d_A02_256r : rio_reads A02_c A02_e A02_lo A02_hi floor_volts ctol (Build_rio (Fin (8507875843047011 / 18014398509481984)) (Fin (6039 / 512)) (Fin (3027 / 1024)) (Fin (5415 / 1024)) (Fin (4153 / 512)) true true true ((Fin (417 / 1024)) :: (Fin (181 / 128)) :: (Fin (767 / 1024)) :: (Fin (24337 / 256)) :: (Fin (5683 / 1024)) :: (Fin (24553 / 512)) :: nil)) (1242826523318057 / 8796093022208).
Proof. apply (A02_rio_fin _ (8507875843047011 / 18014398509481984)); [reflexivity | apply (A02_q_mid 8507875843047011 18014398509481984 1242826523318057 8796093022208); [vm_compute; reflexivity | unfold fr, close, ctol, A02_c, A02_e; interval with (i_prec 80)]]. Qed.
Lemma d_A02_269u : close ctol (8308476880671015 / 18014398509481984) (volts_A02 (1645905840978793 / 8796093022208)).
Proof. apply (A02_q_volts_hi 1645905840978793 8796093022208 8308476880671015 18014398509481984); [vm_compute; reflexivity | unfold fr, close, ctol, A02_lo, A02_hi, A02_c, A02_e; interval with (i_prec 80)]. Qed.
Lemma d_A02_282u : close ctol (4628495398682341 / 9007199254740992) (volts_A02 (1133418103791233 / 8796093022208)).
Proof. apply (A02_q_volts_mid 1133418103791233 8796093022208 4628495398682341 9007199254740992); [vm_compute; reflexivity | unfold fr, close, ctol, A02_lo, A02_hi, A02_c, A02_e; interval with (i_prec 80)]. Qed.
Lemma d_A02_295u : close ctol (7167335969460943 / 4503599627370496) (volts_A02 (5277096028428841 / 140737488355328)).
Proof. apply (A02_q_volts_mid 5277096028428841 140737488355328 7167335969460943 4503599627370496); [vm_compute; reflexivity | unfold fr, close, ctol, A02_lo, A02_hi, A02_c, A02_e; interval with (i_prec 80)]. Qed.
Lemma d_A02_308u : close ctol (8308476880671015 / 18014398509481984) (volts_A02 (2968770165578837 / 17592186044416)).
Proof. apply (A02_q_volts_hi 2968770165578837 17592186044416 8308476880671015 18014398509481984); [vm_compute; reflexivity | unfold fr, close, ctol, A02_lo, A02_hi, A02_c, A02_e; interval with (i_prec 80)]. Qed.
Lemma d_A02_320r : rio_reads A02_c A02_e A02_lo A02_hi floor_volts ctol (Build_rio (Fin (4779082063350821 / 2251799813685248)) (Fin (4449 / 1024)) (Fin (3207 / 1024)) (Fin (1473 / 256)) (Fin (5953 / 512)) false true false ((Fin (1399 / 512)) :: (Fin (157 / 128)) :: (Fin (1623 / 1024)) :: (Fin (86647 / 512)) :: (Fin (6131 / 1024)) :: (Fin (14687 / 512)) :: nil)) (7707379319750457 / 281474976710656).
Proof. apply (A02_rio_fin _ (4779082063350821 / 2251799813685248)); [reflexivity | apply (A02_q_mid 4779082063350821 2251799813685248 7707379319750457 281474976710656); [vm_compute; reflexivity | unfold fr, close, ctol, A02_c, A02_e; interval with (i_prec 80)]]. Qed.
Lemma d_A02_333u : close ctol (6075094225053045 / 9007199254740992) (volts_A02 (6737527294167665 / 70368744177664)).
Proof. apply (A02_q_volts_mid 6737527294167665 70368744177664 6075094225053045 9007199254740992); [vm_compute; reflexivity | unfold fr, close, ctol, A02_lo, A02_hi, A02_c, A02_e; interval with (i_prec 80)]. Qed.
Lemma d_A02_346u : close ctol (357539307115111 / 140737488355328) (volts_A02 (1850972084428433 / 562949953421312)).
Proof. apply (A02_q_volts_lo 1850972084428433 562949953421312 357539307115111 140737488355328); [vm_compute; reflexivity | unfold fr, close, ctol, A02_lo, A02_hi, A02_c, A02_e; interval with (i_prec 80)]. Qed.
Lemma d_A02_359u : close ctol (8522884754401365 / 18014398509481984) (volts_A02 (620218364492203 / 4398046511104)).
Proof. apply (A02_q_volts_mid 620218364492203 4398046511104 8522884754401365 18014398509481984); [vm_compute; reflexivity | unfold fr, close, ctol, A02_lo, A02_hi, A02_c, A02_e; interval with (i_prec 80)]. Qed.
Lemma d_A02_372u : close ctol (3642905858259843 / 2251799813685248) (volts_A02 (2591730046291261 / 70368744177664)).
Proof. apply (A02_q_volts_mid 2591730046291261 70368744177664 3642905858259843 2251799813685248); [vm_compute; reflexivity | unfold fr, close, ctol, A02_lo, A02_hi, A02_c, A02_e; interval with (i_prec 80)]. Qed.
Lemma d_A02_384r : rio_reads A02_c A02_e A02_lo A02_hi floor_volts ctol (Build_rio (Fin (8309543335901645 / 18014398509481984)) (Fin (5 / 1)) (Fin (1 / 1)) (Fin (6 / 1)) PInf true true true ((Fin (2737 / 1024)) :: (Fin (471 / 1024)) :: (Fin (685 / 1024)) :: (Fin (76673 / 1024)) :: (Fin (8211 / 1024)) :: (Fin (41149 / 1024)) :: nil)) (5101018957307339 / 35184372088832).
Proof. apply (A02_rio_fin _ (8309543335901645 / 18014398509481984)); [reflexivity | apply (A02_q_mid 8309543335901645 18014398509481984 5101018957307339 35184372088832); [vm_compute; reflexivity | unfold fr, close, ctol, A02_c, A02_e; interval with (i_prec 80)]]. Qed.
Lemma d_A02_397u : close ctol (8477134661782925 / 18014398509481984) (volts_A02 (2495497848435751 / 17592186044416)).
Proof. apply (A02_q_volts_mid 2495497848435751 17592186044416 8477134661782925 18014398509481984); [vm_compute; reflexivity | unfold fr, close, ctol, A02_lo, A02_hi, A02_c, A02_e; interval with (i_prec 80)]. Qed.
Lemma d_A02_410u : close ctol (2775586435238613 / 2251799813685248) (volts_A02 (6975535040796193 / 140737488355328)).
Proof. apply (A02_q_volts_mid 6975535040796193 140737488355328 2775586435238613 2251799813685248); [vm_compute; reflexivity | unfold fr, close, ctol, A02_lo, A02_hi, A02_c, A02_e; interval with (i_prec 80)]. Qed.
Lemma d_A02_423u : close ctol (8308476880671015 / 18014398509481984) (volts_A02 (319195755740675 / 549755813888)).
Proof. apply (A02_q_volts_hi 319195755740675 549755813888 8308476880671015 18014398509481984); [vm_compute; reflexivity | unfold fr, close, ctol, A02_lo, A02_hi, A02_c, A02_e; interval with (i_prec 80)]. Qed.
Lemma d_A02_436u : close ctol (357539307115111 / 140737488355328) (volts_A02 (226458394265777 / 140737488355328)).
Proof. apply (A02_q_volts_lo 226458394265777 140737488355328 357539307115111 140737488355328); [vm_compute; reflexivity | unfold fr, close, ctol, A02_lo, A02_hi, A02_c, A02_e; interval with (i_prec 80)]. Qed.
Lemma d_A02_448r : rio_reads A02_c A02_e A02_lo A02_hi floor_volts ctol (Build_rio (Fin (8308476880671015 / 18014398509481984)) (Fin (2085 / 512)) (Fin (0 / 1)) (Fin (6 / 1)) (Fin (4989 / 512)) true false false ((Fin (353 / 1024)) :: (Fin (989 / 512)) :: (Fin (343 / 128)) :: (Fin (42361 / 256)) :: (Fin (6061 / 1024)) :: (Fin (10407 / 128)) :: nil)) (145 / 1).
Proof. apply (A02_rio_fin _ (8308476880671015 / 18014398509481984)); [reflexivity | apply (A02_q_hi 8308476880671015 18014398509481984 145 1); [vm_compute; reflexivity | unfold fr, ctol, A02_hi, A02_c, A02_e; interval with (i_prec 80)]]. Qed.
Lemma d_A02_461u : close ctol (8308476880671015 / 18014398509481984) (volts_A02 (5426460537231565 / 17592186044416)).
Proof. apply (A02_q_volts_hi 5426460537231565 17592186044416 8308476880671015 18014398509481984); [vm_compute; reflexivity | unfold fr, close, ctol, A02_lo, A02_hi, A02_c, A02_e; interval with (i_prec 80)]. Qed.
Lemma d_A02_474u : close ctol (5715307207688795 / 9007199254740992) (volts_A02 (1800500396763955 / 17592186044416)).
Proof. apply (A02_q_volts_mid 1800500396763955 17592186044416 5715307207688795 9007199254740992); [vm_compute; reflexivity | unfold fr, close, ctol, A02_lo, A02_hi, A02_c, A02_e; interval with (i_prec 80)]. Qed.
Lemma d_A02_487u : close ctol (8510403119889355 / 18014398509481984) (volts_A02 (621211750125407 / 4398046511104)).
Proof. apply (A02_q_volts_mid 621211750125407 4398046511104 8510403119889355 18014398509481984); [vm_compute; reflexivity | unfold fr, close, ctol, A02_lo, A02_hi, A02_c, A02_e; interval with (i_prec 80)]. Qed.
Lemma d_A02_500u : close ctol (357539307115111 / 140737488355328) (volts_A02 ((-7434364711522389) / 1125899906842624)).
Proof. apply (A02_q_volts_lo (-7434364711522389) 1125899906842624 357539307115111 140737488355328); [vm_compute; reflexivity | unfold fr, close, ctol, A02_lo, A02_hi, A02_c, A02_e; interval with (i_prec 80)]. Qed.
Lemma d_A02_512r : rio_reads A02_c A02_e A02_lo A02_hi floor_volts ctol (Build_rio (Fin (357539307115111 / 140737488355328)) (Fin (2645 / 512)) (Fin (2973 / 1024)) (Fin (1253 / 256)) (Fin (12985 / 1024)) true true true ((Fin (275 / 128)) :: (Fin (499 / 1024)) :: (Fin (1869 / 1024)) :: (Fin (27997 / 1024)) :: (Fin (6145 / 1024)) :: (Fin (25591 / 512)) :: nil)) (45 / 2).
Proof. apply (A02_rio_fin _ (357539307115111 / 140737488355328)); [reflexivity | apply (A02_q_lo 357539307115111 140737488355328 45 2); [vm_compute; reflexivity | unfold fr, ctol, A02_lo, A02_c, A02_e; interval with (i_prec 80)]]. Qed.
Lemma d_A02_525u : close ctol (6381347296262717 / 4503599627370496) (volts_A02 (5990752168939059 / 140737488355328)).
Proof. apply (A02_q_volts_mid 5990752168939059 140737488355328 6381347296262717 4503599627370496); [vm_compute; reflexivity | unfold fr, close, ctol, A02_lo, A02_hi, A02_c, A02_e; interval with (i_prec 80)]. Qed.
Lemma d_A02_538u : close ctol (6734315257971451 / 9007199254740992) (volts_A02 (6020658487792351 / 70368744177664)).
Proof. apply (A02_q_volts_mid 6020658487792351 70368744177664 6734315257971451 9007199254740992); [vm_compute; reflexivity | unfold fr, close, ctol, A02_lo, A02_hi, A02_c, A02_e; interval with (i_prec 80)]. Qed.
Lemma d_A02_551u : close ctol (5035689302916401 / 4503599627370496) (volts_A02 (969856183164651 / 17592186044416)).
Proof. apply (A02_q_volts_mid 969856183164651 17592186044416 5035689302916401 4503599627370496); [vm_compute; reflexivity | unfold fr, close, ctol, A02_lo, A02_hi, A02_c, A02_e; interval with (i_prec 80)]. Qed.
Lemma d_A02_564u : close ctol (4295605390657985 / 9007199254740992) (volts_A02 (2459335736829585 / 17592186044416)).
Proof. apply (A02_q_volts_mid 2459335736829585 17592186044416 4295605390657985 9007199254740992); [vm_compute; reflexivity | unfold fr, close, ctol, A02_lo, A02_hi, A02_c, A02_e; interval with (i_prec 80)]. Qed.
Lemma d_A02_576r : rio_reads A02_c A02_e A02_lo A02_hi floor_volts ctol (Build_rio (Fin (6020499231759331 / 9007199254740992)) (Fin (2557 / 512)) NInf (Fin (2843 / 512)) (Fin (797 / 64)) false true true ((Fin (1 / 8)) :: (Fin (53 / 256)) :: (Fin (457 / 512)) :: (Fin (153421 / 1024)) :: (Fin (1173 / 256)) :: (Fin (43413 / 1024)) :: nil)) (6804273120635763 / 70368744177664).
Proof. apply (A02_rio_fin _ (6020499231759331 / 9007199254740992)); [reflexivity | apply (A02_q_mid 6020499231759331 9007199254740992 6804273120635763 70368744177664); [vm_compute; reflexivity | unfold fr, close, ctol, A02_c, A02_e; interval with (i_prec 80)]]. Qed.
Lemma d_A02_589u : close ctol (319889972710825 / 281474976710656) (volts_A02 (1905574694851483 / 35184372088832)).
Proof. apply (A02_q_volts_mid 1905574694851483 35184372088832 319889972710825 281474976710656); [vm_compute; reflexivity | unfold fr, close, ctol, A02_lo, A02_hi, A02_c, A02_e; interval with (i_prec 80)]. Qed.
Lemma d_A02_602u : close ctol (776097221197619 / 562949953421312) (volts_A02 (3086405613263385 / 70368744177664)).
Proof. apply (A02_q_volts_mid 3086405613263385 70368744177664 776097221197619 562949953421312); [vm_compute; reflexivity | unfold fr, close, ctol, A02_lo, A02_hi, A02_c, A02_e; interval with (i_prec 80)]. Qed.
Lemma d_A02_615u : close ctol (5347524956784505 / 4503599627370496) (volts_A02 (7266123821094783 / 140737488355328)).
Proof. apply (A02_q_volts_mid 7266123821094783 140737488355328 5347524956784505 4503599627370496); [vm_compute; reflexivity | unfold fr, close, ctol, A02_lo, A02_hi, A02_c, A02_e; interval with (i_prec 80)]. Qed.
Lemma d_A02_628u : close ctol (2633454374240497 / 2251799813685248) (volts_A02 (3693828698045843 / 70368744177664)).
Proof. apply (A02_q_volts_mid 3693828698045843 70368744177664 2633454374240497 2251799813685248); [vm_compute; reflexivity | unfold fr, close, ctol, A02_lo, A02_hi, A02_c, A02_e; interval with (i_prec 80)]. Qed.
Lemma d_A02_640r : rio_reads A02_c A02_e A02_lo A02_hi floor_volts ctol (Build_rio (Fin (8955275021364387 / 18014398509481984)) (Fin (1355 / 512)) (Fin (0 / 1)) (Fin (5205 / 1024)) (Fin (5879 / 512)) true false true ((Fin (1927 / 1024)) :: (Fin (483 / 256)) :: (Fin (1939 / 1024)) :: (Fin (77381 / 1024)) :: (Fin (3367 / 512)) :: (Fin (17279 / 256)) :: nil)) (293795420006053 / 2199023255552).
Proof. apply (A02_rio_fin _ (8955275021364387 / 18014398509481984)); [reflexivity | apply (A02_q_mid 8955275021364387 18014398509481984 293795420006053 2199023255552); [vm_compute; reflexivity | unfold fr, close, ctol, A02_c, A02_e; interval with (i_prec 80)]]. Qed.
Lemma d_A02_653u : close ctol (6612651828590103 / 9007199254740992) (volts_A02 (6141722874041763 / 70368744177664)).
Proof. apply (A02_q_volts_mid 6141722874041763 70368744177664 6612651828590103 9007199254740992); [vm_compute; reflexivity | unfold fr, close, ctol, A02_lo, A02_hi, A02_c, A02_e; interval with (i_prec 80)]. Qed.
Lemma d_A02_666u : close ctol (8308476880671015 / 18014398509481984) (volts_A02 (262 / 1)).
Proof. apply (A02_q_volts_hi 262 1 8308476880671015 18014398509481984); [vm_compute; reflexivity | unfold fr, close, ctol, A02_lo, A02_hi, A02_c, A02_e; interval with (i_prec 80)]. Qed.
Lemma r_A21_454 : rio_reads A21_c A21_e A21_lo A21_hi floor_volts ctol (Build_rio (Fin (11 / 2)) (Fin (5 / 1)) (Fin (3715469692580659 / 1125899906842624)) (Fin (6 / 1)) (Fin (100000000000000001097906362944045541740492309677311846336810682903157585404911491537163328978494688899061249669721172515611590283743140088328307009198146046031271664502933027185697489699588559043338384466165001178426897626212945177628091195786707458122783970171784415105291802893207873272974885715430223118336 / 1)) true true true ((Fin (0 / 1)) :: (Fin (0 / 1)) :: (Fin (0 / 1)) :: (Fin (0 / 1)) :: (Fin (27 / 4)) :: (Fin (45 / 1)) :: nil)) (10 / 1).
Proof. apply (A21_rio_fin _ (11 / 2)); [reflexivity | apply (A21_q_lo 11 2 10 1); [vm_compute; reflexivity | unfold fr, ctol, A21_lo, A21_c, A21_e; interval with (i_prec 80)]]. Qed.
Lemma r_A21_472 : rio_reads A21_c A21_e A21_lo A21_hi floor_volts ctol (Build_rio (Fin (4978200711263907 / 2251799813685248)) (Fin (5 / 1)) (Fin (3715469692580659 / 1125899906842624)) (Fin (6 / 1)) (Fin (12 / 1)) true true true ((Fin (1 / 2)) :: (Fin (0 / 1)) :: (Fin (0 / 1)) :: (Fin (0 / 1)) :: (Fin (27 / 4)) :: (Fin (45 / 1)) :: nil)) (10 / 1).
Proof. apply (A21_rio_fin _ (4978200711263907 / 2251799813685248)); [reflexivity | apply (A21_q_lo 4978200711263907 2251799813685248 10 1); [vm_compute; reflexivity | unfold fr, ctol, A21_lo, A21_c, A21_e; interval with (i_prec 80)]]. Qed.
Lemma r_A21_488 : rio_reads A21_c A21_e A21_lo A21_hi floor_volts ctol (Build_rio (Fin (4535 / 2048)) (Fin (0 / 1)) (Fin (0 / 1)) (Fin (0 / 1)) (Fin (2476979795053773 / 562949953421312)) false false false ((Fin (0 / 1)) :: (Fin (0 / 1)) :: (Fin (0 / 1)) :: (Fin (0 / 1)) :: (Fin (27 / 4)) :: (Fin (45 / 1)) :: nil)) (10 / 1).
Proof. apply (A21_rio_fin _ (4535 / 2048)); [reflexivity | apply (A21_q_lo 4535 2048 10 1); [vm_compute; reflexivity | unfold fr, ctol, A21_lo, A21_c, A21_e; interval with (i_prec 80)]]. Qed.
Lemma r_A21_504 : rio_reads A21_c A21_e A21_lo A21_hi floor_volts ctol (Build_rio (Fin (35 / 128)) (Fin (5361 / 1024)) (Fin (721 / 256)) (Fin (0 / 1)) (Fin (12719 / 1024)) true true true ((Fin (275 / 512)) :: (Fin (141 / 512)) :: (Fin (1419 / 512)) :: (Fin (18281 / 512)) :: (Fin (3145 / 512)) :: (Fin (18143 / 1024)) :: nil)) (80 / 1).
Proof. apply (A21_rio_fin _ (35 / 128)); [reflexivity | apply (A21_q_hi 35 128 80 1); [vm_compute; reflexivity | unfold fr, ctol, A21_hi, A21_c, A21_e; interval with (i_prec 80)]]. Qed.
Lemma r_A21_520 : rio_reads A21_c A21_e A21_lo A21_hi floor_volts ctol (Build_rio (Fin (75 / 128)) (Fin (1 / 1)) (Fin (2895 / 1024)) (Fin (2571 / 512)) (Fin (2723 / 256)) true true false ((Fin (955 / 512)) :: (Fin (101 / 64)) :: (Fin (15 / 16)) :: (Fin (19077 / 512)) :: (Fin (8689 / 1024)) :: (Fin (65963 / 1024)) :: nil)) (7168583803686605 / 140737488355328).
Proof. apply (A21_rio_fin _ (75 / 128)); [reflexivity | apply (A21_q_mid 75 128 7168583803686605 140737488355328); [vm_compute; reflexivity | unfold fr, close, ctol, A21_c, A21_e; interval with (i_prec 80)]]. Qed.
Lemma r_A21_536 : rio_reads A21_c A21_e A21_lo A21_hi floor_volts ctol (Build_rio (Fin (115 / 128)) (Fin (4703 / 1024)) (Fin (2889 / 1024)) (Fin (6375 / 1024)) (Fin (9879 / 1024)) false true true ((Fin (2321 / 1024)) :: (Fin (833 / 1024)) :: (Fin (2661 / 1024)) :: (Fin (191853 / 1024)) :: (Fin (2067 / 256)) :: (Fin (5885 / 128)) :: nil)) (8489320285903255 / 281474976710656).
Proof. apply (A21_rio_fin _ (115 / 128)); [reflexivity | apply (A21_q_mid 115 128 8489320285903255 281474976710656); [vm_compute; reflexivity | unfold fr, close, ctol, A21_c, A21_e; interval with (i_prec 80)]]. Qed.
Lemma r_A21_552 : rio_reads A21_c A21_e A21_lo A21_hi floor_volts ctol (Build_rio (Fin (155 / 128)) (Fin (4685 / 1024)) (Fin (0 / 1)) (Fin (1467 / 256)) (Fin (6041 / 512)) true false true ((Fin (681 / 1024)) :: (Fin (485 / 1024)) :: (Fin (1259 / 1024)) :: (Fin (46745 / 256)) :: (Fin (1997 / 512)) :: (Fin (66211 / 1024)) :: nil)) (5887647620626763 / 281474976710656).
Proof. apply (A21_rio_fin _ (155 / 128)); [reflexivity | apply (A21_q_mid 155 128 5887647620626763 281474976710656); [vm_compute; reflexivity | unfold fr, close, ctol, A21_c, A21_e; interval with (i_prec 80)]]. Qed.
Lemma r_A21_568 : rio_reads A21_c A21_e A21_lo A21_hi floor_volts ctol (Build_rio (Fin (195 / 128)) (Fin (100000000000000001097906362944045541740492309677311846336810682903157585404911491537163328978494688899061249669721172515611590283743140088328307009198146046031271664502933027185697489699588559043338384466165001178426897626212945177628091195786707458122783970171784415105291802893207873272974885715430223118336 / 1)) (Fin (1557 / 512)) (Fin (6117 / 1024)) (Fin (13079 / 1024)) true true false ((Fin (1505 / 1024)) :: (Fin (41 / 256)) :: (Fin (123 / 256)) :: (Fin (37749 / 256)) :: (Fin (373 / 64)) :: (Fin (42361 / 1024)) :: nil)) (2221652051739869 / 140737488355328).
Proof. apply (A21_rio_fin _ (195 / 128)); [reflexivity | apply (A21_q_mid 195 128 2221652051739869 140737488355328); [vm_compute; reflexivity | unfold fr, close, ctol, A21_c, A21_e; interval with (i_prec 80)]]. Qed.
Lemma r_A21_584 : rio_reads A21_c A21_e A21_lo A21_hi floor_volts ctol (Build_rio (Fin (235 / 128)) (Fin (2537 / 512)) (Fin (913 / 256)) (Fin (6 / 1)) (Fin (12 / 1)) true false false ((Fin (333 / 128)) :: (Fin (25 / 32)) :: (Fin (997 / 512)) :: (Fin (168659 / 1024)) :: (Fin (2081 / 512)) :: (Fin (85005 / 1024)) :: nil)) (3534754630906659 / 281474976710656).
Proof. apply (A21_rio_fin _ (235 / 128)); [reflexivity | apply (A21_q_mid 235 128 3534754630906659 281474976710656); [vm_compute; reflexivity | unfold fr, close, ctol, A21_c, A21_e; interval with (i_prec 80)]]. Qed.
Lemma r_A21_600 : rio_reads A21_c A21_e A21_lo A21_hi floor_volts ctol (Build_rio (Fin (275 / 128)) (Fin (2215 / 512)) (Fin (1651 / 512)) (Fin (6117 / 1024)) (Fin (781 / 64)) false false true ((Fin (1481 / 512)) :: (Fin (143 / 128)) :: (Fin (39 / 16)) :: (Fin (194925 / 1024)) :: (Fin (8093 / 1024)) :: (Fin (50323 / 512)) :: nil)) (5830376282655359 / 562949953421312).
Proof. apply (A21_rio_fin _ (275 / 128)); [reflexivity | apply (A21_q_mid 275 128 5830376282655359 562949953421312); [vm_compute; reflexivity | unfold fr, close, ctol, A21_c, A21_e; interval with (i_prec 80)]]. Qed.
Lemma r_A21_616 : rio_reads A21_c A21_e A21_lo A21_hi floor_volts ctol (Build_rio (Fin (315 / 128)) (Fin (1141 / 256)) (Fin (1707 / 512)) (Fin (7473 / 1024)) (Fin (12 / 1)) true true true ((Fin (731 / 256)) :: (Fin (179 / 256)) :: (Fin (1161 / 512)) :: (Fin (50907 / 256)) :: (Fin (4365 / 1024)) :: (Fin (18573 / 1024)) :: nil)) (10 / 1).
Proof. apply (A21_rio_fin _ (315 / 128)); [reflexivity | apply (A21_q_lo 315 128 10 1); [vm_compute; reflexivity | unfold fr, ctol, A21_lo, A21_c, A21_e; interval with (i_prec 80)]]. Qed.
Lemma r_A21_632 : rio_reads A21_c A21_e A21_lo A21_hi floor_volts ctol (Build_rio (Fin (355 / 128)) (Fin (4611 / 1024)) (Fin (3115 / 1024)) (Fin (6443 / 1024)) (Fin (187 / 16)) true true true ((Fin (539 / 1024)) :: (Fin (255 / 1024)) :: (Fin (1719 / 1024)) :: (Fin (167953 / 1024)) :: (Fin (1099 / 256)) :: (Fin (47773 / 1024)) :: nil)) (10 / 1).
Proof. apply (A21_rio_fin _ (355 / 128)); [reflexivity | apply (A21_q_lo 355 128 10 1); [vm_compute; reflexivity | unfold fr, ctol, A21_lo, A21_c, A21_e; interval with (i_prec 80)]]. Qed.
Lemma r_A21_648 : rio_reads A21_c A21_e A21_lo A21_hi floor_volts ctol (Build_rio (Fin (395 / 128)) (Fin ((-1) / 1)) (Fin (1435 / 512)) (Fin (5307 / 1024)) (Fin (10689 / 1024)) true true true ((Fin (199 / 128)) :: (Fin (987 / 512)) :: (Fin (1661 / 1024)) :: (Fin (138633 / 1024)) :: (Fin (5541 / 1024)) :: (Fin (29947 / 1024)) :: nil)) (10 / 1).
Proof. apply (A21_rio_fin _ (395 / 128)); [reflexivity | apply (A21_q_lo 395 128 10 1); [vm_compute; reflexivity | unfold fr, ctol, A21_lo, A21_c, A21_e; interval with (i_prec 80)]]. Qed.
Lemma r_A21_664 : rio_reads A21_c A21_e A21_lo A21_hi floor_volts ctol (Build_rio (Fin (435 / 128)) (Fin (5 / 1)) (Fin ((-1) / 1)) (Fin (6667 / 1024)) (Fin (6029 / 512)) true false true ((Fin (2737 / 1024)) :: (Fin (403 / 1024)) :: (Fin (499 / 1024)) :: (Fin (4811 / 1024)) :: (Fin (4137 / 512)) :: (Fin (57171 / 1024)) :: nil)) (10 / 1).
Proof. apply (A21_rio_fin _ (435 / 128)); [reflexivity | apply (A21_q_lo 435 128 10 1); [vm_compute; reflexivity | unfold fr, ctol, A21_lo, A21_c, A21_e; interval with (i_prec 80)]]. Qed.
Lemma r_A21_680 : rio_reads A21_c A21_e A21_lo A21_hi floor_volts ctol (Build_rio (Fin (475 / 128)) (Fin (5 / 1)) (Fin (5902958103587057 / 590295810358705651712)) (Fin (1 / 1)) (Fin (2701 / 256)) true true true ((Fin (1193 / 1024)) :: (Fin (111 / 128)) :: (Fin (285 / 256)) :: (Fin (4565 / 512)) :: (Fin (8571 / 1024)) :: (Fin (759 / 32)) :: nil)) (10 / 1).
Proof. apply (A21_rio_fin _ (475 / 128)); [reflexivity | apply (A21_q_lo 475 128 10 1); [vm_compute; reflexivity | unfold fr, ctol, A21_lo, A21_c, A21_e; interval with (i_prec 80)]]. Qed.
Lemma r_A21_696 : rio_reads A21_c A21_e A21_lo A21_hi floor_volts ctol (Build_rio (Fin (515 / 128)) (Fin (2713 / 512)) (Fin (1827 / 512)) (Fin (2053 / 256)) (Fin (11449 / 1024)) true true true ((Fin (347 / 1024)) :: (Fin (225 / 256)) :: (Fin (65 / 128)) :: (Fin (537 / 1024)) :: (Fin (9209 / 1024)) :: (Fin (24567 / 1024)) :: nil)) (10 / 1).
Proof. apply (A21_rio_fin _ (515 / 128)); [reflexivity | apply (A21_q_lo 515 128 10 1); [vm_compute; reflexivity | unfold fr, ctol, A21_lo, A21_c, A21_e; interval with (i_prec 80)]]. Qed.
Lemma r_A21_712 : rio_reads A21_c A21_e A21_lo A21_hi floor_volts ctol (Build_rio (Fin (555 / 128)) (Fin (2775 / 512)) (Fin (3135 / 1024)) (Fin (2821 / 512)) (Fin (0 / 1)) true false true ((Fin (175 / 64)) :: (Fin (821 / 1024)) :: (Fin (1241 / 1024)) :: (Fin (32271 / 1024)) :: (Fin (2029 / 256)) :: (Fin (62815 / 1024)) :: nil)) (10 / 1).
Proof. apply (A21_rio_fin _ (555 / 128)); [reflexivity | apply (A21_q_lo 555 128 10 1); [vm_compute; reflexivity | unfold fr, ctol, A21_lo, A21_c, A21_e; interval with (i_prec 80)]]. Qed.
Lemma r_A21_728 : rio_reads A21_c A21_e A21_lo A21_hi floor_volts ctol (Build_rio (Fin (595 / 128)) (Fin (17 / 4)) NInf (Fin (6 / 1)) (Fin (12 / 1)) true true true ((Fin (2157 / 1024)) :: (Fin (159 / 128)) :: (Fin (67 / 64)) :: (Fin (25701 / 512)) :: (Fin (4299 / 512)) :: (Fin (95587 / 1024)) :: nil)) (10 / 1).
Proof. apply (A21_rio_fin _ (595 / 128)); [reflexivity | apply (A21_q_lo 595 128 10 1); [vm_compute; reflexivity | unfold fr, ctol, A21_lo, A21_c, A21_e; interval with (i_prec 80)]]. Qed.
Lemma r_A21_744 : rio_reads A21_c A21_e A21_lo A21_hi floor_volts ctol (Build_rio (Fin (635 / 128)) (Fin (8063 / 1024)) (Fin (0 / 1)) (Fin (5771 / 1024)) (Fin (12 / 1)) true false true ((Fin (465 / 512)) :: (Fin (187 / 512)) :: (Fin (157 / 1024)) :: (Fin (81461 / 1024)) :: (Fin (1287 / 256)) :: (Fin (24847 / 256)) :: nil)) (10 / 1).
Proof. apply (A21_rio_fin _ (635 / 128)); [reflexivity | apply (A21_q_lo 635 128 10 1); [vm_compute; reflexivity | unfold fr, ctol, A21_lo, A21_c, A21_e; interval with (i_prec 80)]]. Qed.
Lemma r_A21_760 : rio_reads A21_c A21_e A21_lo A21_hi floor_volts ctol (Build_rio (Fin (7349815010420551 / 2251799813685248)) (Fin (2567 / 512)) (Fin (1 / 1)) (Fin (4959 / 1024)) (Fin (12 / 1)) true true true ((Fin (2475 / 1024)) :: (Fin (35 / 128)) :: (Fin (2417 / 1024)) :: (Fin (137811 / 1024)) :: (Fin (3923 / 512)) :: (Fin (42137 / 1024)) :: nil)) (10 / 1).
Proof. apply (A21_rio_fin _ (7349815010420551 / 2251799813685248)); [reflexivity | apply (A21_q_lo 7349815010420551 2251799813685248 10 1); [vm_compute; reflexivity | unfold fr, ctol, A21_lo, A21_c, A21_e; interval with (i_prec 80)]]. Qed.
Lemma r_A21_776 : rio_reads A21_c A21_e A21_lo A21_hi floor_volts ctol (Build_rio (Fin (2407154333176553 / 562949953421312)) (Fin (1 / 202402253307310618352495346718917307049556649764142118356901358027430339567995346891960383701437124495187077864316811911389808737385793476867013399940738509921517424276566361364466907742093216341239767678472745068562007483424692698618103355649159556340810056512358769552333414615230502532186327508646006263307707741093494784)) (Fin (345 / 32)) (Fin (6057 / 1024)) (Fin (12273 / 1024)) true false false ((Fin (1829 / 1024)) :: (Fin (545 / 1024)) :: (Fin (3041 / 1024)) :: (Fin (12549 / 512)) :: (Fin (809 / 256)) :: (Fin (4925 / 256)) :: nil)) (10 / 1).
Proof. apply (A21_rio_fin _ (2407154333176553 / 562949953421312)); [reflexivity | apply (A21_q_lo 2407154333176553 562949953421312 10 1); [vm_compute; reflexivity | unfold fr, ctol, A21_lo, A21_c, A21_e; interval with (i_prec 80)]]. Qed.
Lemma r_A21_792 : rio_reads A21_c A21_e A21_lo A21_hi floor_volts ctol (Build_rio (Fin (6672521419572005 / 2251799813685248)) PInf (Fin (3715469692580659 / 1125899906842624)) (Fin (1 / 1)) (Fin (12817 / 1024)) true true true ((Fin (835 / 512)) :: (Fin (447 / 512)) :: (Fin (497 / 512)) :: (Fin (66555 / 512)) :: (Fin (3919 / 1024)) :: (Fin (41041 / 512)) :: nil)) (10 / 1).
Proof. apply (A21_rio_fin _ (6672521419572005 / 2251799813685248)); [reflexivity | apply (A21_q_lo 6672521419572005 2251799813685248 10 1); [vm_compute; reflexivity | unfold fr, ctol, A21_lo, A21_c, A21_e; interval with (i_prec 80)]]. Qed.
Lemma r_A21_808 : rio_reads A21_c A21_e A21_lo A21_hi floor_volts ctol (Build_rio (Fin (1979040435880653 / 36893488147419103232)) (Fin (4755 / 1024)) (Fin (3715469692580659 / 1125899906842624)) (Fin (14261 / 1024)) (Fin (3149 / 256)) false false true ((Fin (1045 / 1024)) :: (Fin (53 / 512)) :: (Fin (1473 / 512)) :: (Fin (3673 / 256)) :: (Fin (853 / 256)) :: (Fin (651 / 128)) :: nil)) (80 / 1).
Proof. apply (A21_rio_fin _ (1979040435880653 / 36893488147419103232)); [reflexivity | apply (A21_q_hi 1979040435880653 36893488147419103232 80 1); [vm_compute; reflexivity | unfold fr, ctol, A21_hi, A21_c, A21_e; interval with (i_prec 80)]]. Qed.
Lemma r_A21_830 : rio_reads A21_c A21_e A21_lo A21_hi floor_volts ctol (Build_rio (Fin (5378822789417935 / 8796093022208)) (Fin (0 / 1)) (Fin (3035 / 1024)) (Fin (0 / 1)) PInf true true true ((Fin (661 / 512)) :: (Fin (59 / 512)) :: (Fin (547 / 1024)) :: (Fin (157633 / 1024)) :: (Fin (3671 / 1024)) :: (Fin (23667 / 512)) :: nil)) (10 / 1).
Proof. apply (A21_rio_fin _ (5378822789417935 / 8796093022208)); [reflexivity | apply (A21_q_lo 5378822789417935 8796093022208 10 1); [vm_compute; reflexivity | unfold fr, ctol, A21_lo, A21_c, A21_e; interval with (i_prec 80)]]. Qed.
Lemma d_A21_668r : rio_reads A21_c A21_e A21_lo A21_hi floor_volts ctol (Build_rio (Fin (2489100355631953 / 1125899906842624)) (Fin (5854679515581645 / 1125899906842624)) (Fin (7656119366529843 / 2251799813685248)) (Fin (6980579422424269 / 1125899906842624)) (Fin (27 / 2)) true true true ((Fin (0 / 1)) :: (Fin (0 / 1)) :: (Fin (0 / 1)) :: (Fin (0 / 1)) :: (Fin (27 / 4)) :: (Fin (45 / 1)) :: nil)) (10 / 1).
Proof. apply (A21_rio_fin _ (2489100355631953 / 1125899906842624)); [reflexivity | apply (A21_q_lo 2489100355631953 1125899906842624 10 1); [vm_compute; reflexivity | unfold fr, ctol, A21_lo, A21_c, A21_e; interval with (i_prec 80)]]. Qed.
Lemma d_A21_676r : rio_reads A21_c A21_e A21_lo A21_hi floor_volts ctol (Build_rio (Fin (2489100355631953 / 1125899906842624)) (Fin (19 / 4)) (Fin (3715469692580659 / 1125899906842624)) (Fin (6 / 1)) (Fin (12 / 1)) true true true ((Fin (0 / 1)) :: (Fin (0 / 1)) :: (Fin (0 / 1)) :: (Fin (0 / 1)) :: (Fin (27 / 4)) :: (Fin (45 / 1)) :: nil)) (10 / 1).
Proof. apply (A21_rio_fin _ (2489100355631953 / 1125899906842624)); [reflexivity | apply (A21_q_lo 2489100355631953 1125899906842624 10 1); [vm_compute; reflexivity | unfold fr, ctol, A21_lo, A21_c, A21_e; interval with (i_prec 80)]]. Qed.
Lemma d_A21_684r : rio_reads A21_c A21_e A21_lo A21_hi floor_volts ctol (Build_rio (Fin (7303775102731699 / 18014398509481984)) (Fin (5629499534213119 / 1125899906842624)) (Fin (3715469692580659 / 1125899906842624)) (Fin (6 / 1)) (Fin (12 / 1)) true true true ((Fin (0 / 1)) :: (Fin (0 / 1)) :: (Fin (0 / 1)) :: (Fin (0 / 1)) :: (Fin (27 / 4)) :: (Fin (45 / 1)) :: nil)) (80 / 1).
Proof. apply (A21_rio_fin _ (7303775102731699 / 18014398509481984)); [reflexivity | apply (A21_q_hi 7303775102731699 18014398509481984 80 1); [vm_compute; reflexivity | unfold fr, ctol, A21_hi, A21_c, A21_e; interval with (i_prec 80)]]. Qed.
Lemma d_A21_692r : rio_reads A21_c A21_e A21_lo A21_hi floor_volts ctol (Build_rio (Fin (2489100355631953 / 1125899906842624)) (Fin (5 / 1)) (Fin (3715469692580659 / 1125899906842624)) (Fin (6 / 1)) (Fin (21 / 2)) true true true ((Fin (0 / 1)) :: (Fin (0 / 1)) :: (Fin (0 / 1)) :: (Fin (0 / 1)) :: (Fin (27 / 4)) :: (Fin (45 / 1)) :: nil)) (10 / 1).
Proof. apply (A21_rio_fin _ (2489100355631953 / 1125899906842624)); [reflexivity | apply (A21_q_lo 2489100355631953 1125899906842624 10 1); [vm_compute; reflexivity | unfold fr, ctol, A21_lo, A21_c, A21_e; interval with (i_prec 80)]]. Qed.
Lemma d_A21_700r : rio_reads A21_c A21_e A21_lo A21_hi floor_volts ctol (Build_rio (Fin (4617692528446043 / 9007199254740992)) (Fin (5 / 1)) (Fin (3 / 1)) (Fin (6 / 1)) (Fin (12 / 1)) true true true ((Fin (0 / 1)) :: (Fin (0 / 1)) :: (Fin (0 / 1)) :: (Fin (0 / 1)) :: (Fin (27 / 4)) :: (Fin (45 / 1)) :: nil)) (60 / 1).
Proof. apply (A21_rio_fin _ (4617692528446043 / 9007199254740992)); [reflexivity | apply (A21_q_mid 4617692528446043 9007199254740992 60 1); [vm_compute; reflexivity | unfold fr, close, ctol, A21_c, A21_e; interval with (i_prec 80)]]. Qed.
Lemma d_A21_708r : rio_reads A21_c A21_e A21_lo A21_hi floor_volts ctol (Build_rio (Fin (2489100355631953 / 1125899906842624)) (Fin (5 / 1)) (Fin (3715469692580659 / 1125899906842624)) (Fin (5 / 1)) (Fin (12 / 1)) true true true ((Fin (0 / 1)) :: (Fin (0 / 1)) :: (Fin (0 / 1)) :: (Fin (0 / 1)) :: (Fin (27 / 4)) :: (Fin (45 / 1)) :: nil)) (10 / 1).
Proof. apply (A21_rio_fin _ (2489100355631953 / 1125899906842624)); [reflexivity | apply (A21_q_lo 2489100355631953 1125899906842624 10 1); [vm_compute; reflexivity | unfold fr, ctol, A21_lo, A21_c, A21_e; interval with (i_prec 80)]]. Qed.
Lemma d_A21_716r : rio_reads A21_c A21_e A21_lo A21_hi floor_volts ctol (Build_rio (Fin (622275088400423 / 281474976710656)) (Fin (5 / 1)) (Fin (3715469692580659 / 1125899906842624)) (Fin (6 / 1)) (Fin (12 / 1)) true true true ((Fin (2 / 1)) :: (Fin (0 / 1)) :: (Fin (0 / 1)) :: (Fin (0 / 1)) :: (Fin (27 / 4)) :: (Fin (45 / 1)) :: nil)) (1407374884960655 / 140737488355328).
Proof. apply (A21_rio_fin _ (622275088400423 / 281474976710656)); [reflexivity | apply (A21_q_mid 622275088400423 281474976710656 1407374884960655 140737488355328); [vm_compute; reflexivity | unfold fr, close, ctol, A21_c, A21_e; interval with (i_prec 80)]]. Qed.
Lemma d_A21_724r : rio_reads A21_c A21_e A21_lo A21_hi floor_volts ctol (Build_rio (Fin (8581410673532487 / 18014398509481984)) (Fin (337 / 64)) (Fin (3029 / 1024)) (Fin (5697 / 1024)) (Fin (12 / 1)) true true false ((Fin (719 / 512)) :: (Fin (2029 / 1024)) :: (Fin (579 / 1024)) :: (Fin (100061 / 512)) :: (Fin (3769 / 512)) :: (Fin (9879 / 256)) :: nil)) (4619935803890405 / 70368744177664).
Proof. apply (A21_rio_fin _ (8581410673532487 / 18014398509481984)); [reflexivity | apply (A21_q_mid 8581410673532487 18014398509481984 4619935803890405 70368744177664); [vm_compute; reflexivity | unfold fr, close, ctol, A21_c, A21_e; interval with (i_prec 80)]]. Qed.
Lemma d_A21_737u : close ctol (2648886480010267 / 2251799813685248) (volts_A21 (1525158231411369 / 70368744177664)).
Proof. apply (A21_q_volts_mid 1525158231411369 70368744177664 2648886480010267 2251799813685248); [vm_compute; reflexivity | unfold fr, close, ctol, A21_lo, A21_hi, A21_c, A21_e; interval with (i_prec 80)]. Qed.
Lemma d_A21_750u : close ctol (4963161075868901 / 9007199254740992) (volts_A21 (3864705040770761 / 70368744177664)).
Proof. apply (A21_q_volts_mid 3864705040770761 70368744177664 4963161075868901 9007199254740992); [vm_compute; reflexivity | unfold fr, close, ctol, A21_lo, A21_hi, A21_c, A21_e; interval with (i_prec 80)]. Qed.
Lemma d_A21_763u : close ctol (7457929155886769 / 18014398509481984) (volts_A21 (2743588131677841 / 35184372088832)).
Proof. apply (A21_q_volts_mid 2743588131677841 35184372088832 7457929155886769 18014398509481984); [vm_compute; reflexivity | unfold fr, close, ctol, A21_lo, A21_hi, A21_c, A21_e; interval with (i_prec 80)]. Qed.
Lemma d_A21_776u : close ctol (7303775102731699 / 18014398509481984) (volts_A21 (7583988962800821 / 70368744177664)).
Proof. apply (A21_q_volts_hi 7583988962800821 70368744177664 7303775102731699 18014398509481984); [vm_compute; reflexivity | unfold fr, close, ctol, A21_lo, A21_hi, A21_c, A21_e; interval with (i_prec 80)]. Qed.
Lemma d_A21_788r : rio_reads A21_c A21_e A21_lo A21_hi floor_volts ctol (Build_rio (Fin (620671594683113 / 1125899906842624)) (Fin (4225 / 1024)) (Fin (3239 / 1024)) (Fin (6 / 1)) (Fin (0 / 1)) true true true ((Fin (1463 / 1024)) :: (Fin (275 / 512)) :: (Fin (363 / 1024)) :: (Fin (168923 / 1024)) :: (Fin (6599 / 1024)) :: (Fin (28947 / 1024)) :: nil)) (1931297342421713 / 35184372088832).
Proof. apply (A21_rio_fin _ (620671594683113 / 1125899906842624)); [reflexivity | apply (A21_q_mid 620671594683113 1125899906842624 1931297342421713 35184372088832); [vm_compute; reflexivity | unfold fr, close, ctol, A21_c, A21_e; interval with (i_prec 80)]]. Qed.
Lemma d_A21_801u : close ctol (6155867433287929 / 9007199254740992) (volts_A21 (5935775677285255 / 140737488355328)).
Proof. apply (A21_q_volts_mid 5935775677285255 140737488355328 6155867433287929 9007199254740992); [vm_compute; reflexivity | unfold fr, close, ctol, A21_lo, A21_hi, A21_c, A21_e; interval with (i_prec 80)]. Qed.
Lemma d_A21_814u : close ctol (8726276699867661 / 18014398509481984) (volts_A21 (282880218092751 / 4398046511104)).
Proof. apply (A21_q_volts_mid 282880218092751 4398046511104 8726276699867661 18014398509481984); [vm_compute; reflexivity | unfold fr, close, ctol, A21_lo, A21_hi, A21_c, A21_e; interval with (i_prec 80)]. Qed.
Lemma d_A21_827u : close ctol (21503000705963 / 35184372088832) (volts_A21 (6807694445760437 / 140737488355328)).
Proof. apply (A21_q_volts_mid 6807694445760437 140737488355328 21503000705963 35184372088832); [vm_compute; reflexivity | unfold fr, close, ctol, A21_lo, A21_hi, A21_c, A21_e; interval with (i_prec 80)]. Qed.
Lemma d_A21_840u : close ctol (3039530192742029 / 4503599627370496) (volts_A21 (94185194789801 / 2199023255552)).
Proof. apply (A21_q_volts_mid 94185194789801 2199023255552 3039530192742029 4503599627370496); [vm_compute; reflexivity | unfold fr, close, ctol, A21_lo, A21_hi, A21_c, A21_e; interval with (i_prec 80)]. Qed.
Lemma d_A21_852r : rio_reads A21_c A21_e A21_lo A21_hi floor_volts ctol (Build_rio (Fin (6998823605945549 / 9007199254740992)) (Fin ((-12) / 1)) (Fin (825 / 256)) (Fin (5897 / 1024)) (Fin (1387 / 128)) false false false ((Fin (3059 / 1024)) :: (Fin (843 / 512)) :: (Fin (461 / 512)) :: (Fin (36573 / 256)) :: (Fin (6513 / 1024)) :: (Fin ((-3751) / 1024)) :: nil)) (2535802388709017 / 70368744177664).
Proof. apply (A21_rio_fin _ (6998823605945549 / 9007199254740992)); [reflexivity | apply (A21_q_mid 6998823605945549 9007199254740992 2535802388709017 70368744177664); [vm_compute; reflexivity | unfold fr, close, ctol, A21_c, A21_e; interval with (i_prec 80)]]. Qed.
Lemma d_A21_865u : close ctol (8422904826820625 / 18014398509481984) (volts_A21 (4726749736695291 / 70368744177664)).
Proof. apply (A21_q_volts_mid 4726749736695291 70368744177664 8422904826820625 18014398509481984); [vm_compute; reflexivity | unfold fr, close, ctol, A21_lo, A21_hi, A21_c, A21_e; interval with (i_prec 80)]. Qed.
Lemma d_A21_878u : close ctol (4193034641510665 / 9007199254740992) (volts_A21 (2376108344733009 / 35184372088832)).
Proof. apply (A21_q_volts_mid 2376108344733009 35184372088832 4193034641510665 9007199254740992); [vm_compute; reflexivity | unfold fr, close, ctol, A21_lo, A21_hi, A21_c, A21_e; interval with (i_prec 80)]. Qed.
Lemma d_A21_891u : close ctol (3551008077578303 / 4503599627370496) (volts_A21 (1245352249736201 / 35184372088832)).
Proof. apply (A21_q_volts_mid 1245352249736201 35184372088832 3551008077578303 4503599627370496); [vm_compute; reflexivity | unfold fr, close, ctol, A21_lo, A21_hi, A21_c, A21_e; interval with (i_prec 80)]. Qed.
Lemma d_A21_904u : close ctol (7303775102731699 / 18014398509481984) (volts_A21 (652100872193439 / 137438953472)).
Proof. apply (A21_q_volts_hi 652100872193439 137438953472 7303775102731699 18014398509481984); [vm_compute; reflexivity | unfold fr, close, ctol, A21_lo, A21_hi, A21_c, A21_e; interval with (i_prec 80)]. Qed.
Lemma d_A21_916r : rio_reads A21_c A21_e A21_lo A21_hi floor_volts ctol (Build_rio (Fin (2697214037425379 / 2251799813685248)) (Fin (5405 / 1024)) (Fin (1 / 202402253307310618352495346718917307049556649764142118356901358027430339567995346891960383701437124495187077864316811911389808737385793476867013399940738509921517424276566361364466907742093216341239767678472745068562007483424692698618103355649159556340810056512358769552333414615230502532186327508646006263307707741093494784)) (Fin (100000000000000001097906362944045541740492309677311846336810682903157585404911491537163328978494688899061249669721172515611590283743140088328307009198146046031271664502933027185697489699588559043338384466165001178426897626212945177628091195786707458122783970171784415105291802893207873272974885715430223118336 / 1)) (Fin (12 / 1)) true true true ((Fin (469 / 256)) :: (Fin (439 / 256)) :: (Fin (543 / 512)) :: (Fin (8627 / 512)) :: (Fin (4173 / 1024)) :: (Fin (1251 / 64)) :: nil)) (2983446590259485 / 140737488355328).
Proof. apply (A21_rio_fin _ (2697214037425379 / 2251799813685248)); [reflexivity | apply (A21_q_mid 2697214037425379 2251799813685248 2983446590259485 140737488355328); [vm_compute; reflexivity | unfold fr, close, ctol, A21_c, A21_e; interval with (i_prec 80)]]. Qed.
Lemma d_A21_929u : close ctol (6894729765097461 / 9007199254740992) (volts_A21 (2582818974277779 / 70368744177664)).
Proof. apply (A21_q_volts_mid 2582818974277779 70368744177664 6894729765097461 9007199254740992); [vm_compute; reflexivity | unfold fr, close, ctol, A21_lo, A21_hi, A21_c, A21_e; interval with (i_prec 80)]. Qed.
Lemma d_A21_942u : close ctol (2489100355631953 / 1125899906842624) (volts_A21 (3167332848583941 / 1125899906842624)).
Proof. apply (A21_q_volts_lo 3167332848583941 1125899906842624 2489100355631953 1125899906842624); [vm_compute; reflexivity | unfold fr, close, ctol, A21_lo, A21_hi, A21_c, A21_e; interval with (i_prec 80)]. Qed.
Lemma d_A21_955u : close ctol (4299364042871111 / 9007199254740992) (volts_A21 (2304265651384399 / 35184372088832)).
Proof. apply (A21_q_volts_mid 2304265651384399 35184372088832 4299364042871111 9007199254740992); [vm_compute; reflexivity | unfold fr, close, ctol, A21_lo, A21_hi, A21_c, A21_e; interval with (i_prec 80)]. Qed.
Lemma d_A21_968u : close ctol (7303775102731699 / 18014398509481984) (volts_A21 (8284094635989193 / 35184372088832)).
Proof. apply (A21_q_volts_hi 8284094635989193 35184372088832 7303775102731699 18014398509481984); [vm_compute; reflexivity | unfold fr, close, ctol, A21_lo, A21_hi, A21_c, A21_e; interval with (i_prec 80)]. Qed.
Lemma d_A21_980r : rio_reads A21_c A21_e A21_lo A21_hi floor_volts ctol (Build_rio (Fin (6790890919141321 / 9007199254740992)) (Fin (5613 / 1024)) (Fin (1011 / 512)) (Fin (3065 / 1024)) (Fin (12 / 1)) true true true ((Fin (825 / 512)) :: (Fin (85 / 1024)) :: (Fin (1237 / 512)) :: (Fin (16467 / 512)) :: (Fin (4301 / 1024)) :: (Fin (1011 / 16)) :: nil)) (1315660750239987 / 35184372088832).
Proof. apply (A21_rio_fin _ (6790890919141321 / 9007199254740992)); [reflexivity | apply (A21_q_mid 6790890919141321 9007199254740992 1315660750239987 35184372088832); [vm_compute; reflexivity | unfold fr, close, ctol, A21_c, A21_e; interval with (i_prec 80)]]. Qed.
Lemma d_A21_993u : close ctol (7303775102731699 / 18014398509481984) (volts_A21 (7170606840554563 / 35184372088832)).
Proof. apply (A21_q_volts_hi 7170606840554563 35184372088832 7303775102731699 18014398509481984); [vm_compute; reflexivity | unfold fr, close, ctol, A21_lo, A21_hi, A21_c, A21_e; interval with (i_prec 80)]. Qed.
Lemma d_A21_1006u : close ctol (7303775102731699 / 18014398509481984) (volts_A21 (1803815734301897 / 8796093022208)).
Proof. apply (A21_q_volts_hi 1803815734301897 8796093022208 7303775102731699 18014398509481984); [vm_compute; reflexivity | unfold fr, close, ctol, A21_lo, A21_hi, A21_c, A21_e; interval with (i_prec 80)]. Qed.
Lemma d_A21_1019u : close ctol (4259752913576243 / 9007199254740992) (volts_A21 (2330562932581585 / 35184372088832)).
Proof. apply (A21_q_volts_mid 2330562932581585 35184372088832 4259752913576243 9007199254740992); [vm_compute; reflexivity | unfold fr, close, ctol, A21_lo, A21_hi, A21_c, A21_e; interval with (i_prec 80)]. Qed.
Lemma d_A21_1032u : close ctol (5646874802343993 / 9007199254740992) (volts_A21 (1649564557349963 / 35184372088832)).
Proof. apply (A21_q_volts_mid 1649564557349963 35184372088832 5646874802343993 9007199254740992); [vm_compute; reflexivity | unfold fr, close, ctol, A21_lo, A21_hi, A21_c, A21_e; interval with (i_prec 80)]. Qed.
Lemma d_A21_1044r : rio_reads A21_c A21_e A21_lo A21_hi floor_volts ctol (Build_rio (Fin (7303775102731699 / 18014398509481984)) (Fin (2327 / 512)) (Fin (1373 / 512)) (Fin (6 / 1)) (Fin (5081 / 512)) true true true ((Fin (2161 / 1024)) :: (Fin (261 / 512)) :: (Fin (147 / 512)) :: (Fin (48485 / 1024)) :: (Fin (1951 / 256)) :: (Fin (69785 / 1024)) :: nil)) (80 / 1).
Proof. apply (A21_rio_fin _ (7303775102731699 / 18014398509481984)); [reflexivity | apply (A21_q_hi 7303775102731699 18014398509481984 80 1); [vm_compute; reflexivity | unfold fr, ctol, A21_hi, A21_c, A21_e; interval with (i_prec 80)]]. Qed.
Lemma d_A21_1057u : close ctol (208979082411931 / 281474976710656) (volts_A21 (1340683274784627 / 35184372088832)).
Proof. apply (A21_q_volts_mid 1340683274784627 35184372088832 208979082411931 281474976710656); [vm_compute; reflexivity | unfold fr, close, ctol, A21_lo, A21_hi, A21_c, A21_e; interval with (i_prec 80)]. Qed.
Lemma d_A21_1070u : close ctol (8609451919986177 / 18014398509481984) (volts_A21 (2300747322350519 / 35184372088832)).
Proof. apply (A21_q_volts_mid 2300747322350519 35184372088832 8609451919986177 18014398509481984); [vm_compute; reflexivity | unfold fr, close, ctol, A21_lo, A21_hi, A21_c, A21_e; interval with (i_prec 80)]. Qed.
Lemma d_A21_1083u : close ctol (4788588007666087 / 2251799813685248) (volts_A21 (5903997846979249 / 562949953421312)).
Proof. apply (A21_q_volts_mid 5903997846979249 562949953421312 4788588007666087 2251799813685248); [vm_compute; reflexivity | unfold fr, close, ctol, A21_lo, A21_hi, A21_c, A21_e; interval with (i_prec 80)]. Qed.
Lemma d_A21_1096u : close ctol (3144253473878649 / 2251799813685248) (volts_A21 (1236044340564945 / 70368744177664)).
Proof. apply (A21_q_volts_mid 1236044340564945 70368744177664 3144253473878649 2251799813685248); [vm_compute; reflexivity | unfold fr, close, ctol, A21_lo, A21_hi, A21_c, A21_e; interval with (i_prec 80)]. Qed.
Lemma d_A21_1108r : rio_reads A21_c A21_e A21_lo A21_hi floor_volts ctol (Build_rio (Fin (1077372143406549 / 2251799813685248)) (Fin (0 / 1)) (Fin (5107 / 512)) (Fin (6 / 1)) (Fin (12 / 1)) true true false ((Fin (33 / 32)) :: (Fin (509 / 256)) :: (Fin (1685 / 1024)) :: (Fin (62967 / 1024)) :: (Fin (8427 / 1024)) :: (Fin (15457 / 512)) :: nil)) (2297630408789311 / 35184372088832).
Proof. apply (A21_rio_fin _ (1077372143406549 / 2251799813685248)); [reflexivity | apply (A21_q_mid 1077372143406549 2251799813685248 2297630408789311 35184372088832); [vm_compute; reflexivity | unfold fr, close, ctol, A21_c, A21_e; interval with (i_prec 80)]]. Qed.
Lemma d_A21_1121u : close ctol (1926450380102041 / 4503599627370496) (volts_A21 (5271573236816921 / 70368744177664)).
Proof. apply (A21_q_volts_mid 5271573236816921 70368744177664 1926450380102041 4503599627370496); [vm_compute; reflexivity | unfold fr, close, ctol, A21_lo, A21_hi, A21_c, A21_e; interval with (i_prec 80)]. Qed.
Lemma d_A21_1134u : close ctol (8125045337580195 / 18014398509481984) (volts_A21 (4940062777018487 / 70368744177664)).
Proof. apply (A21_q_volts_mid 4940062777018487 70368744177664 8125045337580195 18014398509481984); [vm_compute; reflexivity | unfold fr, close, ctol, A21_lo, A21_hi, A21_c, A21_e; interval with (i_prec 80)]. Qed.
Lemma d_A21_1147u : close ctol (7303775102731699 / 18014398509481984) (volts_A21 (7499693198476163 / 35184372088832)).
Proof. apply (A21_q_volts_hi 7499693198476163 35184372088832 7303775102731699 18014398509481984); [vm_compute; reflexivity | unfold fr, close, ctol, A21_lo, A21_hi, A21_c, A21_e; interval with (i_prec 80)]. Qed.
Lemma d_A21_1160u : close ctol (2489100355631953 / 1125899906842624) (volts_A21 ((-1726624890811111) / 1125899906842624)).
Proof. apply (A21_q_volts_lo (-1726624890811111) 1125899906842624 2489100355631953 1125899906842624); [vm_compute; reflexivity | unfold fr, close, ctol, A21_lo, A21_hi, A21_c, A21_e; interval with (i_prec 80)]. Qed.
Lemma d_A21_1172r : rio_reads A21_c A21_e A21_lo A21_hi floor_volts ctol (Build_rio (Fin (557804893417161 / 562949953421312)) (Fin (5 / 1)) (Fin (5135 / 512)) (Fin (6 / 1)) (Fin (12 / 1)) true true true ((Fin (151 / 64)) :: (Fin (437 / 512)) :: (Fin (523 / 256)) :: (Fin (13793 / 256)) :: (Fin (7461 / 1024)) :: (Fin (47815 / 512)) :: nil)) (7529006704226357 / 281474976710656).
Proof. apply (A21_rio_fin _ (557804893417161 / 562949953421312)); [reflexivity | apply (A21_q_mid 557804893417161 562949953421312 7529006704226357 281474976710656); [vm_compute; reflexivity | unfold fr, close, ctol, A21_c, A21_e; interval with (i_prec 80)]]. Qed.
Lemma d_A21_1185u : close ctol (6959815559425183 / 4503599627370496) (volts_A21 (8732096167140975 / 562949953421312)).
Proof. apply (A21_q_volts_mid 8732096167140975 562949953421312 6959815559425183 4503599627370496); [vm_compute; reflexivity | unfold fr, close, ctol, A21_lo, A21_hi, A21_c, A21_e; interval with (i_prec 80)]. Qed.
Lemma d_A21_1198u : close ctol (2489100355631953 / 1125899906842624) (volts_A21 (4 / 1)).
Proof. apply (A21_q_volts_lo 4 1 2489100355631953 1125899906842624); [vm_compute; reflexivity | unfold fr, close, ctol, A21_lo, A21_hi, A21_c, A21_e; interval with (i_prec 80)]. Qed.
Lemma d_A21_1211u : close ctol (7801414686236493 / 9007199254740992) (volts_A21 (8879153479997525 / 281474976710656)).
Proof. apply (A21_q_volts_mid 8879153479997525 281474976710656 7801414686236493 9007199254740992); [vm_compute; reflexivity | unfold fr, close, ctol, A21_lo, A21_hi, A21_c, A21_e; interval with (i_prec 80)]. Qed.
Lemma d_A21_1224u : close ctol (3447160094786309 / 4503599627370496) (volts_A21 (5166014184164099 / 140737488355328)).
Proof. apply (A21_q_volts_mid 5166014184164099 140737488355328 3447160094786309 4503599627370496); [vm_compute; reflexivity | unfold fr, close, ctol, A21_lo, A21_hi, A21_c, A21_e; interval with (i_prec 80)]. Qed.
Lemma d_A21_1236r : rio_reads A21_c A21_e A21_lo A21_hi floor_volts ctol (Build_rio (Fin (2489100355631953 / 1125899906842624)) (Fin (5 / 1)) (Fin (1 / 1)) (Fin (1639 / 256)) (Fin (6111 / 512)) true true true ((Fin (125 / 256)) :: (Fin (315 / 1024)) :: (Fin (1999 / 1024)) :: (Fin (12999 / 1024)) :: (Fin (3259 / 512)) :: (Fin (46503 / 512)) :: nil)) (10 / 1).
Proof. apply (A21_rio_fin _ (2489100355631953 / 1125899906842624)); [reflexivity | apply (A21_q_lo 2489100355631953 1125899906842624 10 1); [vm_compute; reflexivity | unfold fr, ctol, A21_lo, A21_c, A21_e; interval with (i_prec 80)]]. Qed.
Lemma d_A21_1249u : close ctol (2892695256827365 / 4503599627370496) (volts_A21 (3202552447216895 / 70368744177664)).
Proof. apply (A21_q_volts_mid 3202552447216895 70368744177664 2892695256827365 4503599627370496); [vm_compute; reflexivity | unfold fr, close, ctol, A21_lo, A21_hi, A21_c, A21_e; interval with (i_prec 80)]. Qed.
Lemma d_A21_1262u : close ctol (7449629440844057 / 9007199254740992) (volts_A21 (2348978324119895 / 70368744177664)).
Proof. apply (A21_q_volts_mid 2348978324119895 70368744177664 7449629440844057 9007199254740992); [vm_compute; reflexivity | unfold fr, close, ctol, A21_lo, A21_hi, A21_c, A21_e; interval with (i_prec 80)]. Qed.
Lemma d_A21_1275u : close ctol (7303775102731699 / 18014398509481984) (volts_A21 (753673425734333 / 4398046511104)).
Proof. apply (A21_q_volts_hi 753673425734333 4398046511104 7303775102731699 18014398509481984); [vm_compute; reflexivity | unfold fr, close, ctol, A21_lo, A21_hi, A21_c, A21_e; interval with (i_prec 80)]. Qed.
Lemma d_A21_1288u : close ctol (2489100355631953 / 1125899906842624) (volts_A21 (4196073677161445 / 562949953421312)).
Proof. apply (A21_q_volts_lo 4196073677161445 562949953421312 2489100355631953 1125899906842624); [vm_compute; reflexivity | unfold fr, close, ctol, A21_lo, A21_hi, A21_c, A21_e; interval with (i_prec 80)]. Qed.
Lemma d_A21_1300r : rio_reads A21_c A21_e A21_lo A21_hi floor_volts ctol (Build_rio (Fin (5489736846227315 / 9007199254740992)) (Fin (2751 / 512)) (Fin (3715469692580659 / 1125899906842624)) (Fin (4953 / 1024)) (Fin (12343 / 1024)) true true true ((Fin (2351 / 1024)) :: (Fin (167 / 1024)) :: (Fin (721 / 256)) :: (Fin (134613 / 1024)) :: (Fin (9067 / 1024)) :: (Fin (31 / 32)) :: nil)) (1707638539959661 / 35184372088832).
Proof. apply (A21_rio_fin _ (5489736846227315 / 9007199254740992)); [reflexivity | apply (A21_q_mid 5489736846227315 9007199254740992 1707638539959661 35184372088832); [vm_compute; reflexivity | unfold fr, close, ctol, A21_c, A21_e; interval with (i_prec 80)]]. Qed.
Lemma d_A21_1313u : close ctol (2190729497218097 / 4503599627370496) (volts_A21 (4502891951355121 / 70368744177664)).
Proof. apply (A21_q_volts_mid 4502891951355121 70368744177664 2190729497218097 4503599627370496); [vm_compute; reflexivity | unfold fr, close, ctol, A21_lo, A21_hi, A21_c, A21_e; interval with (i_prec 80)]. Qed.
Lemma d_A21_1326u : close ctol (2489100355631953 / 1125899906842624) (volts_A21 (1255621424205853 / 1125899906842624)).
Proof. apply (A21_q_volts_lo 1255621424205853 1125899906842624 2489100355631953 1125899906842624); [vm_compute; reflexivity | unfold fr, close, ctol, A21_lo, A21_hi, A21_c, A21_e; interval with (i_prec 80)]. Qed.
Lemma r_A41_855 : rio_reads A41_c A41_e A41_lo A41_hi floor_volts ctol (Build_rio (Fin (20475 / 4096)) (Fin (5854679515581645 / 1125899906842624)) (Fin (7656119366529843 / 2251799813685248)) (Fin (6980579422424269 / 1125899906842624)) (Fin (27 / 2)) true true true ((Fin (0 / 1)) :: (Fin (0 / 1)) :: (Fin (0 / 1)) :: (Fin (0 / 1)) :: (Fin (27 / 4)) :: (Fin (45 / 1)) :: nil)) (9 / 2).
Proof. apply (A41_rio_fin _ (20475 / 4096)); [reflexivity | apply (A41_q_lo 20475 4096 9 2); [vm_compute; reflexivity | unfold fr, ctol, A41_lo, A41_c, A41_e; interval with (i_prec 80)]]. Qed.
Lemma r_A41_888 : rio_reads A41_c A41_e A41_lo A41_hi floor_volts ctol (Build_rio (Fin (1622761077800467 / 4503599627370496)) (Fin (5 / 1)) (Fin (8106479329266893 / 2251799813685248)) (Fin (6 / 1)) (Fin (12 / 1)) true true true ((Fin (0 / 1)) :: (Fin (0 / 1)) :: (Fin (0 / 1)) :: (Fin (0 / 1)) :: (Fin (27 / 4)) :: (Fin (45 / 1)) :: nil)) (35 / 1).
Proof. apply (A41_rio_fin _ (1622761077800467 / 4503599627370496)); [reflexivity | apply (A41_q_hi 1622761077800467 4503599627370496 35 1); [vm_compute; reflexivity | unfold fr, ctol, A41_hi, A41_c, A41_e; interval with (i_prec 80)]]. Qed.
Lemma r_A41_904 : rio_reads A41_c A41_e A41_lo A41_hi floor_volts ctol (Build_rio (Fin (185 / 512)) (Fin (5 / 1)) (Fin (3715469692580659 / 1125899906842624)) (Fin (6 / 1)) (Fin (12 / 1)) true true true (PInf :: (Fin (0 / 1)) :: (Fin (0 / 1)) :: (Fin (0 / 1)) :: (Fin (27 / 4)) :: (Fin (45 / 1)) :: nil)) (614047739069811 / 17592186044416).
Proof. apply (A41_rio_fin _ (185 / 512)); [reflexivity | apply (A41_q_mid 185 512 614047739069811 17592186044416); [vm_compute; reflexivity | unfold fr, close, ctol, A41_c, A41_e; interval with (i_prec 80)]]. Qed.
Lemma r_A41_920 : rio_reads A41_c A41_e A41_lo A41_hi floor_volts ctol (Build_rio (Fin (15 / 128)) (Fin (5205 / 1024)) (Fin (2779 / 1024)) (Fin (6 / 1)) (Fin (8477 / 1024)) true false false ((Fin (2605 / 1024)) :: (Fin (333 / 512)) :: (Fin (325 / 256)) :: (Fin (66045 / 512)) :: (Fin (7705 / 1024)) :: (Fin (18361 / 1024)) :: nil)) (35 / 1).
Proof. apply (A41_rio_fin _ (15 / 128)); [reflexivity | apply (A41_q_hi 15 128 35 1); [vm_compute; reflexivity | unfold fr, ctol, A41_hi, A41_c, A41_e; interval with (i_prec 80)]]. Qed.
Lemma r_A41_936 : rio_reads A41_c A41_e A41_lo A41_hi floor_volts ctol (Build_rio (Fin (55 / 128)) (Fin (2699 / 512)) (Fin (3715469692580659 / 1125899906842624)) (Fin (6347 / 1024)) (Fin (5591 / 512)) true true true ((Fin (1549 / 1024)) :: (Fin (103 / 128)) :: (Fin (43 / 32)) :: (Fin (130813 / 1024)) :: (Fin (6555 / 1024)) :: (Fin ((-1339) / 512)) :: nil)) (2071741626964405 / 70368744177664).
Proof. apply (A41_rio_fin _ (55 / 128)); [reflexivity | apply (A41_q_mid 55 128 2071741626964405 70368744177664); [vm_compute; reflexivity | unfold fr, close, ctol, A41_c, A41_e; interval with (i_prec 80)]]. Qed.
Lemma r_A41_952 : rio_reads A41_c A41_e A41_lo A41_hi floor_volts ctol (Build_rio (Fin (95 / 128)) (Fin (100000000000000001097906362944045541740492309677311846336810682903157585404911491537163328978494688899061249669721172515611590283743140088328307009198146046031271664502933027185697489699588559043338384466165001178426897626212945177628091195786707458122783970171784415105291802893207873272974885715430223118336 / 1)) (Fin (1435 / 512)) (Fin (6 / 1)) (Fin ((-12) / 1)) false true true ((Fin (841 / 512)) :: (Fin (237 / 256)) :: (Fin (895 / 1024)) :: (Fin (133115 / 1024)) :: (Fin (667 / 128)) :: (Fin (84865 / 1024)) :: nil)) (1211022546007121 / 70368744177664).
Proof. apply (A41_rio_fin _ (95 / 128)); [reflexivity | apply (A41_q_mid 95 128 1211022546007121 70368744177664); [vm_compute; reflexivity | unfold fr, close, ctol, A41_c, A41_e; interval with (i_prec 80)]]. Qed.
Lemma r_A41_968 : rio_reads A41_c A41_e A41_lo A41_hi floor_volts ctol (Build_rio (Fin (135 / 128)) (Fin (12087 / 1024)) (Fin (1487 / 512)) (Fin (3583 / 256)) (Fin (10827 / 1024)) true true true ((Fin (199 / 128)) :: (Fin (277 / 256)) :: (Fin (259 / 256)) :: (Fin (47141 / 512)) :: (Fin (8137 / 1024)) :: (Fin (18203 / 256)) :: nil)) (3429951630437751 / 281474976710656).
Proof. apply (A41_rio_fin _ (135 / 128)); [reflexivity | apply (A41_q_mid 135 128 3429951630437751 281474976710656); [vm_compute; reflexivity | unfold fr, close, ctol, A41_c, A41_e; interval with (i_prec 80)]]. Qed.
Lemma r_A41_984 : rio_reads A41_c A41_e A41_lo A41_hi floor_volts ctol (Build_rio (Fin (175 / 128)) (Fin (1091 / 256)) (Fin (3715469692580659 / 1125899906842624)) (Fin (2729 / 512)) (Fin (3717 / 512)) true true true ((Fin (787 / 1024)) :: (Fin (1393 / 1024)) :: (Fin (445 / 512)) :: (Fin (87651 / 1024)) :: (Fin (829 / 256)) :: (Fin (65235 / 1024)) :: nil)) (1329037744706949 / 140737488355328).
Proof. apply (A41_rio_fin _ (175 / 128)); [reflexivity | apply (A41_q_mid 175 128 1329037744706949 140737488355328); [vm_compute; reflexivity | unfold fr, close, ctol, A41_c, A41_e; interval with (i_prec 80)]]. Qed.
Lemma r_A41_1000 : rio_reads A41_c A41_e A41_lo A41_hi floor_volts ctol (Build_rio (Fin (215 / 128)) (Fin (6431 / 1024)) (Fin (2947 / 1024)) (Fin (1365 / 256)) (Fin (12857 / 1024)) true true true ((Fin (917 / 512)) :: (Fin (103 / 256)) :: (Fin (319 / 128)) :: (Fin (925 / 32)) :: (Fin (1071 / 256)) :: (Fin (101147 / 1024)) :: nil)) (8685610265125037 / 1125899906842624).
Proof. apply (A41_rio_fin _ (215 / 128)); [reflexivity | apply (A41_q_mid 215 128 8685610265125037 1125899906842624); [vm_compute; reflexivity | unfold fr, close, ctol, A41_c, A41_e; interval with (i_prec 80)]]. Qed.
Lemma r_A41_1016 : rio_reads A41_c A41_e A41_lo A41_hi floor_volts ctol (Build_rio (Fin (255 / 128)) (Fin (5902958103587057 / 590295810358705651712)) (Fin (3275 / 1024)) (Fin (0 / 1)) (Fin (10131 / 1024)) false false true ((Fin (1095 / 512)) :: (Fin (1901 / 1024)) :: (Fin (825 / 1024)) :: (Fin (17605 / 256)) :: (Fin (4727 / 1024)) :: (Fin (52419 / 1024)) :: nil)) (1836296542611191 / 281474976710656).
Proof. apply (A41_rio_fin _ (255 / 128)); [reflexivity | apply (A41_q_mid 255 128 1836296542611191 281474976710656); [vm_compute; reflexivity | unfold fr, close, ctol, A41_c, A41_e; interval with (i_prec 80)]]. Qed.
Lemma r_A41_1032 : rio_reads A41_c A41_e A41_lo A41_hi floor_volts ctol (Build_rio (Fin (295 / 128)) (Fin (4201 / 1024)) (Fin (5902958103587057 / 590295810358705651712)) (Fin (13403 / 1024)) (Fin (11847 / 1024)) true true true ((Fin (283 / 1024)) :: (Fin (485 / 1024)) :: (Fin (1377 / 1024)) :: (Fin (187379 / 1024)) :: (Fin (3373 / 512)) :: (Fin ((-6765) / 512)) :: nil)) (3182766197168077 / 562949953421312).
Proof. apply (A41_rio_fin _ (295 / 128)); [reflexivity | apply (A41_q_mid 295 128 3182766197168077 562949953421312); [vm_compute; reflexivity | unfold fr, close, ctol, A41_c, A41_e; interval with (i_prec 80)]]. Qed.
Lemma r_A41_1048 : rio_reads A41_c A41_e A41_lo A41_hi floor_volts ctol (Build_rio (Fin (335 / 128)) (Fin (589 / 128)) (Fin (3027 / 1024)) (Fin (6677 / 1024)) (Fin (12 / 1)) true true true ((Fin (1415 / 512)) :: (Fin (467 / 1024)) :: (Fin (2441 / 1024)) :: (Fin (120961 / 1024)) :: (Fin (423 / 128)) :: (Fin (46241 / 512)) :: nil)) (2809013762661883 / 562949953421312).
Proof. apply (A41_rio_fin _ (335 / 128)); [reflexivity | apply (A41_q_mid 335 128 2809013762661883 562949953421312); [vm_compute; reflexivity | unfold fr, close, ctol, A41_c, A41_e; interval with (i_prec 80)]]. Qed.
Lemma r_A41_1064 : rio_reads A41_c A41_e A41_lo A41_hi floor_volts ctol (Build_rio (Fin (755 / 256)) (Fin (2571 / 512)) (Fin (3649 / 1024)) (Fin (5975 / 1024)) (Fin (1 / 202402253307310618352495346718917307049556649764142118356901358027430339567995346891960383701437124495187077864316811911389808737385793476867013399940738509921517424276566361364466907742093216341239767678472745068562007483424692698618103355649159556340810056512358769552333414615230502532186327508646006263307707741093494784)) false true false ((Fin (541 / 256)) :: (Fin (1577 / 1024)) :: (Fin (689 / 1024)) :: (Fin (7705 / 64)) :: (Fin (6253 / 1024)) :: (Fin (43803 / 1024)) :: nil)) (9 / 2).
Proof. apply (A41_rio_fin _ (755 / 256)); [reflexivity | apply (A41_q_lo 755 256 9 2); [vm_compute; reflexivity | unfold fr, ctol, A41_lo, A41_c, A41_e; interval with (i_prec 80)]]. Qed.
Lemma r_A41_1080 : rio_reads A41_c A41_e A41_lo A41_hi floor_volts ctol (Build_rio (Fin (835 / 256)) (Fin (4971 / 1024)) (Fin (2865 / 1024)) (Fin (6 / 1)) PInf false false true ((Fin (1119 / 1024)) :: (Fin (1 / 4)) :: (Fin (397 / 256)) :: (Fin (31461 / 512)) :: (Fin (1735 / 512)) :: (Fin (7701 / 1024)) :: nil)) (9 / 2).
Proof. apply (A41_rio_fin _ (835 / 256)); [reflexivity | apply (A41_q_lo 835 256 9 2); [vm_compute; reflexivity | unfold fr, ctol, A41_lo, A41_c, A41_e; interval with (i_prec 80)]]. Qed.
Lemma r_A41_1096 : rio_reads A41_c A41_e A41_lo A41_hi floor_volts ctol (Build_rio (Fin (915 / 256)) (Fin (5 / 1)) (Fin (1497 / 512)) (Fin (669 / 512)) (Fin (5481 / 512)) true true true ((Fin (17 / 128)) :: (Fin (205 / 128)) :: (Fin (2713 / 1024)) :: (Fin (177087 / 1024)) :: (Fin (3299 / 512)) :: (Fin (43317 / 1024)) :: nil)) (9 / 2).
Proof. apply (A41_rio_fin _ (915 / 256)); [reflexivity | apply (A41_q_lo 915 256 9 2); [vm_compute; reflexivity | unfold fr, ctol, A41_lo, A41_c, A41_e; interval with (i_prec 80)]]. Qed.
Lemma r_A41_1112 : rio_reads A41_c A41_e A41_lo A41_hi floor_volts ctol (Build_rio (Fin (995 / 256)) (Fin (10903 / 1024)) (Fin (3715469692580659 / 1125899906842624)) (Fin (6093 / 1024)) (Fin (663 / 512)) true false true ((Fin (235 / 512)) :: (Fin (485 / 256)) :: (Fin (605 / 1024)) :: (Fin (62955 / 1024)) :: (Fin (1459 / 256)) :: (Fin ((-10475) / 1024)) :: nil)) (9 / 2).
Proof. apply (A41_rio_fin _ (995 / 256)); [reflexivity | apply (A41_q_lo 995 256 9 2); [vm_compute; reflexivity | unfold fr, ctol, A41_lo, A41_c, A41_e; interval with (i_prec 80)]]. Qed.
Lemma r_A41_1128 : rio_reads A41_c A41_e A41_lo A41_hi floor_volts ctol (Build_rio (Fin (1075 / 256)) (Fin (4587 / 1024)) (Fin (925 / 256)) (Fin (2633 / 512)) (Fin (13607 / 1024)) true false true ((Fin (485 / 256)) :: (Fin (651 / 1024)) :: (Fin (479 / 1024)) :: (Fin (1181 / 512)) :: (Fin (5787 / 1024)) :: (Fin (79879 / 1024)) :: nil)) (9 / 2).
Proof. apply (A41_rio_fin _ (1075 / 256)); [reflexivity | apply (A41_q_lo 1075 256 9 2); [vm_compute; reflexivity | unfold fr, ctol, A41_lo, A41_c, A41_e; interval with (i_prec 80)]]. Qed.
Lemma r_A41_1144 : rio_reads A41_c A41_e A41_lo A41_hi floor_volts ctol (Build_rio (Fin (1155 / 256)) (Fin (335 / 64)) (Fin (3715469692580659 / 1125899906842624)) (Fin (5435 / 1024)) (Fin (10561 / 1024)) true true true ((Fin (929 / 1024)) :: (Fin (341 / 256)) :: (Fin (479 / 256)) :: (Fin (6173 / 128)) :: (Fin (3325 / 1024)) :: (Fin (17659 / 512)) :: nil)) (9 / 2).
Proof. apply (A41_rio_fin _ (1155 / 256)); [reflexivity | apply (A41_q_lo 1155 256 9 2); [vm_compute; reflexivity | unfold fr, ctol, A41_lo, A41_c, A41_e; interval with (i_prec 80)]]. Qed.
Lemma r_A41_1160 : rio_reads A41_c A41_e A41_lo A41_hi floor_volts ctol (Build_rio (Fin (1235 / 256)) (Fin (5453 / 1024)) (Fin (3267 / 512)) (Fin (6 / 1)) (Fin (12913 / 1024)) false true true ((Fin (581 / 1024)) :: (Fin (1055 / 1024)) :: (Fin (829 / 1024)) :: (Fin (55627 / 512)) :: (Fin (6751 / 1024)) :: (Fin (13067 / 256)) :: nil)) (9 / 2).
Proof. apply (A41_rio_fin _ (1235 / 256)); [reflexivity | apply (A41_q_lo 1235 256 9 2); [vm_compute; reflexivity | unfold fr, ctol, A41_lo, A41_c, A41_e; interval with (i_prec 80)]]. Qed.
Lemma r_A41_1176 : rio_reads A41_c A41_e A41_lo A41_hi floor_volts ctol (Build_rio (Fin (862430813877549 / 562949953421312)) (Fin (5191 / 1024)) (Fin (1 / 202402253307310618352495346718917307049556649764142118356901358027430339567995346891960383701437124495187077864316811911389808737385793476867013399940738509921517424276566361364466907742093216341239767678472745068562007483424692698618103355649159556340810056512358769552333414615230502532186327508646006263307707741093494784)) (Fin (2553 / 512)) (Fin (12 / 1)) true true true ((Fin (505 / 512)) :: (Fin (25 / 32)) :: (Fin (635 / 1024)) :: (Fin (146391 / 1024)) :: (Fin (1639 / 512)) :: (Fin (241 / 8)) :: nil)) (1188449743387261 / 140737488355328).
Proof. apply (A41_rio_fin _ (862430813877549 / 562949953421312)); [reflexivity | apply (A41_q_mid 862430813877549 562949953421312 1188449743387261 140737488355328); [vm_compute; reflexivity | unfold fr, close, ctol, A41_c, A41_e; interval with (i_prec 80)]]. Qed.
Lemma r_A41_1192 : rio_reads A41_c A41_e A41_lo A41_hi floor_volts ctol (Build_rio (Fin (2280544952627463 / 562949953421312)) (Fin (2333 / 512)) (Fin (3715469692580659 / 1125899906842624)) (Fin (6 / 1)) (Fin (3119 / 256)) true true true ((Fin (593 / 1024)) :: (Fin (1017 / 512)) :: (Fin (929 / 512)) :: (Fin (49573 / 512)) :: (Fin (6693 / 1024)) :: (Fin (8391 / 256)) :: nil)) (9 / 2).
Proof. apply (A41_rio_fin _ (2280544952627463 / 562949953421312)); [reflexivity | apply (A41_q_lo 2280544952627463 562949953421312 9 2); [vm_compute; reflexivity | unfold fr, ctol, A41_lo, A41_c, A41_e; interval with (i_prec 80)]]. Qed.
Lemma r_A41_1208 : rio_reads A41_c A41_e A41_lo A41_hi floor_volts ctol (Build_rio (Fin (2618990453058615 / 4503599627370496)) (Fin (1203 / 256)) (Fin (3473 / 1024)) (Fin (8019 / 1024)) (Fin (3079 / 256)) true true true ((Fin (103 / 256)) :: (Fin (333 / 512)) :: (Fin (135 / 512)) :: (Fin (94521 / 512)) :: (Fin (2757 / 512)) :: (Fin (3865 / 512)) :: nil)) (1538959491129003 / 70368744177664).
Proof. apply (A41_rio_fin _ (2618990453058615 / 4503599627370496)); [reflexivity | apply (A41_q_mid 2618990453058615 4503599627370496 1538959491129003 70368744177664); [vm_compute; reflexivity | unfold fr, close, ctol, A41_c, A41_e; interval with (i_prec 80)]]. Qed.
Lemma r_A41_1224 : rio_reads A41_c A41_e A41_lo A41_hi floor_volts ctol (Build_rio (Fin (1813105607372595 / 1125899906842624)) (Fin (5 / 1)) (Fin (3715469692580659 / 1125899906842624)) (Fin (6 / 1)) (Fin ((-12) / 1)) false true true ((Fin (2989 / 1024)) :: (Fin (7 / 512)) :: (Fin (2605 / 1024)) :: (Fin (199275 / 1024)) :: (Fin (2491 / 512)) :: (Fin (6707 / 256)) :: nil)) (4526404311824477 / 562949953421312).
Proof. apply (A41_rio_fin _ (1813105607372595 / 1125899906842624)); [reflexivity | apply (A41_q_mid 1813105607372595 1125899906842624 4526404311824477 562949953421312); [vm_compute; reflexivity | unfold fr, close, ctol, A41_c, A41_e; interval with (i_prec 80)]]. Qed.
Lemma r_A41_1243 : rio_reads A41_c A41_e A41_lo A41_hi floor_volts ctol (Build_rio (Fin (3309329800000467 / 576460752303423488)) (Fin (5 / 1)) (Fin (3715469692580659 / 1125899906842624)) (Fin (6 / 1)) (Fin (12 / 1)) true true true ((Fin (0 / 1)) :: (Fin (0 / 1)) :: (Fin (0 / 1)) :: (Fin (0 / 1)) :: (Fin (27 / 4)) :: (Fin (45 / 1)) :: nil)) (35 / 1).
Proof. apply (A41_rio_fin _ (3309329800000467 / 576460752303423488)); [reflexivity | apply (A41_q_hi 3309329800000467 576460752303423488 35 1); [vm_compute; reflexivity | unfold fr, ctol, A41_hi, A41_c, A41_e; interval with (i_prec 80)]]. Qed.
Lemma r_A41_1266 : rio_reads A41_c A41_e A41_lo A41_hi floor_volts ctol (Build_rio (Fin (8479552028712691 / 70368744177664)) (Fin (1275 / 256)) (Fin (1665 / 512)) (Fin (6 / 1)) (Fin (2003 / 256)) true true false ((Fin (1975 / 1024)) :: (Fin (1579 / 1024)) :: (Fin (997 / 1024)) :: (Fin (84601 / 1024)) :: (Fin (4447 / 512)) :: (Fin (5717 / 512)) :: nil)) (9 / 2).
Proof. apply (A41_rio_fin _ (8479552028712691 / 70368744177664)); [reflexivity | apply (A41_q_lo 8479552028712691 70368744177664 9 2); [vm_compute; reflexivity | unfold fr, ctol, A41_lo, A41_c, A41_e; interval with (i_prec 80)]]. Qed.
Lemma d_A41_1340u : close ctol (1898456911632291 / 4503599627370496) (volts_A41 (30 / 1)).
Proof. apply (A41_q_volts_mid 30 1 1898456911632291 4503599627370496); [vm_compute; reflexivity | unfold fr, close, ctol, A41_lo, A41_hi, A41_c, A41_e; interval with (i_prec 80)]. Qed.
Lemma d_A41_1348u : close ctol (6491044311201869 / 18014398509481984) (volts_A41 (35 / 1)).
Proof. apply (A41_q_volts_hi 35 1 6491044311201869 18014398509481984); [vm_compute; reflexivity | unfold fr, close, ctol, A41_lo, A41_hi, A41_c, A41_e; interval with (i_prec 80)]. Qed.
Lemma d_A41_1356u : close ctol (1636741441258383 / 562949953421312) (volts_A41 ((-100000000000000001097906362944045541740492309677311846336810682903157585404911491537163328978494688899061249669721172515611590283743140088328307009198146046031271664502933027185697489699588559043338384466165001178426897626212945177628091195786707458122783970171784415105291802893207873272974885715430223118336) / 1)).
Proof. apply (A41_q_volts_lo (-100000000000000001097906362944045541740492309677311846336810682903157585404911491537163328978494688899061249669721172515611590283743140088328307009198146046031271664502933027185697489699588559043338384466165001178426897626212945177628091195786707458122783970171784415105291802893207873272974885715430223118336) 1 1636741441258383 562949953421312); [vm_compute; reflexivity | unfold fr, close, ctol, A41_lo, A41_hi, A41_c, A41_e; interval with (i_prec 80)]. Qed.
Lemma d_A41_1364u : close ctol (1898456911632291 / 4503599627370496) (volts_A41 (30 / 1)).
Proof. apply (A41_q_volts_mid 30 1 1898456911632291 4503599627370496); [vm_compute; reflexivity | unfold fr, close, ctol, A41_lo, A41_hi, A41_c, A41_e; interval with (i_prec 80)]. Qed.
Lemma d_A41_1372u : close ctol (6491044311201869 / 18014398509481984) (volts_A41 (179769313486231570814527423731704356798070567525844996598917476803157260780028538760589558632766878171540458953514382464234321326889464182768467546703537516986049910576551282076245490090389328944075868508455133942304583236903222948165808559332123348274797826204144723168738177180919299881250404026184124858368 / 1)).
Proof. apply (A41_q_volts_hi 179769313486231570814527423731704356798070567525844996598917476803157260780028538760589558632766878171540458953514382464234321326889464182768467546703537516986049910576551282076245490090389328944075868508455133942304583236903222948165808559332123348274797826204144723168738177180919299881250404026184124858368 1 6491044311201869 18014398509481984); [vm_compute; reflexivity | unfold fr, close, ctol, A41_lo, A41_hi, A41_c, A41_e; interval with (i_prec 80)]. Qed.
Lemma d_A41_1380u : close ctol (6491044311201869 / 18014398509481984) (volts_A41 (4925812092436481 / 140737488355328)).
Proof. apply (A41_q_volts_hi 4925812092436481 140737488355328 6491044311201869 18014398509481984); [vm_compute; reflexivity | unfold fr, close, ctol, A41_lo, A41_hi, A41_c, A41_e; interval with (i_prec 80)]. Qed.
Lemma d_A41_1388u : close ctol (5881157630324709 / 2251799813685248) (volts_A41 (5 / 1)).
Proof. apply (A41_q_volts_mid 5 1 5881157630324709 2251799813685248); [vm_compute; reflexivity | unfold fr, close, ctol, A41_lo, A41_hi, A41_c, A41_e; interval with (i_prec 80)]. Qed.
Lemma d_A41_1400u : close ctol (8539086378147595 / 9007199254740992) (volts_A41 (3808686616710511 / 281474976710656)).
Proof. apply (A41_q_volts_mid 3808686616710511 281474976710656 8539086378147595 9007199254740992); [vm_compute; reflexivity | unfold fr, close, ctol, A41_lo, A41_hi, A41_c, A41_e; interval with (i_prec 80)]. Qed.
Lemma d_A41_1412r : rio_reads A41_c A41_e A41_lo A41_hi floor_volts ctol (Build_rio (Fin (8465460037654405 / 9007199254740992)) (Fin (5 / 1)) (Fin (3715469692580659 / 1125899906842624)) (Fin (6 / 1)) (Fin (12 / 1)) true true true ((Fin (0 / 1)) :: (Fin (0 / 1)) :: (Fin (0 / 1)) :: (Fin (0 / 1)) :: (Fin (27 / 4)) :: (Fin (45 / 1)) :: nil)) (1920613141770127 / 140737488355328).
Proof. apply (A41_rio_fin _ (8465460037654405 / 9007199254740992)); [reflexivity | apply (A41_q_mid 8465460037654405 9007199254740992 1920613141770127 140737488355328); [vm_compute; reflexivity | unfold fr, close, ctol, A41_c, A41_e; interval with (i_prec 80)]]. Qed.
Lemma d_A41_1425u : close ctol (6491044311201869 / 18014398509481984) (volts_A41 (50 / 1)).
Proof. apply (A41_q_volts_hi 50 1 6491044311201869 18014398509481984); [vm_compute; reflexivity | unfold fr, close, ctol, A41_lo, A41_hi, A41_c, A41_e; interval with (i_prec 80)]. Qed.
Lemma d_A41_1438u : close ctol (7135772487799925 / 9007199254740992) (volts_A41 (4543320480459033 / 281474976710656)).
Proof. apply (A41_q_volts_mid 4543320480459033 281474976710656 7135772487799925 9007199254740992); [vm_compute; reflexivity | unfold fr, close, ctol, A41_lo, A41_hi, A41_c, A41_e; interval with (i_prec 80)]. Qed.
Lemma d_A41_1451u : close ctol (640776661650955 / 1125899906842624) (volts_A41 (3143833657315641 / 140737488355328)).
Proof. apply (A41_q_volts_mid 3143833657315641 140737488355328 640776661650955 1125899906842624); [vm_compute; reflexivity | unfold fr, close, ctol, A41_lo, A41_hi, A41_c, A41_e; interval with (i_prec 80)]. Qed.
Lemma d_A41_1464u : close ctol (2287844651422033 / 2251799813685248) (volts_A41 (889548136478237 / 70368744177664)).
Proof. apply (A41_q_volts_mid 889548136478237 70368744177664 2287844651422033 2251799813685248); [vm_compute; reflexivity | unfold fr, close, ctol, A41_lo, A41_hi, A41_c, A41_e; interval with (i_prec 80)]. Qed.
Lemma d_A41_1476r : rio_reads A41_c A41_e A41_lo A41_hi floor_volts ctol (Build_rio (Fin (7329247901786757 / 18014398509481984)) (Fin (385 / 128)) (Fin (3545 / 1024)) (Fin (6527 / 1024)) (Fin (12 / 1)) true true true ((Fin (5 / 64)) :: (Fin (437 / 512)) :: (Fin (1545 / 1024)) :: (Fin (91541 / 512)) :: (Fin (3771 / 512)) :: (Fin ((-179) / 256)) :: nil)) (8743620665609407 / 281474976710656).
Proof. apply (A41_rio_fin _ (7329247901786757 / 18014398509481984)); [reflexivity | apply (A41_q_mid 7329247901786757 18014398509481984 8743620665609407 281474976710656); [vm_compute; reflexivity | unfold fr, close, ctol, A41_c, A41_e; interval with (i_prec 80)]]. Qed.
Lemma d_A41_1489u : close ctol (6491044311201869 / 18014398509481984) (volts_A41 (3242318075058653 / 35184372088832)).
Proof. apply (A41_q_volts_hi 3242318075058653 35184372088832 6491044311201869 18014398509481984); [vm_compute; reflexivity | unfold fr, close, ctol, A41_lo, A41_hi, A41_c, A41_e; interval with (i_prec 80)]. Qed.
Lemma d_A41_1502u : close ctol (8351160891640931 / 4503599627370496) (volts_A41 (7 / 1)).
Proof. apply (A41_q_volts_mid 7 1 8351160891640931 4503599627370496); [vm_compute; reflexivity | unfold fr, close, ctol, A41_lo, A41_hi, A41_c, A41_e; interval with (i_prec 80)]. Qed.
Lemma d_A41_1515u : close ctol (1000906393106721 / 562949953421312) (volts_A41 (8213717994310739 / 1125899906842624)).
Proof. apply (A41_q_volts_mid 8213717994310739 1125899906842624 1000906393106721 562949953421312); [vm_compute; reflexivity | unfold fr, close, ctol, A41_lo, A41_hi, A41_c, A41_e; interval with (i_prec 80)]. Qed.
Lemma d_A41_1528u : close ctol (1834285684269427 / 2251799813685248) (volts_A41 (8841584628567999 / 562949953421312)).
Proof. apply (A41_q_volts_mid 8841584628567999 562949953421312 1834285684269427 2251799813685248); [vm_compute; reflexivity | unfold fr, close, ctol, A41_lo, A41_hi, A41_c, A41_e; interval with (i_prec 80)]. Qed.
Lemma d_A41_1540r : rio_reads A41_c A41_e A41_lo A41_hi floor_volts ctol (Build_rio (Fin (6690662205257753 / 18014398509481984)) (Fin (5017 / 1024)) (Fin (3715469692580659 / 1125899906842624)) (Fin (1427 / 512)) (Fin (11847 / 1024)) true true true ((Fin (617 / 512)) :: (Fin (543 / 1024)) :: (Fin (2323 / 1024)) :: (Fin (61165 / 1024)) :: (Fin (3683 / 512)) :: (Fin (6285 / 128)) :: nil)) (2390698640002115 / 70368744177664).
Proof. apply (A41_rio_fin _ (6690662205257753 / 18014398509481984)); [reflexivity | apply (A41_q_mid 6690662205257753 18014398509481984 2390698640002115 70368744177664); [vm_compute; reflexivity | unfold fr, close, ctol, A41_c, A41_e; interval with (i_prec 80)]]. Qed.
Lemma d_A41_1553u : close ctol (1636741441258383 / 562949953421312) (volts_A41 ((-8706992995830187) / 4503599627370496)).
Proof. apply (A41_q_volts_lo (-8706992995830187) 4503599627370496 1636741441258383 562949953421312); [vm_compute; reflexivity | unfold fr, close, ctol, A41_lo, A41_hi, A41_c, A41_e; interval with (i_prec 80)]. Qed.
Lemma d_A41_1566u : close ctol (4515348228266811 / 4503599627370496) (volts_A41 (7209800548253469 / 562949953421312)).
Proof. apply (A41_q_volts_mid 7209800548253469 562949953421312 4515348228266811 4503599627370496); [vm_compute; reflexivity | unfold fr, close, ctol, A41_lo, A41_hi, A41_c, A41_e; interval with (i_prec 80)]. Qed.
Lemma d_A41_1579u : close ctol (3312367323013291 / 9007199254740992) (volts_A41 (4828138902863749 / 140737488355328)).
Proof. apply (A41_q_volts_mid 4828138902863749 140737488355328 3312367323013291 9007199254740992); [vm_compute; reflexivity | unfold fr, close, ctol, A41_lo, A41_hi, A41_c, A41_e; interval with (i_prec 80)]. Qed.
Lemma d_A41_1592u : close ctol (3476670207983015 / 2251799813685248) (volts_A41 (589699908627533 / 70368744177664)).
Proof. apply (A41_q_volts_mid 589699908627533 70368744177664 3476670207983015 2251799813685248); [vm_compute; reflexivity | unfold fr, close, ctol, A41_lo, A41_hi, A41_c, A41_e; interval with (i_prec 80)]. Qed.
Lemma d_A41_1604r : rio_reads A41_c A41_e A41_lo A41_hi floor_volts ctol (Build_rio (Fin (367784620083363 / 562949953421312)) (Fin (5 / 1)) (Fin (3715469692580659 / 1125899906842624)) (Fin (6 / 1)) (Fin (12 / 1)) true true true ((Fin (0 / 1)) :: (Fin (0 / 1)) :: (Fin (0 / 1)) :: (Fin (0 / 1)) :: (Fin (27 / 4)) :: (Fin (45 / 1)) :: nil)) (5490693704998747 / 281474976710656).
Proof. apply (A41_rio_fin _ (367784620083363 / 562949953421312)); [reflexivity | apply (A41_q_mid 367784620083363 562949953421312 5490693704998747 281474976710656); [vm_compute; reflexivity | unfold fr, close, ctol, A41_c, A41_e; interval with (i_prec 80)]]. Qed.
Lemma d_A41_1617u : close ctol (1799960287110905 / 2251799813685248) (volts_A41 (16 / 1)).
Proof. apply (A41_q_volts_mid 16 1 1799960287110905 2251799813685248); [vm_compute; reflexivity | unfold fr, close, ctol, A41_lo, A41_hi, A41_c, A41_e; interval with (i_prec 80)]. Qed.
Lemma d_A41_1630u : close ctol (4020266639840851 / 9007199254740992) (volts_A41 (3991570805572869 / 140737488355328)).
Proof. apply (A41_q_volts_mid 3991570805572869 140737488355328 4020266639840851 9007199254740992); [vm_compute; reflexivity | unfold fr, close, ctol, A41_lo, A41_hi, A41_c, A41_e; interval with (i_prec 80)]. Qed.
Lemma d_A41_1643u : close ctol (7949280155995801 / 9007199254740992) (volts_A41 (4086126166301497 / 281474976710656)).
Proof. apply (A41_q_volts_mid 4086126166301497 281474976710656 7949280155995801 9007199254740992); [vm_compute; reflexivity | unfold fr, close, ctol, A41_lo, A41_hi, A41_c, A41_e; interval with (i_prec 80)]. Qed.
Lemma d_A41_1656u : close ctol (4231370542434295 / 9007199254740992) (volts_A41 (3795848045272599 / 140737488355328)).
Proof. apply (A41_q_volts_mid 3795848045272599 140737488355328 4231370542434295 9007199254740992); [vm_compute; reflexivity | unfold fr, close, ctol, A41_lo, A41_hi, A41_c, A41_e; interval with (i_prec 80)]. Qed.
Lemma d_A41_1668r : rio_reads A41_c A41_e A41_lo A41_hi floor_volts ctol (Build_rio (Fin (79621134179491 / 140737488355328)) (Fin (145 / 32)) (Fin (3405 / 1024)) (Fin (733 / 128)) (Fin (151 / 1024)) true true false ((Fin (2955 / 1024)) :: (Fin (5 / 64)) :: (Fin (1879 / 1024)) :: (Fin (18173 / 256)) :: (Fin (3603 / 1024)) :: (Fin (7109 / 1024)) :: nil)) (3162294721846373 / 140737488355328).
Proof. apply (A41_rio_fin _ (79621134179491 / 140737488355328)); [reflexivity | apply (A41_q_mid 79621134179491 140737488355328 3162294721846373 140737488355328); [vm_compute; reflexivity | unfold fr, close, ctol, A41_c, A41_e; interval with (i_prec 80)]]. Qed.
Lemma d_A41_1681u : close ctol (1636741441258383 / 562949953421312) (volts_A41 ((-4239254397580267) / 2251799813685248)).
Proof. apply (A41_q_volts_lo (-4239254397580267) 2251799813685248 1636741441258383 562949953421312); [vm_compute; reflexivity | unfold fr, close, ctol, A41_lo, A41_hi, A41_c, A41_e; interval with (i_prec 80)]. Qed.
Lemma d_A41_1694u : close ctol (1636741441258383 / 562949953421312) (volts_A41 ((-2535187663842293) / 2251799813685248)).
Proof. apply (A41_q_volts_lo (-2535187663842293) 2251799813685248 1636741441258383 562949953421312); [vm_compute; reflexivity | unfold fr, close, ctol, A41_lo, A41_hi, A41_c, A41_e; interval with (i_prec 80)]. Qed.
Lemma d_A41_1707u : close ctol (2455445699015639 / 4503599627370496) (volts_A41 (6558399949388549 / 281474976710656)).
Proof. apply (A41_q_volts_mid 6558399949388549 281474976710656 2455445699015639 4503599627370496); [vm_compute; reflexivity | unfold fr, close, ctol, A41_lo, A41_hi, A41_c, A41_e; interval with (i_prec 80)]. Qed.
Lemma d_A41_1720u : close ctol (363940043517551 / 281474976710656) (volts_A41 (2807881333325867 / 281474976710656)).
Proof. apply (A41_q_volts_mid 2807881333325867 281474976710656 363940043517551 281474976710656); [vm_compute; reflexivity | unfold fr, close, ctol, A41_lo, A41_hi, A41_c, A41_e; interval with (i_prec 80)]. Qed.
Lemma d_A41_1732r : rio_reads A41_c A41_e A41_lo A41_hi floor_volts ctol (Build_rio (Fin (2385655929993643 / 4503599627370496)) (Fin (4695 / 1024)) (Fin (2853 / 512)) (Fin (1251 / 256)) (Fin (6639 / 1024)) true true true ((Fin (203 / 128)) :: (Fin (1885 / 1024)) :: (Fin (141 / 128)) :: (Fin (6479 / 1024)) :: (Fin (7241 / 1024)) :: (Fin (47343 / 1024)) :: nil)) (6746834042262267 / 281474976710656).
Proof. apply (A41_rio_fin _ (2385655929993643 / 4503599627370496)); [reflexivity | apply (A41_q_mid 2385655929993643 4503599627370496 6746834042262267 281474976710656); [vm_compute; reflexivity | unfold fr, close, ctol, A41_c, A41_e; interval with (i_prec 80)]]. Qed.
Lemma d_A41_1745u : close ctol (3083939690642599 / 2251799813685248) (volts_A41 (2653581662617145 / 281474976710656)).
Proof. apply (A41_q_volts_mid 2653581662617145 281474976710656 3083939690642599 2251799813685248); [vm_compute; reflexivity | unfold fr, close, ctol, A41_lo, A41_hi, A41_c, A41_e; interval with (i_prec 80)]. Qed.
Lemma d_A41_1758u : close ctol (1776032114412761 / 4503599627370496) (volts_A41 (70435481582193 / 2199023255552)).
Proof. apply (A41_q_volts_mid 70435481582193 2199023255552 1776032114412761 4503599627370496); [vm_compute; reflexivity | unfold fr, close, ctol, A41_lo, A41_hi, A41_c, A41_e; interval with (i_prec 80)]. Qed.
Lemma d_A41_1771u : close ctol (6044053782352117 / 4503599627370496) (volts_A41 (2706979683656755 / 281474976710656)).
Proof. apply (A41_q_volts_mid 2706979683656755 281474976710656 6044053782352117 4503599627370496); [vm_compute; reflexivity | unfold fr, close, ctol, A41_lo, A41_hi, A41_c, A41_e; interval with (i_prec 80)]. Qed.
Lemma d_A41_1784u : close ctol (5160624327309989 / 4503599627370496) (volts_A41 (6323146557078453 / 562949953421312)).
Proof. apply (A41_q_volts_mid 6323146557078453 562949953421312 5160624327309989 4503599627370496); [vm_compute; reflexivity | unfold fr, close, ctol, A41_lo, A41_hi, A41_c, A41_e; interval with (i_prec 80)]. Qed.
Lemma d_A41_1796r : rio_reads A41_c A41_e A41_lo A41_hi floor_volts ctol (Build_rio (Fin (5668861414140427 / 4503599627370496)) (Fin (5 / 1)) (Fin (3715469692580659 / 1125899906842624)) (Fin (6 / 1)) (Fin (12 / 1)) true true true ((Fin (0 / 1)) :: (Fin (0 / 1)) :: (Fin (0 / 1)) :: (Fin (0 / 1)) :: (Fin (27 / 4)) :: (Fin (45 / 1)) :: nil)) (2882887034112551 / 281474976710656).
Proof. apply (A41_rio_fin _ (5668861414140427 / 4503599627370496)); [reflexivity | apply (A41_q_mid 5668861414140427 4503599627370496 2882887034112551 281474976710656); [vm_compute; reflexivity | unfold fr, close, ctol, A41_c, A41_e; interval with (i_prec 80)]]. Qed.
Lemma d_A41_1809u : close ctol (6491044311201869 / 18014398509481984) (volts_A41 (863731356229935 / 8796093022208)).
Proof. apply (A41_q_volts_hi 863731356229935 8796093022208 6491044311201869 18014398509481984); [vm_compute; reflexivity | unfold fr, close, ctol, A41_lo, A41_hi, A41_c, A41_e; interval with (i_prec 80)]. Qed.
Lemma d_A41_1822u : close ctol (6030591215661143 / 4503599627370496) (volts_A41 (2712916215501183 / 281474976710656)).
Proof. apply (A41_q_volts_mid 2712916215501183 281474976710656 6030591215661143 4503599627370496); [vm_compute; reflexivity | unfold fr, close, ctol, A41_lo, A41_hi, A41_c, A41_e; interval with (i_prec 80)]. Qed.
Lemma d_A41_1835u : close ctol (1636741441258383 / 562949953421312) (volts_A41 ((-1182271425622489) / 1125899906842624)).
Proof. apply (A41_q_volts_lo (-1182271425622489) 1125899906842624 1636741441258383 562949953421312); [vm_compute; reflexivity | unfold fr, close, ctol, A41_lo, A41_hi, A41_c, A41_e; interval with (i_prec 80)]. Qed.
Lemma d_A41_1848u : close ctol (6667430408244571 / 18014398509481984) (volts_A41 (1199440929748817 / 35184372088832)).
Proof. apply (A41_q_volts_mid 1199440929748817 35184372088832 6667430408244571 18014398509481984); [vm_compute; reflexivity | unfold fr, close, ctol, A41_lo, A41_hi, A41_c, A41_e; interval with (i_prec 80)]. Qed.
Lemma d_A41_1860r : rio_reads A41_c A41_e A41_lo A41_hi floor_volts ctol (Build_rio (Fin (1772288411789071 / 1125899906842624)) (Fin (2695 / 512)) (Fin (99 / 32)) (Fin (1 / 202402253307310618352495346718917307049556649764142118356901358027430339567995346891960383701437124495187077864316811911389808737385793476867013399940738509921517424276566361364466907742093216341239767678472745068562007483424692698618103355649159556340810056512358769552333414615230502532186327508646006263307707741093494784)) (Fin (13499 / 1024)) true true true ((Fin (335 / 128)) :: (Fin (121 / 128)) :: (Fin (2731 / 1024)) :: (Fin (2303 / 128)) :: (Fin (3165 / 1024)) :: (Fin (435 / 128)) :: nil)) (18081232911469 / 2199023255552).
Proof. apply (A41_rio_fin _ (1772288411789071 / 1125899906842624)); [reflexivity | apply (A41_q_mid 1772288411789071 1125899906842624 18081232911469 2199023255552); [vm_compute; reflexivity | unfold fr, close, ctol, A41_c, A41_e; interval with (i_prec 80)]]. Qed.
Lemma d_A41_1873u : close ctol (4467191015203841 / 4503599627370496) (volts_A41 (1821537124330525 / 140737488355328)).
Proof. apply (A41_q_volts_mid 1821537124330525 140737488355328 4467191015203841 4503599627370496); [vm_compute; reflexivity | unfold fr, close, ctol, A41_lo, A41_hi, A41_c, A41_e; interval with (i_prec 80)]. Qed.
Lemma d_A41_1886u : close ctol (6805511023256783 / 18014398509481984) (volts_A41 (587764427382415 / 17592186044416)).
Proof. apply (A41_q_volts_mid 587764427382415 17592186044416 6805511023256783 18014398509481984); [vm_compute; reflexivity | unfold fr, close, ctol, A41_lo, A41_hi, A41_c, A41_e; interval with (i_prec 80)]. Qed.
Lemma d_A41_1899u : close ctol (4583759519325423 / 9007199254740992) (volts_A41 (7017937320443049 / 281474976710656)).
Proof. apply (A41_q_volts_mid 7017937320443049 281474976710656 4583759519325423 9007199254740992); [vm_compute; reflexivity | unfold fr, close, ctol, A41_lo, A41_hi, A41_c, A41_e; interval with (i_prec 80)]. Qed.
Lemma d_A41_1912u : close ctol (8063001280543903 / 18014398509481984) (volts_A41 (1990321781877951 / 70368744177664)).
Proof. apply (A41_q_volts_mid 1990321781877951 70368744177664 8063001280543903 18014398509481984); [vm_compute; reflexivity | unfold fr, close, ctol, A41_lo, A41_hi, A41_c, A41_e; interval with (i_prec 80)]. Qed.
Lemma d_A41_1924r : rio_reads A41_c A41_e A41_lo A41_hi floor_volts ctol (Build_rio (Fin (1636741441258383 / 562949953421312)) (Fin (385 / 256)) (Fin (0 / 1)) NInf (Fin (677 / 512)) true true true ((Fin (593 / 512)) :: (Fin (659 / 1024)) :: (Fin (135 / 128)) :: (Fin (65983 / 512)) :: (Fin (9167 / 1024)) :: (Fin (40849 / 512)) :: nil)) (9 / 2).
Proof. apply (A41_rio_fin _ (1636741441258383 / 562949953421312)); [reflexivity | apply (A41_q_lo 1636741441258383 562949953421312 9 2); [vm_compute; reflexivity | unfold fr, ctol, A41_lo, A41_c, A41_e; interval with (i_prec 80)]]. Qed.
Lemma d_A41_1937u : close ctol (6491044311201869 / 18014398509481984) (volts_A41 (2629387251451277 / 70368744177664)).
Proof. apply (A41_q_volts_hi 2629387251451277 70368744177664 6491044311201869 18014398509481984); [vm_compute; reflexivity | unfold fr, close, ctol, A41_lo, A41_hi, A41_c, A41_e; interval with (i_prec 80)]. Qed.
Lemma d_A41_1950u : close ctol (1329432459420075 / 2251799813685248) (volts_A41 (3032566428569769 / 140737488355328)).
Proof. apply (A41_q_volts_mid 3032566428569769 140737488355328 1329432459420075 2251799813685248); [vm_compute; reflexivity | unfold fr, close, ctol, A41_lo, A41_hi, A41_c, A41_e; interval with (i_prec 80)]. Qed.
Lemma d_A41_1963u : close ctol (2904288656509173 / 2251799813685248) (volts_A41 (10 / 1)).
Proof. apply (A41_q_volts_mid 10 1 2904288656509173 2251799813685248); [vm_compute; reflexivity | unfold fr, close, ctol, A41_lo, A41_hi, A41_c, A41_e; interval with (i_prec 80)]. Qed.
Lemma d_A41_1976u : close ctol (3884596880542059 / 4503599627370496) (volts_A41 (8358309825755605 / 562949953421312)).
Proof. apply (A41_q_volts_mid 8358309825755605 562949953421312 3884596880542059 4503599627370496); [vm_compute; reflexivity | unfold fr, close, ctol, A41_lo, A41_hi, A41_c, A41_e; interval with (i_prec 80)]. Qed.
Lemma d_A41_1988r : rio_reads A41_c A41_e A41_lo A41_hi floor_volts ctol (Build_rio (Fin (7572801735149371 / 9007199254740992)) (Fin (5 / 1)) (Fin (3715469692580659 / 1125899906842624)) (Fin (6 / 1)) (Fin (12 / 1)) true true true ((Fin (0 / 1)) :: (Fin (0 / 1)) :: (Fin (0 / 1)) :: (Fin (0 / 1)) :: (Fin (27 / 4)) :: (Fin (45 / 1)) :: nil)) (8571209902819565 / 562949953421312).
Proof. apply (A41_rio_fin _ (7572801735149371 / 9007199254740992)); [reflexivity | apply (A41_q_mid 7572801735149371 9007199254740992 8571209902819565 562949953421312); [vm_compute; reflexivity | unfold fr, close, ctol, A41_c, A41_e; interval with (i_prec 80)]]. Qed.
Lemma r_A02_13 : rio_reads A02_c A02_e A02_lo A02_hi floor_volts ctol (Build_rio (Fin ((-1) / 202402253307310618352495346718917307049556649764142118356901358027430339567995346891960383701437124495187077864316811911389808737385793476867013399940738509921517424276566361364466907742093216341239767678472745068562007483424692698618103355649159556340810056512358769552333414615230502532186327508646006263307707741093494784)) (Fin (5902958103587057 / 590295810358705651712)) (Fin (3715469692580659 / 1125899906842624)) (Fin (6 / 1)) (Fin (12 / 1)) true true true ((Fin (0 / 1)) :: (Fin (0 / 1)) :: (Fin (0 / 1)) :: (Fin (0 / 1)) :: (Fin (27 / 4)) :: (Fin (45 / 1)) :: nil)) (435215207548285 / 8796093022208).
Proof. apply (A02_rio_fin _ ((-1) / 202402253307310618352495346718917307049556649764142118356901358027430339567995346891960383701437124495187077864316811911389808737385793476867013399940738509921517424276566361364466907742093216341239767678472745068562007483424692698618103355649159556340810056512358769552333414615230502532186327508646006263307707741093494784)); [reflexivity | apply (A02_q_floor (-1) 202402253307310618352495346718917307049556649764142118356901358027430339567995346891960383701437124495187077864316811911389808737385793476867013399940738509921517424276566361364466907742093216341239767678472745068562007483424692698618103355649159556340810056512358769552333414615230502532186327508646006263307707741093494784 435215207548285 8796093022208); vm_compute; reflexivity]. Qed.
Lemma r_A02_26 : rio_reads A02_c A02_e A02_lo A02_hi floor_volts ctol (Build_rio (Fin (368934881474191 / 36893488147419103232)) (Fin (5 / 1)) (Fin (3715469692580659 / 1125899906842624)) (Fin (6 / 1)) PInf true true true ((Fin (0 / 1)) :: (Fin (0 / 1)) :: (Fin (0 / 1)) :: (Fin (0 / 1)) :: (Fin (27 / 4)) :: (Fin (45 / 1)) :: nil)) (145 / 1).
Proof. apply (A02_rio_fin _ (368934881474191 / 36893488147419103232)); [reflexivity | apply (A02_q_floor 368934881474191 36893488147419103232 145 1); vm_compute; reflexivity]. Qed.
Lemma d_A02_3c : close ctol (45 / 2) (clamp A02_lo A02_hi (10 / 1)).
Proof. apply (A02_q_clamp_lo 10 1 45 2); vm_compute; reflexivity. Qed.
Lemma d_A02_9g : get_distance (set_distance A02_c A02_e A02_lo A02_hi sim_init (60 / 1)) = (60 / 1).
Proof. cbn [get_distance set_distance sim_distance]. first [reflexivity | lra]. Qed.
Lemma d_A02_16c : close ctol (35 / 1) (clamp A02_lo A02_hi (35 / 1)).
Proof. apply (A02_q_clamp_mid 35 1 35 1); vm_compute; reflexivity. Qed.
Lemma d_A02_22g : get_distance (set_distance A02_c A02_e A02_lo A02_hi sim_init ((-1) / 1)) = ((-1) / 1).
Proof. cbn [get_distance set_distance sim_distance]. first [reflexivity | lra]. Qed.
Lemma d_A02_30g : get_distance (set_distance A02_c A02_e A02_lo A02_hi sim_init (10 / 1)) = (10 / 1).
Proof. cbn [get_distance set_distance sim_distance]. first [reflexivity | lra]. Qed.
Lemma d_A02_38g : get_distance (set_distance A02_c A02_e A02_lo A02_hi sim_init (1000000 / 1)) = (1000000 / 1).
Proof. cbn [get_distance set_distance sim_distance]. first [reflexivity | lra]. Qed.
Lemma d_A02_47g : get_distance (set_distance A02_c A02_e A02_lo A02_hi sim_init (5101733952880639 / 35184372088832)) = (5101733952880639 / 35184372088832).
Proof. cbn [get_distance set_distance sim_distance]. first [reflexivity | lra]. Qed.
Lemma d_A02_55g : get_distance (set_distance A02_c A02_e A02_lo A02_hi sim_init (22 / 1)) = (22 / 1).
Proof. cbn [get_distance set_distance sim_distance]. first [reflexivity | lra]. Qed.
Lemma d_A02_63g : get_distance (set_distance A02_c A02_e A02_lo A02_hi sim_init (5947558970092391 / 140737488355328)) = (5947558970092391 / 140737488355328).
Proof. cbn [get_distance set_distance sim_distance]. first [reflexivity | lra]. Qed.
Lemma d_A02_71g : get_distance (set_distance A02_c A02_e A02_lo A02_hi sim_init (86 / 1)) = (86 / 1).
Proof. cbn [get_distance set_distance sim_distance]. first [reflexivity | lra]. Qed.
Lemma d_A02_79g : get_distance (set_distance A02_c A02_e A02_lo A02_hi sim_init (3624132507725329 / 70368744177664)) = (3624132507725329 / 70368744177664).
Proof. cbn [get_distance set_distance sim_distance]. first [reflexivity | lra]. Qed.
Lemma d_A02_87g : get_distance (set_distance A02_c A02_e A02_lo A02_hi sim_init (8855300688341519 / 140737488355328)) = (8855300688341519 / 140737488355328).
Proof. cbn [get_distance set_distance sim_distance]. first [reflexivity | lra]. Qed.
Lemma d_A02_95g : get_distance (set_distance A02_c A02_e A02_lo A02_hi sim_init (4661720596129359 / 35184372088832)) = (4661720596129359 / 35184372088832).
Proof. cbn [get_distance set_distance sim_distance]. first [reflexivity | lra]. Qed.
Lemma d_A02_103g : get_distance (set_distance A02_c A02_e A02_lo A02_hi sim_init (303102912436421 / 4398046511104)) = (303102912436421 / 4398046511104).
Proof. cbn [get_distance set_distance sim_distance]. first [reflexivity | lra]. Qed.
Lemma d_A02_111g : get_distance (set_distance A02_c A02_e A02_lo A02_hi sim_init (4834422152448211 / 35184372088832)) = (4834422152448211 / 35184372088832).
Proof. cbn [get_distance set_distance sim_distance]. first [reflexivity | lra]. Qed.
Lemma d_A02_119g : get_distance (set_distance A02_c A02_e A02_lo A02_hi sim_init (5009204823141593 / 140737488355328)) = (5009204823141593 / 140737488355328).
Proof. cbn [get_distance set_distance sim_distance]. first [reflexivity | lra]. Qed.
Lemma d_A02_127g : get_distance (set_distance A02_c A02_e A02_lo A02_hi sim_init (3441999650449281 / 35184372088832)) = (3441999650449281 / 35184372088832).
Proof. cbn [get_distance set_distance sim_distance]. first [reflexivity | lra]. Qed.
Lemma d_A02_135g : get_distance (set_distance A02_c A02_e A02_lo A02_hi sim_init (4494903159522723 / 35184372088832)) = (4494903159522723 / 35184372088832).
Proof. cbn [get_distance set_distance sim_distance]. first [reflexivity | lra]. Qed.
Lemma d_A02_143g : get_distance (set_distance A02_c A02_e A02_lo A02_hi sim_init (3790284299270655 / 35184372088832)) = (3790284299270655 / 35184372088832).
Proof. cbn [get_distance set_distance sim_distance]. first [reflexivity | lra]. Qed.
Lemma d_A02_151g : get_distance (set_distance A02_c A02_e A02_lo A02_hi sim_init (8737905617830347 / 70368744177664)) = (8737905617830347 / 70368744177664).
Proof. cbn [get_distance set_distance sim_distance]. first [reflexivity | lra]. Qed.
Lemma d_A02_159g : get_distance (set_distance A02_c A02_e A02_lo A02_hi sim_init (85232732355163 / 17179869184)) = (85232732355163 / 17179869184).
Proof. cbn [get_distance set_distance sim_distance]. first [reflexivity | lra]. Qed.
Lemma d_A02_167g : get_distance (set_distance A02_c A02_e A02_lo A02_hi sim_init (3305846859546345 / 70368744177664)) = (3305846859546345 / 70368744177664).
Proof. cbn [get_distance set_distance sim_distance]. first [reflexivity | lra]. Qed.
Lemma d_A02_175g : get_distance (set_distance A02_c A02_e A02_lo A02_hi sim_init (2504116230027865 / 17592186044416)) = (2504116230027865 / 17592186044416).
Proof. cbn [get_distance set_distance sim_distance]. first [reflexivity | lra]. Qed.
Lemma d_A02_183g : get_distance (set_distance A02_c A02_e A02_lo A02_hi sim_init (1362186038506895 / 17592186044416)) = (1362186038506895 / 17592186044416).
Proof. cbn [get_distance set_distance sim_distance]. first [reflexivity | lra]. Qed.
Lemma d_A02_191g : get_distance (set_distance A02_c A02_e A02_lo A02_hi sim_init (948787389580531 / 8796093022208)) = (948787389580531 / 8796093022208).
Proof. cbn [get_distance set_distance sim_distance]. first [reflexivity | lra]. Qed.
Lemma d_A02_199g : get_distance (set_distance A02_c A02_e A02_lo A02_hi sim_init ((-207474732100977) / 281474976710656)) = ((-207474732100977) / 281474976710656).
Proof. cbn [get_distance set_distance sim_distance]. first [reflexivity | lra]. Qed.
Lemma d_A02_207g : get_distance (set_distance A02_c A02_e A02_lo A02_hi sim_init (6911053060436107 / 35184372088832)) = (6911053060436107 / 35184372088832).
Proof. cbn [get_distance set_distance sim_distance]. first [reflexivity | lra]. Qed.
Lemma d_A02_215g : get_distance (set_distance A02_c A02_e A02_lo A02_hi sim_init (5762558675290613 / 70368744177664)) = (5762558675290613 / 70368744177664).
Proof. cbn [get_distance set_distance sim_distance]. first [reflexivity | lra]. Qed.
Lemma d_A02_223g : get_distance (set_distance A02_c A02_e A02_lo A02_hi sim_init (2324310335310371 / 17592186044416)) = (2324310335310371 / 17592186044416).
Proof. cbn [get_distance set_distance sim_distance]. first [reflexivity | lra]. Qed.
Lemma d_A02_231g : get_distance (set_distance A02_c A02_e A02_lo A02_hi sim_init (178 / 1)) = (178 / 1).
Proof. cbn [get_distance set_distance sim_distance]. first [reflexivity | lra]. Qed.
Lemma d_A02_239g : get_distance (set_distance A02_c A02_e A02_lo A02_hi sim_init (2569598315510865 / 35184372088832)) = (2569598315510865 / 35184372088832).
Proof. cbn [get_distance set_distance sim_distance]. first [reflexivity | lra]. Qed.
Lemma d_A02_247g : get_distance (set_distance A02_c A02_e A02_lo A02_hi sim_init (6362162874473619 / 140737488355328)) = (6362162874473619 / 140737488355328).
Proof. cbn [get_distance set_distance sim_distance]. first [reflexivity | lra]. Qed.
Lemma d_A02_255g : get_distance (set_distance A02_c A02_e A02_lo A02_hi sim_init (1459198749358417 / 17592186044416)) = (1459198749358417 / 17592186044416).
Proof. cbn [get_distance set_distance sim_distance]. first [reflexivity | lra]. Qed.
Lemma d_A02_263g : get_distance (set_distance A02_c A02_e A02_lo A02_hi sim_init (1532758911482463 / 4398046511104)) = (1532758911482463 / 4398046511104).
Proof. cbn [get_distance set_distance sim_distance]. first [reflexivity | lra]. Qed.
Lemma d_A02_271g : get_distance (set_distance A02_c A02_e A02_lo A02_hi sim_init (544437948818467 / 4398046511104)) = (544437948818467 / 4398046511104).
Proof. cbn [get_distance set_distance sim_distance]. first [reflexivity | lra]. Qed.
Lemma d_A02_279g : get_distance (set_distance A02_c A02_e A02_lo A02_hi sim_init (1238582990965757 / 8796093022208)) = (1238582990965757 / 8796093022208).
Proof. cbn [get_distance set_distance sim_distance]. first [reflexivity | lra]. Qed.
Lemma d_A02_287g : get_distance (set_distance A02_c A02_e A02_lo A02_hi sim_init (2788215405915999 / 17592186044416)) = (2788215405915999 / 17592186044416).
Proof. cbn [get_distance set_distance sim_distance]. first [reflexivity | lra]. Qed.
Lemma d_A02_295g : get_distance (set_distance A02_c A02_e A02_lo A02_hi sim_init (5277096028428841 / 140737488355328)) = (5277096028428841 / 140737488355328).
Proof. cbn [get_distance set_distance sim_distance]. first [reflexivity | lra]. Qed.
Lemma d_A02_303g : get_distance (set_distance A02_c A02_e A02_lo A02_hi sim_init (2391950297768805 / 35184372088832)) = (2391950297768805 / 35184372088832).
Proof. cbn [get_distance set_distance sim_distance]. first [reflexivity | lra]. Qed.
Lemma d_A02_311g : get_distance (set_distance A02_c A02_e A02_lo A02_hi sim_init (1500645915137791 / 17592186044416)) = (1500645915137791 / 17592186044416).
Proof. cbn [get_distance set_distance sim_distance]. first [reflexivity | lra]. Qed.
Lemma d_A02_319g : get_distance (set_distance A02_c A02_e A02_lo A02_hi sim_init (4876447763994193 / 70368744177664)) = (4876447763994193 / 70368744177664).
Proof. cbn [get_distance set_distance sim_distance]. first [reflexivity | lra]. Qed.
Lemma d_A02_327g : get_distance (set_distance A02_c A02_e A02_lo A02_hi sim_init (3098456082964169 / 35184372088832)) = (3098456082964169 / 35184372088832).
Proof. cbn [get_distance set_distance sim_distance]. first [reflexivity | lra]. Qed.
Lemma d_A02_335g : get_distance (set_distance A02_c A02_e A02_lo A02_hi sim_init (1873414117324525 / 35184372088832)) = (1873414117324525 / 35184372088832).
Proof. cbn [get_distance set_distance sim_distance]. first [reflexivity | lra]. Qed.
Lemma d_A02_343g : get_distance (set_distance A02_c A02_e A02_lo A02_hi sim_init (1143765933701875 / 8796093022208)) = (1143765933701875 / 8796093022208).
Proof. cbn [get_distance set_distance sim_distance]. first [reflexivity | lra]. Qed.
Lemma d_A02_351g : get_distance (set_distance A02_c A02_e A02_lo A02_hi sim_init (2278707888490685 / 17592186044416)) = (2278707888490685 / 17592186044416).
Proof. cbn [get_distance set_distance sim_distance]. first [reflexivity | lra]. Qed.
Lemma d_A02_359g : get_distance (set_distance A02_c A02_e A02_lo A02_hi sim_init (620218364492203 / 4398046511104)) = (620218364492203 / 4398046511104).
Proof. cbn [get_distance set_distance sim_distance]. first [reflexivity | lra]. Qed.
Lemma d_A02_367g : get_distance (set_distance A02_c A02_e A02_lo A02_hi sim_init (5050760393341855 / 35184372088832)) = (5050760393341855 / 35184372088832).
Proof. cbn [get_distance set_distance sim_distance]. first [reflexivity | lra]. Qed.
Lemma d_A02_375g : get_distance (set_distance A02_c A02_e A02_lo A02_hi sim_init (5708130247241151 / 137438953472)) = (5708130247241151 / 137438953472).
Proof. cbn [get_distance set_distance sim_distance]. first [reflexivity | lra]. Qed.
Lemma d_A02_383g : get_distance (set_distance A02_c A02_e A02_lo A02_hi sim_init (3691023008675045 / 8796093022208)) = (3691023008675045 / 8796093022208).
Proof. cbn [get_distance set_distance sim_distance]. first [reflexivity | lra]. Qed.
Lemma d_A02_391g : get_distance (set_distance A02_c A02_e A02_lo A02_hi sim_init (851596514374387 / 8796093022208)) = (851596514374387 / 8796093022208).
Proof. cbn [get_distance set_distance sim_distance]. first [reflexivity | lra]. Qed.
Lemma d_A02_399g : get_distance (set_distance A02_c A02_e A02_lo A02_hi sim_init (2546220660031989 / 17592186044416)) = (2546220660031989 / 17592186044416).
Proof. cbn [get_distance set_distance sim_distance]. first [reflexivity | lra]. Qed.
Lemma d_A02_407g : get_distance (set_distance A02_c A02_e A02_lo A02_hi sim_init (5367314853230835 / 70368744177664)) = (5367314853230835 / 70368744177664).
Proof. cbn [get_distance set_distance sim_distance]. first [reflexivity | lra]. Qed.
Lemma d_A02_415g : get_distance (set_distance A02_c A02_e A02_lo A02_hi sim_init (24 / 1)) = (24 / 1).
Proof. cbn [get_distance set_distance sim_distance]. first [reflexivity | lra]. Qed.
Lemma d_A02_423g : get_distance (set_distance A02_c A02_e A02_lo A02_hi sim_init (319195755740675 / 549755813888)) = (319195755740675 / 549755813888).
Proof. cbn [get_distance set_distance sim_distance]. first [reflexivity | lra]. Qed.
Lemma d_A02_431g : get_distance (set_distance A02_c A02_e A02_lo A02_hi sim_init (1278002759725629 / 17592186044416)) = (1278002759725629 / 17592186044416).
Proof. cbn [get_distance set_distance sim_distance]. first [reflexivity | lra]. Qed.
Lemma d_A02_439g : get_distance (set_distance A02_c A02_e A02_lo A02_hi sim_init (1513875519791021 / 17592186044416)) = (1513875519791021 / 17592186044416).
Proof. cbn [get_distance set_distance sim_distance]. first [reflexivity | lra]. Qed.
Lemma d_A02_447g : get_distance (set_distance A02_c A02_e A02_lo A02_hi sim_init (4102010803670101 / 281474976710656)) = (4102010803670101 / 281474976710656).
Proof. cbn [get_distance set_distance sim_distance]. first [reflexivity | lra]. Qed.
Lemma d_A02_455g : get_distance (set_distance A02_c A02_e A02_lo A02_hi sim_init (308769333534765 / 4398046511104)) = (308769333534765 / 4398046511104).
Proof. cbn [get_distance set_distance sim_distance]. first [reflexivity | lra]. Qed.
Lemma d_A02_463g : get_distance (set_distance A02_c A02_e A02_lo A02_hi sim_init (801120656302947 / 281474976710656)) = (801120656302947 / 281474976710656).
Proof. cbn [get_distance set_distance sim_distance]. first [reflexivity | lra]. Qed.
Lemma d_A02_471g : get_distance (set_distance A02_c A02_e A02_lo A02_hi sim_init (22041986973989 / 68719476736)) = (22041986973989 / 68719476736).
Proof. cbn [get_distance set_distance sim_distance]. first [reflexivity | lra]. Qed.
Lemma d_A02_479g : get_distance (set_distance A02_c A02_e A02_lo A02_hi sim_init (7087857860981019 / 17592186044416)) = (7087857860981019 / 17592186044416).
Proof. cbn [get_distance set_distance sim_distance]. first [reflexivity | lra]. Qed.
Lemma d_A02_487g : get_distance (set_distance A02_c A02_e A02_lo A02_hi sim_init (621211750125407 / 4398046511104)) = (621211750125407 / 4398046511104).
Proof. cbn [get_distance set_distance sim_distance]. first [reflexivity | lra]. Qed.
Lemma d_A02_495g : get_distance (set_distance A02_c A02_e A02_lo A02_hi sim_init (4491613202592957 / 140737488355328)) = (4491613202592957 / 140737488355328).
Proof. cbn [get_distance set_distance sim_distance]. first [reflexivity | lra]. Qed.
Lemma d_A02_503g : get_distance (set_distance A02_c A02_e A02_lo A02_hi sim_init (8635265448218605 / 70368744177664)) = (8635265448218605 / 70368744177664).
Proof. cbn [get_distance set_distance sim_distance]. first [reflexivity | lra]. Qed.
Lemma d_A02_511g : get_distance (set_distance A02_c A02_e A02_lo A02_hi sim_init (5464930102993781 / 17592186044416)) = (5464930102993781 / 17592186044416).
Proof. cbn [get_distance set_distance sim_distance]. first [reflexivity | lra]. Qed.
Lemma d_A02_519g : get_distance (set_distance A02_c A02_e A02_lo A02_hi sim_init (6688013260038631 / 549755813888)) = (6688013260038631 / 549755813888).
Proof. cbn [get_distance set_distance sim_distance]. first [reflexivity | lra]. Qed.
Lemma d_A02_527g : get_distance (set_distance A02_c A02_e A02_lo A02_hi sim_init (5317212574852757 / 70368744177664)) = (5317212574852757 / 70368744177664).
Proof. cbn [get_distance set_distance sim_distance]. first [reflexivity | lra]. Qed.
Lemma d_A02_535g : get_distance (set_distance A02_c A02_e A02_lo A02_hi sim_init (2309422679707467 / 17592186044416)) = (2309422679707467 / 17592186044416).
Proof. cbn [get_distance set_distance sim_distance]. first [reflexivity | lra]. Qed.
Lemma d_A02_543g : get_distance (set_distance A02_c A02_e A02_lo A02_hi sim_init (6148302945689905 / 17592186044416)) = (6148302945689905 / 17592186044416).
Proof. cbn [get_distance set_distance sim_distance]. first [reflexivity | lra]. Qed.
Lemma d_A02_551g : get_distance (set_distance A02_c A02_e A02_lo A02_hi sim_init (969856183164651 / 17592186044416)) = (969856183164651 / 17592186044416).
Proof. cbn [get_distance set_distance sim_distance]. first [reflexivity | lra]. Qed.
Lemma d_A02_559g : get_distance (set_distance A02_c A02_e A02_lo A02_hi sim_init (204218827044535 / 549755813888)) = (204218827044535 / 549755813888).
Proof. cbn [get_distance set_distance sim_distance]. first [reflexivity | lra]. Qed.
Lemma d_A02_567g : get_distance (set_distance A02_c A02_e A02_lo A02_hi sim_init (3574971453875097 / 281474976710656)) = (3574971453875097 / 281474976710656).
Proof. cbn [get_distance set_distance sim_distance]. first [reflexivity | lra]. Qed.
Lemma d_A02_575g : get_distance (set_distance A02_c A02_e A02_lo A02_hi sim_init (3344633662092301 / 70368744177664)) = (3344633662092301 / 70368744177664).
Proof. cbn [get_distance set_distance sim_distance]. first [reflexivity | lra]. Qed.
Lemma d_A02_583g : get_distance (set_distance A02_c A02_e A02_lo A02_hi sim_init (1672546643088323 / 140737488355328)) = (1672546643088323 / 140737488355328).
Proof. cbn [get_distance set_distance sim_distance]. first [reflexivity | lra]. Qed.
Lemma d_A02_591g : get_distance (set_distance A02_c A02_e A02_lo A02_hi sim_init (5141747008840373 / 70368744177664)) = (5141747008840373 / 70368744177664).
Proof. cbn [get_distance set_distance sim_distance]. first [reflexivity | lra]. Qed.
Lemma d_A02_599g : get_distance (set_distance A02_c A02_e A02_lo A02_hi sim_init (4390166793035091 / 2305843009213693952)) = (4390166793035091 / 2305843009213693952).
Proof. cbn [get_distance set_distance sim_distance]. first [reflexivity | lra]. Qed.
Lemma d_A02_607g : get_distance (set_distance A02_c A02_e A02_lo A02_hi sim_init (2544776384533179 / 17592186044416)) = (2544776384533179 / 17592186044416).
Proof. cbn [get_distance set_distance sim_distance]. first [reflexivity | lra]. Qed.
Lemma d_A02_615g : get_distance (set_distance A02_c A02_e A02_lo A02_hi sim_init (7266123821094783 / 140737488355328)) = (7266123821094783 / 140737488355328).
Proof. cbn [get_distance set_distance sim_distance]. first [reflexivity | lra]. Qed.
Lemma d_A02_623g : get_distance (set_distance A02_c A02_e A02_lo A02_hi sim_init (877764814927347 / 8796093022208)) = (877764814927347 / 8796093022208).
Proof. cbn [get_distance set_distance sim_distance]. first [reflexivity | lra]. Qed.
Lemma d_A02_631g : get_distance (set_distance A02_c A02_e A02_lo A02_hi sim_init (2530928306853169 / 17592186044416)) = (2530928306853169 / 17592186044416).
Proof. cbn [get_distance set_distance sim_distance]. first [reflexivity | lra]. Qed.
Lemma d_A02_639g : get_distance (set_distance A02_c A02_e A02_lo A02_hi sim_init ((-1455473072359285) / 562949953421312)) = ((-1455473072359285) / 562949953421312).
Proof. cbn [get_distance set_distance sim_distance]. first [reflexivity | lra]. Qed.
Lemma d_A02_647g : get_distance (set_distance A02_c A02_e A02_lo A02_hi sim_init (1091444085234987 / 4398046511104)) = (1091444085234987 / 4398046511104).
Proof. cbn [get_distance set_distance sim_distance]. first [reflexivity | lra]. Qed.
Lemma d_A02_655g : get_distance (set_distance A02_c A02_e A02_lo A02_hi sim_init (4579607412190219 / 17592186044416)) = (4579607412190219 / 17592186044416).
Proof. cbn [get_distance set_distance sim_distance]. first [reflexivity | lra]. Qed.
Lemma d_A02_663g : get_distance (set_distance A02_c A02_e A02_lo A02_hi sim_init (780481830962773 / 35184372088832)) = (780481830962773 / 35184372088832).
Proof. cbn [get_distance set_distance sim_distance]. first [reflexivity | lra]. Qed.
Lemma r_A21_440 : rio_reads A21_c A21_e A21_lo A21_hi floor_volts ctol (Build_rio (Fin (1 / 202402253307310618352495346718917307049556649764142118356901358027430339567995346891960383701437124495187077864316811911389808737385793476867013399940738509921517424276566361364466907742093216341239767678472745068562007483424692698618103355649159556340810056512358769552333414615230502532186327508646006263307707741093494784)) (Fin (5629499534213121 / 1125899906842624)) (Fin (3715469692580659 / 1125899906842624)) (Fin (6 / 1)) (Fin (12 / 1)) true true true ((Fin (0 / 1)) :: (Fin (0 / 1)) :: (Fin (0 / 1)) :: (Fin (0 / 1)) :: (Fin (27 / 4)) :: (Fin (45 / 1)) :: nil)) (80 / 1).
Proof. apply (A21_rio_fin _ (1 / 202402253307310618352495346718917307049556649764142118356901358027430339567995346891960383701437124495187077864316811911389808737385793476867013399940738509921517424276566361364466907742093216341239767678472745068562007483424692698618103355649159556340810056512358769552333414615230502532186327508646006263307707741093494784)); [reflexivity | apply (A21_q_floor 1 202402253307310618352495346718917307049556649764142118356901358027430339567995346891960383701437124495187077864316811911389808737385793476867013399940738509921517424276566361364466907742093216341239767678472745068562007483424692698618103355649159556340810056512358769552333414615230502532186327508646006263307707741093494784 80 1); vm_compute; reflexivity]. Qed.
Lemma r_A21_831 : rio_reads A21_c A21_e A21_lo A21_hi floor_volts ctol (Build_rio (Fin (6726239388541349 / 4722366482869645213696)) (Fin (5 / 1)) (Fin (3715469692580659 / 1125899906842624)) (Fin (6 / 1)) (Fin (12 / 1)) true true true ((Fin (0 / 1)) :: (Fin (0 / 1)) :: (Fin (0 / 1)) :: (Fin (0 / 1)) :: (Fin (27 / 4)) :: (Fin (45 / 1)) :: nil)) (80 / 1).
Proof. apply (A21_rio_fin _ (6726239388541349 / 4722366482869645213696)); [reflexivity | apply (A21_q_floor 6726239388541349 4722366482869645213696 80 1); vm_compute; reflexivity]. Qed.
Lemma d_A21_673g : get_distance (set_distance A21_c A21_e A21_lo A21_hi sim_init (5 / 1)) = (5 / 1).
Proof. cbn [get_distance set_distance sim_distance]. first [reflexivity | lra]. Qed.
Lemma d_A21_681g : get_distance (set_distance A21_c A21_e A21_lo A21_hi sim_init (80 / 1)) = (80 / 1).
Proof. cbn [get_distance set_distance sim_distance]. first [reflexivity | lra]. Qed.
Lemma d_A21_689g : get_distance (set_distance A21_c A21_e A21_lo A21_hi sim_init ((-5) / 1)) = ((-5) / 1).
Proof. cbn [get_distance set_distance sim_distance]. first [reflexivity | lra]. Qed.
Lemma d_A21_697g : get_distance (set_distance A21_c A21_e A21_lo A21_hi sim_init (25 / 1)) = (25 / 1).
Proof. cbn [get_distance set_distance sim_distance]. first [reflexivity | lra]. Qed.
Lemma d_A21_705g : get_distance (set_distance A21_c A21_e A21_lo A21_hi sim_init (1000000000000000052504760255204420248704468581108159154915854115511802457988908195786371375080447864043704443832883878176942523235360430575644792184786706982848387200926575803737830233794788090059368953234970799945081119038967640880074652742780142494579258788820056842838115669472196386865459400540160 / 1)) = (1000000000000000052504760255204420248704468581108159154915854115511802457988908195786371375080447864043704443832883878176942523235360430575644792184786706982848387200926575803737830233794788090059368953234970799945081119038967640880074652742780142494579258788820056842838115669472196386865459400540160 / 1).
Proof. cbn [get_distance set_distance sim_distance]. first [reflexivity | lra]. Qed.
Lemma d_A21_714g : get_distance (set_distance A21_c A21_e A21_lo A21_hi sim_init (5629499534213121 / 70368744177664)) = (5629499534213121 / 70368744177664).
Proof. cbn [get_distance set_distance sim_distance]. first [reflexivity | lra]. Qed.
Lemma d_A21_722g : get_distance (set_distance A21_c A21_e A21_lo A21_hi sim_init (11 / 1)) = (11 / 1).
Proof. cbn [get_distance set_distance sim_distance]. first [reflexivity | lra]. Qed.
Lemma d_A21_730g : get_distance (set_distance A21_c A21_e A21_lo A21_hi sim_init (1200819285220089 / 140737488355328)) = (1200819285220089 / 140737488355328).
Proof. cbn [get_distance set_distance sim_distance]. first [reflexivity | lra]. Qed.
Lemma d_A21_738g : get_distance (set_distance A21_c A21_e A21_lo A21_hi sim_init (5378292673297265 / 70368744177664)) = (5378292673297265 / 70368744177664).
Proof. cbn [get_distance set_distance sim_distance]. first [reflexivity | lra]. Qed.
Lemma d_A21_746g : get_distance (set_distance A21_c A21_e A21_lo A21_hi sim_init (4845034034712211 / 70368744177664)) = (4845034034712211 / 70368744177664).
Proof. cbn [get_distance set_distance sim_distance]. first [reflexivity | lra]. Qed.
Lemma d_A21_754g : get_distance (set_distance A21_c A21_e A21_lo A21_hi sim_init (498284858283037 / 140737488355328)) = (498284858283037 / 140737488355328).
Proof. cbn [get_distance set_distance sim_distance]. first [reflexivity | lra]. Qed.
Lemma d_A21_762g : get_distance (set_distance A21_c A21_e A21_lo A21_hi sim_init (2492140727552655 / 140737488355328)) = (2492140727552655 / 140737488355328).
Proof. cbn [get_distance set_distance sim_distance]. first [reflexivity | lra]. Qed.
Lemma d_A21_770g : get_distance (set_distance A21_c A21_e A21_lo A21_hi sim_init (4 / 1)) = (4 / 1).
Proof. cbn [get_distance set_distance sim_distance]. first [reflexivity | lra]. Qed.
Lemma d_A21_778g : get_distance (set_distance A21_c A21_e A21_lo A21_hi sim_init (1197973488939727 / 17592186044416)) = (1197973488939727 / 17592186044416).
Proof. cbn [get_distance set_distance sim_distance]. first [reflexivity | lra]. Qed.
Lemma d_A21_786g : get_distance (set_distance A21_c A21_e A21_lo A21_hi sim_init (2644610264326435 / 140737488355328)) = (2644610264326435 / 140737488355328).
Proof. cbn [get_distance set_distance sim_distance]. first [reflexivity | lra]. Qed.
Lemma d_A21_794g : get_distance (set_distance A21_c A21_e A21_lo A21_hi sim_init (4091049399251119 / 140737488355328)) = (4091049399251119 / 140737488355328).
Proof. cbn [get_distance set_distance sim_distance]. first [reflexivity | lra]. Qed.
Lemma d_A21_802g : get_distance (set_distance A21_c A21_e A21_lo A21_hi sim_init (2878738725540581 / 17592186044416)) = (2878738725540581 / 17592186044416).
Proof. cbn [get_distance set_distance sim_distance]. first [reflexivity | lra]. Qed.
Lemma d_A21_810g : get_distance (set_distance A21_c A21_e A21_lo A21_hi sim_init (613150133857673 / 4398046511104)) = (613150133857673 / 4398046511104).
Proof. cbn [get_distance set_distance sim_distance]. first [reflexivity | lra]. Qed.
Lemma d_A21_818g : get_distance (set_distance A21_c A21_e A21_lo A21_hi sim_init (2465922536672661 / 35184372088832)) = (2465922536672661 / 35184372088832).
Proof. cbn [get_distance set_distance sim_distance]. first [reflexivity | lra]. Qed.
Lemma d_A21_826g : get_distance (set_distance A21_c A21_e A21_lo A21_hi sim_init (2358508085218839 / 35184372088832)) = (2358508085218839 / 35184372088832).
Proof. cbn [get_distance set_distance sim_distance]. first [reflexivity | lra]. Qed.
Lemma d_A21_834g : get_distance (set_distance A21_c A21_e A21_lo A21_hi sim_init (1473854617445141 / 1125899906842624)) = (1473854617445141 / 1125899906842624).
Proof. cbn [get_distance set_distance sim_distance]. first [reflexivity | lra]. Qed.
Lemma d_A21_842g : get_distance (set_distance A21_c A21_e A21_lo A21_hi sim_init (1165882549804507 / 140737488355328)) = (1165882549804507 / 140737488355328).
Proof. cbn [get_distance set_distance sim_distance]. first [reflexivity | lra]. Qed.
Lemma d_A21_850g : get_distance (set_distance A21_c A21_e A21_lo A21_hi sim_init (2569575568810099 / 35184372088832)) = (2569575568810099 / 35184372088832).
Proof. cbn [get_distance set_distance sim_distance]. first [reflexivity | lra]. Qed.
Lemma d_A21_858g : get_distance (set_distance A21_c A21_e A21_lo A21_hi sim_init (8797847478313621 / 140737488355328)) = (8797847478313621 / 140737488355328).
Proof. cbn [get_distance set_distance sim_distance]. first [reflexivity | lra]. Qed.
Lemma d_A21_866g : get_distance (set_distance A21_c A21_e A21_lo A21_hi sim_init (2661155068907275 / 17592186044416)) = (2661155068907275 / 17592186044416).
Proof. cbn [get_distance set_distance sim_distance]. first [reflexivity | lra]. Qed.
Lemma d_A21_874g : get_distance (set_distance A21_c A21_e A21_lo A21_hi sim_init (8808190555392571 / 281474976710656)) = (8808190555392571 / 281474976710656).
Proof. cbn [get_distance set_distance sim_distance]. first [reflexivity | lra]. Qed.
Lemma d_A21_882g : get_distance (set_distance A21_c A21_e A21_lo A21_hi sim_init (808065589029505 / 4398046511104)) = (808065589029505 / 4398046511104).
Proof. cbn [get_distance set_distance sim_distance]. first [reflexivity | lra]. Qed.
Lemma d_A21_890g : get_distance (set_distance A21_c A21_e A21_lo A21_hi sim_init (2903512780807797 / 140737488355328)) = (2903512780807797 / 140737488355328).
Proof. cbn [get_distance set_distance sim_distance]. first [reflexivity | lra]. Qed.
Lemma d_A21_898g : get_distance (set_distance A21_c A21_e A21_lo A21_hi sim_init (2635652973187677 / 70368744177664)) = (2635652973187677 / 70368744177664).
Proof. cbn [get_distance set_distance sim_distance]. first [reflexivity | lra]. Qed.
Lemma d_A21_906g : get_distance (set_distance A21_c A21_e A21_lo A21_hi sim_init (1527104858260765 / 35184372088832)) = (1527104858260765 / 35184372088832).
Proof. cbn [get_distance set_distance sim_distance]. first [reflexivity | lra]. Qed.
Lemma d_A21_914g : get_distance (set_distance A21_c A21_e A21_lo A21_hi sim_init (2493314420201601 / 70368744177664)) = (2493314420201601 / 70368744177664).
Proof. cbn [get_distance set_distance sim_distance]. first [reflexivity | lra]. Qed.
Lemma d_A21_922g : get_distance (set_distance A21_c A21_e A21_lo A21_hi sim_init (3609195279857059 / 70368744177664)) = (3609195279857059 / 70368744177664).
Proof. cbn [get_distance set_distance sim_distance]. first [reflexivity | lra]. Qed.
Lemma d_A21_930g : get_distance (set_distance A21_c A21_e A21_lo A21_hi sim_init (1545891723279311 / 140737488355328)) = (1545891723279311 / 140737488355328).
Proof. cbn [get_distance set_distance sim_distance]. first [reflexivity | lra]. Qed.
Lemma d_A21_938g : get_distance (set_distance A21_c A21_e A21_lo A21_hi sim_init (5458515664370013 / 70368744177664)) = (5458515664370013 / 70368744177664).
Proof. cbn [get_distance set_distance sim_distance]. first [reflexivity | lra]. Qed.
Lemma d_A21_946g : get_distance (set_distance A21_c A21_e A21_lo A21_hi sim_init (4760306783263873 / 281474976710656)) = (4760306783263873 / 281474976710656).
Proof. cbn [get_distance set_distance sim_distance]. first [reflexivity | lra]. Qed.
Lemma d_A21_954g : get_distance (set_distance A21_c A21_e A21_lo A21_hi sim_init (121539599332837 / 4398046511104)) = (121539599332837 / 4398046511104).
Proof. cbn [get_distance set_distance sim_distance]. first [reflexivity | lra]. Qed.
Lemma d_A21_962g : get_distance (set_distance A21_c A21_e A21_lo A21_hi sim_init (8247258469531477 / 140737488355328)) = (8247258469531477 / 140737488355328).
Proof. cbn [get_distance set_distance sim_distance]. first [reflexivity | lra]. Qed.
Lemma d_A21_970g : get_distance (set_distance A21_c A21_e A21_lo A21_hi sim_init (1888378810541431 / 70368744177664)) = (1888378810541431 / 70368744177664).
Proof. cbn [get_distance set_distance sim_distance]. first [reflexivity | lra]. Qed.
Lemma d_A21_978g : get_distance (set_distance A21_c A21_e A21_lo A21_hi sim_init (4823838430217165 / 140737488355328)) = (4823838430217165 / 140737488355328).
Proof. cbn [get_distance set_distance sim_distance]. first [reflexivity | lra]. Qed.
Lemma d_A21_986g : get_distance (set_distance A21_c A21_e A21_lo A21_hi sim_init (3392683163255915 / 70368744177664)) = (3392683163255915 / 70368744177664).
Proof. cbn [get_distance set_distance sim_distance]. first [reflexivity | lra]. Qed.
Lemma d_A21_994g : get_distance (set_distance A21_c A21_e A21_lo A21_hi sim_init (3581585770035561 / 70368744177664)) = (3581585770035561 / 70368744177664).
Proof. cbn [get_distance set_distance sim_distance]. first [reflexivity | lra]. Qed.
Lemma d_A21_1002g : get_distance (set_distance A21_c A21_e A21_lo A21_hi sim_init (1173861270477303 / 17592186044416)) = (1173861270477303 / 17592186044416).
Proof. cbn [get_distance set_distance sim_distance]. first [reflexivity | lra]. Qed.
Lemma d_A21_1010g : get_distance (set_distance A21_c A21_e A21_lo A21_hi sim_init (882494527350899 / 1125899906842624)) = (882494527350899 / 1125899906842624).
Proof. cbn [get_distance set_distance sim_distance]. first [reflexivity | lra]. Qed.
Lemma d_A21_1018g : get_distance (set_distance A21_c A21_e A21_lo A21_hi sim_init (51886034413869 / 562949953421312)) = (51886034413869 / 562949953421312).
Proof. cbn [get_distance set_distance sim_distance]. first [reflexivity | lra]. Qed.
Lemma d_A21_1026g : get_distance (set_distance A21_c A21_e A21_lo A21_hi sim_init (8886143745066165 / 281474976710656)) = (8886143745066165 / 281474976710656).
Proof. cbn [get_distance set_distance sim_distance]. first [reflexivity | lra]. Qed.
Lemma d_A21_1034g : get_distance (set_distance A21_c A21_e A21_lo A21_hi sim_init ((-2597284438827609) / 1125899906842624)) = ((-2597284438827609) / 1125899906842624).
Proof. cbn [get_distance set_distance sim_distance]. first [reflexivity | lra]. Qed.
Lemma d_A21_1042g : get_distance (set_distance A21_c A21_e A21_lo A21_hi sim_init (2736373562351293 / 140737488355328)) = (2736373562351293 / 140737488355328).
Proof. cbn [get_distance set_distance sim_distance]. first [reflexivity | lra]. Qed.
Lemma d_A21_1050g : get_distance (set_distance A21_c A21_e A21_lo A21_hi sim_init (8119806102413273 / 281474976710656)) = (8119806102413273 / 281474976710656).
Proof. cbn [get_distance set_distance sim_distance]. first [reflexivity | lra]. Qed.
Lemma d_A21_1058g : get_distance (set_distance A21_c A21_e A21_lo A21_hi sim_init (2690147689650565 / 140737488355328)) = (2690147689650565 / 140737488355328).
Proof. cbn [get_distance set_distance sim_distance]. first [reflexivity | lra]. Qed.
Lemma d_A21_1066g : get_distance (set_distance A21_c A21_e A21_lo A21_hi sim_init (1734798427717955 / 562949953421312)) = (1734798427717955 / 562949953421312).
Proof. cbn [get_distance set_distance sim_distance]. first [reflexivity | lra]. Qed.
Lemma d_A21_1074g : get_distance (set_distance A21_c A21_e A21_lo A21_hi sim_init (2279083867796217 / 70368744177664)) = (2279083867796217 / 70368744177664).
Proof. cbn [get_distance set_distance sim_distance]. first [reflexivity | lra]. Qed.
Lemma d_A21_1082g : get_distance (set_distance A21_c A21_e A21_lo A21_hi sim_init (2285778318711089 / 17592186044416)) = (2285778318711089 / 17592186044416).
Proof. cbn [get_distance set_distance sim_distance]. first [reflexivity | lra]. Qed.
Lemma d_A21_1090g : get_distance (set_distance A21_c A21_e A21_lo A21_hi sim_init (7534750545257531 / 140737488355328)) = (7534750545257531 / 140737488355328).
Proof. cbn [get_distance set_distance sim_distance]. first [reflexivity | lra]. Qed.
Lemma d_A21_1098g : get_distance (set_distance A21_c A21_e A21_lo A21_hi sim_init (64 / 1)) = (64 / 1).
Proof. cbn [get_distance set_distance sim_distance]. first [reflexivity | lra]. Qed.
Lemma d_A21_1106g : get_distance (set_distance A21_c A21_e A21_lo A21_hi sim_init (153612047854651 / 2199023255552)) = (153612047854651 / 2199023255552).
Proof. cbn [get_distance set_distance sim_distance]. first [reflexivity | lra]. Qed.
Lemma d_A21_1114g : get_distance (set_distance A21_c A21_e A21_lo A21_hi sim_init (679425389603735 / 4398046511104)) = (679425389603735 / 4398046511104).
Proof. cbn [get_distance set_distance sim_distance]. first [reflexivity | lra]. Qed.
Lemma d_A21_1122g : get_distance (set_distance A21_c A21_e A21_lo A21_hi sim_init ((-2868592983343709) / 2251799813685248)) = ((-2868592983343709) / 2251799813685248).
Proof. cbn [get_distance set_distance sim_distance]. first [reflexivity | lra]. Qed.
Lemma d_A21_1130g : get_distance (set_distance A21_c A21_e A21_lo A21_hi sim_init ((-7874144502292349) / 2251799813685248)) = ((-7874144502292349) / 2251799813685248).
Proof. cbn [get_distance set_distance sim_distance]. first [reflexivity | lra]. Qed.
Lemma d_A21_1138g : get_distance (set_distance A21_c A21_e A21_lo A21_hi sim_init (1296848083308559 / 17592186044416)) = (1296848083308559 / 17592186044416).
Proof. cbn [get_distance set_distance sim_distance]. first [reflexivity | lra]. Qed.
Lemma d_A21_1146g : get_distance (set_distance A21_c A21_e A21_lo A21_hi sim_init (609104189580967 / 8796093022208)) = (609104189580967 / 8796093022208).
Proof. cbn [get_distance set_distance sim_distance]. first [reflexivity | lra]. Qed.
Lemma d_A21_1154g : get_distance (set_distance A21_c A21_e A21_lo A21_hi sim_init (500866931824705 / 2199023255552)) = (500866931824705 / 2199023255552).
Proof. cbn [get_distance set_distance sim_distance]. first [reflexivity | lra]. Qed.
Lemma d_A21_1162g : get_distance (set_distance A21_c A21_e A21_lo A21_hi sim_init (4241311399874209 / 562949953421312)) = (4241311399874209 / 562949953421312).
Proof. cbn [get_distance set_distance sim_distance]. first [reflexivity | lra]. Qed.
Lemma d_A21_1170g : get_distance (set_distance A21_c A21_e A21_lo A21_hi sim_init (6341815129113751 / 281474976710656)) = (6341815129113751 / 281474976710656).
Proof. cbn [get_distance set_distance sim_distance]. first [reflexivity | lra]. Qed.
Lemma d_A21_1178g : get_distance (set_distance A21_c A21_e A21_lo A21_hi sim_init (5584594444363799 / 70368744177664)) = (5584594444363799 / 70368744177664).
Proof. cbn [get_distance set_distance sim_distance]. first [reflexivity | lra]. Qed.
Lemma d_A21_1186g : get_distance (set_distance A21_c A21_e A21_lo A21_hi sim_init (5810129166698861 / 562949953421312)) = (5810129166698861 / 562949953421312).
Proof. cbn [get_distance set_distance sim_distance]. first [reflexivity | lra]. Qed.
Lemma d_A21_1194g : get_distance (set_distance A21_c A21_e A21_lo A21_hi sim_init (2348679584778141 / 35184372088832)) = (2348679584778141 / 35184372088832).
Proof. cbn [get_distance set_distance sim_distance]. first [reflexivity | lra]. Qed.
Lemma d_A21_1202g : get_distance (set_distance A21_c A21_e A21_lo A21_hi sim_init (124 / 1)) = (124 / 1).
Proof. cbn [get_distance set_distance sim_distance]. first [reflexivity | lra]. Qed.
Lemma d_A21_1210g : get_distance (set_distance A21_c A21_e A21_lo A21_hi sim_init (3742840713160109 / 70368744177664)) = (3742840713160109 / 70368744177664).
Proof. cbn [get_distance set_distance sim_distance]. first [reflexivity | lra]. Qed.
Lemma d_A21_1218g : get_distance (set_distance A21_c A21_e A21_lo A21_hi sim_init (7969549291951719 / 2251799813685248)) = (7969549291951719 / 2251799813685248).
Proof. cbn [get_distance set_distance sim_distance]. first [reflexivity | lra]. Qed.
Lemma d_A21_1226g : get_distance (set_distance A21_c A21_e A21_lo A21_hi sim_init (7370015867779443 / 140737488355328)) = (7370015867779443 / 140737488355328).
Proof. cbn [get_distance set_distance sim_distance]. first [reflexivity | lra]. Qed.
Lemma d_A21_1234g : get_distance (set_distance A21_c A21_e A21_lo A21_hi sim_init (1056051091670545 / 17592186044416)) = (1056051091670545 / 17592186044416).
Proof. cbn [get_distance set_distance sim_distance]. first [reflexivity | lra]. Qed.
Lemma d_A21_1242g : get_distance (set_distance A21_c A21_e A21_lo A21_hi sim_init (1145117538673527 / 2251799813685248)) = (1145117538673527 / 2251799813685248).
Proof. cbn [get_distance set_distance sim_distance]. first [reflexivity | lra]. Qed.
Lemma d_A21_1250g : get_distance (set_distance A21_c A21_e A21_lo A21_hi sim_init (6758047003481217 / 281474976710656)) = (6758047003481217 / 281474976710656).
Proof. cbn [get_distance set_distance sim_distance]. first [reflexivity | lra]. Qed.
Lemma d_A21_1258g : get_distance (set_distance A21_c A21_e A21_lo A21_hi sim_init (6518120507776319 / 562949953421312)) = (6518120507776319 / 562949953421312).
Proof. cbn [get_distance set_distance sim_distance]. first [reflexivity | lra]. Qed.
Lemma d_A21_1266g : get_distance (set_distance A21_c A21_e A21_lo A21_hi sim_init (4144409258581273 / 35184372088832)) = (4144409258581273 / 35184372088832).
Proof. cbn [get_distance set_distance sim_distance]. first [reflexivity | lra]. Qed.
Lemma d_A21_1274g : get_distance (set_distance A21_c A21_e A21_lo A21_hi sim_init (2433112762319183 / 35184372088832)) = (2433112762319183 / 35184372088832).
Proof. cbn [get_distance set_distance sim_distance]. first [reflexivity | lra]. Qed.
Lemma d_A21_1282g : get_distance (set_distance A21_c A21_e A21_lo A21_hi sim_init (535200736962853 / 8796093022208)) = (535200736962853 / 8796093022208).
Proof. cbn [get_distance set_distance sim_distance]. first [reflexivity | lra]. Qed.
Lemma d_A21_1290g : get_distance (set_distance A21_c A21_e A21_lo A21_hi sim_init (3008229188813823 / 17592186044416)) = (3008229188813823 / 17592186044416).
Proof. cbn [get_distance set_distance sim_distance]. first [reflexivity | lra]. Qed.
Lemma d_A21_1298g : get_distance (set_distance A21_c A21_e A21_lo A21_hi sim_init (8753449903824291 / 140737488355328)) = (8753449903824291 / 140737488355328).
Proof. cbn [get_distance set_distance sim_distance]. first [reflexivity | lra]. Qed.
Lemma d_A21_1306g : get_distance (set_distance A21_c A21_e A21_lo A21_hi sim_init (57294686746285 / 1099511627776)) = (57294686746285 / 1099511627776).
Proof. cbn [get_distance set_distance sim_distance]. first [reflexivity | lra]. Qed.
Lemma d_A21_1314g : get_distance (set_distance A21_c A21_e A21_lo A21_hi sim_init (88 / 1)) = (88 / 1).
Proof. cbn [get_distance set_distance sim_distance]. first [reflexivity | lra]. Qed.
Lemma d_A21_1322g : get_distance (set_distance A21_c A21_e A21_lo A21_hi sim_init (121 / 1)) = (121 / 1).
Proof. cbn [get_distance set_distance sim_distance]. first [reflexivity | lra]. Qed.
Lemma d_A21_1330g : get_distance (set_distance A21_c A21_e A21_lo A21_hi sim_init (601756868923089 / 8796093022208)) = (601756868923089 / 8796093022208).
Proof. cbn [get_distance set_distance sim_distance]. first [reflexivity | lra]. Qed.
Lemma r_A41_866 : rio_reads A41_c A41_e A41_lo A41_hi floor_volts ctol (Build_rio (Fin (1 / 44942328371557897693232629769725618340449424473557664318357520289433168951375240783177119330601884005280028469967848339414697442203604155623211857659868531094441973356216371319075554900311523529863270738021251442209537670585615720368478277635206809290837627671146574559986811484619929076208839082406056034304)) (Fin (10 / 1)) (Fin (3715469692580659 / 1125899906842624)) (Fin (6 / 1)) (Fin (12 / 1)) true true true ((Fin (0 / 1)) :: (Fin (0 / 1)) :: (Fin (0 / 1)) :: (Fin (0 / 1)) :: (Fin (27 / 4)) :: (Fin (45 / 1)) :: nil)) (35 / 1).
Proof. apply (A41_rio_fin _ (1 / 44942328371557897693232629769725618340449424473557664318357520289433168951375240783177119330601884005280028469967848339414697442203604155623211857659868531094441973356216371319075554900311523529863270738021251442209537670585615720368478277635206809290837627671146574559986811484619929076208839082406056034304)); [reflexivity | apply (A41_q_floor 1 44942328371557897693232629769725618340449424473557664318357520289433168951375240783177119330601884005280028469967848339414697442203604155623211857659868531094441973356216371319075554900311523529863270738021251442209537670585615720368478277635206809290837627671146574559986811484619929076208839082406056034304 35 1); vm_compute; reflexivity]. Qed.
Lemma r_A41_1264 : rio_reads A41_c A41_e A41_lo A41_hi floor_volts ctol (Build_rio (Fin (2694643097579525 / 1180591620717411303424)) (Fin (9103 / 1024)) (Fin (61 / 32)) (Fin (5313 / 1024)) (Fin (3105 / 256)) true true false ((Fin (835 / 1024)) :: (Fin (433 / 256)) :: (Fin (241 / 1024)) :: (Fin (129367 / 1024)) :: (Fin (4265 / 512)) :: (Fin ((-63) / 4)) :: nil)) (35 / 1).
Proof. apply (A41_rio_fin _ (2694643097579525 / 1180591620717411303424)); [reflexivity | apply (A41_q_floor 2694643097579525 1180591620717411303424 35 1); vm_compute; reflexivity]. Qed.
Lemma d_A41_1339g : get_distance (set_distance A41_c A41_e A41_lo A41_hi sim_init (5 / 1)) = (5 / 1).
Proof. cbn [get_distance set_distance sim_distance]. first [reflexivity | lra]. Qed.
Lemma d_A41_1347g : get_distance (set_distance A41_c A41_e A41_lo A41_hi sim_init (80 / 1)) = (80 / 1).
Proof. cbn [get_distance set_distance sim_distance]. first [reflexivity | lra]. Qed.
Lemma d_A41_1355g : get_distance (set_distance A41_c A41_e A41_lo A41_hi sim_init ((-5) / 1)) = ((-5) / 1).
Proof. cbn [get_distance set_distance sim_distance]. first [reflexivity | lra]. Qed.
Lemma d_A41_1363g : get_distance (set_distance A41_c A41_e A41_lo A41_hi sim_init (25 / 1)) = (25 / 1).
Proof. cbn [get_distance set_distance sim_distance]. first [reflexivity | lra]. Qed.
Lemma d_A41_1371g : get_distance (set_distance A41_c A41_e A41_lo A41_hi sim_init (1000000000000000052504760255204420248704468581108159154915854115511802457988908195786371375080447864043704443832883878176942523235360430575644792184786706982848387200926575803737830233794788090059368953234970799945081119038967640880074652742780142494579258788820056842838115669472196386865459400540160 / 1)) = (1000000000000000052504760255204420248704468581108159154915854115511802457988908195786371375080447864043704443832883878176942523235360430575644792184786706982848387200926575803737830233794788090059368953234970799945081119038967640880074652742780142494579258788820056842838115669472196386865459400540160 / 1).
Proof. cbn [get_distance set_distance sim_distance]. first [reflexivity | lra]. Qed.
Lemma d_A41_1380g : get_distance (set_distance A41_c A41_e A41_lo A41_hi sim_init (4925812092436481 / 140737488355328)) = (4925812092436481 / 140737488355328).
Proof. cbn [get_distance set_distance sim_distance]. first [reflexivity | lra]. Qed.
Lemma d_A41_1388g : get_distance (set_distance A41_c A41_e A41_lo A41_hi sim_init (5 / 1)) = (5 / 1).
Proof. cbn [get_distance set_distance sim_distance]. first [reflexivity | lra]. Qed.
Lemma d_A41_1396g : get_distance (set_distance A41_c A41_e A41_lo A41_hi sim_init (6817559301938881 / 281474976710656)) = (6817559301938881 / 281474976710656).
Proof. cbn [get_distance set_distance sim_distance]. first [reflexivity | lra]. Qed.
Lemma d_A41_1404g : get_distance (set_distance A41_c A41_e A41_lo A41_hi sim_init (3334621410261577 / 140737488355328)) = (3334621410261577 / 140737488355328).
Proof. cbn [get_distance set_distance sim_distance]. first [reflexivity | lra]. Qed.
Lemma d_A41_1412g : get_distance (set_distance A41_c A41_e A41_lo A41_hi sim_init (1920613141770127 / 140737488355328)) = (1920613141770127 / 140737488355328).
Proof. cbn [get_distance set_distance sim_distance]. first [reflexivity | lra]. Qed.
Lemma d_A41_1420g : get_distance (set_distance A41_c A41_e A41_lo A41_hi sim_init (2333211582662127 / 562949953421312)) = (2333211582662127 / 562949953421312).
Proof. cbn [get_distance set_distance sim_distance]. first [reflexivity | lra]. Qed.
Lemma d_A41_1428g : get_distance (set_distance A41_c A41_e A41_lo A41_hi sim_init (2274023710109361 / 281474976710656)) = (2274023710109361 / 281474976710656).
Proof. cbn [get_distance set_distance sim_distance]. first [reflexivity | lra]. Qed.
Lemma d_A41_1436g : get_distance (set_distance A41_c A41_e A41_lo A41_hi sim_init (4527709531490629 / 281474976710656)) = (4527709531490629 / 281474976710656).
Proof. cbn [get_distance set_distance sim_distance]. first [reflexivity | lra]. Qed.
Lemma d_A41_1444g : get_distance (set_distance A41_c A41_e A41_lo A41_hi sim_init (1293576699434455 / 70368744177664)) = (1293576699434455 / 70368744177664).
Proof. cbn [get_distance set_distance sim_distance]. first [reflexivity | lra]. Qed.
Lemma d_A41_1452g : get_distance (set_distance A41_c A41_e A41_lo A41_hi sim_init (4551964710063201 / 140737488355328)) = (4551964710063201 / 140737488355328).
Proof. cbn [get_distance set_distance sim_distance]. first [reflexivity | lra]. Qed.
Lemma d_A41_1460g : get_distance (set_distance A41_c A41_e A41_lo A41_hi sim_init (580946576027611 / 17592186044416)) = (580946576027611 / 17592186044416).
Proof. cbn [get_distance set_distance sim_distance]. first [reflexivity | lra]. Qed.
Lemma d_A41_1468g : get_distance (set_distance A41_c A41_e A41_lo A41_hi sim_init ((-4748792423372811) / 2251799813685248)) = ((-4748792423372811) / 2251799813685248).
Proof. cbn [get_distance set_distance sim_distance]. first [reflexivity | lra]. Qed.
Lemma d_A41_1476g : get_distance (set_distance A41_c A41_e A41_lo A41_hi sim_init (8743620665609407 / 281474976710656)) = (8743620665609407 / 281474976710656).
Proof. cbn [get_distance set_distance sim_distance]. first [reflexivity | lra]. Qed.
Lemma d_A41_1484g : get_distance (set_distance A41_c A41_e A41_lo A41_hi sim_init (0 / 1)) = (0 / 1).
Proof. cbn [get_distance set_distance sim_distance]. first [reflexivity | lra]. Qed.
Lemma d_A41_1492g : get_distance (set_distance A41_c A41_e A41_lo A41_hi sim_init (2325701397364667 / 140737488355328)) = (2325701397364667 / 140737488355328).
Proof. cbn [get_distance set_distance sim_distance]. first [reflexivity | lra]. Qed.
Lemma d_A41_1500g : get_distance (set_distance A41_c A41_e A41_lo A41_hi sim_init (1359448848730839 / 140737488355328)) = (1359448848730839 / 140737488355328).
Proof. cbn [get_distance set_distance sim_distance]. first [reflexivity | lra]. Qed.
Lemma d_A41_1508g : get_distance (set_distance A41_c A41_e A41_lo A41_hi sim_init (6305546989726583 / 281474976710656)) = (6305546989726583 / 281474976710656).
Proof. cbn [get_distance set_distance sim_distance]. first [reflexivity | lra]. Qed.
Lemma d_A41_1516g : get_distance (set_distance A41_c A41_e A41_lo A41_hi sim_init (7920638492967881 / 562949953421312)) = (7920638492967881 / 562949953421312).
Proof. cbn [get_distance set_distance sim_distance]. first [reflexivity | lra]. Qed.
Lemma d_A41_1524g : get_distance (set_distance A41_c A41_e A41_lo A41_hi sim_init (651683794872843 / 17592186044416)) = (651683794872843 / 17592186044416).
Proof. cbn [get_distance set_distance sim_distance]. first [reflexivity | lra]. Qed.
Lemma d_A41_1532g : get_distance (set_distance A41_c A41_e A41_lo A41_hi sim_init (2586513469368067 / 281474976710656)) = (2586513469368067 / 281474976710656).
Proof. cbn [get_distance set_distance sim_distance]. first [reflexivity | lra]. Qed.
Lemma d_A41_1540g : get_distance (set_distance A41_c A41_e A41_lo A41_hi sim_init (2390698640002115 / 70368744177664)) = (2390698640002115 / 70368744177664).
Proof. cbn [get_distance set_distance sim_distance]. first [reflexivity | lra]. Qed.
Lemma d_A41_1548g : get_distance (set_distance A41_c A41_e A41_lo A41_hi sim_init (6572973787306293 / 140737488355328)) = (6572973787306293 / 140737488355328).
Proof. cbn [get_distance set_distance sim_distance]. first [reflexivity | lra]. Qed.
Lemma d_A41_1556g : get_distance (set_distance A41_c A41_e A41_lo A41_hi sim_init (2286694602133689 / 70368744177664)) = (2286694602133689 / 70368744177664).
Proof. cbn [get_distance set_distance sim_distance]. first [reflexivity | lra]. Qed.
Lemma d_A41_1564g : get_distance (set_distance A41_c A41_e A41_lo A41_hi sim_init (8258084888947463 / 281474976710656)) = (8258084888947463 / 281474976710656).
Proof. cbn [get_distance set_distance sim_distance]. first [reflexivity | lra]. Qed.
Lemma d_A41_1572g : get_distance (set_distance A41_c A41_e A41_lo A41_hi sim_init (3959645144195733 / 562949953421312)) = (3959645144195733 / 562949953421312).
Proof. cbn [get_distance set_distance sim_distance]. first [reflexivity | lra]. Qed.
Lemma d_A41_1580g : get_distance (set_distance A41_c A41_e A41_lo A41_hi sim_init (226555353388173 / 17592186044416)) = (226555353388173 / 17592186044416).
Proof. cbn [get_distance set_distance sim_distance]. first [reflexivity | lra]. Qed.
Lemma d_A41_1588g : get_distance (set_distance A41_c A41_e A41_lo A41_hi sim_init (4126673852283671 / 140737488355328)) = (4126673852283671 / 140737488355328).
Proof. cbn [get_distance set_distance sim_distance]. first [reflexivity | lra]. Qed.
Lemma d_A41_1596g : get_distance (set_distance A41_c A41_e A41_lo A41_hi sim_init (1312615221932385 / 140737488355328)) = (1312615221932385 / 140737488355328).
Proof. cbn [get_distance set_distance sim_distance]. first [reflexivity | lra]. Qed.
Lemma d_A41_1604g : get_distance (set_distance A41_c A41_e A41_lo A41_hi sim_init (5490693704998747 / 281474976710656)) = (5490693704998747 / 281474976710656).
Proof. cbn [get_distance set_distance sim_distance]. first [reflexivity | lra]. Qed.
Lemma d_A41_1612g : get_distance (set_distance A41_c A41_e A41_lo A41_hi sim_init (6143428663957821 / 281474976710656)) = (6143428663957821 / 281474976710656).
Proof. cbn [get_distance set_distance sim_distance]. first [reflexivity | lra]. Qed.
Lemma d_A41_1620g : get_distance (set_distance A41_c A41_e A41_lo A41_hi sim_init (7522062772361535 / 562949953421312)) = (7522062772361535 / 562949953421312).
Proof. cbn [get_distance set_distance sim_distance]. first [reflexivity | lra]. Qed.
Lemma d_A41_1628g : get_distance (set_distance A41_c A41_e A41_lo A41_hi sim_init (2737077099402283 / 140737488355328)) = (2737077099402283 / 140737488355328).
Proof. cbn [get_distance set_distance sim_distance]. first [reflexivity | lra]. Qed.
Lemma d_A41_1636g : get_distance (set_distance A41_c A41_e A41_lo A41_hi sim_init (6264318099939939 / 2251799813685248)) = (6264318099939939 / 2251799813685248).
Proof. cbn [get_distance set_distance sim_distance]. first [reflexivity | lra]. Qed.
Lemma d_A41_1644g : get_distance (set_distance A41_c A41_e A41_lo A41_hi sim_init (6288740840116945 / 140737488355328)) = (6288740840116945 / 140737488355328).
Proof. cbn [get_distance set_distance sim_distance]. first [reflexivity | lra]. Qed.
Lemma d_A41_1652g : get_distance (set_distance A41_c A41_e A41_lo A41_hi sim_init (4663304165276373 / 68719476736)) = (4663304165276373 / 68719476736).
Proof. cbn [get_distance set_distance sim_distance]. first [reflexivity | lra]. Qed.
Lemma d_A41_1660g : get_distance (set_distance A41_c A41_e A41_lo A41_hi sim_init ((-3) / 1)) = ((-3) / 1).
Proof. cbn [get_distance set_distance sim_distance]. first [reflexivity | lra]. Qed.
Lemma d_A41_1668g : get_distance (set_distance A41_c A41_e A41_lo A41_hi sim_init (3162294721846373 / 140737488355328)) = (3162294721846373 / 140737488355328).
Proof. cbn [get_distance set_distance sim_distance]. first [reflexivity | lra]. Qed.
Lemma d_A41_1676g : get_distance (set_distance A41_c A41_e A41_lo A41_hi sim_init (5115142301399331 / 140737488355328)) = (5115142301399331 / 140737488355328).
Proof. cbn [get_distance set_distance sim_distance]. first [reflexivity | lra]. Qed.
Lemma d_A41_1684g : get_distance (set_distance A41_c A41_e A41_lo A41_hi sim_init (5223719916268047 / 140737488355328)) = (5223719916268047 / 140737488355328).
Proof. cbn [get_distance set_distance sim_distance]. first [reflexivity | lra]. Qed.
Lemma d_A41_1692g : get_distance (set_distance A41_c A41_e A41_lo A41_hi sim_init (6923073864263941 / 562949953421312)) = (6923073864263941 / 562949953421312).
Proof. cbn [get_distance set_distance sim_distance]. first [reflexivity | lra]. Qed.
Lemma d_A41_1700g : get_distance (set_distance A41_c A41_e A41_lo A41_hi sim_init (4634999768306229 / 140737488355328)) = (4634999768306229 / 140737488355328).
Proof. cbn [get_distance set_distance sim_distance]. first [reflexivity | lra]. Qed.
Lemma d_A41_1708g : get_distance (set_distance A41_c A41_e A41_lo A41_hi sim_init (80621366624491 / 4398046511104)) = (80621366624491 / 4398046511104).
Proof. cbn [get_distance set_distance sim_distance]. first [reflexivity | lra]. Qed.
Lemma d_A41_1716g : get_distance (set_distance A41_c A41_e A41_lo A41_hi sim_init (1839748188909233 / 2251799813685248)) = (1839748188909233 / 2251799813685248).
Proof. cbn [get_distance set_distance sim_distance]. first [reflexivity | lra]. Qed.
Lemma d_A41_1724g : get_distance (set_distance A41_c A41_e A41_lo A41_hi sim_init (3855039558058159 / 70368744177664)) = (3855039558058159 / 70368744177664).
Proof. cbn [get_distance set_distance sim_distance]. first [reflexivity | lra]. Qed.
Lemma d_A41_1732g : get_distance (set_distance A41_c A41_e A41_lo A41_hi sim_init (3373417021131133 / 140737488355328)) = (3373417021131133 / 140737488355328).
Proof. cbn [get_distance set_distance sim_distance]. first [reflexivity | lra]. Qed.
Lemma d_A41_1740g : get_distance (set_distance A41_c A41_e A41_lo A41_hi sim_init (3499732514505571 / 35184372088832)) = (3499732514505571 / 35184372088832).
Proof. cbn [get_distance set_distance sim_distance]. first [reflexivity | lra]. Qed.
Lemma d_A41_1748g : get_distance (set_distance A41_c A41_e A41_lo A41_hi sim_init (7431625260735995 / 562949953421312)) = (7431625260735995 / 562949953421312).
Proof. cbn [get_distance set_distance sim_distance]. first [reflexivity | lra]. Qed.
Lemma d_A41_1756g : get_distance (set_distance A41_c A41_e A41_lo A41_hi sim_init ((-1020944863289793) / 562949953421312)) = ((-1020944863289793) / 562949953421312).
Proof. cbn [get_distance set_distance sim_distance]. first [reflexivity | lra]. Qed.
Lemma d_A41_1764g : get_distance (set_distance A41_c A41_e A41_lo A41_hi sim_init (5527936421890607 / 1125899906842624)) = (5527936421890607 / 1125899906842624).
Proof. cbn [get_distance set_distance sim_distance]. first [reflexivity | lra]. Qed.
Lemma d_A41_1772g : get_distance (set_distance A41_c A41_e A41_lo A41_hi sim_init (2642473345552407 / 281474976710656)) = (2642473345552407 / 281474976710656).
Proof. cbn [get_distance set_distance sim_distance]. first [reflexivity | lra]. Qed.
Lemma d_A41_1780g : get_distance (set_distance A41_c A41_e A41_lo A41_hi sim_init (7529457776754441 / 281474976710656)) = (7529457776754441 / 281474976710656).
Proof. cbn [get_distance set_distance sim_distance]. first [reflexivity | lra]. Qed.
Lemma d_A41_1788g : get_distance (set_distance A41_c A41_e A41_lo A41_hi sim_init (4607744105817243 / 562949953421312)) = (4607744105817243 / 562949953421312).
Proof. cbn [get_distance set_distance sim_distance]. first [reflexivity | lra]. Qed.
Lemma d_A41_1796g : get_distance (set_distance A41_c A41_e A41_lo A41_hi sim_init (5765774068225103 / 562949953421312)) = (5765774068225103 / 562949953421312).
Proof. cbn [get_distance set_distance sim_distance]. first [reflexivity | lra]. Qed.
Lemma d_A41_1804g : get_distance (set_distance A41_c A41_e A41_lo A41_hi sim_init (8546124301991353 / 281474976710656)) = (8546124301991353 / 281474976710656).
Proof. cbn [get_distance set_distance sim_distance]. first [reflexivity | lra]. Qed.
Lemma d_A41_1812g : get_distance (set_distance A41_c A41_e A41_lo A41_hi sim_init (6966908804309473 / 281474976710656)) = (6966908804309473 / 281474976710656).
Proof. cbn [get_distance set_distance sim_distance]. first [reflexivity | lra]. Qed.
Lemma d_A41_1820g : get_distance (set_distance A41_c A41_e A41_lo A41_hi sim_init (6577735137716621 / 140737488355328)) = (6577735137716621 / 140737488355328).
Proof. cbn [get_distance set_distance sim_distance]. first [reflexivity | lra]. Qed.
Lemma d_A41_1828g : get_distance (set_distance A41_c A41_e A41_lo A41_hi sim_init (1351166539420849 / 140737488355328)) = (1351166539420849 / 140737488355328).
Proof. cbn [get_distance set_distance sim_distance]. first [reflexivity | lra]. Qed.
Lemma d_A41_1836g : get_distance (set_distance A41_c A41_e A41_lo A41_hi sim_init (106330175467767 / 8796093022208)) = (106330175467767 / 8796093022208).
Proof. cbn [get_distance set_distance sim_distance]. first [reflexivity | lra]. Qed.
Lemma d_A41_1844g : get_distance (set_distance A41_c A41_e A41_lo A41_hi sim_init (117853776183859 / 17592186044416)) = (117853776183859 / 17592186044416).
Proof. cbn [get_distance set_distance sim_distance]. first [reflexivity | lra]. Qed.
Lemma d_A41_1852g : get_distance (set_distance A41_c A41_e A41_lo A41_hi sim_init (4360202862357469 / 140737488355328)) = (4360202862357469 / 140737488355328).
Proof. cbn [get_distance set_distance sim_distance]. first [reflexivity | lra]. Qed.
Lemma d_A41_1860g : get_distance (set_distance A41_c A41_e A41_lo A41_hi sim_init (18081232911469 / 2199023255552)) = (18081232911469 / 2199023255552).
Proof. cbn [get_distance set_distance sim_distance]. first [reflexivity | lra]. Qed.
Lemma d_A41_1868g : get_distance (set_distance A41_c A41_e A41_lo A41_hi sim_init ((-2108889469550931) / 2251799813685248)) = ((-2108889469550931) / 2251799813685248).
Proof. cbn [get_distance set_distance sim_distance]. first [reflexivity | lra]. Qed.
Lemma d_A41_1876g : get_distance (set_distance A41_c A41_e A41_lo A41_hi sim_init (7509545529263979 / 562949953421312)) = (7509545529263979 / 562949953421312).
Proof. cbn [get_distance set_distance sim_distance]. first [reflexivity | lra]. Qed.
Lemma d_A41_1884g : get_distance (set_distance A41_c A41_e A41_lo A41_hi sim_init (507259414349765 / 17592186044416)) = (507259414349765 / 17592186044416).
Proof. cbn [get_distance set_distance sim_distance]. first [reflexivity | lra]. Qed.
Lemma d_A41_1892g : get_distance (set_distance A41_c A41_e A41_lo A41_hi sim_init (1604155964913153 / 70368744177664)) = (1604155964913153 / 70368744177664).
Proof. cbn [get_distance set_distance sim_distance]. first [reflexivity | lra]. Qed.
Lemma d_A41_1900g : get_distance (set_distance A41_c A41_e A41_lo A41_hi sim_init (195340597422131 / 8796093022208)) = (195340597422131 / 8796093022208).
Proof. cbn [get_distance set_distance sim_distance]. first [reflexivity | lra]. Qed.
Lemma d_A41_1908g : get_distance (set_distance A41_c A41_e A41_lo A41_hi sim_init (2608876426756781 / 281474976710656)) = (2608876426756781 / 281474976710656).
Proof. cbn [get_distance set_distance sim_distance]. first [reflexivity | lra]. Qed.
Lemma d_A41_1916g : get_distance (set_distance A41_c A41_e A41_lo A41_hi sim_init (2441644550766745 / 70368744177664)) = (2441644550766745 / 70368744177664).
Proof. cbn [get_distance set_distance sim_distance]. first [reflexivity | lra]. Qed.
Lemma d_A41_1924g : get_distance (set_distance A41_c A41_e A41_lo A41_hi sim_init (8724153032215641 / 144115188075855872)) = (8724153032215641 / 144115188075855872).
Proof. cbn [get_distance set_distance sim_distance]. first [reflexivity | lra]. Qed.
Lemma d_A41_1932g : get_distance (set_distance A41_c A41_e A41_lo A41_hi sim_init (7322833475838567 / 70368744177664)) = (7322833475838567 / 70368744177664).
Proof. cbn [get_distance set_distance sim_distance]. first [reflexivity | lra]. Qed.
Lemma d_A41_1940g : get_distance (set_distance A41_c A41_e A41_lo A41_hi sim_init ((-251365753459939) / 1125899906842624)) = ((-251365753459939) / 1125899906842624).
Proof. cbn [get_distance set_distance sim_distance]. first [reflexivity | lra]. Qed.
Lemma d_A41_1948g : get_distance (set_distance A41_c A41_e A41_lo A41_hi sim_init (2522741309165069 / 562949953421312)) = (2522741309165069 / 562949953421312).
Proof. cbn [get_distance set_distance sim_distance]. first [reflexivity | lra]. Qed.
Lemma d_A41_1956g : get_distance (set_distance A41_c A41_e A41_lo A41_hi sim_init (1626313751692431 / 70368744177664)) = (1626313751692431 / 70368744177664).
Proof. cbn [get_distance set_distance sim_distance]. first [reflexivity | lra]. Qed.
Lemma d_A41_1964g : get_distance (set_distance A41_c A41_e A41_lo A41_hi sim_init (2834874112752705 / 281474976710656)) = (2834874112752705 / 281474976710656).
Proof. cbn [get_distance set_distance sim_distance]. first [reflexivity | lra]. Qed.
Lemma d_A41_1972g : get_distance (set_distance A41_c A41_e A41_lo A41_hi sim_init (1924330852006905 / 70368744177664)) = (1924330852006905 / 70368744177664).
Proof. cbn [get_distance set_distance sim_distance]. first [reflexivity | lra]. Qed.
Lemma d_A41_1980g : get_distance (set_distance A41_c A41_e A41_lo A41_hi sim_init (2917440414645847 / 140737488355328)) = (2917440414645847 / 140737488355328).
Proof. cbn [get_distance set_distance sim_distance]. first [reflexivity | lra]. Qed.
Lemma d_A41_1988g : get_distance (set_distance A41_c A41_e A41_lo A41_hi sim_init (2142802475704891 / 140737488355328)) = (2142802475704891 / 140737488355328).
Proof. cbn [get_distance set_distance sim_distance]. first [reflexivity | lra]. Qed.
Lemma d_A41_1996g : get_distance (set_distance A41_c A41_e A41_lo A41_hi sim_init (367628034594651 / 4398046511104)) = (367628034594651 / 4398046511104).
Proof. cbn [get_distance set_distance sim_distance]. first [reflexivity | lra]. Qed.
Check d_A41_1996g.
