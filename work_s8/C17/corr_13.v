From Coq Require Import Reals Lra.
From Interval Require Import Tactic.
From RV Require Import IR.Model IR.Proofs.
Open Scope R_scope.
Lemma r_A02_31 : rio_reads A02_c A02_e A02_lo A02_hi floor_volts ctol (Build_rio (Fin (5 / 1)) (Fin (5 / 1)) (Fin (0 / 1)) (Fin (6 / 1)) (Fin (12 / 1)) true true true ((Fin (0 / 1)) :: (Fin (0 / 1)) :: (Fin (0 / 1)) :: (Fin (0 / 1)) :: (Fin (27 / 4)) :: (Fin (45 / 1)) :: nil)) (45 / 2).
Proof. apply (A02_rio_fin _ (5 / 1)); [reflexivity | apply (A02_q_lo 5 1 45 2); [vm_compute; reflexivity | unfold fr, ctol, A02_lo, A02_c, A02_e; interval with (i_prec 80)]]. Qed.
Lemma r_A02_49 : rio_reads A02_c A02_e A02_lo A02_hi floor_volts ctol (Build_rio (Fin (5720628913841777 / 2251799813685248)) (Fin (5 / 1)) (Fin (3715469692580659 / 1125899906842624)) (Fin (6 / 1)) (Fin (12 / 1)) true true true ((Fin (0 / 1)) :: (Fin (0 / 1)) :: (Fin (0 / 1)) :: (Fin (180 / 1)) :: (Fin (27 / 4)) :: (Fin (45 / 1)) :: nil)) (45 / 2).
Proof. apply (A02_rio_fin _ (5720628913841777 / 2251799813685248)); [reflexivity | apply (A02_q_lo 5720628913841777 2251799813685248 45 2); [vm_compute; reflexivity | unfold fr, ctol, A02_lo, A02_c, A02_e; interval with (i_prec 80)]]. Qed.
Lemma r_A02_65 : rio_reads A02_c A02_e A02_lo A02_hi floor_volts ctol (Build_rio (Fin (2605 / 1024)) (Fin (5 / 1)) (Fin (3715469692580659 / 1125899906842624)) (Fin (6 / 1)) (Fin (12 / 1)) true true true ((Fin (0 / 1)) :: (Fin (0 / 1)) :: (Fin (0 / 1)) :: (Fin (0 / 1)) :: (Fin (27 / 4)) :: (Fin (45 / 1)) :: nil)) (45 / 2).
Proof. apply (A02_rio_fin _ (2605 / 1024)); [reflexivity | apply (A02_q_lo 2605 1024 45 2); [vm_compute; reflexivity | unfold fr, ctol, A02_lo, A02_c, A02_e; interval with (i_prec 80)]]. Qed.
Lemma r_A02_81 : rio_reads A02_c A02_e A02_lo A02_hi floor_volts ctol (Build_rio (Fin (35 / 128)) (Fin (4373 / 1024)) (Fin (1 / 1)) (Fin (1 / 202402253307310618352495346718917307049556649764142118356901358027430339567995346891960383701437124495187077864316811911389808737385793476867013399940738509921517424276566361364466907742093216341239767678472745068562007483424692698618103355649159556340810056512358769552333414615230502532186327508646006263307707741093494784)) (Fin (12819 / 1024)) true true true ((Fin (45 / 512)) :: (Fin (1953 / 1024)) :: (Fin (897 / 1024)) :: (Fin (117997 / 1024)) :: (Fin (4519 / 1024)) :: (Fin (24675 / 1024)) :: nil)) (145 / 1).
Proof. apply (A02_rio_fin _ (35 / 128)); [reflexivity | apply (A02_q_hi 35 128 145 1); [vm_compute; reflexivity | unfold fr, ctol, A02_hi, A02_c, A02_e; interval with (i_prec 80)]]. Qed.
Lemma r_A02_97 : rio_reads A02_c A02_e A02_lo A02_hi floor_volts ctol (Build_rio (Fin (75 / 128)) (Fin (5507 / 1024)) (Fin (1593 / 512)) (Fin (2653 / 512)) (Fin (4373 / 1024)) true false true ((Fin (3045 / 1024)) :: (Fin (987 / 512)) :: (Fin (569 / 256)) :: (Fin (91105 / 512)) :: (Fin (2413 / 512)) :: (Fin (53393 / 1024)) :: nil)) (491037668499541 / 4398046511104).
Proof. apply (A02_rio_fin _ (75 / 128)); [reflexivity | apply (A02_q_mid 75 128 491037668499541 4398046511104); [vm_compute; reflexivity | unfold fr, close, ctol, A02_c, A02_e; interval with (i_prec 80)]]. Qed.
Lemma r_A02_113 : rio_reads A02_c A02_e A02_lo A02_hi floor_volts ctol (Build_rio (Fin (115 / 128)) (Fin (5 / 1)) (Fin (3715469692580659 / 1125899906842624)) (Fin (6 / 1)) (Fin (12 / 1)) true true true ((Fin (0 / 1)) :: (Fin (0 / 1)) :: (Fin (0 / 1)) :: (Fin (0 / 1)) :: (Fin (27 / 4)) :: (Fin (45 / 1)) :: nil)) (4926286317991149 / 70368744177664).
Proof. apply (A02_rio_fin _ (115 / 128)); [reflexivity | apply (A02_q_mid 115 128 4926286317991149 70368744177664); [vm_compute; reflexivity | unfold fr, close, ctol, A02_c, A02_e; interval with (i_prec 80)]]. Qed.
Lemma r_A02_129 : rio_reads A02_c A02_e A02_lo A02_hi floor_volts ctol (Build_rio (Fin (155 / 128)) (Fin (5 / 1)) (Fin (3443 / 1024)) (Fin (6 / 1)) (Fin (9995 / 1024)) true false false ((Fin (775 / 512)) :: (Fin (509 / 1024)) :: (Fin (1493 / 1024)) :: (Fin (5597 / 128)) :: (Fin (4267 / 1024)) :: (Fin ((-16539) / 1024)) :: nil)) (7111962738091773 / 140737488355328).
Proof. apply (A02_rio_fin _ (155 / 128)); [reflexivity | apply (A02_q_mid 155 128 7111962738091773 140737488355328); [vm_compute; reflexivity | unfold fr, close, ctol, A02_c, A02_e; interval with (i_prec 80)]]. Qed.
Lemma r_A02_145 : rio_reads A02_c A02_e A02_lo A02_hi floor_volts ctol (Build_rio (Fin (195 / 128)) (Fin (5305 / 1024)) (Fin (1575 / 512)) (Fin (6 / 1)) (Fin (6067 / 512)) false true true ((Fin (1399 / 512)) :: (Fin (1401 / 1024)) :: (Fin (1317 / 512)) :: (Fin (52653 / 512)) :: (Fin (1797 / 512)) :: (Fin (10835 / 512)) :: nil)) (2767476206411861 / 70368744177664).
Proof. apply (A02_rio_fin _ (195 / 128)); [reflexivity | apply (A02_q_mid 195 128 2767476206411861 70368744177664); [vm_compute; reflexivity | unfold fr, close, ctol, A02_c, A02_e; interval with (i_prec 80)]]. Qed.
Lemma r_A02_161 : rio_reads A02_c A02_e A02_lo A02_hi floor_volts ctol (Build_rio (Fin (235 / 128)) (Fin (5 / 1)) (Fin (3715469692580659 / 1125899906842624)) (Fin (6 / 1)) (Fin (12 / 1)) true true true ((Fin (0 / 1)) :: (Fin (0 / 1)) :: (Fin (0 / 1)) :: (Fin (0 / 1)) :: (Fin (27 / 4)) :: (Fin (45 / 1)) :: nil)) (564333191665717 / 17592186044416).
Proof. apply (A02_rio_fin _ (235 / 128)); [reflexivity | apply (A02_q_mid 235 128 564333191665717 17592186044416); [vm_compute; reflexivity | unfold fr, close, ctol, A02_c, A02_e; interval with (i_prec 80)]]. Qed.
Lemma r_A02_177 : rio_reads A02_c A02_e A02_lo A02_hi floor_volts ctol (Build_rio (Fin (275 / 128)) (Fin (5623 / 1024)) (Fin (429 / 32)) (Fin (6 / 1)) (Fin (1653 / 128)) false true true ((Fin (543 / 256)) :: (Fin (727 / 1024)) :: (Fin (469 / 1024)) :: (Fin (57207 / 512)) :: (Fin (6537 / 1024)) :: (Fin (47693 / 512)) :: nil)) (7605195472074557 / 281474976710656).
Proof. apply (A02_rio_fin _ (275 / 128)); [reflexivity | apply (A02_q_mid 275 128 7605195472074557 281474976710656); [vm_compute; reflexivity | unfold fr, close, ctol, A02_c, A02_e; interval with (i_prec 80)]]. Qed.
Lemma r_A02_193 : rio_reads A02_c A02_e A02_lo A02_hi floor_volts ctol (Build_rio (Fin (315 / 128)) (Fin (5483 / 1024)) (Fin (2569 / 1024)) (Fin (5993 / 1024)) (Fin (415 / 32)) false true false ((Fin (1741 / 1024)) :: (Fin (411 / 256)) :: (Fin (83 / 1024)) :: (Fin (75885 / 512)) :: (Fin (8185 / 1024)) :: (Fin (9787 / 256)) :: nil)) (6557020748043913 / 281474976710656).
Proof. apply (A02_rio_fin _ (315 / 128)); [reflexivity | apply (A02_q_mid 315 128 6557020748043913 281474976710656); [vm_compute; reflexivity | unfold fr, close, ctol, A02_c, A02_e; interval with (i_prec 80)]]. Qed.
Lemma r_A02_209 : rio_reads A02_c A02_e A02_lo A02_hi floor_volts ctol (Build_rio (Fin (715 / 256)) (Fin (5 / 1)) (Fin (3715469692580659 / 1125899906842624)) (Fin (6 / 1)) (Fin (12 / 1)) true true true ((Fin (0 / 1)) :: (Fin (0 / 1)) :: (Fin (0 / 1)) :: (Fin (0 / 1)) :: (Fin (27 / 4)) :: (Fin (45 / 1)) :: nil)) (45 / 2).
Proof. apply (A02_rio_fin _ (715 / 256)); [reflexivity | apply (A02_q_lo 715 256 45 2); [vm_compute; reflexivity | unfold fr, ctol, A02_lo, A02_c, A02_e; interval with (i_prec 80)]]. Qed.
Lemma r_A02_225 : rio_reads A02_c A02_e A02_lo A02_hi floor_volts ctol (Build_rio (Fin (795 / 256)) (Fin (4209 / 1024)) (Fin (3189 / 1024)) (Fin (6 / 1)) (Fin (12 / 1)) true false true ((Fin (155 / 512)) :: (Fin (1605 / 1024)) :: (Fin (537 / 512)) :: (Fin (168643 / 1024)) :: (Fin (1627 / 256)) :: (Fin (963 / 512)) :: nil)) (45 / 2).
Proof. apply (A02_rio_fin _ (795 / 256)); [reflexivity | apply (A02_q_lo 795 256 45 2); [vm_compute; reflexivity | unfold fr, ctol, A02_lo, A02_c, A02_e; interval with (i_prec 80)]]. Qed.
Lemma r_A02_241 : rio_reads A02_c A02_e A02_lo A02_hi floor_volts ctol (Build_rio (Fin (875 / 256)) (Fin (14657 / 1024)) (Fin (8615 / 1024)) (Fin (5949 / 1024)) (Fin (6681 / 512)) true true false ((Fin (9 / 256)) :: (Fin (1451 / 1024)) :: (Fin (2085 / 1024)) :: (Fin (97511 / 512)) :: (Fin (125 / 32)) :: (Fin ((-1899) / 256)) :: nil)) (45 / 2).
Proof. apply (A02_rio_fin _ (875 / 256)); [reflexivity | apply (A02_q_lo 875 256 45 2); [vm_compute; reflexivity | unfold fr, ctol, A02_lo, A02_c, A02_e; interval with (i_prec 80)]]. Qed.
Lemma r_A02_257 : rio_reads A02_c A02_e A02_lo A02_hi floor_volts ctol (Build_rio (Fin (955 / 256)) (Fin (5 / 1)) (Fin (3715469692580659 / 1125899906842624)) (Fin (6 / 1)) (Fin (12 / 1)) true true true ((Fin (0 / 1)) :: (Fin (0 / 1)) :: (Fin (0 / 1)) :: (Fin (0 / 1)) :: (Fin (27 / 4)) :: (Fin (45 / 1)) :: nil)) (45 / 2).
Proof. apply (A02_rio_fin _ (955 / 256)); [reflexivity | apply (A02_q_lo 955 256 45 2); [vm_compute; reflexivity | unfold fr, ctol, A02_lo, A02_c, A02_e; interval with (i_prec 80)]]. Qed.
Lemma r_A02_273 : rio_reads A02_c A02_e A02_lo A02_hi floor_volts ctol (Build_rio (Fin (1035 / 256)) (Fin (2139 / 512)) (Fin (349 / 128)) (Fin (661 / 128)) (Fin (10799 / 1024)) true true true ((Fin (1387 / 1024)) :: (Fin (93 / 256)) :: (Fin (535 / 256)) :: (Fin (47551 / 512)) :: (Fin (4455 / 1024)) :: (Fin (72303 / 1024)) :: nil)) (45 / 2).
Proof. apply (A02_rio_fin _ (1035 / 256)); [reflexivity | apply (A02_q_lo 1035 256 45 2); [vm_compute; reflexivity | unfold fr, ctol, A02_lo, A02_c, A02_e; interval with (i_prec 80)]]. Qed.
Lemma r_A02_289 : rio_reads A02_c A02_e A02_lo A02_hi floor_volts ctol (Build_rio (Fin (1115 / 256)) (Fin (1393 / 128)) (Fin (0 / 1)) (Fin (3243 / 512)) (Fin (319 / 32)) true true true ((Fin (611 / 1024)) :: (Fin (703 / 512)) :: (Fin (361 / 128)) :: (Fin (8151 / 1024)) :: (Fin (9059 / 1024)) :: (Fin (45385 / 512)) :: nil)) (45 / 2).
Proof. apply (A02_rio_fin _ (1115 / 256)); [reflexivity | apply (A02_q_lo 1115 256 45 2); [vm_compute; reflexivity | unfold fr, ctol, A02_lo, A02_c, A02_e; interval with (i_prec 80)]]. Qed.
Lemma r_A02_305 : rio_reads A02_c A02_e A02_lo A02_hi floor_volts ctol (Build_rio (Fin (1195 / 256)) (Fin (5 / 1)) (Fin (3715469692580659 / 1125899906842624)) (Fin (6 / 1)) (Fin (12 / 1)) true true true ((Fin (0 / 1)) :: (Fin (0 / 1)) :: (Fin (0 / 1)) :: (Fin (0 / 1)) :: (Fin (27 / 4)) :: (Fin (45 / 1)) :: nil)) (45 / 2).
Proof. apply (A02_rio_fin _ (1195 / 256)); [reflexivity | apply (A02_q_lo 1195 256 45 2); [vm_compute; reflexivity | unfold fr, ctol, A02_lo, A02_c, A02_e; interval with (i_prec 80)]]. Qed.
Lemma r_A02_321 : rio_reads A02_c A02_e A02_lo A02_hi floor_volts ctol (Build_rio (Fin (1275 / 256)) (Fin (4703 / 1024)) (Fin (3715469692580659 / 1125899906842624)) (Fin (5055 / 1024)) (Fin (5902958103587057 / 590295810358705651712)) true true true ((Fin (1323 / 1024)) :: (Fin (385 / 256)) :: (Fin (2181 / 1024)) :: (Fin (190049 / 1024)) :: (Fin (5351 / 1024)) :: (Fin ((-2385) / 256)) :: nil)) (45 / 2).
Proof. apply (A02_rio_fin _ (1275 / 256)); [reflexivity | apply (A02_q_lo 1275 256 45 2); [vm_compute; reflexivity | unfold fr, ctol, A02_lo, A02_c, A02_e; interval with (i_prec 80)]]. Qed.
Lemma r_A02_337 : rio_reads A02_c A02_e A02_lo A02_hi floor_volts ctol (Build_rio (Fin (318363635097427 / 281474976710656)) (Fin (5051 / 1024)) (Fin (3301 / 1024)) (Fin (11143 / 1024)) (Fin (11695 / 1024)) true false true ((Fin (2537 / 1024)) :: (Fin (435 / 512)) :: (Fin (141 / 512)) :: (Fin (93521 / 512)) :: (Fin (4729 / 1024)) :: (Fin (38557 / 512)) :: nil)) (3831106671625197 / 70368744177664).
Proof. apply (A02_rio_fin _ (318363635097427 / 281474976710656)); [reflexivity | apply (A02_q_mid 318363635097427 281474976710656 3831106671625197 70368744177664); [vm_compute; reflexivity | unfold fr, close, ctol, A02_c, A02_e; interval with (i_prec 80)]]. Qed.
Lemma r_A02_353 : rio_reads A02_c A02_e A02_lo A02_hi floor_volts ctol (Build_rio (Fin (3594570910981549 / 2251799813685248)) (Fin (5 / 1)) (Fin (3715469692580659 / 1125899906842624)) (Fin (6 / 1)) (Fin (12 / 1)) true true true ((Fin (0 / 1)) :: (Fin (0 / 1)) :: (Fin (0 / 1)) :: (Fin (0 / 1)) :: (Fin (27 / 4)) :: (Fin (45 / 1)) :: nil)) (1314904896814143 / 35184372088832).
Proof. apply (A02_rio_fin _ (3594570910981549 / 2251799813685248)); [reflexivity | apply (A02_q_mid 3594570910981549 2251799813685248 1314904896814143 35184372088832); [vm_compute; reflexivity | unfold fr, close, ctol, A02_c, A02_e; interval with (i_prec 80)]]. Qed.
Lemma r_A02_369 : rio_reads A02_c A02_e A02_lo A02_hi floor_volts ctol (Build_rio (Fin (1165552180095039 / 281474976710656)) (Fin (5 / 1)) (Fin (389 / 128)) (Fin (5551 / 1024)) (Fin (12 / 1)) true true false ((Fin (1369 / 1024)) :: (Fin (1925 / 1024)) :: (Fin (489 / 512)) :: (Fin (115285 / 1024)) :: (Fin (3255 / 1024)) :: (Fin (14131 / 512)) :: nil)) (45 / 2).
Proof. apply (A02_rio_fin _ (1165552180095039 / 281474976710656)); [reflexivity | apply (A02_q_lo 1165552180095039 281474976710656 45 2); [vm_compute; reflexivity | unfold fr, ctol, A02_lo, A02_c, A02_e; interval with (i_prec 80)]]. Qed.
Lemma r_A02_386 : rio_reads A02_c A02_e A02_lo A02_hi floor_volts ctol (Build_rio (Fin (978799901408671 / 18446744073709551616)) (Fin (625 / 128)) (Fin (3419 / 1024)) (Fin (2533 / 512)) (Fin (5949 / 512)) false false true ((Fin (2795 / 1024)) :: (Fin (1323 / 1024)) :: (Fin (693 / 256)) :: (Fin (43327 / 512)) :: (Fin (4135 / 1024)) :: (Fin (55823 / 1024)) :: nil)) (145 / 1).
Proof. apply (A02_rio_fin _ (978799901408671 / 18446744073709551616)); [reflexivity | apply (A02_q_hi 978799901408671 18446744073709551616 145 1); [vm_compute; reflexivity | unfold fr, ctol, A02_hi, A02_c, A02_e; interval with (i_prec 80)]]. Qed.
Lemma r_A02_405 : rio_reads A02_c A02_e A02_lo A02_hi floor_volts ctol (Build_rio (Fin (6441026309982835 / 590295810358705651712)) (Fin (687 / 64)) (Fin (819 / 256)) (Fin (6 / 1)) (Fin (1 / 1)) true true true ((Fin (795 / 512)) :: (Fin (425 / 256)) :: (Fin (539 / 256)) :: (Fin (41541 / 256)) :: (Fin (3201 / 1024)) :: (Fin (3409 / 64)) :: nil)) (145 / 1).
Proof. apply (A02_rio_fin _ (6441026309982835 / 590295810358705651712)); [reflexivity | apply (A02_q_hi 6441026309982835 590295810358705651712 145 1); [vm_compute; reflexivity | unfold fr, ctol, A02_hi, A02_c, A02_e; interval with (i_prec 80)]]. Qed.
Lemma d_A02_1r : rio_reads A02_c A02_e A02_lo A02_hi floor_volts ctol (Build_rio (Fin (357539307115111 / 140737488355328)) (Fin (2589569785738035 / 562949953421312)) (Fin (3715469692580659 / 1125899906842624)) (Fin (6 / 1)) (Fin (12 / 1)) true true true ((Fin (0 / 1)) :: (Fin (0 / 1)) :: (Fin (0 / 1)) :: (Fin (0 / 1)) :: (Fin (27 / 4)) :: (Fin (45 / 1)) :: nil)) (45 / 2).
Proof. apply (A02_rio_fin _ (357539307115111 / 140737488355328)); [reflexivity | apply (A02_q_lo 357539307115111 140737488355328 45 2); [vm_compute; reflexivity | unfold fr, ctol, A02_lo, A02_c, A02_e; interval with (i_prec 80)]]. Qed.
Lemma d_A02_9r : rio_reads A02_c A02_e A02_lo A02_hi floor_volts ctol (Build_rio (Fin (2330035404855731 / 2251799813685248)) (Fin (0 / 1)) (Fin (3715469692580659 / 1125899906842624)) (Fin (6 / 1)) (Fin (12 / 1)) true true true ((Fin (0 / 1)) :: (Fin (0 / 1)) :: (Fin (0 / 1)) :: (Fin (0 / 1)) :: (Fin (27 / 4)) :: (Fin (45 / 1)) :: nil)) (60 / 1).
Proof. apply (A02_rio_fin _ (2330035404855731 / 2251799813685248)); [reflexivity | apply (A02_q_mid 2330035404855731 2251799813685248 60 1); [vm_compute; reflexivity | unfold fr, close, ctol, A02_c, A02_e; interval with (i_prec 80)]]. Qed.
Lemma d_A02_17r : rio_reads A02_c A02_e A02_lo A02_hi floor_volts ctol (Build_rio (Fin (357539307115111 / 140737488355328)) NInf (Fin (3715469692580659 / 1125899906842624)) (Fin (6 / 1)) (Fin (12 / 1)) true true true ((Fin (0 / 1)) :: (Fin (0 / 1)) :: (Fin (0 / 1)) :: (Fin (0 / 1)) :: (Fin (27 / 4)) :: (Fin (45 / 1)) :: nil)) (45 / 2).
Proof. apply (A02_rio_fin _ (357539307115111 / 140737488355328)); [reflexivity | apply (A02_q_lo 357539307115111 140737488355328 45 2); [vm_compute; reflexivity | unfold fr, ctol, A02_lo, A02_c, A02_e; interval with (i_prec 80)]]. Qed.
Lemma d_A02_25r : rio_reads A02_c A02_e A02_lo A02_hi floor_volts ctol (Build_rio (Fin (357539307115111 / 140737488355328)) (Fin (5 / 1)) (Fin (3715469692580659 / 1125899906842624)) (Fin (6 / 1)) (Fin (100000000000000001097906362944045541740492309677311846336810682903157585404911491537163328978494688899061249669721172515611590283743140088328307009198146046031271664502933027185697489699588559043338384466165001178426897626212945177628091195786707458122783970171784415105291802893207873272974885715430223118336 / 1)) true true true ((Fin (0 / 1)) :: (Fin (0 / 1)) :: (Fin (0 / 1)) :: (Fin (0 / 1)) :: (Fin (27 / 4)) :: (Fin (45 / 1)) :: nil)) (45 / 2).
Proof. apply (A02_rio_fin _ (357539307115111 / 140737488355328)); [reflexivity | apply (A02_q_lo 357539307115111 140737488355328 45 2); [vm_compute; reflexivity | unfold fr, ctol, A02_lo, A02_c, A02_e; interval with (i_prec 80)]]. Qed.
Lemma d_A02_33r : rio_reads A02_c A02_e A02_lo A02_hi floor_volts ctol (Build_rio (Fin (5506844515100971 / 4503599627370496)) (Fin (5 / 1)) PInf (Fin (6 / 1)) (Fin (12 / 1)) true true true ((Fin (0 / 1)) :: (Fin (0 / 1)) :: (Fin (0 / 1)) :: (Fin (0 / 1)) :: (Fin (27 / 4)) :: (Fin (45 / 1)) :: nil)) (7036874417766401 / 140737488355328).
Proof. apply (A02_rio_fin _ (5506844515100971 / 4503599627370496)); [reflexivity | apply (A02_q_mid 5506844515100971 4503599627370496 7036874417766401 140737488355328); [vm_compute; reflexivity | unfold fr, close, ctol, A02_c, A02_e; interval with (i_prec 80)]]. Qed.
Lemma d_A02_41r : rio_reads A02_c A02_e A02_lo A02_hi floor_volts ctol (Build_rio (Fin (8308476880671015 / 18014398509481984)) (Fin (5 / 1)) (Fin (3715469692580659 / 1125899906842624)) (Fin (6 / 1)) (Fin (12 / 1)) true false true ((Fin (0 / 1)) :: (Fin (0 / 1)) :: (Fin (0 / 1)) :: (Fin (0 / 1)) :: (Fin (27 / 4)) :: (Fin (45 / 1)) :: nil)) (145 / 1).
Proof. apply (A02_rio_fin _ (8308476880671015 / 18014398509481984)); [reflexivity | apply (A02_q_hi 8308476880671015 18014398509481984 145 1); [vm_compute; reflexivity | unfold fr, ctol, A02_hi, A02_c, A02_e; interval with (i_prec 80)]]. Qed.
Lemma d_A02_49r : rio_reads A02_c A02_e A02_lo A02_hi floor_volts ctol (Build_rio (Fin (357539307115111 / 140737488355328)) (Fin (5 / 1)) (Fin (3715469692580659 / 1125899906842624)) (Fin (6 / 1)) (Fin (12 / 1)) true true true ((Fin (0 / 1)) :: (Fin (0 / 1)) :: (Fin (0 / 1)) :: (Fin (180 / 1)) :: (Fin (27 / 4)) :: (Fin (45 / 1)) :: nil)) (45 / 2).
Proof. apply (A02_rio_fin _ (357539307115111 / 140737488355328)); [reflexivity | apply (A02_q_lo 357539307115111 140737488355328 45 2); [vm_compute; reflexivity | unfold fr, ctol, A02_lo, A02_c, A02_e; interval with (i_prec 80)]]. Qed.
Lemma d_A02_57r : rio_reads A02_c A02_e A02_lo A02_hi floor_volts ctol (Build_rio (Fin (6867379400535637 / 9007199254740992)) (Fin (0 / 1)) (Fin (0 / 1)) (Fin (0 / 1)) (Fin (12 / 1)) false false false ((Fin (0 / 1)) :: (Fin (0 / 1)) :: (Fin (0 / 1)) :: (Fin (0 / 1)) :: (Fin (27 / 4)) :: (Fin (45 / 1)) :: nil)) (335 / 4).
Proof. apply (A02_rio_fin _ (6867379400535637 / 9007199254740992)); [reflexivity | apply (A02_q_mid 6867379400535637 9007199254740992 335 4); [vm_compute; reflexivity | unfold fr, close, ctol, A02_c, A02_e; interval with (i_prec 80)]]. Qed.
Lemma d_A02_70u : close ctol (5440206271671371 / 9007199254740992) (volts_A02 (3800305037018511 / 35184372088832)).
Proof. apply (A02_q_volts_mid 3800305037018511 35184372088832 5440206271671371 9007199254740992); [vm_compute; reflexivity | unfold fr, close, ctol, A02_lo, A02_hi, A02_c, A02_e; interval with (i_prec 80)]. Qed.
Lemma d_A02_83u : close ctol (2996753991666161 / 4503599627370496) (volts_A02 (854717701109513 / 8796093022208)).
Proof. apply (A02_q_volts_mid 854717701109513 8796093022208 2996753991666161 4503599627370496); [vm_compute; reflexivity | unfold fr, close, ctol, A02_lo, A02_hi, A02_c, A02_e; interval with (i_prec 80)]. Qed.
Lemma d_A02_96u : close ctol (4549025665298725 / 9007199254740992) (volts_A02 (2310114805181011 / 17592186044416)).
Proof. apply (A02_q_volts_mid 2310114805181011 17592186044416 4549025665298725 9007199254740992); [vm_compute; reflexivity | unfold fr, close, ctol, A02_lo, A02_hi, A02_c, A02_e; interval with (i_prec 80)]. Qed.
Lemma d_A02_108r : rio_reads A02_c A02_e A02_lo A02_hi floor_volts ctol (Build_rio (Fin (8308476880671015 / 18014398509481984)) (Fin (14975 / 1024)) (Fin (3427 / 1024)) (Fin (8641 / 1024)) (Fin (715 / 64)) false false true ((Fin (1525 / 512)) :: (Fin (485 / 512)) :: (Fin (1075 / 512)) :: (Fin (202905 / 1024)) :: (Fin (1231 / 256)) :: (Fin (2125 / 32)) :: nil)) (145 / 1).
Proof. apply (A02_rio_fin _ (8308476880671015 / 18014398509481984)); [reflexivity | apply (A02_q_hi 8308476880671015 18014398509481984 145 1); [vm_compute; reflexivity | unfold fr, ctol, A02_hi, A02_c, A02_e; interval with (i_prec 80)]]. Qed.
Lemma d_A02_121u : close ctol (8899112419103033 / 9007199254740992) (volts_A02 (8881449286571943 / 140737488355328)).
Proof. apply (A02_q_volts_mid 8881449286571943 140737488355328 8899112419103033 9007199254740992); [vm_compute; reflexivity | unfold fr, close, ctol, A02_lo, A02_hi, A02_c, A02_e; interval with (i_prec 80)]. Qed.
Lemma d_A02_134u : close ctol (6172631108581443 / 9007199254740992) (volts_A02 (3310677252655705 / 35184372088832)).
Proof. apply (A02_q_volts_mid 3310677252655705 35184372088832 6172631108581443 9007199254740992); [vm_compute; reflexivity | unfold fr, close, ctol, A02_lo, A02_hi, A02_c, A02_e; interval with (i_prec 80)]. Qed.
Lemma d_A02_147u : close ctol (1198928879050019 / 1125899906842624) (volts_A02 (2045944063894417 / 35184372088832)).
Proof. apply (A02_q_volts_mid 2045944063894417 35184372088832 1198928879050019 1125899906842624); [vm_compute; reflexivity | unfold fr, close, ctol, A02_lo, A02_hi, A02_c, A02_e; interval with (i_prec 80)]. Qed.
Lemma d_A02_160u : close ctol (4549564042309983 / 2251799813685248) (volts_A02 (2033236606442587 / 70368744177664)).
Proof. apply (A02_q_volts_mid 2033236606442587 70368744177664 4549564042309983 2251799813685248); [vm_compute; reflexivity | unfold fr, close, ctol, A02_lo, A02_hi, A02_c, A02_e; interval with (i_prec 80)]. Qed.
Lemma d_A02_172r : rio_reads A02_c A02_e A02_lo A02_hi floor_volts ctol (Build_rio (Fin (2517716703236519 / 2251799813685248)) (Fin (4197 / 512)) (Fin (3715469692580659 / 1125899906842624)) (Fin (6 / 1)) (Fin (11731 / 1024)) true true true ((Fin (547 / 1024)) :: (Fin (187 / 128)) :: (Fin (1273 / 512)) :: (Fin (138645 / 1024)) :: (Fin (2517 / 512)) :: (Fin (2287 / 256)) :: nil)) (3879640019941591 / 70368744177664).
Proof. apply (A02_rio_fin _ (2517716703236519 / 2251799813685248)); [reflexivity | apply (A02_q_mid 2517716703236519 2251799813685248 3879640019941591 70368744177664); [vm_compute; reflexivity | unfold fr, close, ctol, A02_c, A02_e; interval with (i_prec 80)]]. Qed.
Lemma d_A02_185u : close ctol (357539307115111 / 140737488355328) (volts_A02 (5910248427896333 / 72057594037927936)).
Proof. apply (A02_q_volts_lo 5910248427896333 72057594037927936 357539307115111 140737488355328); [vm_compute; reflexivity | unfold fr, close, ctol, A02_lo, A02_hi, A02_c, A02_e; interval with (i_prec 80)]. Qed.
Lemma d_A02_198u : close ctol (4135950500495067 / 2251799813685248) (volts_A02 (1128133937586413 / 35184372088832)).
Proof. apply (A02_q_volts_mid 1128133937586413 35184372088832 4135950500495067 2251799813685248); [vm_compute; reflexivity | unfold fr, close, ctol, A02_lo, A02_hi, A02_c, A02_e; interval with (i_prec 80)]. Qed.
Lemma d_A02_211u : close ctol (550853809118985 / 281474976710656) (volts_A02 (8421024807779105 / 281474976710656)).
Proof. apply (A02_q_volts_mid 8421024807779105 281474976710656 550853809118985 281474976710656); [vm_compute; reflexivity | unfold fr, close, ctol, A02_lo, A02_hi, A02_c, A02_e; interval with (i_prec 80)]. Qed.
Lemma d_A02_224u : close ctol (3783511258776815 / 4503599627370496) (volts_A02 (5300957285498969 / 70368744177664)).
Proof. apply (A02_q_volts_mid 5300957285498969 70368744177664 3783511258776815 4503599627370496); [vm_compute; reflexivity | unfold fr, close, ctol, A02_lo, A02_hi, A02_c, A02_e; interval with (i_prec 80)]. Qed.
Lemma d_A02_236r : rio_reads A02_c A02_e A02_lo A02_hi floor_volts ctol (Build_rio (Fin (5149419696404421 / 2251799813685248)) (Fin (257 / 64)) (Fin (869 / 256)) (Fin (1 / 202402253307310618352495346718917307049556649764142118356901358027430339567995346891960383701437124495187077864316811911389808737385793476867013399940738509921517424276566361364466907742093216341239767678472745068562007483424692698618103355649159556340810056512358769552333414615230502532186327508646006263307707741093494784)) (Fin ((-12) / 1)) false true true ((Fin (1391 / 512)) :: (Fin (431 / 1024)) :: (Fin (675 / 512)) :: (Fin (101531 / 512)) :: (Fin (6709 / 1024)) :: (Fin (14149 / 1024)) :: nil)) (444008085824291 / 17592186044416).
Proof. apply (A02_rio_fin _ (5149419696404421 / 2251799813685248)); [reflexivity | apply (A02_q_mid 5149419696404421 2251799813685248 444008085824291 17592186044416); [vm_compute; reflexivity | unfold fr, close, ctol, A02_c, A02_e; interval with (i_prec 80)]]. Qed.
Lemma d_A02_249u : close ctol (6658656973243265 / 9007199254740992) (volts_A02 (6095400130318561 / 70368744177664)).
Proof. apply (A02_q_volts_mid 6095400130318561 70368744177664 6658656973243265 9007199254740992); [vm_compute; reflexivity | unfold fr, close, ctol, A02_lo, A02_hi, A02_c, A02_e; interval with (i_prec 80)]. Qed.
Lemma d_A02_262u : close ctol (2097110525509651 / 4503599627370496) (volts_A02 (2524324634081087 / 17592186044416)).
Proof. apply (A02_q_volts_mid 2524324634081087 17592186044416 2097110525509651 4503599627370496); [vm_compute; reflexivity | unfold fr, close, ctol, A02_lo, A02_hi, A02_c, A02_e; interval with (i_prec 80)]. Qed.
Lemma d_A02_275u : close ctol (6415357778023553 / 9007199254740992) (volts_A02 (49595841247295 / 549755813888)).
Proof. apply (A02_q_volts_mid 49595841247295 549755813888 6415357778023553 9007199254740992); [vm_compute; reflexivity | unfold fr, close, ctol, A02_lo, A02_hi, A02_c, A02_e; interval with (i_prec 80)]. Qed.
Lemma d_A02_288u : close ctol (1061576404116599 / 1125899906842624) (volts_A02 (2336670090453667 / 35184372088832)).
Proof. apply (A02_q_volts_mid 2336670090453667 35184372088832 1061576404116599 1125899906842624); [vm_compute; reflexivity | unfold fr, close, ctol, A02_lo, A02_hi, A02_c, A02_e; interval with (i_prec 80)]. Qed.
Lemma d_A02_300r : rio_reads A02_c A02_e A02_lo A02_hi floor_volts ctol (Build_rio (Fin (8379907855962159 / 18014398509481984)) (Fin (11503 / 1024)) (Fin (1793 / 512)) (Fin (3009 / 512)) (Fin (11179 / 1024)) true true true ((Fin (1593 / 1024)) :: (Fin (1051 / 1024)) :: (Fin (1179 / 512)) :: (Fin (155579 / 1024)) :: (Fin (5923 / 1024)) :: (Fin (54611 / 1024)) :: nil)) (2527132097463467 / 17592186044416).
Proof. apply (A02_rio_fin _ (8379907855962159 / 18014398509481984)); [reflexivity | apply (A02_q_mid 8379907855962159 18014398509481984 2527132097463467 17592186044416); [vm_compute; reflexivity | unfold fr, close, ctol, A02_c, A02_e; interval with (i_prec 80)]]. Qed.
Lemma d_A02_313u : close ctol (7223545122099005 / 9007199254740992) (volts_A02 (5576799202785973 / 70368744177664)).
Proof. apply (A02_q_volts_mid 5576799202785973 70368744177664 7223545122099005 9007199254740992); [vm_compute; reflexivity | unfold fr, close, ctol, A02_lo, A02_hi, A02_c, A02_e; interval with (i_prec 80)]. Qed.
Lemma d_A02_326u : close ctol (4420835267212101 / 4503599627370496) (volts_A02 (4472238412541439 / 70368744177664)).
Proof. apply (A02_q_volts_mid 4472238412541439 70368744177664 4420835267212101 4503599627370496); [vm_compute; reflexivity | unfold fr, close, ctol, A02_lo, A02_hi, A02_c, A02_e; interval with (i_prec 80)]. Qed.
Lemma d_A02_339u : close ctol (357539307115111 / 140737488355328) (volts_A02 (2827182756359769 / 1125899906842624)).
Proof. apply (A02_q_volts_lo 2827182756359769 1125899906842624 357539307115111 140737488355328); [vm_compute; reflexivity | unfold fr, close, ctol, A02_lo, A02_hi, A02_c, A02_e; interval with (i_prec 80)]. Qed.
Lemma d_A02_352u : close ctol (5389635046164761 / 9007199254740992) (volts_A02 (1919630417079317 / 17592186044416)).
Proof. apply (A02_q_volts_mid 1919630417079317 17592186044416 5389635046164761 9007199254740992); [vm_compute; reflexivity | unfold fr, close, ctol, A02_lo, A02_hi, A02_c, A02_e; interval with (i_prec 80)]. Qed.
Lemma d_A02_364r : rio_reads A02_c A02_e A02_lo A02_hi floor_volts ctol (Build_rio (Fin (8308476880671015 / 18014398509481984)) (Fin (5121 / 1024)) (Fin (3715469692580659 / 1125899906842624)) (Fin (3091 / 512)) (Fin (12 / 1)) true true false ((Fin (715 / 1024)) :: (Fin (1381 / 1024)) :: (Fin (133 / 64)) :: (Fin (52885 / 1024)) :: (Fin (5053 / 1024)) :: (Fin (48171 / 1024)) :: nil)) (145 / 1).
Proof. apply (A02_rio_fin _ (8308476880671015 / 18014398509481984)); [reflexivity | apply (A02_q_hi 8308476880671015 18014398509481984 145 1); [vm_compute; reflexivity | unfold fr, ctol, A02_hi, A02_c, A02_e; interval with (i_prec 80)]]. Qed.
Lemma d_A02_377u : close ctol (357539307115111 / 140737488355328) (volts_A02 (2037380875654427 / 281474976710656)).
Proof. apply (A02_q_volts_lo 2037380875654427 281474976710656 357539307115111 140737488355328); [vm_compute; reflexivity | unfold fr, close, ctol, A02_lo, A02_hi, A02_c, A02_e; interval with (i_prec 80)]. Qed.
Lemma d_A02_390u : close ctol (277733956123821 / 562949953421312) (volts_A02 (1184973338067049 / 8796093022208)).
Proof. apply (A02_q_volts_mid 1184973338067049 8796093022208 277733956123821 562949953421312); [vm_compute; reflexivity | unfold fr, close, ctol, A02_lo, A02_hi, A02_c, A02_e; interval with (i_prec 80)]. Qed.
Lemma d_A02_403u : close ctol (357539307115111 / 140737488355328) (volts_A02 ((-363004080033757) / 281474976710656)).
Proof. apply (A02_q_volts_lo (-363004080033757) 281474976710656 357539307115111 140737488355328); [vm_compute; reflexivity | unfold fr, close, ctol, A02_lo, A02_hi, A02_c, A02_e; interval with (i_prec 80)]. Qed.
Lemma d_A02_416u : close ctol (357539307115111 / 140737488355328) (volts_A02 (863207982437921 / 70368744177664)).
Proof. apply (A02_q_volts_lo 863207982437921 70368744177664 357539307115111 140737488355328); [vm_compute; reflexivity | unfold fr, close, ctol, A02_lo, A02_hi, A02_c, A02_e; interval with (i_prec 80)]. Qed.
Lemma d_A02_428r : rio_reads A02_c A02_e A02_lo A02_hi floor_volts ctol (Build_rio (Fin (5625793755555865 / 9007199254740992)) (Fin (7131 / 1024)) (Fin (3477 / 1024)) (Fin (5902958103587057 / 590295810358705651712)) (Fin (5511 / 1024)) true true true ((Fin (1631 / 1024)) :: (Fin (13 / 64)) :: (Fin (95 / 512)) :: (Fin (22089 / 256)) :: (Fin (4219 / 1024)) :: (Fin (24595 / 1024)) :: nil)) (3663614092780491 / 35184372088832).
Proof. apply (A02_rio_fin _ (5625793755555865 / 9007199254740992)); [reflexivity | apply (A02_q_mid 5625793755555865 9007199254740992 3663614092780491 35184372088832); [vm_compute; reflexivity | unfold fr, close, ctol, A02_c, A02_e; interval with (i_prec 80)]]. Qed.
Lemma d_A02_441u : close ctol (7786344496719861 / 4503599627370496) (volts_A02 (4820691800021957 / 140737488355328)).
Proof. apply (A02_q_volts_mid 4820691800021957 140737488355328 7786344496719861 4503599627370496); [vm_compute; reflexivity | unfold fr, close, ctol, A02_lo, A02_hi, A02_c, A02_e; interval with (i_prec 80)]. Qed.
Lemma d_A02_454u : close ctol (5706442190131933 / 4503599627370496) (volts_A02 (3384267142597167 / 70368744177664)).
Proof. apply (A02_q_volts_mid 3384267142597167 70368744177664 5706442190131933 4503599627370496); [vm_compute; reflexivity | unfold fr, close, ctol, A02_lo, A02_hi, A02_c, A02_e; interval with (i_prec 80)]. Qed.
Lemma d_A02_467u : close ctol (3147795145687969 / 4503599627370496) (volts_A02 (810032857302009 / 8796093022208)).
Proof. apply (A02_q_volts_mid 810032857302009 8796093022208 3147795145687969 4503599627370496); [vm_compute; reflexivity | unfold fr, close, ctol, A02_lo, A02_hi, A02_c, A02_e; interval with (i_prec 80)]. Qed.
Lemma d_A02_480u : close ctol (757622408496375 / 562949953421312) (volts_A02 (1584342041456305 / 35184372088832)).
Proof. apply (A02_q_volts_mid 1584342041456305 35184372088832 757622408496375 562949953421312); [vm_compute; reflexivity | unfold fr, close, ctol, A02_lo, A02_hi, A02_c, A02_e; interval with (i_prec 80)]. Qed.
Lemma d_A02_492r : rio_reads A02_c A02_e A02_lo A02_hi floor_volts ctol (Build_rio (Fin (4803252354966823 / 9007199254740992)) (Fin (1331 / 256)) (Fin (201 / 64)) (Fin (6 / 1)) (Fin (11017 / 1024)) true false true ((Fin (2327 / 1024)) :: (Fin (685 / 512)) :: (Fin (1011 / 1024)) :: (Fin (119269 / 1024)) :: (Fin (5803 / 1024)) :: (Fin (42993 / 512)) :: nil)) (2176926572611671 / 17592186044416).
Proof. apply (A02_rio_fin _ (4803252354966823 / 9007199254740992)); [reflexivity | apply (A02_q_mid 4803252354966823 9007199254740992 2176926572611671 17592186044416); [vm_compute; reflexivity | unfold fr, close, ctol, A02_c, A02_e; interval with (i_prec 80)]]. Qed.
Lemma d_A02_505u : close ctol (2667731769900455 / 4503599627370496) (volts_A02 (3881847258716367 / 35184372088832)).
Proof. apply (A02_q_volts_mid 3881847258716367 35184372088832 2667731769900455 4503599627370496); [vm_compute; reflexivity | unfold fr, close, ctol, A02_lo, A02_hi, A02_c, A02_e; interval with (i_prec 80)]. Qed.
Lemma d_A02_518u : close ctol (357539307115111 / 140737488355328) (volts_A02 ((-2064536700811787) / 562949953421312)).
Proof. apply (A02_q_volts_lo (-2064536700811787) 562949953421312 357539307115111 140737488355328); [vm_compute; reflexivity | unfold fr, close, ctol, A02_lo, A02_hi, A02_c, A02_e; interval with (i_prec 80)]. Qed.
Lemma d_A02_531u : close ctol (357539307115111 / 140737488355328) (volts_A02 (375919954989799 / 17592186044416)).
Proof. apply (A02_q_volts_lo 375919954989799 17592186044416 357539307115111 140737488355328); [vm_compute; reflexivity | unfold fr, close, ctol, A02_lo, A02_hi, A02_c, A02_e; interval with (i_prec 80)]. Qed.
Lemma d_A02_544u : close ctol (4826553738042711 / 9007199254740992) (volts_A02 (8661810340251097 / 70368744177664)).
Proof. apply (A02_q_volts_mid 8661810340251097 70368744177664 4826553738042711 9007199254740992); [vm_compute; reflexivity | unfold fr, close, ctol, A02_lo, A02_hi, A02_c, A02_e; interval with (i_prec 80)]. Qed.
Lemma d_A02_556r : rio_reads A02_c A02_e A02_lo A02_hi floor_volts ctol (Build_rio (Fin (5894176654768235 / 9007199254740992)) (Fin (2317 / 512)) (Fin (6597 / 512)) (Fin (5902958103587057 / 590295810358705651712)) (Fin (12 / 1)) false false true ((Fin (251 / 512)) :: (Fin (703 / 512)) :: (Fin (665 / 512)) :: (Fin (14493 / 512)) :: (Fin (8177 / 1024)) :: (Fin (35963 / 512)) :: nil)) (6963672784526801 / 70368744177664).
Proof. apply (A02_rio_fin _ (5894176654768235 / 9007199254740992)); [reflexivity | apply (A02_q_mid 5894176654768235 9007199254740992 6963672784526801 70368744177664); [vm_compute; reflexivity | unfold fr, close, ctol, A02_c, A02_e; interval with (i_prec 80)]]. Qed.
Lemma d_A02_569u : close ctol (3911186160822499 / 4503599627370496) (volts_A02 (5112282091208681 / 70368744177664)).
Proof. apply (A02_q_volts_mid 5112282091208681 70368744177664 3911186160822499 4503599627370496); [vm_compute; reflexivity | unfold fr, close, ctol, A02_lo, A02_hi, A02_c, A02_e; interval with (i_prec 80)]. Qed.
Lemma d_A02_582u : close ctol (8308476880671015 / 18014398509481984) (volts_A02 (5668572028603665 / 17592186044416)).
Proof. apply (A02_q_volts_hi 5668572028603665 17592186044416 8308476880671015 18014398509481984); [vm_compute; reflexivity | unfold fr, close, ctol, A02_lo, A02_hi, A02_c, A02_e; interval with (i_prec 80)]. Qed.
Lemma d_A02_595u : close ctol (7096922348937551 / 9007199254740992) (volts_A02 (2842771412867743 / 35184372088832)).
Proof. apply (A02_q_volts_mid 2842771412867743 35184372088832 7096922348937551 9007199254740992); [vm_compute; reflexivity | unfold fr, close, ctol, A02_lo, A02_hi, A02_c, A02_e; interval with (i_prec 80)]. Qed.
Lemma d_A02_608u : close ctol (5722863563616743 / 4503599627370496) (volts_A02 (6747328420787639 / 140737488355328)).
Proof. apply (A02_q_volts_mid 6747328420787639 140737488355328 5722863563616743 4503599627370496); [vm_compute; reflexivity | unfold fr, close, ctol, A02_lo, A02_hi, A02_c, A02_e; interval with (i_prec 80)]. Qed.
Lemma d_A02_620r : rio_reads A02_c A02_e A02_lo A02_hi floor_volts ctol (Build_rio (Fin (5152511268501461 / 9007199254740992)) (Fin (1 / 202402253307310618352495346718917307049556649764142118356901358027430339567995346891960383701437124495187077864316811911389808737385793476867013399940738509921517424276566361364466907742093216341239767678472745068562007483424692698618103355649159556340810056512358769552333414615230502532186327508646006263307707741093494784)) (Fin (443 / 128)) (Fin (1525 / 256)) (Fin (6137 / 512)) true false true ((Fin (1311 / 512)) :: (Fin (27 / 1024)) :: (Fin (2265 / 1024)) :: (Fin (9313 / 256)) :: (Fin (3459 / 512)) :: (Fin (61621 / 1024)) :: nil)) (8065211112137669 / 70368744177664).
Proof. apply (A02_rio_fin _ (5152511268501461 / 9007199254740992)); [reflexivity | apply (A02_q_mid 5152511268501461 9007199254740992 8065211112137669 70368744177664); [vm_compute; reflexivity | unfold fr, close, ctol, A02_c, A02_e; interval with (i_prec 80)]]. Qed.
Lemma d_A02_633u : close ctol (3222337544981027 / 4503599627370496) (volts_A02 (6316738695684505 / 70368744177664)).
Proof. apply (A02_q_volts_mid 6316738695684505 70368744177664 3222337544981027 4503599627370496); [vm_compute; reflexivity | unfold fr, close, ctol, A02_lo, A02_hi, A02_c, A02_e; interval with (i_prec 80)]. Qed.
Lemma d_A02_646u : close ctol (8308476880671015 / 18014398509481984) (volts_A02 (6678881627131817 / 17592186044416)).
Proof. apply (A02_q_volts_hi 6678881627131817 17592186044416 8308476880671015 18014398509481984); [vm_compute; reflexivity | unfold fr, close, ctol, A02_lo, A02_hi, A02_c, A02_e; interval with (i_prec 80)]. Qed.
Lemma d_A02_659u : close ctol (357539307115111 / 140737488355328) (volts_A02 ((-6986936022188019) / 1125899906842624)).
Proof. apply (A02_q_volts_lo (-6986936022188019) 1125899906842624 357539307115111 140737488355328); [vm_compute; reflexivity | unfold fr, close, ctol, A02_lo, A02_hi, A02_c, A02_e; interval with (i_prec 80)]. Qed.
Lemma r_A21_430 : rio_reads A21_c A21_e A21_lo A21_hi floor_volts ctol (Build_rio (Fin (5854679515581645 / 2251799813685248)) (Fin (2589569785738035 / 562949953421312)) (Fin (3715469692580659 / 1125899906842624)) (Fin (6 / 1)) (Fin (12 / 1)) true true true ((Fin (0 / 1)) :: (Fin (0 / 1)) :: (Fin (0 / 1)) :: (Fin (0 / 1)) :: (Fin (27 / 4)) :: (Fin (45 / 1)) :: nil)) (10 / 1).
Proof. apply (A21_rio_fin _ (5854679515581645 / 2251799813685248)); [reflexivity | apply (A21_q_lo 5854679515581645 2251799813685248 10 1); [vm_compute; reflexivity | unfold fr, ctol, A21_lo, A21_c, A21_e; interval with (i_prec 80)]]. Qed.
Lemma r_A21_463 : rio_reads A21_c A21_e A21_lo A21_hi floor_volts ctol (Build_rio (Fin (7303775102731699 / 18014398509481984)) (Fin (5 / 1)) (Fin (3715469692580659 / 1125899906842624)) (Fin (11 / 2)) (Fin (12 / 1)) true true true ((Fin (0 / 1)) :: (Fin (0 / 1)) :: (Fin (0 / 1)) :: (Fin (0 / 1)) :: (Fin (27 / 4)) :: (Fin (45 / 1)) :: nil)) (80 / 1).
Proof. apply (A21_rio_fin _ (7303775102731699 / 18014398509481984)); [reflexivity | apply (A21_q_hi 7303775102731699 18014398509481984 80 1); [vm_compute; reflexivity | unfold fr, ctol, A21_hi, A21_c, A21_e; interval with (i_prec 80)]]. Qed.
Lemma r_A21_479 : rio_reads A21_c A21_e A21_lo A21_hi floor_volts ctol (Build_rio (Fin (415 / 1024)) (Fin (5 / 1)) (Fin (3715469692580659 / 1125899906842624)) (Fin (6 / 1)) (Fin (12 / 1)) true true true ((Fin (0 / 1)) :: (Fin (0 / 1)) :: (Fin (0 / 1)) :: (Fin (0 / 1)) :: (Fin (25 / 4)) :: (Fin (45 / 1)) :: nil)) (80 / 1).
Proof. apply (A21_rio_fin _ (415 / 1024)); [reflexivity | apply (A21_q_hi 415 1024 80 1); [vm_compute; reflexivity | unfold fr, ctol, A21_hi, A21_c, A21_e; interval with (i_prec 80)]]. Qed.
Lemma r_A21_495 : rio_reads A21_c A21_e A21_lo A21_hi floor_volts ctol (Build_rio (Fin (25 / 256)) (Fin (5 / 1)) (Fin (3715469692580659 / 1125899906842624)) (Fin (6 / 1)) (Fin (12 / 1)) true true true ((Fin (0 / 1)) :: (Fin (0 / 1)) :: (Fin (0 / 1)) :: (Fin (0 / 1)) :: (Fin (27 / 4)) :: (Fin (45 / 1)) :: nil)) (80 / 1).
Proof. apply (A21_rio_fin _ (25 / 256)); [reflexivity | apply (A21_q_hi 25 256 80 1); [vm_compute; reflexivity | unfold fr, ctol, A21_hi, A21_c, A21_e; interval with (i_prec 80)]]. Qed.
Lemma r_A21_511 : rio_reads A21_c A21_e A21_lo A21_hi floor_volts ctol (Build_rio (Fin (105 / 256)) (Fin (4055 / 512)) (Fin (3363 / 1024)) (Fin (2903 / 512)) (Fin (5113 / 512)) true true true ((Fin (1389 / 1024)) :: (Fin (761 / 1024)) :: (Fin (199 / 1024)) :: (Fin (29555 / 1024)) :: (Fin (1103 / 256)) :: (Fin (7523 / 256)) :: nil)) (1387564507947257 / 17592186044416).
Proof. apply (A21_rio_fin _ (105 / 256)); [reflexivity | apply (A21_q_mid 105 256 1387564507947257 17592186044416); [vm_compute; reflexivity | unfold fr, close, ctol, A21_c, A21_e; interval with (i_prec 80)]]. Qed.
Lemma r_A21_527 : rio_reads A21_c A21_e A21_lo A21_hi floor_volts ctol (Build_rio (Fin (185 / 256)) (Fin (5 / 1)) (Fin (237 / 64)) (Fin (6101 / 1024)) (Fin (3811 / 1024)) true false true ((Fin (1125 / 1024)) :: (Fin (941 / 1024)) :: (Fin (367 / 512)) :: (Fin (681 / 256)) :: (Fin (6827 / 1024)) :: (Fin (14729 / 256)) :: nil)) (2771652095116949 / 70368744177664).
Proof. apply (A21_rio_fin _ (185 / 256)); [reflexivity | apply (A21_q_mid 185 256 2771652095116949 70368744177664); [vm_compute; reflexivity | unfold fr, close, ctol, A21_c, A21_e; interval with (i_prec 80)]]. Qed.
Lemma r_A21_543 : rio_reads A21_c A21_e A21_lo A21_hi floor_volts ctol (Build_rio (Fin (265 / 256)) (Fin (5 / 1)) (Fin (3715469692580659 / 1125899906842624)) (Fin (6 / 1)) (Fin (12 / 1)) true true true ((Fin (0 / 1)) :: (Fin (0 / 1)) :: (Fin (0 / 1)) :: (Fin (0 / 1)) :: (Fin (27 / 4)) :: (Fin (45 / 1)) :: nil)) (891993762594109 / 35184372088832).
Proof. apply (A21_rio_fin _ (265 / 256)); [reflexivity | apply (A21_q_mid 265 256 891993762594109 35184372088832); [vm_compute; reflexivity | unfold fr, close, ctol, A21_c, A21_e; interval with (i_prec 80)]]. Qed.
Lemma r_A21_559 : rio_reads A21_c A21_e A21_lo A21_hi floor_volts ctol (Build_rio (Fin (345 / 256)) (Fin (2347 / 512)) (Fin (3255 / 1024)) (Fin (5917 / 1024)) (Fin (6641 / 512)) true true true ((Fin (219 / 256)) :: (Fin (1815 / 1024)) :: (Fin (855 / 1024)) :: (Fin (98909 / 512)) :: (Fin (6415 / 1024)) :: (Fin (25619 / 512)) :: nil)) (2581992876375169 / 140737488355328).
Proof. apply (A21_rio_fin _ (345 / 256)); [reflexivity | apply (A21_q_mid 345 256 2581992876375169 140737488355328); [vm_compute; reflexivity | unfold fr, close, ctol, A21_c, A21_e; interval with (i_prec 80)]]. Qed.
Lemma r_A21_575 : rio_reads A21_c A21_e A21_lo A21_hi floor_volts ctol (Build_rio (Fin (425 / 256)) (Fin (4287 / 1024)) (Fin (1425 / 512)) (Fin (6281 / 512)) (Fin (11943 / 1024)) true false true ((Fin (203 / 128)) :: (Fin (55 / 1024)) :: (Fin (631 / 256)) :: (Fin (79305 / 512)) :: (Fin (8919 / 1024)) :: (Fin (14353 / 512)) :: nil)) (3998954085100655 / 281474976710656).
Proof. apply (A21_rio_fin _ (425 / 256)); [reflexivity | apply (A21_q_mid 425 256 3998954085100655 281474976710656); [vm_compute; reflexivity | unfold fr, close, ctol, A21_c, A21_e; interval with (i_prec 80)]]. Qed.
Lemma r_A21_591 : rio_reads A21_c A21_e A21_lo A21_hi floor_volts ctol (Build_rio (Fin (505 / 256)) (Fin (5 / 1)) (Fin (3715469692580659 / 1125899906842624)) (Fin (6 / 1)) (Fin (12 / 1)) true true true ((Fin (0 / 1)) :: (Fin (0 / 1)) :: (Fin (0 / 1)) :: (Fin (0 / 1)) :: (Fin (27 / 4)) :: (Fin (45 / 1)) :: nil)) (6473602250106787 / 562949953421312).
Proof. apply (A21_rio_fin _ (505 / 256)); [reflexivity | apply (A21_q_mid 505 256 6473602250106787 562949953421312); [vm_compute; reflexivity | unfold fr, close, ctol, A21_c, A21_e; interval with (i_prec 80)]]. Qed.
Lemma r_A21_607 : rio_reads A21_c A21_e A21_lo A21_hi floor_volts ctol (Build_rio (Fin (585 / 256)) (Fin (2131 / 512)) (Fin (3229 / 1024)) (Fin (5763 / 1024)) (Fin (3287 / 256)) true true false ((Fin (641 / 256)) :: (Fin (197 / 1024)) :: (Fin (2041 / 1024)) :: (Fin (167247 / 1024)) :: (Fin (6599 / 1024)) :: (Fin ((-3473) / 256)) :: nil)) (10 / 1).
Proof. apply (A21_rio_fin _ (585 / 256)); [reflexivity | apply (A21_q_lo 585 256 10 1); [vm_compute; reflexivity | unfold fr, ctol, A21_lo, A21_c, A21_e; interval with (i_prec 80)]]. Qed.
Lemma r_A21_623 : rio_reads A21_c A21_e A21_lo A21_hi floor_volts ctol (Build_rio (Fin (665 / 256)) (Fin (7389 / 512)) (Fin (2993 / 1024)) (Fin (1 / 202402253307310618352495346718917307049556649764142118356901358027430339567995346891960383701437124495187077864316811911389808737385793476867013399940738509921517424276566361364466907742093216341239767678472745068562007483424692698618103355649159556340810056512358769552333414615230502532186327508646006263307707741093494784)) (Fin (12 / 1)) true true false ((Fin (2101 / 1024)) :: (Fin (95 / 64)) :: (Fin (145 / 512)) :: (Fin (172159 / 1024)) :: (Fin (3179 / 512)) :: (Fin (2453 / 128)) :: nil)) (10 / 1).
Proof. apply (A21_rio_fin _ (665 / 256)); [reflexivity | apply (A21_q_lo 665 256 10 1); [vm_compute; reflexivity | unfold fr, ctol, A21_lo, A21_c, A21_e; interval with (i_prec 80)]]. Qed.
Lemma r_A21_639 : rio_reads A21_c A21_e A21_lo A21_hi floor_volts ctol (Build_rio (Fin (745 / 256)) (Fin (5 / 1)) (Fin (3715469692580659 / 1125899906842624)) (Fin (6 / 1)) (Fin (12 / 1)) true true true ((Fin (0 / 1)) :: (Fin (0 / 1)) :: (Fin (0 / 1)) :: (Fin (0 / 1)) :: (Fin (27 / 4)) :: (Fin (45 / 1)) :: nil)) (10 / 1).
Proof. apply (A21_rio_fin _ (745 / 256)); [reflexivity | apply (A21_q_lo 745 256 10 1); [vm_compute; reflexivity | unfold fr, ctol, A21_lo, A21_c, A21_e; interval with (i_prec 80)]]. Qed.
Lemma r_A21_655 : rio_reads A21_c A21_e A21_lo A21_hi floor_volts ctol (Build_rio (Fin (825 / 256)) (Fin (4343 / 1024)) (Fin (100000000000000001097906362944045541740492309677311846336810682903157585404911491537163328978494688899061249669721172515611590283743140088328307009198146046031271664502933027185697489699588559043338384466165001178426897626212945177628091195786707458122783970171784415105291802893207873272974885715430223118336 / 1)) (Fin (6 / 1)) (Fin (4291 / 512)) true true true ((Fin (1317 / 1024)) :: (Fin (379 / 1024)) :: (Fin (671 / 256)) :: (Fin (150797 / 1024)) :: (Fin (7615 / 1024)) :: (Fin (56095 / 1024)) :: nil)) (10 / 1).
Proof. apply (A21_rio_fin _ (825 / 256)); [reflexivity | apply (A21_q_lo 825 256 10 1); [vm_compute; reflexivity | unfold fr, ctol, A21_lo, A21_c, A21_e; interval with (i_prec 80)]]. Qed.
Lemma r_A21_671 : rio_reads A21_c A21_e A21_lo A21_hi floor_volts ctol (Build_rio (Fin (905 / 256)) (Fin (3329 / 512)) (Fin (705 / 256)) (Fin (6145 / 1024)) (Fin (12 / 1)) true true true ((Fin (269 / 1024)) :: (Fin (1787 / 1024)) :: (Fin (297 / 256)) :: (Fin (166551 / 1024)) :: (Fin (1677 / 256)) :: (Fin (4963 / 512)) :: nil)) (10 / 1).
Proof. apply (A21_rio_fin _ (905 / 256)); [reflexivity | apply (A21_q_lo 905 256 10 1); [vm_compute; reflexivity | unfold fr, ctol, A21_lo, A21_c, A21_e; interval with (i_prec 80)]]. Qed.
Lemma r_A21_687 : rio_reads A21_c A21_e A21_lo A21_hi floor_volts ctol (Build_rio (Fin (985 / 256)) (Fin (5 / 1)) (Fin (3715469692580659 / 1125899906842624)) (Fin (6 / 1)) (Fin (12 / 1)) true true true ((Fin (0 / 1)) :: (Fin (0 / 1)) :: (Fin (0 / 1)) :: (Fin (0 / 1)) :: (Fin (27 / 4)) :: (Fin (45 / 1)) :: nil)) (10 / 1).
Proof. apply (A21_rio_fin _ (985 / 256)); [reflexivity | apply (A21_q_lo 985 256 10 1); [vm_compute; reflexivity | unfold fr, ctol, A21_lo, A21_c, A21_e; interval with (i_prec 80)]]. Qed.
Lemma r_A21_703 : rio_reads A21_c A21_e A21_lo A21_hi floor_volts ctol (Build_rio (Fin (1065 / 256)) (Fin (4245 / 1024)) (Fin (3715469692580659 / 1125899906842624)) (Fin (6057 / 1024)) (Fin (12853 / 1024)) true false true ((Fin (283 / 1024)) :: (Fin (1 / 128)) :: (Fin (1153 / 1024)) :: (Fin (6909 / 128)) :: (Fin (8927 / 1024)) :: (Fin (75427 / 1024)) :: nil)) (10 / 1).
Proof. apply (A21_rio_fin _ (1065 / 256)); [reflexivity | apply (A21_q_lo 1065 256 10 1); [vm_compute; reflexivity | unfold fr, ctol, A21_lo, A21_c, A21_e; interval with (i_prec 80)]]. Qed.
Lemma r_A21_719 : rio_reads A21_c A21_e A21_lo A21_hi floor_volts ctol (Build_rio (Fin (1145 / 256)) (Fin ((-1) / 1)) (Fin (2759 / 1024)) (Fin (0 / 1)) (Fin (10911 / 1024)) true true true ((Fin (881 / 1024)) :: (Fin (89 / 256)) :: (Fin (1233 / 1024)) :: (Fin (127249 / 1024)) :: (Fin (3555 / 512)) :: (Fin (64847 / 1024)) :: nil)) (10 / 1).
Proof. apply (A21_rio_fin _ (1145 / 256)); [reflexivity | apply (A21_q_lo 1145 256 10 1); [vm_compute; reflexivity | unfold fr, ctol, A21_lo, A21_c, A21_e; interval with (i_prec 80)]]. Qed.
Lemma r_A21_735 : rio_reads A21_c A21_e A21_lo A21_hi floor_volts ctol (Build_rio (Fin (1225 / 256)) (Fin (5 / 1)) (Fin (3715469692580659 / 1125899906842624)) (Fin (6 / 1)) (Fin (12 / 1)) true true true ((Fin (0 / 1)) :: (Fin (0 / 1)) :: (Fin (0 / 1)) :: (Fin (0 / 1)) :: (Fin (27 / 4)) :: (Fin (45 / 1)) :: nil)) (10 / 1).
Proof. apply (A21_rio_fin _ (1225 / 256)); [reflexivity | apply (A21_q_lo 1225 256 10 1); [vm_compute; reflexivity | unfold fr, ctol, A21_lo, A21_c, A21_e; interval with (i_prec 80)]]. Qed.
Lemma r_A21_751 : rio_reads A21_c A21_e A21_lo A21_hi floor_volts ctol (Build_rio (Fin (673878289551265 / 9007199254740992)) (Fin (9305 / 1024)) (Fin (3185 / 1024)) (Fin (3265 / 512)) (Fin (1523 / 128)) true true true ((Fin (2611 / 1024)) :: (Fin (35 / 512)) :: (Fin (65 / 128)) :: (Fin (23389 / 1024)) :: (Fin (2173 / 256)) :: (Fin ((-10269) / 1024)) :: nil)) (80 / 1).
Proof. apply (A21_rio_fin _ (673878289551265 / 9007199254740992)); [reflexivity | apply (A21_q_hi 673878289551265 9007199254740992 80 1); [vm_compute; reflexivity | unfold fr, ctol, A21_hi, A21_c, A21_e; interval with (i_prec 80)]]. Qed.
Lemma r_A21_767 : rio_reads A21_c A21_e A21_lo A21_hi floor_volts ctol (Build_rio (Fin (1045822455937459 / 562949953421312)) PInf (Fin (3715469692580659 / 1125899906842624)) (Fin (5313 / 1024)) (Fin (12 / 1)) true true true ((Fin (675 / 256)) :: (Fin (1263 / 1024)) :: (Fin (933 / 512)) :: (Fin (126767 / 1024)) :: (Fin (3257 / 512)) :: (Fin (44375 / 512)) :: nil)) (6967862008092043 / 562949953421312).
Proof. apply (A21_rio_fin _ (1045822455937459 / 562949953421312)); [reflexivity | apply (A21_q_mid 1045822455937459 562949953421312 6967862008092043 562949953421312); [vm_compute; reflexivity | unfold fr, close, ctol, A21_c, A21_e; interval with (i_prec 80)]]. Qed.
Lemma r_A21_783 : rio_reads A21_c A21_e A21_lo A21_hi floor_volts ctol (Build_rio (Fin (2756427580773281 / 2251799813685248)) (Fin (5 / 1)) (Fin (3715469692580659 / 1125899906842624)) (Fin (6 / 1)) (Fin (12 / 1)) true true true ((Fin (0 / 1)) :: (Fin (0 / 1)) :: (Fin (0 / 1)) :: (Fin (0 / 1)) :: (Fin (27 / 4)) :: (Fin (45 / 1)) :: nil)) (363132951270509 / 17592186044416).
Proof. apply (A21_rio_fin _ (2756427580773281 / 2251799813685248)); [reflexivity | apply (A21_q_mid 2756427580773281 2251799813685248 363132951270509 17592186044416); [vm_compute; reflexivity | unfold fr, close, ctol, A21_c, A21_e; interval with (i_prec 80)]]. Qed.
Lemma r_A21_799 : rio_reads A21_c A21_e A21_lo A21_hi floor_volts ctol (Build_rio (Fin (2654185632156605 / 1125899906842624)) (Fin (5 / 1)) (Fin (12469 / 1024)) (Fin (6 / 1)) (Fin (12059 / 1024)) true false true ((Fin (299 / 1024)) :: (Fin (39 / 128)) :: (Fin (1457 / 512)) :: (Fin (18733 / 1024)) :: (Fin (403 / 64)) :: (Fin (18827 / 256)) :: nil)) (10 / 1).
Proof. apply (A21_rio_fin _ (2654185632156605 / 1125899906842624)); [reflexivity | apply (A21_q_lo 2654185632156605 1125899906842624 10 1); [vm_compute; reflexivity | unfold fr, ctol, A21_lo, A21_c, A21_e; interval with (i_prec 80)]]. Qed.
Lemma r_A21_816 : rio_reads A21_c A21_e A21_lo A21_hi floor_volts ctol (Build_rio (Fin (6235647622529899 / 147573952589676412928)) (Fin (4285 / 1024)) (Fin (1669 / 512)) (Fin (4375 / 512)) (Fin (13347 / 1024)) true false true ((Fin (2813 / 1024)) :: (Fin (281 / 512)) :: (Fin (701 / 256)) :: (Fin (10253 / 128)) :: (Fin (8143 / 1024)) :: (Fin (2071 / 64)) :: nil)) (80 / 1).
Proof. apply (A21_rio_fin _ (6235647622529899 / 147573952589676412928)); [reflexivity | apply (A21_q_hi 6235647622529899 147573952589676412928 80 1); [vm_compute; reflexivity | unfold fr, ctol, A21_hi, A21_c, A21_e; interval with (i_prec 80)]]. Qed.
Lemma r_A21_839 : rio_reads A21_c A21_e A21_lo A21_hi floor_volts ctol (Build_rio (Fin (5157681901416659 / 140737488355328)) (Fin (165 / 32)) (Fin (3715469692580659 / 1125899906842624)) (Fin (6 / 1)) (Fin (3329 / 256)) false false true ((Fin (1491 / 1024)) :: (Fin (157 / 512)) :: (Fin (2895 / 1024)) :: (Fin (148485 / 1024)) :: (Fin (4853 / 1024)) :: (Fin (7063 / 256)) :: nil)) (10 / 1).
Proof. apply (A21_rio_fin _ (5157681901416659 / 140737488355328)); [reflexivity | apply (A21_q_lo 5157681901416659 140737488355328 10 1); [vm_compute; reflexivity | unfold fr, ctol, A21_lo, A21_c, A21_e; interval with (i_prec 80)]]. Qed.
Lemma d_A21_672u : close ctol (7303775102731699 / 18014398509481984) (volts_A21 (100 / 1)).
Proof. apply (A21_q_volts_hi 100 1 7303775102731699 18014398509481984); [vm_compute; reflexivity | unfold fr, close, ctol, A21_lo, A21_hi, A21_c, A21_e; interval with (i_prec 80)]. Qed.
Lemma d_A21_680u : close ctol (7303775102731699 / 18014398509481984) (volts_A21 (150 / 1)).
Proof. apply (A21_q_volts_hi 150 1 7303775102731699 18014398509481984); [vm_compute; reflexivity | unfold fr, close, ctol, A21_lo, A21_hi, A21_c, A21_e; interval with (i_prec 80)]. Qed.
Lemma d_A21_688u : close ctol (2489100355631953 / 1125899906842624) (volts_A21 ((-1) / 1)).
Proof. apply (A21_q_volts_lo (-1) 1 2489100355631953 1125899906842624); [vm_compute; reflexivity | unfold fr, close, ctol, A21_lo, A21_hi, A21_c, A21_e; interval with (i_prec 80)]. Qed.
Lemma d_A21_696u : close ctol (2489100355631953 / 1125899906842624) (volts_A21 (10 / 1)).
Proof. apply (A21_q_volts_lo 10 1 2489100355631953 1125899906842624); [vm_compute; reflexivity | unfold fr, close, ctol, A21_lo, A21_hi, A21_c, A21_e; interval with (i_prec 80)]. Qed.
Lemma d_A21_704u : close ctol (7303775102731699 / 18014398509481984) (volts_A21 (1000000 / 1)).
Proof. apply (A21_q_volts_hi 1000000 1 7303775102731699 18014398509481984); [vm_compute; reflexivity | unfold fr, close, ctol, A21_lo, A21_hi, A21_c, A21_e; interval with (i_prec 80)]. Qed.
Lemma d_A21_712u : close ctol (2489100355631953 / 1125899906842624) (volts_A21 (5629499534213121 / 562949953421312)).
Proof. apply (A21_q_volts_mid 5629499534213121 562949953421312 2489100355631953 1125899906842624); [vm_compute; reflexivity | unfold fr, close, ctol, A21_lo, A21_hi, A21_c, A21_e; interval with (i_prec 80)]. Qed.
Lemma d_A21_720u : close ctol (7303775102731699 / 18014398509481984) (volts_A21 (81 / 1)).
Proof. apply (A21_q_volts_hi 81 1 7303775102731699 18014398509481984); [vm_compute; reflexivity | unfold fr, close, ctol, A21_lo, A21_hi, A21_c, A21_e; interval with (i_prec 80)]. Qed.
Lemma d_A21_730u : close ctol (2489100355631953 / 1125899906842624) (volts_A21 (1200819285220089 / 140737488355328)).
Proof. apply (A21_q_volts_lo 1200819285220089 140737488355328 2489100355631953 1125899906842624); [vm_compute; reflexivity | unfold fr, close, ctol, A21_lo, A21_hi, A21_c, A21_e; interval with (i_prec 80)]. Qed.
Lemma d_A21_743u : close ctol (4582057475597203 / 9007199254740992) (volts_A21 (133200521211729 / 2199023255552)).
Proof. apply (A21_q_volts_mid 133200521211729 2199023255552 4582057475597203 9007199254740992); [vm_compute; reflexivity | unfold fr, close, ctol, A21_lo, A21_hi, A21_c, A21_e; interval with (i_prec 80)]. Qed.
Lemma d_A21_756u : close ctol (2489100355631953 / 1125899906842624) (volts_A21 ((-3231061847386053) / 1125899906842624)).
Proof. apply (A21_q_volts_lo (-3231061847386053) 1125899906842624 2489100355631953 1125899906842624); [vm_compute; reflexivity | unfold fr, close, ctol, A21_lo, A21_hi, A21_c, A21_e; interval with (i_prec 80)]. Qed.
Lemma d_A21_768r : rio_reads A21_c A21_e A21_lo A21_hi floor_volts ctol (Build_rio (Fin (3718511177472783 / 9007199254740992)) PInf (Fin (3693 / 1024)) (Fin (2511 / 512)) (Fin ((-12) / 1)) false false false ((Fin (1071 / 1024)) :: (Fin (1417 / 1024)) :: (Fin (623 / 256)) :: (Fin (109407 / 1024)) :: (Fin (5343 / 1024)) :: (Fin (3267 / 64)) :: nil)) (2753046924661741 / 35184372088832).
Proof. apply (A21_rio_fin _ (3718511177472783 / 9007199254740992)); [reflexivity | apply (A21_q_mid 3718511177472783 9007199254740992 2753046924661741 35184372088832); [vm_compute; reflexivity | unfold fr, close, ctol, A21_c, A21_e; interval with (i_prec 80)]]. Qed.
Lemma d_A21_781u : close ctol (3047971169091523 / 4503599627370496) (volts_A21 (3003696392095773 / 70368744177664)).
Proof. apply (A21_q_volts_mid 3003696392095773 70368744177664 3047971169091523 4503599627370496); [vm_compute; reflexivity | unfold fr, close, ctol, A21_lo, A21_hi, A21_c, A21_e; interval with (i_prec 80)]. Qed.
Lemma d_A21_794u : close ctol (4169700909577565 / 4503599627370496) (volts_A21 (4091049399251119 / 140737488355328)).
Proof. apply (A21_q_volts_mid 4091049399251119 140737488355328 4169700909577565 4503599627370496); [vm_compute; reflexivity | unfold fr, close, ctol, A21_lo, A21_hi, A21_c, A21_e; interval with (i_prec 80)]. Qed.
Lemma d_A21_807u : close ctol (2489100355631953 / 1125899906842624) (volts_A21 ((-5297706783585821) / 1125899906842624)).
Proof. apply (A21_q_volts_lo (-5297706783585821) 1125899906842624 2489100355631953 1125899906842624); [vm_compute; reflexivity | unfold fr, close, ctol, A21_lo, A21_hi, A21_c, A21_e; interval with (i_prec 80)]. Qed.
Lemma d_A21_820u : close ctol (2558975202771669 / 4503599627370496) (volts_A21 (7443793648303347 / 140737488355328)).
Proof. apply (A21_q_volts_mid 7443793648303347 140737488355328 2558975202771669 4503599627370496); [vm_compute; reflexivity | unfold fr, close, ctol, A21_lo, A21_hi, A21_c, A21_e; interval with (i_prec 80)]. Qed.
Lemma d_A21_832r : rio_reads A21_c A21_e A21_lo A21_hi floor_volts ctol (Build_rio (Fin (5158010911495055 / 9007199254740992)) (Fin (5 / 1)) (Fin (893 / 256)) (Fin (5883 / 1024)) (Fin (12 / 1)) true false false ((Fin (3031 / 1024)) :: (Fin (245 / 1024)) :: (Fin (1985 / 1024)) :: (Fin (95283 / 1024)) :: (Fin (2249 / 256)) :: (Fin ((-10007) / 1024)) :: nil)) (7372976752851691 / 140737488355328).
Proof. apply (A21_rio_fin _ (5158010911495055 / 9007199254740992)); [reflexivity | apply (A21_q_mid 5158010911495055 9007199254740992 7372976752851691 140737488355328); [vm_compute; reflexivity | unfold fr, close, ctol, A21_c, A21_e; interval with (i_prec 80)]]. Qed.
Lemma d_A21_845u : close ctol (2489100355631953 / 1125899906842624) (volts_A21 (2451643319617977 / 281474976710656)).
Proof. apply (A21_q_volts_lo 2451643319617977 281474976710656 2489100355631953 1125899906842624); [vm_compute; reflexivity | unfold fr, close, ctol, A21_lo, A21_hi, A21_c, A21_e; interval with (i_prec 80)]. Qed.
Lemma d_A21_858u : close ctol (8931485566291711 / 18014398509481984) (volts_A21 (8797847478313621 / 140737488355328)).
Proof. apply (A21_q_volts_mid 8797847478313621 140737488355328 8931485566291711 18014398509481984); [vm_compute; reflexivity | unfold fr, close, ctol, A21_lo, A21_hi, A21_c, A21_e; interval with (i_prec 80)]. Qed.
Lemma d_A21_871u : close ctol (1719318266102661 / 2251799813685248) (volts_A21 (1295429475624039 / 35184372088832)).
Proof. apply (A21_q_volts_mid 1295429475624039 35184372088832 1719318266102661 2251799813685248); [vm_compute; reflexivity | unfold fr, close, ctol, A21_lo, A21_hi, A21_c, A21_e; interval with (i_prec 80)]. Qed.
Lemma d_A21_884u : close ctol (3616733623635505 / 4503599627370496) (volts_A21 (2435326994198665 / 70368744177664)).
Proof. apply (A21_q_volts_mid 2435326994198665 70368744177664 3616733623635505 4503599627370496); [vm_compute; reflexivity | unfold fr, close, ctol, A21_lo, A21_hi, A21_c, A21_e; interval with (i_prec 80)]. Qed.
Lemma d_A21_896r : rio_reads A21_c A21_e A21_lo A21_hi floor_volts ctol (Build_rio (Fin (8330614639180437 / 18014398509481984)) (Fin (37 / 16)) (Fin (3607 / 1024)) (Fin (635 / 128)) (Fin (5179 / 512)) true true true ((Fin (545 / 1024)) :: (Fin (1379 / 1024)) :: (Fin (203 / 128)) :: (Fin (98373 / 512)) :: (Fin (3119 / 1024)) :: (Fin (22875 / 256)) :: nil)) (1197757341203871 / 17592186044416).
Proof. apply (A21_rio_fin _ (8330614639180437 / 18014398509481984)); [reflexivity | apply (A21_q_mid 8330614639180437 18014398509481984 1197757341203871 17592186044416); [vm_compute; reflexivity | unfold fr, close, ctol, A21_c, A21_e; interval with (i_prec 80)]]. Qed.
Lemma d_A21_909u : close ctol (6708312612114255 / 9007199254740992) (volts_A21 (2671088136157921 / 70368744177664)).
Proof. apply (A21_q_volts_mid 2671088136157921 70368744177664 6708312612114255 9007199254740992); [vm_compute; reflexivity | unfold fr, close, ctol, A21_lo, A21_hi, A21_c, A21_e; interval with (i_prec 80)]. Qed.
Lemma d_A21_922u : close ctol (5247933997505257 / 9007199254740992) (volts_A21 (3609195279857059 / 70368744177664)).
Proof. apply (A21_q_volts_mid 3609195279857059 70368744177664 5247933997505257 9007199254740992); [vm_compute; reflexivity | unfold fr, close, ctol, A21_lo, A21_hi, A21_c, A21_e; interval with (i_prec 80)]. Qed.
Lemma d_A21_935u : close ctol (8598113378883427 / 9007199254740992) (volts_A21 (28 / 1)).
Proof. apply (A21_q_volts_mid 28 1 8598113378883427 9007199254740992); [vm_compute; reflexivity | unfold fr, close, ctol, A21_lo, A21_hi, A21_c, A21_e; interval with (i_prec 80)]. Qed.
Lemma d_A21_948u : close ctol (7303775102731699 / 18014398509481984) (volts_A21 (586874084535923 / 4398046511104)).
Proof. apply (A21_q_volts_hi 586874084535923 4398046511104 7303775102731699 18014398509481984); [vm_compute; reflexivity | unfold fr, close, ctol, A21_lo, A21_hi, A21_c, A21_e; interval with (i_prec 80)]. Qed.
Lemma d_A21_960r : rio_reads A21_c A21_e A21_lo A21_hi floor_volts ctol (Build_rio (Fin (8056805246947269 / 4503599627370496)) (Fin (4767 / 1024)) (Fin (1581 / 512)) (Fin (1555 / 256)) (Fin (11037 / 1024)) false true true ((Fin (3047 / 1024)) :: (Fin (897 / 512)) :: (Fin (1621 / 1024)) :: (Fin (79789 / 512)) :: (Fin (1073 / 256)) :: (Fin (3965 / 512)) :: nil)) (7297727695746655 / 562949953421312).
Proof. apply (A21_rio_fin _ (8056805246947269 / 4503599627370496)); [reflexivity | apply (A21_q_mid 8056805246947269 4503599627370496 7297727695746655 562949953421312); [vm_compute; reflexivity | unfold fr, close, ctol, A21_c, A21_e; interval with (i_prec 80)]]. Qed.
Lemma d_A21_973u : close ctol (5888518401336451 / 9007199254740992) (volts_A21 (3133925835152205 / 70368744177664)).
Proof. apply (A21_q_volts_mid 3133925835152205 70368744177664 5888518401336451 9007199254740992); [vm_compute; reflexivity | unfold fr, close, ctol, A21_lo, A21_hi, A21_c, A21_e; interval with (i_prec 80)]. Qed.
Lemma d_A21_986u : close ctol (344971168910347 / 562949953421312) (volts_A21 (3392683163255915 / 70368744177664)).
Proof. apply (A21_q_volts_mid 3392683163255915 70368744177664 344971168910347 562949953421312); [vm_compute; reflexivity | unfold fr, close, ctol, A21_lo, A21_hi, A21_c, A21_e; interval with (i_prec 80)]. Qed.
Lemma d_A21_999u : close ctol (5722568418371979 / 4503599627370496) (volts_A21 (2775088118752317 / 140737488355328)).
Proof. apply (A21_q_volts_mid 2775088118752317 140737488355328 5722568418371979 4503599627370496); [vm_compute; reflexivity | unfold fr, close, ctol, A21_lo, A21_hi, A21_c, A21_e; interval with (i_prec 80)]. Qed.
Lemma d_A21_1012u : close ctol (1826433419533659 / 2251799813685248) (volts_A21 (2405826209688825 / 70368744177664)).
Proof. apply (A21_q_volts_mid 2405826209688825 70368744177664 1826433419533659 2251799813685248); [vm_compute; reflexivity | unfold fr, close, ctol, A21_lo, A21_hi, A21_c, A21_e; interval with (i_prec 80)]. Qed.
Lemma d_A21_1024r : rio_reads A21_c A21_e A21_lo A21_hi floor_volts ctol (Build_rio (Fin (767684103599371 / 1125899906842624)) (Fin (5 / 1)) (Fin (817 / 256)) PInf (Fin (575 / 512)) false true true ((Fin (543 / 512)) :: (Fin (5 / 8)) :: (Fin (765 / 1024)) :: (Fin (127289 / 1024)) :: (Fin (5751 / 1024)) :: (Fin (801 / 1024)) :: nil)) (5952836897620715 / 140737488355328).
Proof. apply (A21_rio_fin _ (767684103599371 / 1125899906842624)); [reflexivity | apply (A21_q_mid 767684103599371 1125899906842624 5952836897620715 140737488355328); [vm_compute; reflexivity | unfold fr, close, ctol, A21_c, A21_e; interval with (i_prec 80)]]. Qed.
Lemma d_A21_1037u : close ctol (7303775102731699 / 18014398509481984) (volts_A21 (8386563475221295 / 35184372088832)).
Proof. apply (A21_q_volts_hi 8386563475221295 35184372088832 7303775102731699 18014398509481984); [vm_compute; reflexivity | unfold fr, close, ctol, A21_lo, A21_hi, A21_c, A21_e; interval with (i_prec 80)]. Qed.
Lemma d_A21_1050u : close ctol (8391548855194987 / 9007199254740992) (volts_A21 (8119806102413273 / 281474976710656)).
Proof. apply (A21_q_volts_mid 8119806102413273 281474976710656 8391548855194987 9007199254740992); [vm_compute; reflexivity | unfold fr, close, ctol, A21_lo, A21_hi, A21_c, A21_e; interval with (i_prec 80)]. Qed.
Lemma d_A21_1063u : close ctol (5968242411430927 / 4503599627370496) (volts_A21 (2635697612360337 / 140737488355328)).
Proof. apply (A21_q_volts_mid 2635697612360337 140737488355328 5968242411430927 4503599627370496); [vm_compute; reflexivity | unfold fr, close, ctol, A21_lo, A21_hi, A21_c, A21_e; interval with (i_prec 80)]. Qed.
Lemma d_A21_1076u : close ctol (7942371589414837 / 9007199254740992) (volts_A21 (4343173346541349 / 140737488355328)).
Proof. apply (A21_q_volts_mid 4343173346541349 140737488355328 7942371589414837 9007199254740992); [vm_compute; reflexivity | unfold fr, close, ctol, A21_lo, A21_hi, A21_c, A21_e; interval with (i_prec 80)]. Qed.
Lemma d_A21_1088r : rio_reads A21_c A21_e A21_lo A21_hi floor_volts ctol (Build_rio (Fin (7303775102731699 / 18014398509481984)) (Fin (2729 / 512)) (Fin (1595 / 512)) (Fin (179 / 32)) (Fin (12289 / 1024)) true true false ((Fin (2419 / 1024)) :: (Fin (441 / 256)) :: (Fin (1381 / 1024)) :: (Fin (69691 / 512)) :: (Fin (607 / 128)) :: (Fin (44979 / 512)) :: nil)) (80 / 1).
Proof. apply (A21_rio_fin _ (7303775102731699 / 18014398509481984)); [reflexivity | apply (A21_q_hi 7303775102731699 18014398509481984 80 1); [vm_compute; reflexivity | unfold fr, ctol, A21_hi, A21_c, A21_e; interval with (i_prec 80)]]. Qed.
Lemma d_A21_1101u : close ctol (4766846134680623 / 9007199254740992) (volts_A21 (8121471804736457 / 140737488355328)).
Proof. apply (A21_q_volts_mid 8121471804736457 140737488355328 4766846134680623 9007199254740992); [vm_compute; reflexivity | unfold fr, close, ctol, A21_lo, A21_hi, A21_c, A21_e; interval with (i_prec 80)]. Qed.
Lemma d_A21_1114u : close ctol (7303775102731699 / 18014398509481984) (volts_A21 (679425389603735 / 4398046511104)).
Proof. apply (A21_q_volts_hi 679425389603735 4398046511104 7303775102731699 18014398509481984); [vm_compute; reflexivity | unfold fr, close, ctol, A21_lo, A21_hi, A21_c, A21_e; interval with (i_prec 80)]. Qed.
Lemma d_A21_1127u : close ctol (3226650058077561 / 4503599627370496) (volts_A21 (1400533675978345 / 35184372088832)).
Proof. apply (A21_q_volts_mid 1400533675978345 35184372088832 3226650058077561 4503599627370496); [vm_compute; reflexivity | unfold fr, close, ctol, A21_lo, A21_hi, A21_c, A21_e; interval with (i_prec 80)]. Qed.
Lemma d_A21_1140u : close ctol (7549547448360301 / 9007199254740992) (volts_A21 (4621841676390325 / 140737488355328)).
Proof. apply (A21_q_volts_mid 4621841676390325 140737488355328 7549547448360301 9007199254740992); [vm_compute; reflexivity | unfold fr, close, ctol, A21_lo, A21_hi, A21_c, A21_e; interval with (i_prec 80)]. Qed.
Lemma d_A21_1152r : rio_reads A21_c A21_e A21_lo A21_hi floor_volts ctol (Build_rio (Fin (2489100355631953 / 1125899906842624)) (Fin (2711 / 512)) PInf (Fin (3215 / 256)) (Fin (3277 / 256)) true true true ((Fin (129 / 128)) :: (Fin (45 / 128)) :: (Fin (2919 / 1024)) :: (Fin (80701 / 1024)) :: (Fin (6483 / 1024)) :: (Fin (40317 / 1024)) :: nil)) (10 / 1).
Proof. apply (A21_rio_fin _ (2489100355631953 / 1125899906842624)); [reflexivity | apply (A21_q_lo 2489100355631953 1125899906842624 10 1); [vm_compute; reflexivity | unfold fr, ctol, A21_lo, A21_c, A21_e; interval with (i_prec 80)]]. Qed.
Lemma d_A21_1165u : close ctol (7303775102731699 / 18014398509481984) (volts_A21 (122 / 1)).
Proof. apply (A21_q_volts_hi 122 1 7303775102731699 18014398509481984); [vm_compute; reflexivity | unfold fr, close, ctol, A21_lo, A21_hi, A21_c, A21_e; interval with (i_prec 80)]. Qed.
Lemma d_A21_1178u : close ctol (7351642507661367 / 18014398509481984) (volts_A21 (5584594444363799 / 70368744177664)).
Proof. apply (A21_q_volts_mid 5584594444363799 70368744177664 7351642507661367 18014398509481984); [vm_compute; reflexivity | unfold fr, close, ctol, A21_lo, A21_hi, A21_c, A21_e; interval with (i_prec 80)]. Qed.
Lemma d_A21_1191u : close ctol (4545988563719707 / 9007199254740992) (volts_A21 (8607831711000107 / 140737488355328)).
Proof. apply (A21_q_volts_mid 8607831711000107 140737488355328 4545988563719707 9007199254740992); [vm_compute; reflexivity | unfold fr, close, ctol, A21_lo, A21_hi, A21_c, A21_e; interval with (i_prec 80)]. Qed.
Lemma d_A21_1204u : close ctol (2489100355631953 / 1125899906842624) (volts_A21 (1364519664797407 / 281474976710656)).
Proof. apply (A21_q_volts_lo 1364519664797407 281474976710656 2489100355631953 1125899906842624); [vm_compute; reflexivity | unfold fr, close, ctol, A21_lo, A21_hi, A21_c, A21_e; interval with (i_prec 80)]. Qed.
Lemma d_A21_1216r : rio_reads A21_c A21_e A21_lo A21_hi floor_volts ctol (Build_rio (Fin (3697105336904903 / 9007199254740992)) (Fin (4785 / 1024)) (Fin (2953 / 1024)) (Fin (5595 / 1024)) (Fin (12 / 1)) true true false ((Fin (669 / 1024)) :: (Fin (1319 / 1024)) :: (Fin (347 / 1024)) :: (Fin (25729 / 256)) :: (Fin (2037 / 256)) :: (Fin (22615 / 256)) :: nil)) (5545203880860017 / 70368744177664).
Proof. apply (A21_rio_fin _ (3697105336904903 / 9007199254740992)); [reflexivity | apply (A21_q_mid 3697105336904903 9007199254740992 5545203880860017 70368744177664); [vm_compute; reflexivity | unfold fr, close, ctol, A21_c, A21_e; interval with (i_prec 80)]]. Qed.
Lemma d_A21_1229u : close ctol (2948975751809265 / 2251799813685248) (volts_A21 (2674260247227971 / 140737488355328)).
Proof. apply (A21_q_volts_mid 2674260247227971 140737488355328 2948975751809265 2251799813685248); [vm_compute; reflexivity | unfold fr, close, ctol, A21_lo, A21_hi, A21_c, A21_e; interval with (i_prec 80)]. Qed.
Lemma d_A21_1242u : close ctol (2489100355631953 / 1125899906842624) (volts_A21 (1145117538673527 / 2251799813685248)).
Proof. apply (A21_q_volts_lo 1145117538673527 2251799813685248 2489100355631953 1125899906842624); [vm_compute; reflexivity | unfold fr, close, ctol, A21_lo, A21_hi, A21_c, A21_e; interval with (i_prec 80)]. Qed.
Lemma d_A21_1255u : close ctol (7303775102731699 / 18014398509481984) (volts_A21 (104 / 1)).
Proof. apply (A21_q_volts_hi 104 1 7303775102731699 18014398509481984); [vm_compute; reflexivity | unfold fr, close, ctol, A21_lo, A21_hi, A21_c, A21_e; interval with (i_prec 80)]. Qed.
Lemma d_A21_1268u : close ctol (1266327660032407 / 2251799813685248) (volts_A21 (1884686241608835 / 35184372088832)).
Proof. apply (A21_q_volts_mid 1884686241608835 35184372088832 1266327660032407 2251799813685248); [vm_compute; reflexivity | unfold fr, close, ctol, A21_lo, A21_hi, A21_c, A21_e; interval with (i_prec 80)]. Qed.
Lemma d_A21_1280r : rio_reads A21_c A21_e A21_lo A21_hi floor_volts ctol (Build_rio (Fin (3627846757826693 / 2251799813685248)) (Fin (5 / 1)) (Fin (2835 / 1024)) (Fin (5975 / 1024)) (Fin (5523 / 512)) true true true ((Fin (15 / 64)) :: (Fin (567 / 1024)) :: (Fin (1455 / 1024)) :: (Fin (129463 / 1024)) :: (Fin (2429 / 512)) :: (Fin (62939 / 1024)) :: nil)) (2074392667748477 / 140737488355328).
Proof. apply (A21_rio_fin _ (3627846757826693 / 2251799813685248)); [reflexivity | apply (A21_q_mid 3627846757826693 2251799813685248 2074392667748477 140737488355328); [vm_compute; reflexivity | unfold fr, close, ctol, A21_c, A21_e; interval with (i_prec 80)]]. Qed.
Lemma d_A21_1293u : close ctol (71320049893753 / 70368744177664) (volts_A21 (7323171676073215 / 281474976710656)).
Proof. apply (A21_q_volts_mid 7323171676073215 281474976710656 71320049893753 70368744177664); [vm_compute; reflexivity | unfold fr, close, ctol, A21_lo, A21_hi, A21_c, A21_e; interval with (i_prec 80)]. Qed.
Lemma d_A21_1306u : close ctol (2590260288368165 / 4503599627370496) (volts_A21 (57294686746285 / 1099511627776)).
Proof. apply (A21_q_volts_mid 57294686746285 1099511627776 2590260288368165 4503599627370496); [vm_compute; reflexivity | unfold fr, close, ctol, A21_lo, A21_hi, A21_c, A21_e; interval with (i_prec 80)]. Qed.
Lemma d_A21_1319u : close ctol (7303775102731699 / 18014398509481984) (volts_A21 (571423691501011 / 4398046511104)).
Proof. apply (A21_q_volts_hi 571423691501011 4398046511104 7303775102731699 18014398509481984); [vm_compute; reflexivity | unfold fr, close, ctol, A21_lo, A21_hi, A21_c, A21_e; interval with (i_prec 80)]. Qed.
Lemma d_A21_1332u : close ctol (3703779492641775 / 9007199254740992) (volts_A21 (5532955724574417 / 70368744177664)).
Proof. apply (A21_q_volts_mid 5532955724574417 70368744177664 3703779492641775 9007199254740992); [vm_compute; reflexivity | unfold fr, close, ctol, A21_lo, A21_hi, A21_c, A21_e; interval with (i_prec 80)]. Qed.
Lemma r_A41_877 : rio_reads A41_c A41_e A41_lo A41_hi floor_volts ctol (Build_rio (Fin (5629499534213121 / 1125899906842624)) (Fin (5 / 1)) (Fin (3715469692580659 / 1125899906842624)) (Fin (6 / 1)) (Fin (7093169413108531 / 1125899906842624)) true true true ((Fin (0 / 1)) :: (Fin (0 / 1)) :: (Fin (0 / 1)) :: (Fin (0 / 1)) :: (Fin (27 / 4)) :: (Fin (45 / 1)) :: nil)) (9 / 2).
Proof. apply (A41_rio_fin _ (5629499534213121 / 1125899906842624)); [reflexivity | apply (A41_q_lo 5629499534213121 1125899906842624 9 2); [vm_compute; reflexivity | unfold fr, ctol, A41_lo, A41_c, A41_e; interval with (i_prec 80)]]. Qed.
Lemma r_A41_895 : rio_reads A41_c A41_e A41_lo A41_hi floor_volts ctol (Build_rio (Fin (6546965765033531 / 2251799813685248)) (Fin (5 / 1)) (Fin (3715469692580659 / 1125899906842624)) (Fin (5 / 1)) (Fin (12 / 1)) true true true ((Fin (0 / 1)) :: (Fin (0 / 1)) :: (Fin (0 / 1)) :: (Fin (0 / 1)) :: (Fin (27 / 4)) :: (Fin (45 / 1)) :: nil)) (5066549580791809 / 1125899906842624).
Proof. apply (A41_rio_fin _ (6546965765033531 / 2251799813685248)); [reflexivity | apply (A41_q_mid 6546965765033531 2251799813685248 5066549580791809 1125899906842624); [vm_compute; reflexivity | unfold fr, close, ctol, A41_c, A41_e; interval with (i_prec 80)]]. Qed.
Lemma r_A41_911 : rio_reads A41_c A41_e A41_lo A41_hi floor_volts ctol (Build_rio (Fin (11915 / 4096)) (Fin (5 / 1)) (Fin (3715469692580659 / 1125899906842624)) (Fin (6 / 1)) (Fin (12 / 1)) true true true ((Fin (0 / 1)) :: (Fin (0 / 1)) :: (Fin (0 / 1)) :: (Fin (0 / 1)) :: (Fin (13 / 1)) :: (Fin (45 / 1)) :: nil)) (9 / 2).
Proof. apply (A41_rio_fin _ (11915 / 4096)); [reflexivity | apply (A41_q_lo 11915 4096 9 2); [vm_compute; reflexivity | unfold fr, ctol, A41_lo, A41_c, A41_e; interval with (i_prec 80)]]. Qed.
Lemma r_A41_927 : rio_reads A41_c A41_e A41_lo A41_hi floor_volts ctol (Build_rio (Fin (65 / 256)) (Fin (5517 / 1024)) (Fin (0 / 1)) (Fin (3057 / 512)) (Fin (12323 / 1024)) true true false ((Fin (877 / 512)) :: (Fin (735 / 512)) :: (Fin (801 / 512)) :: (Fin (93291 / 512)) :: (Fin (3013 / 512)) :: (Fin (32739 / 512)) :: nil)) (35 / 1).
Proof. apply (A41_rio_fin _ (65 / 256)); [reflexivity | apply (A41_q_hi 65 256 35 1); [vm_compute; reflexivity | unfold fr, ctol, A41_hi, A41_c, A41_e; interval with (i_prec 80)]]. Qed.
Lemma r_A41_943 : rio_reads A41_c A41_e A41_lo A41_hi floor_volts ctol (Build_rio (Fin (145 / 256)) (Fin (5 / 1)) (Fin (3715469692580659 / 1125899906842624)) (Fin (6 / 1)) (Fin (12 / 1)) true true true ((Fin (0 / 1)) :: (Fin (0 / 1)) :: (Fin (0 / 1)) :: (Fin (0 / 1)) :: (Fin (27 / 4)) :: (Fin (45 / 1)) :: nil)) (6317304810276879 / 281474976710656).
Proof. apply (A41_rio_fin _ (145 / 256)); [reflexivity | apply (A41_q_mid 145 256 6317304810276879 281474976710656); [vm_compute; reflexivity | unfold fr, close, ctol, A41_c, A41_e; interval with (i_prec 80)]]. Qed.
Lemma r_A41_959 : rio_reads A41_c A41_e A41_lo A41_hi floor_volts ctol (Build_rio (Fin (225 / 256)) (Fin (5143 / 1024)) (Fin (2963 / 1024)) (Fin (6 / 1)) (Fin (55 / 256)) false true false ((Fin (1417 / 512)) :: (Fin (769 / 512)) :: (Fin (23 / 32)) :: (Fin (77267 / 1024)) :: (Fin (4389 / 512)) :: (Fin ((-5559) / 512)) :: nil)) (1025688911328513 / 70368744177664).
Proof. apply (A41_rio_fin _ (225 / 256)); [reflexivity | apply (A41_q_mid 225 256 1025688911328513 70368744177664); [vm_compute; reflexivity | unfold fr, close, ctol, A41_c, A41_e; interval with (i_prec 80)]]. Qed.
Lemma r_A41_975 : rio_reads A41_c A41_e A41_lo A41_hi floor_volts ctol (Build_rio (Fin (305 / 256)) (Fin (1297 / 256)) (Fin (2901 / 1024)) (Fin (5439 / 1024)) (Fin (11885 / 1024)) true true true ((Fin (1239 / 1024)) :: (Fin (1623 / 1024)) :: (Fin (2679 / 1024)) :: (Fin (137909 / 1024)) :: (Fin (1343 / 256)) :: (Fin (6071 / 512)) :: nil)) (1521435689731841 / 140737488355328).
Proof. apply (A41_rio_fin _ (305 / 256)); [reflexivity | apply (A41_q_mid 305 256 1521435689731841 140737488355328); [vm_compute; reflexivity | unfold fr, close, ctol, A41_c, A41_e; interval with (i_prec 80)]]. Qed.
Lemma r_A41_991 : rio_reads A41_c A41_e A41_lo A41_hi floor_volts ctol (Build_rio (Fin (385 / 256)) (Fin (5 / 1)) (Fin (3715469692580659 / 1125899906842624)) (Fin (6 / 1)) (Fin (12 / 1)) true true true ((Fin (0 / 1)) :: (Fin (0 / 1)) :: (Fin (0 / 1)) :: (Fin (0 / 1)) :: (Fin (27 / 4)) :: (Fin (45 / 1)) :: nil)) (2420489131212819 / 281474976710656).
Proof. apply (A41_rio_fin _ (385 / 256)); [reflexivity | apply (A41_q_mid 385 256 2420489131212819 281474976710656); [vm_compute; reflexivity | unfold fr, close, ctol, A41_c, A41_e; interval with (i_prec 80)]]. Qed.
Lemma r_A41_1007 : rio_reads A41_c A41_e A41_lo A41_hi floor_volts ctol (Build_rio (Fin (465 / 256)) (Fin (5297 / 1024)) (Fin (1401 / 512)) (Fin (1363 / 256)) (Fin (12405 / 1024)) false true true ((Fin (317 / 256)) :: (Fin (827 / 1024)) :: (Fin (2103 / 1024)) :: (Fin (135 / 16)) :: (Fin (1885 / 512)) :: (Fin (44419 / 1024)) :: nil)) (1005365506926269 / 140737488355328).
Proof. apply (A41_rio_fin _ (465 / 256)); [reflexivity | apply (A41_q_mid 465 256 1005365506926269 140737488355328); [vm_compute; reflexivity | unfold fr, close, ctol, A41_c, A41_e; interval with (i_prec 80)]]. Qed.
Lemma r_A41_1023 : rio_reads A41_c A41_e A41_lo A41_hi floor_volts ctol (Build_rio (Fin (545 / 256)) (Fin (10205 / 1024)) (Fin (781 / 256)) (Fin (6179 / 1024)) (Fin (11727 / 1024)) true true true ((Fin (237 / 512)) :: (Fin (925 / 1024)) :: (Fin (639 / 512)) :: (Fin (115921 / 1024)) :: (Fin (895 / 128)) :: (Fin (17113 / 512)) :: nil)) (6881511262894867 / 1125899906842624).
Proof. apply (A41_rio_fin _ (545 / 256)); [reflexivity | apply (A41_q_mid 545 256 6881511262894867 1125899906842624); [vm_compute; reflexivity | unfold fr, close, ctol, A41_c, A41_e; interval with (i_prec 80)]]. Qed.
Lemma r_A41_1039 : rio_reads A41_c A41_e A41_lo A41_hi floor_volts ctol (Build_rio (Fin (625 / 256)) (Fin (5 / 1)) (Fin (3715469692580659 / 1125899906842624)) (Fin (6 / 1)) (Fin (12 / 1)) true true true ((Fin (0 / 1)) :: (Fin (0 / 1)) :: (Fin (0 / 1)) :: (Fin (0 / 1)) :: (Fin (27 / 4)) :: (Fin (45 / 1)) :: nil)) (6015160498446023 / 1125899906842624).
Proof. apply (A41_rio_fin _ (625 / 256)); [reflexivity | apply (A41_q_mid 625 256 6015160498446023 1125899906842624); [vm_compute; reflexivity | unfold fr, close, ctol, A41_c, A41_e; interval with (i_prec 80)]]. Qed.
Lemma r_A41_1055 : rio_reads A41_c A41_e A41_lo A41_hi floor_volts ctol (Build_rio (Fin (705 / 256)) (Fin (13 / 64)) (Fin (3589 / 1024)) (Fin (803 / 128)) (Fin (3761 / 1024)) true true false ((Fin (1233 / 512)) :: (Fin (1047 / 1024)) :: (Fin (1603 / 1024)) :: (Fin (61687 / 512)) :: (Fin (419 / 64)) :: (Fin (13031 / 512)) :: nil)) (5343905385787843 / 1125899906842624).
Proof. apply (A41_rio_fin _ (705 / 256)); [reflexivity | apply (A41_q_mid 705 256 5343905385787843 1125899906842624); [vm_compute; reflexivity | unfold fr, close, ctol, A41_c, A41_e; interval with (i_prec 80)]]. Qed.
Lemma r_A41_1071 : rio_reads A41_c A41_e A41_lo A41_hi floor_volts ctol (Build_rio (Fin (395 / 128)) (Fin (11939 / 1024)) (Fin (2361 / 512)) (Fin (6 / 1)) (Fin (5813 / 512)) false true false ((Fin (1305 / 512)) :: (Fin (1633 / 1024)) :: (Fin (729 / 1024)) :: (Fin (155131 / 1024)) :: (Fin (4371 / 1024)) :: (Fin (18763 / 512)) :: nil)) (9 / 2).
Proof. apply (A41_rio_fin _ (395 / 128)); [reflexivity | apply (A41_q_lo 395 128 9 2); [vm_compute; reflexivity | unfold fr, ctol, A41_lo, A41_c, A41_e; interval with (i_prec 80)]]. Qed.
Lemma r_A41_1087 : rio_reads A41_c A41_e A41_lo A41_hi floor_volts ctol (Build_rio (Fin (435 / 128)) (Fin (5 / 1)) (Fin (3715469692580659 / 1125899906842624)) (Fin (6 / 1)) (Fin (12 / 1)) true true true ((Fin (0 / 1)) :: (Fin (0 / 1)) :: (Fin (0 / 1)) :: (Fin (0 / 1)) :: (Fin (27 / 4)) :: (Fin (45 / 1)) :: nil)) (9 / 2).
Proof. apply (A41_rio_fin _ (435 / 128)); [reflexivity | apply (A41_q_lo 435 128 9 2); [vm_compute; reflexivity | unfold fr, ctol, A41_lo, A41_c, A41_e; interval with (i_prec 80)]]. Qed.
Lemma r_A41_1103 : rio_reads A41_c A41_e A41_lo A41_hi floor_volts ctol (Build_rio (Fin (475 / 128)) (Fin (4651 / 1024)) (Fin (351 / 128)) (Fin (5849 / 1024)) (Fin (2823 / 256)) true false true ((Fin (1911 / 1024)) :: (Fin (399 / 256)) :: (Fin (437 / 256)) :: (Fin (171039 / 1024)) :: (Fin (8499 / 1024)) :: (Fin ((-9807) / 512)) :: nil)) (9 / 2).
Proof. apply (A41_rio_fin _ (475 / 128)); [reflexivity | apply (A41_q_lo 475 128 9 2); [vm_compute; reflexivity | unfold fr, ctol, A41_lo, A41_c, A41_e; interval with (i_prec 80)]]. Qed.
Lemma r_A41_1119 : rio_reads A41_c A41_e A41_lo A41_hi floor_volts ctol (Build_rio (Fin (515 / 128)) (Fin (5902958103587057 / 590295810358705651712)) (Fin (885 / 1024)) (Fin (5381 / 1024)) (Fin (12 / 1)) false true true ((Fin (173 / 1024)) :: (Fin (27 / 128)) :: (Fin (565 / 512)) :: (Fin (77479 / 1024)) :: (Fin (2545 / 512)) :: (Fin (22863 / 512)) :: nil)) (9 / 2).
Proof. apply (A41_rio_fin _ (515 / 128)); [reflexivity | apply (A41_q_lo 515 128 9 2); [vm_compute; reflexivity | unfold fr, ctol, A41_lo, A41_c, A41_e; interval with (i_prec 80)]]. Qed.
Lemma r_A41_1135 : rio_reads A41_c A41_e A41_lo A41_hi floor_volts ctol (Build_rio (Fin (555 / 128)) (Fin (5 / 1)) (Fin (3715469692580659 / 1125899906842624)) (Fin (6 / 1)) (Fin (12 / 1)) true true true ((Fin (0 / 1)) :: (Fin (0 / 1)) :: (Fin (0 / 1)) :: (Fin (0 / 1)) :: (Fin (27 / 4)) :: (Fin (45 / 1)) :: nil)) (9 / 2).
Proof. apply (A41_rio_fin _ (555 / 128)); [reflexivity | apply (A41_q_lo 555 128 9 2); [vm_compute; reflexivity | unfold fr, ctol, A41_lo, A41_c, A41_e; interval with (i_prec 80)]]. Qed.
Lemma r_A41_1151 : rio_reads A41_c A41_e A41_lo A41_hi floor_volts ctol (Build_rio (Fin (595 / 128)) (Fin (4251 / 1024)) (Fin (3187 / 1024)) (Fin (6 / 1)) NInf true true true ((Fin (1491 / 512)) :: (Fin (75 / 64)) :: (Fin (569 / 1024)) :: (Fin (154709 / 1024)) :: (Fin (6095 / 1024)) :: (Fin (42469 / 1024)) :: nil)) (9 / 2).
Proof. apply (A41_rio_fin _ (595 / 128)); [reflexivity | apply (A41_q_lo 595 128 9 2); [vm_compute; reflexivity | unfold fr, ctol, A41_lo, A41_c, A41_e; interval with (i_prec 80)]]. Qed.
Lemma r_A41_1167 : rio_reads A41_c A41_e A41_lo A41_hi floor_volts ctol (Build_rio (Fin (635 / 128)) (Fin (3539 / 1024)) (Fin (3715469692580659 / 1125899906842624)) (Fin (5169 / 1024)) (Fin (1 / 1)) false false true ((Fin (399 / 256)) :: (Fin (671 / 512)) :: (Fin (767 / 1024)) :: (Fin (54417 / 512)) :: (Fin (6621 / 1024)) :: (Fin (12083 / 256)) :: nil)) (9 / 2).
Proof. apply (A41_rio_fin _ (635 / 128)); [reflexivity | apply (A41_q_lo 635 128 9 2); [vm_compute; reflexivity | unfold fr, ctol, A41_lo, A41_c, A41_e; interval with (i_prec 80)]]. Qed.
Lemma r_A41_1183 : rio_reads A41_c A41_e A41_lo A41_hi floor_volts ctol (Build_rio (Fin (980199443377749 / 562949953421312)) (Fin (5 / 1)) (Fin (3715469692580659 / 1125899906842624)) (Fin (6 / 1)) (Fin (12 / 1)) true true true ((Fin (0 / 1)) :: (Fin (0 / 1)) :: (Fin (0 / 1)) :: (Fin (0 / 1)) :: (Fin (27 / 4)) :: (Fin (45 / 1)) :: nil)) (8384149408669559 / 1125899906842624).
Proof. apply (A41_rio_fin _ (980199443377749 / 562949953421312)); [reflexivity | apply (A41_q_mid 980199443377749 562949953421312 8384149408669559 1125899906842624); [vm_compute; reflexivity | unfold fr, close, ctol, A41_c, A41_e; interval with (i_prec 80)]]. Qed.
Lemma r_A41_1199 : rio_reads A41_c A41_e A41_lo A41_hi floor_volts ctol (Build_rio (Fin (4008249690270981 / 1125899906842624)) (Fin (2747 / 512)) (Fin (3715469692580659 / 1125899906842624)) (Fin (2705 / 512)) NInf true true true ((Fin (103 / 64)) :: (Fin (987 / 512)) :: (Fin (1045 / 512)) :: (Fin (43157 / 1024)) :: (Fin (319 / 64)) :: (Fin (2639 / 64)) :: nil)) (9 / 2).
Proof. apply (A41_rio_fin _ (4008249690270981 / 1125899906842624)); [reflexivity | apply (A41_q_lo 4008249690270981 1125899906842624 9 2); [vm_compute; reflexivity | unfold fr, ctol, A41_lo, A41_c, A41_e; interval with (i_prec 80)]]. Qed.
Lemma r_A41_1215 : rio_reads A41_c A41_e A41_lo A41_hi floor_volts ctol (Build_rio (Fin (2614771061192345 / 1125899906842624)) (Fin (685 / 128)) (Fin (3091 / 1024)) (Fin (6 / 1)) (Fin (5523 / 512)) false true true ((Fin (2113 / 1024)) :: (Fin (333 / 1024)) :: (Fin (1205 / 512)) :: (Fin (55293 / 1024)) :: (Fin (621 / 128)) :: (Fin (30059 / 1024)) :: nil)) (6317879766624467 / 1125899906842624).
Proof. apply (A41_rio_fin _ (2614771061192345 / 1125899906842624)); [reflexivity | apply (A41_q_mid 2614771061192345 1125899906842624 6317879766624467 1125899906842624); [vm_compute; reflexivity | unfold fr, close, ctol, A41_c, A41_e; interval with (i_prec 80)]]. Qed.
Lemma r_A41_1231 : rio_reads A41_c A41_e A41_lo A41_hi floor_volts ctol (Build_rio (Fin (5204726690725933 / 9007199254740992)) (Fin (5 / 1)) (Fin (3715469692580659 / 1125899906842624)) (Fin (6 / 1)) (Fin (12 / 1)) true true true ((Fin (0 / 1)) :: (Fin (0 / 1)) :: (Fin (0 / 1)) :: (Fin (0 / 1)) :: (Fin (27 / 4)) :: (Fin (45 / 1)) :: nil)) (6194474657221313 / 281474976710656).
Proof. apply (A41_rio_fin _ (5204726690725933 / 9007199254740992)); [reflexivity | apply (A41_q_mid 5204726690725933 9007199254740992 6194474657221313 281474976710656); [vm_compute; reflexivity | unfold fr, close, ctol, A41_c, A41_e; interval with (i_prec 80)]]. Qed.
Lemma r_A41_1255 : rio_reads A41_c A41_e A41_lo A41_hi floor_volts ctol (Build_rio (Fin (8132899181561033 / 1125899906842624)) (Fin (5 / 1)) (Fin (3715469692580659 / 1125899906842624)) (Fin (6 / 1)) (Fin (12 / 1)) true true true ((Fin (0 / 1)) :: (Fin (0 / 1)) :: (Fin (0 / 1)) :: (Fin (0 / 1)) :: (Fin (27 / 4)) :: (Fin (45 / 1)) :: nil)) (9 / 2).
Proof. apply (A41_rio_fin _ (8132899181561033 / 1125899906842624)); [reflexivity | apply (A41_q_lo 8132899181561033 1125899906842624 9 2); [vm_compute; reflexivity | unfold fr, ctol, A41_lo, A41_c, A41_e; interval with (i_prec 80)]]. Qed.
Lemma d_A41_1335r : rio_reads A41_c A41_e A41_lo A41_hi floor_volts ctol (Build_rio (Fin (2904288656509173 / 2251799813685248)) (Fin (0 / 1)) (Fin (3715469692580659 / 1125899906842624)) (Fin (6 / 1)) (Fin (12 / 1)) false true true ((Fin (0 / 1)) :: (Fin (0 / 1)) :: (Fin (0 / 1)) :: (Fin (0 / 1)) :: (Fin (27 / 4)) :: (Fin (45 / 1)) :: nil)) (10 / 1).
Proof. apply (A41_rio_fin _ (2904288656509173 / 2251799813685248)); [reflexivity | apply (A41_q_mid 2904288656509173 2251799813685248 10 1); [vm_compute; reflexivity | unfold fr, close, ctol, A41_c, A41_e; interval with (i_prec 80)]]. Qed.
Lemma d_A41_1343r : rio_reads A41_c A41_e A41_lo A41_hi floor_volts ctol (Build_rio (Fin (4571203366206447 / 9007199254740992)) (Fin (1 / 1)) (Fin (1 / 1)) (Fin (1 / 1)) (Fin (1 / 1)) true true true ((Fin (0 / 1)) :: (Fin (0 / 1)) :: (Fin (0 / 1)) :: (Fin (0 / 1)) :: (Fin (1 / 1)) :: (Fin (45 / 1)) :: nil)) (7036874417766401 / 281474976710656).
Proof. apply (A41_rio_fin _ (4571203366206447 / 9007199254740992)); [reflexivity | apply (A41_q_mid 4571203366206447 9007199254740992 7036874417766401 281474976710656); [vm_compute; reflexivity | unfold fr, close, ctol, A41_c, A41_e; interval with (i_prec 80)]]. Qed.
Lemma d_A41_1351r : rio_reads A41_c A41_e A41_lo A41_hi floor_volts ctol (Build_rio (Fin (1636741441258383 / 562949953421312)) (Fin (10 / 1)) (Fin (3715469692580659 / 1125899906842624)) (Fin (6 / 1)) (Fin (12 / 1)) true true true ((Fin (0 / 1)) :: (Fin (0 / 1)) :: (Fin (0 / 1)) :: (Fin (0 / 1)) :: (Fin (27 / 4)) :: (Fin (45 / 1)) :: nil)) (9 / 2).
Proof. apply (A41_rio_fin _ (1636741441258383 / 562949953421312)); [reflexivity | apply (A41_q_lo 1636741441258383 562949953421312 9 2); [vm_compute; reflexivity | unfold fr, ctol, A41_lo, A41_c, A41_e; interval with (i_prec 80)]]. Qed.
Lemma d_A41_1359r : rio_reads A41_c A41_e A41_lo A41_hi floor_volts ctol (Build_rio (Fin (1636741441258383 / 562949953421312)) (Fin (100000000000000001097906362944045541740492309677311846336810682903157585404911491537163328978494688899061249669721172515611590283743140088328307009198146046031271664502933027185697489699588559043338384466165001178426897626212945177628091195786707458122783970171784415105291802893207873272974885715430223118336 / 1)) (Fin (3715469692580659 / 1125899906842624)) (Fin (6 / 1)) (Fin (12 / 1)) true true true ((Fin (0 / 1)) :: (Fin (0 / 1)) :: (Fin (0 / 1)) :: (Fin (0 / 1)) :: (Fin (27 / 4)) :: (Fin (45 / 1)) :: nil)) (9 / 2).
Proof. apply (A41_rio_fin _ (1636741441258383 / 562949953421312)); [reflexivity | apply (A41_q_lo 1636741441258383 562949953421312 9 2); [vm_compute; reflexivity | unfold fr, ctol, A41_lo, A41_c, A41_e; interval with (i_prec 80)]]. Qed.
Lemma d_A41_1367r : rio_reads A41_c A41_e A41_lo A41_hi floor_volts ctol (Build_rio (Fin (6491044311201869 / 18014398509481984)) (Fin (5 / 1)) (Fin (3715469692580659 / 1125899906842624)) (Fin (6 / 1)) (Fin (0 / 1)) true true true ((Fin (0 / 1)) :: (Fin (0 / 1)) :: (Fin (0 / 1)) :: (Fin (0 / 1)) :: (Fin (27 / 4)) :: (Fin (45 / 1)) :: nil)) (35 / 1).
Proof. apply (A41_rio_fin _ (6491044311201869 / 18014398509481984)); [reflexivity | apply (A41_q_hi 6491044311201869 18014398509481984 35 1); [vm_compute; reflexivity | unfold fr, ctol, A41_hi, A41_c, A41_e; interval with (i_prec 80)]]. Qed.
Lemma d_A41_1375r : rio_reads A41_c A41_e A41_lo A41_hi floor_volts ctol (Build_rio (Fin (1636741441258383 / 562949953421312)) (Fin (5 / 1)) (Fin (0 / 1)) (Fin (6 / 1)) (Fin (12 / 1)) true true true ((Fin (0 / 1)) :: (Fin (0 / 1)) :: (Fin (0 / 1)) :: (Fin (0 / 1)) :: (Fin (27 / 4)) :: (Fin (45 / 1)) :: nil)) (9 / 2).
Proof. apply (A41_rio_fin _ (1636741441258383 / 562949953421312)); [reflexivity | apply (A41_q_lo 1636741441258383 562949953421312 9 2); [vm_compute; reflexivity | unfold fr, ctol, A41_lo, A41_c, A41_e; interval with (i_prec 80)]]. Qed.
Lemma d_A41_1383r : rio_reads A41_c A41_e A41_lo A41_hi floor_volts ctol (Build_rio (Fin (3245522158904601 / 9007199254740992)) (Fin (5 / 1)) (Fin (3715469692580659 / 1125899906842624)) PInf (Fin (12 / 1)) true true true ((Fin (0 / 1)) :: (Fin (0 / 1)) :: (Fin (0 / 1)) :: (Fin (0 / 1)) :: (Fin (27 / 4)) :: (Fin (45 / 1)) :: nil)) (1231453021877667 / 35184372088832).
Proof. apply (A41_rio_fin _ (3245522158904601 / 9007199254740992)); [reflexivity | apply (A41_q_mid 3245522158904601 9007199254740992 1231453021877667 35184372088832); [vm_compute; reflexivity | unfold fr, close, ctol, A41_c, A41_e; interval with (i_prec 80)]]. Qed.
Lemma d_A41_1392r : rio_reads A41_c A41_e A41_lo A41_hi floor_volts ctol (Build_rio (Fin (2747948450082509 / 4503599627370496)) (Fin (5 / 1)) (Fin (209 / 64)) (Fin (1389 / 256)) (Fin (2829 / 256)) true true true ((Fin (643 / 512)) :: (Fin (237 / 1024)) :: (Fin (1391 / 512)) :: (Fin (21311 / 512)) :: (Fin (8265 / 1024)) :: (Fin (1233 / 512)) :: nil)) (5871916994782295 / 281474976710656).
Proof. apply (A41_rio_fin _ (2747948450082509 / 4503599627370496)); [reflexivity | apply (A41_q_mid 2747948450082509 4503599627370496 5871916994782295 281474976710656); [vm_compute; reflexivity | unfold fr, close, ctol, A41_c, A41_e; interval with (i_prec 80)]]. Qed.
Lemma d_A41_1405u : close ctol (4379065740249339 / 9007199254740992) (volts_A41 (3670038827391861 / 140737488355328)).
Proof. apply (A41_q_volts_mid 3670038827391861 140737488355328 4379065740249339 9007199254740992); [vm_compute; reflexivity | unfold fr, close, ctol, A41_lo, A41_hi, A41_c, A41_e; interval with (i_prec 80)]. Qed.
Lemma d_A41_1418u : close ctol (1917908774501153 / 4503599627370496) (volts_A41 (4180052806255059 / 140737488355328)).
Proof. apply (A41_q_volts_mid 4180052806255059 140737488355328 1917908774501153 4503599627370496); [vm_compute; reflexivity | unfold fr, close, ctol, A41_lo, A41_hi, A41_c, A41_e; interval with (i_prec 80)]. Qed.
Lemma d_A41_1431u : close ctol (2774289886393937 / 4503599627370496) (volts_A41 (5817140747175295 / 281474976710656)).
Proof. apply (A41_q_volts_mid 5817140747175295 281474976710656 2774289886393937 4503599627370496); [vm_compute; reflexivity | unfold fr, close, ctol, A41_lo, A41_hi, A41_c, A41_e; interval with (i_prec 80)]. Qed.
Lemma d_A41_1444u : close ctol (6251012344559929 / 9007199254740992) (volts_A41 (1293576699434455 / 70368744177664)).
Proof. apply (A41_q_volts_mid 1293576699434455 70368744177664 6251012344559929 9007199254740992); [vm_compute; reflexivity | unfold fr, close, ctol, A41_lo, A41_hi, A41_c, A41_e; interval with (i_prec 80)]. Qed.
Lemma d_A41_1456r : rio_reads A41_c A41_e A41_lo A41_hi floor_volts ctol (Build_rio (Fin (1042575538735917 / 1125899906842624)) (Fin (1351 / 256)) (Fin (3715469692580659 / 1125899906842624)) (Fin (5275 / 1024)) (Fin (9901 / 1024)) true false true ((Fin (101 / 128)) :: (Fin (259 / 256)) :: (Fin (1419 / 512)) :: (Fin (192643 / 1024)) :: (Fin (5699 / 1024)) :: (Fin (23871 / 1024)) :: nil)) (3897708570349307 / 281474976710656).
Proof. apply (A41_rio_fin _ (1042575538735917 / 1125899906842624)); [reflexivity | apply (A41_q_mid 1042575538735917 1125899906842624 3897708570349307 281474976710656); [vm_compute; reflexivity | unfold fr, close, ctol, A41_c, A41_e; interval with (i_prec 80)]]. Qed.
Lemma d_A41_1469u : close ctol (3306211622645215 / 9007199254740992) (volts_A41 (1209242465232371 / 35184372088832)).
Proof. apply (A41_q_volts_mid 1209242465232371 35184372088832 3306211622645215 9007199254740992); [vm_compute; reflexivity | unfold fr, close, ctol, A41_lo, A41_hi, A41_c, A41_e; interval with (i_prec 80)]. Qed.
Lemma d_A41_1482u : close ctol (6060654735019809 / 9007199254740992) (volts_A41 (2666960665643183 / 140737488355328)).
Proof. apply (A41_q_volts_mid 2666960665643183 140737488355328 6060654735019809 9007199254740992); [vm_compute; reflexivity | unfold fr, close, ctol, A41_lo, A41_hi, A41_c, A41_e; interval with (i_prec 80)]. Qed.
Lemma d_A41_1495u : close ctol (449771194894369 / 1125899906842624) (volts_A41 (8902238337713825 / 281474976710656)).
Proof. apply (A41_q_volts_mid 8902238337713825 281474976710656 449771194894369 1125899906842624); [vm_compute; reflexivity | unfold fr, close, ctol, A41_lo, A41_hi, A41_c, A41_e; interval with (i_prec 80)]. Qed.
Lemma d_A41_1508u : close ctol (5111417640338625 / 9007199254740992) (volts_A41 (6305546989726583 / 281474976710656)).
Proof. apply (A41_q_volts_mid 6305546989726583 281474976710656 5111417640338625 9007199254740992); [vm_compute; reflexivity | unfold fr, close, ctol, A41_lo, A41_hi, A41_c, A41_e; interval with (i_prec 80)]. Qed.
Lemma d_A41_1520r : rio_reads A41_c A41_e A41_lo A41_hi floor_volts ctol (Build_rio (Fin (1636741441258383 / 562949953421312)) (Fin (5 / 1)) (Fin (3715469692580659 / 1125899906842624)) (Fin (6 / 1)) (Fin (12 / 1)) true true true ((Fin (0 / 1)) :: (Fin (0 / 1)) :: (Fin (0 / 1)) :: (Fin (0 / 1)) :: (Fin (27 / 4)) :: (Fin (45 / 1)) :: nil)) (9 / 2).
Proof. apply (A41_rio_fin _ (1636741441258383 / 562949953421312)); [reflexivity | apply (A41_q_lo 1636741441258383 562949953421312 9 2); [vm_compute; reflexivity | unfold fr, ctol, A41_lo, A41_c, A41_e; interval with (i_prec 80)]]. Qed.
Lemma d_A41_1533u : close ctol (1894460216317455 / 2251799813685248) (volts_A41 (4282805240930069 / 281474976710656)).
Proof. apply (A41_q_volts_mid 4282805240930069 281474976710656 1894460216317455 2251799813685248); [vm_compute; reflexivity | unfold fr, close, ctol, A41_lo, A41_hi, A41_c, A41_e; interval with (i_prec 80)]. Qed.
Lemma d_A41_1546u : close ctol (618964544202037 / 1125899906842624) (volts_A41 (6505276311273299 / 281474976710656)).
Proof. apply (A41_q_volts_mid 6505276311273299 281474976710656 618964544202037 1125899906842624); [vm_compute; reflexivity | unfold fr, close, ctol, A41_lo, A41_hi, A41_c, A41_e; interval with (i_prec 80)]. Qed.
Lemma d_A41_1559u : close ctol (5143930677587517 / 2251799813685248) (volts_A41 (6421163796444195 / 1125899906842624)).
Proof. apply (A41_q_volts_mid 6421163796444195 1125899906842624 5143930677587517 2251799813685248); [vm_compute; reflexivity | unfold fr, close, ctol, A41_lo, A41_hi, A41_c, A41_e; interval with (i_prec 80)]. Qed.
Lemma d_A41_1572u : close ctol (8310382171899771 / 4503599627370496) (volts_A41 (3959645144195733 / 562949953421312)).
Proof. apply (A41_q_volts_mid 3959645144195733 562949953421312 8310382171899771 4503599627370496); [vm_compute; reflexivity | unfold fr, close, ctol, A41_lo, A41_hi, A41_c, A41_e; interval with (i_prec 80)]. Qed.
Lemma d_A41_1584r : rio_reads A41_c A41_e A41_lo A41_hi floor_volts ctol (Build_rio (Fin (1729688940217855 / 1125899906842624)) (Fin (2159 / 512)) (Fin (3111 / 1024)) (Fin (245 / 512)) PInf true true false ((Fin (623 / 512)) :: (Fin (67 / 256)) :: (Fin (2555 / 1024)) :: (Fin (36925 / 512)) :: (Fin (5701 / 1024)) :: (Fin (49531 / 1024)) :: nil)) (4740764987714675 / 562949953421312).
Proof. apply (A41_rio_fin _ (1729688940217855 / 1125899906842624)); [reflexivity | apply (A41_q_mid 1729688940217855 1125899906842624 4740764987714675 562949953421312); [vm_compute; reflexivity | unfold fr, close, ctol, A41_c, A41_e; interval with (i_prec 80)]]. Qed.
Lemma d_A41_1597u : close ctol (1636741441258383 / 562949953421312) (volts_A41 (346621755701677 / 1125899906842624)).
Proof. apply (A41_q_volts_lo 346621755701677 1125899906842624 1636741441258383 562949953421312); [vm_compute; reflexivity | unfold fr, close, ctol, A41_lo, A41_hi, A41_c, A41_e; interval with (i_prec 80)]. Qed.
Lemma d_A41_1610u : close ctol (531050388388229 / 1125899906842624) (volts_A41 (3780897162236477 / 140737488355328)).
Proof. apply (A41_q_volts_mid 3780897162236477 140737488355328 531050388388229 1125899906842624); [vm_compute; reflexivity | unfold fr, close, ctol, A41_lo, A41_hi, A41_c, A41_e; interval with (i_prec 80)]. Qed.
Lemma d_A41_1623u : close ctol (1636741441258383 / 562949953421312) (volts_A41 ((-859948306407849) / 562949953421312)).
Proof. apply (A41_q_volts_lo (-859948306407849) 562949953421312 1636741441258383 562949953421312); [vm_compute; reflexivity | unfold fr, close, ctol, A41_lo, A41_hi, A41_c, A41_e; interval with (i_prec 80)]. Qed.
Lemma d_A41_1636u : close ctol (1636741441258383 / 562949953421312) (volts_A41 (6264318099939939 / 2251799813685248)).
Proof. apply (A41_q_volts_lo 6264318099939939 2251799813685248 1636741441258383 562949953421312); [vm_compute; reflexivity | unfold fr, close, ctol, A41_lo, A41_hi, A41_c, A41_e; interval with (i_prec 80)]. Qed.
Lemma d_A41_1648r : rio_reads A41_c A41_e A41_lo A41_hi floor_volts ctol (Build_rio (Fin (5788251143171317 / 4503599627370496)) (Fin (4973 / 1024)) (Fin (3457 / 1024)) (Fin (1251 / 256)) (Fin (11099 / 1024)) true false true ((Fin (2045 / 1024)) :: (Fin (139 / 256)) :: (Fin (999 / 512)) :: (Fin (25747 / 256)) :: (Fin (2897 / 512)) :: (Fin ((-1523) / 256)) :: nil)) (2824459849716789 / 281474976710656).
Proof. apply (A41_rio_fin _ (5788251143171317 / 4503599627370496)); [reflexivity | apply (A41_q_mid 5788251143171317 4503599627370496 2824459849716789 281474976710656); [vm_compute; reflexivity | unfold fr, close, ctol, A41_c, A41_e; interval with (i_prec 80)]]. Qed.
Lemma d_A41_1661u : close ctol (4316160136484159 / 9007199254740992) (volts_A41 (7445158936997027 / 281474976710656)).
Proof. apply (A41_q_volts_mid 7445158936997027 281474976710656 4316160136484159 9007199254740992); [vm_compute; reflexivity | unfold fr, close, ctol, A41_lo, A41_hi, A41_c, A41_e; interval with (i_prec 80)]. Qed.
Lemma d_A41_1674u : close ctol (5956237361673267 / 2251799813685248) (volts_A41 (2779889778702443 / 562949953421312)).
Proof. apply (A41_q_volts_mid 2779889778702443 562949953421312 5956237361673267 2251799813685248); [vm_compute; reflexivity | unfold fr, close, ctol, A41_lo, A41_hi, A41_c, A41_e; interval with (i_prec 80)]. Qed.
Lemma d_A41_1687u : close ctol (880392760314215 / 2251799813685248) (volts_A41 (1136553612039411 / 35184372088832)).
Proof. apply (A41_q_volts_mid 1136553612039411 35184372088832 880392760314215 2251799813685248); [vm_compute; reflexivity | unfold fr, close, ctol, A41_lo, A41_hi, A41_c, A41_e; interval with (i_prec 80)]. Qed.
Lemma d_A41_1700u : close ctol (6905834491969469 / 18014398509481984) (volts_A41 (4634999768306229 / 140737488355328)).
Proof. apply (A41_q_volts_mid 4634999768306229 140737488355328 6905834491969469 18014398509481984); [vm_compute; reflexivity | unfold fr, close, ctol, A41_lo, A41_hi, A41_c, A41_e; interval with (i_prec 80)]. Qed.
Lemma d_A41_1712r : rio_reads A41_c A41_e A41_lo A41_hi floor_volts ctol (Build_rio (Fin (4741369464398371 / 9007199254740992)) (Fin (5 / 1)) (Fin (3715469692580659 / 1125899906842624)) (Fin (6 / 1)) (Fin (12 / 1)) true true true ((Fin (0 / 1)) :: (Fin (0 / 1)) :: (Fin (0 / 1)) :: (Fin (0 / 1)) :: (Fin (27 / 4)) :: (Fin (45 / 1)) :: nil)) (6788689012987463 / 281474976710656).
Proof. apply (A41_rio_fin _ (4741369464398371 / 9007199254740992)); [reflexivity | apply (A41_q_mid 4741369464398371 9007199254740992 6788689012987463 281474976710656); [vm_compute; reflexivity | unfold fr, close, ctol, A41_c, A41_e; interval with (i_prec 80)]]. Qed.
Lemma d_A41_1725u : close ctol (4739498457535021 / 9007199254740992) (volts_A41 (424457612510219 / 17592186044416)).
Proof. apply (A41_q_volts_mid 424457612510219 17592186044416 4739498457535021 9007199254740992); [vm_compute; reflexivity | unfold fr, close, ctol, A41_lo, A41_hi, A41_c, A41_e; interval with (i_prec 80)]. Qed.
Lemma d_A41_1738u : close ctol (223803393742469 / 281474976710656) (volts_A41 (1131788980838717 / 70368744177664)).
Proof. apply (A41_q_volts_mid 1131788980838717 70368744177664 223803393742469 281474976710656); [vm_compute; reflexivity | unfold fr, close, ctol, A41_lo, A41_hi, A41_c, A41_e; interval with (i_prec 80)]. Qed.
Lemma d_A41_1751u : close ctol (3541182382489987 / 4503599627370496) (volts_A41 (2288488094939117 / 140737488355328)).
Proof. apply (A41_q_volts_mid 2288488094939117 140737488355328 3541182382489987 4503599627370496); [vm_compute; reflexivity | unfold fr, close, ctol, A41_lo, A41_hi, A41_c, A41_e; interval with (i_prec 80)]. Qed.
Lemma d_A41_1764u : close ctol (5991164161488157 / 2251799813685248) (volts_A41 (5527936421890607 / 1125899906842624)).
Proof. apply (A41_q_volts_mid 5527936421890607 1125899906842624 5991164161488157 2251799813685248); [vm_compute; reflexivity | unfold fr, close, ctol, A41_lo, A41_hi, A41_c, A41_e; interval with (i_prec 80)]. Qed.
Lemma d_A41_1776r : rio_reads A41_c A41_e A41_lo A41_hi floor_volts ctol (Build_rio (Fin (7801224976653949 / 18014398509481984)) (Fin (4701 / 1024)) (Fin (1785 / 512)) (Fin (6423 / 1024)) (Fin (11571 / 1024)) false true true ((Fin (1817 / 1024)) :: (Fin (169 / 1024)) :: (Fin (2627 / 1024)) :: (Fin (28239 / 256)) :: (Fin (2679 / 512)) :: (Fin (94527 / 1024)) :: nil)) (2055914005240769 / 70368744177664).
Proof. apply (A41_rio_fin _ (7801224976653949 / 18014398509481984)); [reflexivity | apply (A41_q_mid 7801224976653949 18014398509481984 2055914005240769 70368744177664); [vm_compute; reflexivity | unfold fr, close, ctol, A41_c, A41_e; interval with (i_prec 80)]]. Qed.
Lemma d_A41_1789u : close ctol (1134132480890423 / 2251799813685248) (volts_A41 (3544854130437691 / 140737488355328)).
Proof. apply (A41_q_volts_mid 3544854130437691 140737488355328 1134132480890423 2251799813685248); [vm_compute; reflexivity | unfold fr, close, ctol, A41_lo, A41_hi, A41_c, A41_e; interval with (i_prec 80)]. Qed.
Lemma d_A41_1802u : close ctol (1310130964307917 / 2251799813685248) (volts_A41 (3076451710015899 / 140737488355328)).
Proof. apply (A41_q_volts_mid 3076451710015899 140737488355328 1310130964307917 2251799813685248); [vm_compute; reflexivity | unfold fr, close, ctol, A41_lo, A41_hi, A41_c, A41_e; interval with (i_prec 80)]. Qed.
Lemma d_A41_1815u : close ctol (6491044311201869 / 18014398509481984) (volts_A41 (1898705987129869 / 35184372088832)).
Proof. apply (A41_q_volts_hi 1898705987129869 35184372088832 6491044311201869 18014398509481984); [vm_compute; reflexivity | unfold fr, close, ctol, A41_lo, A41_hi, A41_c, A41_e; interval with (i_prec 80)]. Qed.
Lemma d_A41_1828u : close ctol (6054632755445445 / 4503599627370496) (volts_A41 (1351166539420849 / 140737488355328)).
Proof. apply (A41_q_volts_mid 1351166539420849 140737488355328 6054632755445445 4503599627370496); [vm_compute; reflexivity | unfold fr, close, ctol, A41_lo, A41_hi, A41_c, A41_e; interval with (i_prec 80)]. Qed.
Lemma d_A41_1840r : rio_reads A41_c A41_e A41_lo A41_hi floor_volts ctol (Build_rio (Fin (760195257418481 / 1125899906842624)) (Fin (4613 / 512)) (Fin (1677 / 1024)) (Fin (1545 / 256)) (Fin (6209 / 512)) false false false ((Fin (671 / 512)) :: (Fin (21 / 256)) :: (Fin (405 / 512)) :: (Fin (10131 / 128)) :: (Fin (5263 / 1024)) :: (Fin (31333 / 1024)) :: nil)) (2657953224531405 / 140737488355328).
Proof. apply (A41_rio_fin _ (760195257418481 / 1125899906842624)); [reflexivity | apply (A41_q_mid 760195257418481 1125899906842624 2657953224531405 140737488355328); [vm_compute; reflexivity | unfold fr, close, ctol, A41_c, A41_e; interval with (i_prec 80)]]. Qed.
Lemma d_A41_1853u : close ctol (6491044311201869 / 18014398509481984) (volts_A41 (6584708332136561 / 70368744177664)).
Proof. apply (A41_q_volts_hi 6584708332136561 70368744177664 6491044311201869 18014398509481984); [vm_compute; reflexivity | unfold fr, close, ctol, A41_lo, A41_hi, A41_c, A41_e; interval with (i_prec 80)]. Qed.
Lemma d_A41_1866u : close ctol (51654182899489 / 35184372088832) (volts_A41 (1239236022117795 / 140737488355328)).
Proof. apply (A41_q_volts_mid 1239236022117795 140737488355328 51654182899489 35184372088832); [vm_compute; reflexivity | unfold fr, close, ctol, A41_lo, A41_hi, A41_c, A41_e; interval with (i_prec 80)]. Qed.
Lemma d_A41_1879u : close ctol (2764092963423511 / 1125899906842624) (volts_A41 (5982419661447367 / 1125899906842624)).
Proof. apply (A41_q_volts_mid 5982419661447367 1125899906842624 2764092963423511 1125899906842624); [vm_compute; reflexivity | unfold fr, close, ctol, A41_lo, A41_hi, A41_c, A41_e; interval with (i_prec 80)]. Qed.
Lemma d_A41_1892u : close ctol (2510681890336213 / 4503599627370496) (volts_A41 (1604155964913153 / 70368744177664)).
Proof. apply (A41_q_volts_mid 1604155964913153 70368744177664 2510681890336213 4503599627370496); [vm_compute; reflexivity | unfold fr, close, ctol, A41_lo, A41_hi, A41_c, A41_e; interval with (i_prec 80)]. Qed.
Lemma d_A41_1904r : rio_reads A41_c A41_e A41_lo A41_hi floor_volts ctol (Build_rio (Fin (6491044311201869 / 18014398509481984)) (Fin (5 / 1)) (Fin (3715469692580659 / 1125899906842624)) (Fin (6 / 1)) (Fin (12 / 1)) true true true ((Fin (0 / 1)) :: (Fin (0 / 1)) :: (Fin (0 / 1)) :: (Fin (0 / 1)) :: (Fin (27 / 4)) :: (Fin (45 / 1)) :: nil)) (35 / 1).
Proof. apply (A41_rio_fin _ (6491044311201869 / 18014398509481984)); [reflexivity | apply (A41_q_hi 6491044311201869 18014398509481984 35 1); [vm_compute; reflexivity | unfold fr, ctol, A41_hi, A41_c, A41_e; interval with (i_prec 80)]]. Qed.
Lemma d_A41_1917u : close ctol (1636741441258383 / 562949953421312) (volts_A41 ((-751590055063515) / 2251799813685248)).
Proof. apply (A41_q_volts_lo (-751590055063515) 2251799813685248 1636741441258383 562949953421312); [vm_compute; reflexivity | unfold fr, close, ctol, A41_lo, A41_hi, A41_c, A41_e; interval with (i_prec 80)]. Qed.
Lemma d_A41_1930u : close ctol (5368795401636591 / 9007199254740992) (volts_A41 (1502113652240945 / 70368744177664)).
Proof. apply (A41_q_volts_mid 1502113652240945 70368744177664 5368795401636591 9007199254740992); [vm_compute; reflexivity | unfold fr, close, ctol, A41_lo, A41_hi, A41_c, A41_e; interval with (i_prec 80)]. Qed.
Lemma d_A41_1943u : close ctol (1636741441258383 / 562949953421312) (volts_A41 ((-87389835934433) / 281474976710656)).
Proof. apply (A41_q_volts_lo (-87389835934433) 281474976710656 1636741441258383 562949953421312); [vm_compute; reflexivity | unfold fr, close, ctol, A41_lo, A41_hi, A41_c, A41_e; interval with (i_prec 80)]. Qed.
Lemma d_A41_1956u : close ctol (1237933215214511 / 2251799813685248) (volts_A41 (1626313751692431 / 70368744177664)).
Proof. apply (A41_q_volts_mid 1626313751692431 70368744177664 1237933215214511 2251799813685248); [vm_compute; reflexivity | unfold fr, close, ctol, A41_lo, A41_hi, A41_c, A41_e; interval with (i_prec 80)]. Qed.
Lemma d_A41_1968r : rio_reads A41_c A41_e A41_lo A41_hi floor_volts ctol (Build_rio (Fin (1467073349921681 / 2251799813685248)) (Fin ((-1) / 1)) (Fin (1705 / 512)) (Fin (3139 / 512)) (Fin (275 / 32)) false true true ((Fin (27 / 32)) :: (Fin (919 / 512)) :: (Fin (481 / 512)) :: (Fin (46827 / 512)) :: (Fin (4009 / 512)) :: (Fin (98749 / 1024)) :: nil)) (344102487300935 / 17592186044416).
Proof. apply (A41_rio_fin _ (1467073349921681 / 2251799813685248)); [reflexivity | apply (A41_q_mid 1467073349921681 2251799813685248 344102487300935 17592186044416); [vm_compute; reflexivity | unfold fr, close, ctol, A41_c, A41_e; interval with (i_prec 80)]]. Qed.
Lemma d_A41_1981u : close ctol (4533675742288191 / 4503599627370496) (volts_A41 (7181166669597611 / 562949953421312)).
Proof. apply (A41_q_volts_mid 7181166669597611 562949953421312 4533675742288191 4503599627370496); [vm_compute; reflexivity | unfold fr, close, ctol, A41_lo, A41_hi, A41_c, A41_e; interval with (i_prec 80)]. Qed.
Lemma d_A41_1994u : close ctol (8167738467213543 / 9007199254740992) (volts_A41 (7957469276363917 / 562949953421312)).
Proof. apply (A41_q_volts_mid 7957469276363917 562949953421312 8167738467213543 9007199254740992); [vm_compute; reflexivity | unfold fr, close, ctol, A41_lo, A41_hi, A41_c, A41_e; interval with (i_prec 80)]. Qed.
Lemma r_A02_20 : rio_reads A02_c A02_e A02_lo A02_hi floor_volts ctol (Build_rio (Fin (253 / 25300281663413827294061918339864663381194581220517764794612669753428792445999418361495047962679640561898384733039601488923726092173224184608376674992592313740189678034570795170558363467761652042654970959809093133570250935428086587327262919456144944542601257064044846194041676826903812816523290938580750782913463467636686848)) (Fin (5 / 1)) (Fin (3715469692580659 / 1125899906842624)) (Fin (6 / 1)) (Fin (21 / 2)) true true true ((Fin (0 / 1)) :: (Fin (0 / 1)) :: (Fin (0 / 1)) :: (Fin (0 / 1)) :: (Fin (27 / 4)) :: (Fin (45 / 1)) :: nil)) (145 / 1).
Proof. apply (A02_rio_fin _ (253 / 25300281663413827294061918339864663381194581220517764794612669753428792445999418361495047962679640561898384733039601488923726092173224184608376674992592313740189678034570795170558363467761652042654970959809093133570250935428086587327262919456144944542601257064044846194041676826903812816523290938580750782913463467636686848)); [reflexivity | apply (A02_q_floor 253 25300281663413827294061918339864663381194581220517764794612669753428792445999418361495047962679640561898384733039601488923726092173224184608376674992592313740189678034570795170558363467761652042654970959809093133570250935428086587327262919456144944542601257064044846194041676826903812816523290938580750782913463467636686848 145 1); vm_compute; reflexivity]. Qed.
Lemma r_A02_412 : rio_reads A02_c A02_e A02_lo A02_hi floor_volts ctol (Build_rio (Fin (7919580611492497 / 75557863725914323419136)) (Fin (2805 / 512)) (Fin (3715469692580659 / 1125899906842624)) (Fin (1545 / 256)) (Fin (4325 / 512)) true false true ((Fin (1111 / 1024)) :: (Fin (1195 / 1024)) :: (Fin (747 / 256)) :: (Fin (33493 / 256)) :: (Fin (2265 / 512)) :: (Fin (58215 / 1024)) :: nil)) (145 / 1).
Proof. apply (A02_rio_fin _ (7919580611492497 / 75557863725914323419136)); [reflexivity | apply (A02_q_floor 7919580611492497 75557863725914323419136 145 1); vm_compute; reflexivity]. Qed.
Lemma d_A02_6g : get_distance (set_distance A02_c A02_e A02_lo A02_hi sim_init (100 / 1)) = (100 / 1).
Proof. cbn [get_distance set_distance sim_distance]. first [reflexivity | lra]. Qed.
Lemma d_A02_13c : close ctol (45 / 2) (clamp A02_lo A02_hi (45 / 2)).
Proof. apply (A02_q_clamp_lo 45 2 45 2); vm_compute; reflexivity. Qed.
Lemma d_A02_19g : get_distance (set_distance A02_c A02_e A02_lo A02_hi sim_init (0 / 1)) = (0 / 1).
Proof. cbn [get_distance set_distance sim_distance]. first [reflexivity | lra]. Qed.
Lemma d_A02_26c : close ctol (45 / 2) (clamp A02_lo A02_hi (6032057205060441 / 6032057205060440848842124543157735677050252251748505781796615064961622344493727293370973578138265743708225425014400837164813540499979063179105919597766951022193355091707896034850684039059079180396788349106095584290087446076413771468940477241550670753145517602931224392424029547429993824129889235158145614364972941312)).
Proof. apply (A02_q_clamp_lo 6032057205060441 6032057205060440848842124543157735677050252251748505781796615064961622344493727293370973578138265743708225425014400837164813540499979063179105919597766951022193355091707896034850684039059079180396788349106095584290087446076413771468940477241550670753145517602931224392424029547429993824129889235158145614364972941312 45 2); vm_compute; reflexivity. Qed.
Lemma d_A02_34c : close ctol (60 / 1) (clamp A02_lo A02_hi (60 / 1)).
Proof. apply (A02_q_clamp_mid 60 1 60 1); vm_compute; reflexivity. Qed.
Lemma d_A02_43c : close ctol (45 / 2) (clamp A02_lo A02_hi (45 / 2)).
Proof. apply (A02_q_clamp_lo 45 2 45 2); vm_compute; reflexivity. Qed.
Lemma d_A02_51c : close ctol (2550866973889453 / 17592186044416) (clamp A02_lo A02_hi (2550866973889453 / 17592186044416)).
Proof. apply (A02_q_clamp_mid 2550866973889453 17592186044416 2550866973889453 17592186044416); vm_compute; reflexivity. Qed.
Lemma d_A02_59c : close ctol (1692855302603187 / 70368744177664) (clamp A02_lo A02_hi (1692855302603187 / 70368744177664)).
Proof. apply (A02_q_clamp_mid 1692855302603187 70368744177664 1692855302603187 70368744177664); vm_compute; reflexivity. Qed.
Lemma d_A02_67c : close ctol (2763422973435803 / 35184372088832) (clamp A02_lo A02_hi (2763422973435803 / 35184372088832)).
Proof. apply (A02_q_clamp_mid 2763422973435803 35184372088832 2763422973435803 35184372088832); vm_compute; reflexivity. Qed.
Lemma d_A02_75c : close ctol (7789783253675929 / 70368744177664) (clamp A02_lo A02_hi (7789783253675929 / 70368744177664)).
Proof. apply (A02_q_clamp_mid 7789783253675929 70368744177664 7789783253675929 70368744177664); vm_compute; reflexivity. Qed.
Lemma d_A02_83c : close ctol (854717701109513 / 8796093022208) (clamp A02_lo A02_hi (854717701109513 / 8796093022208)).
Proof. apply (A02_q_clamp_mid 854717701109513 8796093022208 854717701109513 8796093022208); vm_compute; reflexivity. Qed.
Lemma d_A02_91c : close ctol (7233145099993251 / 70368744177664) (clamp A02_lo A02_hi (7233145099993251 / 70368744177664)).
Proof. apply (A02_q_clamp_mid 7233145099993251 70368744177664 7233145099993251 70368744177664); vm_compute; reflexivity. Qed.
Lemma d_A02_99c : close ctol (8412124522946963 / 140737488355328) (clamp A02_lo A02_hi (8412124522946963 / 140737488355328)).
Proof. apply (A02_q_clamp_mid 8412124522946963 140737488355328 8412124522946963 140737488355328); vm_compute; reflexivity. Qed.
Lemma d_A02_107c : close ctol (781163209153013 / 17592186044416) (clamp A02_lo A02_hi (781163209153013 / 17592186044416)).
Proof. apply (A02_q_clamp_mid 781163209153013 17592186044416 781163209153013 17592186044416); vm_compute; reflexivity. Qed.
Lemma d_A02_115c : close ctol (1237258212908569 / 35184372088832) (clamp A02_lo A02_hi (1237258212908569 / 35184372088832)).
Proof. apply (A02_q_clamp_mid 1237258212908569 35184372088832 1237258212908569 35184372088832); vm_compute; reflexivity. Qed.
Lemma d_A02_123c : close ctol (8683595646767363 / 70368744177664) (clamp A02_lo A02_hi (4341797823383681 / 35184372088832)).
Proof. apply (A02_q_clamp_mid 4341797823383681 35184372088832 8683595646767363 70368744177664); vm_compute; reflexivity. Qed.
Lemma d_A02_131c : close ctol (45 / 2) (clamp A02_lo A02_hi ((-4726071738620065) / 562949953421312)).
Proof. apply (A02_q_clamp_lo (-4726071738620065) 562949953421312 45 2); vm_compute; reflexivity. Qed.
Lemma d_A02_139c : close ctol (45 / 2) (clamp A02_lo A02_hi ((-2465078156307385) / 281474976710656)).
Proof. apply (A02_q_clamp_lo (-2465078156307385) 281474976710656 45 2); vm_compute; reflexivity. Qed.
Lemma d_A02_147c : close ctol (2045944063894417 / 35184372088832) (clamp A02_lo A02_hi (2045944063894417 / 35184372088832)).
Proof. apply (A02_q_clamp_mid 2045944063894417 35184372088832 2045944063894417 35184372088832); vm_compute; reflexivity. Qed.
Lemma d_A02_155c : close ctol (131 / 1) (clamp A02_lo A02_hi (131 / 1)).
Proof. apply (A02_q_clamp_mid 131 1 131 1); vm_compute; reflexivity. Qed.
Lemma d_A02_163c : close ctol (7901245207894161 / 70368744177664) (clamp A02_lo A02_hi (7901245207894161 / 70368744177664)).
Proof. apply (A02_q_clamp_mid 7901245207894161 70368744177664 7901245207894161 70368744177664); vm_compute; reflexivity. Qed.
Lemma d_A02_171c : close ctol (3728802459665411 / 35184372088832) (clamp A02_lo A02_hi (3728802459665411 / 35184372088832)).
Proof. apply (A02_q_clamp_mid 3728802459665411 35184372088832 3728802459665411 35184372088832); vm_compute; reflexivity. Qed.
Lemma d_A02_179c : close ctol (2608829631977791 / 35184372088832) (clamp A02_lo A02_hi (2608829631977791 / 35184372088832)).
Proof. apply (A02_q_clamp_mid 2608829631977791 35184372088832 2608829631977791 35184372088832); vm_compute; reflexivity. Qed.
Lemma d_A02_187c : close ctol (6614661952700417 / 70368744177664) (clamp A02_lo A02_hi (94 / 1)).
Proof. apply (A02_q_clamp_mid 94 1 6614661952700417 70368744177664); vm_compute; reflexivity. Qed.
Lemma d_A02_195c : close ctol (45 / 2) (clamp A02_lo A02_hi (4100836303716957 / 4503599627370496)).
Proof. apply (A02_q_clamp_lo 4100836303716957 4503599627370496 45 2); vm_compute; reflexivity. Qed.
Lemma d_A02_203c : close ctol (1844785692831629 / 70368744177664) (clamp A02_lo A02_hi (1844785692831629 / 70368744177664)).
Proof. apply (A02_q_clamp_mid 1844785692831629 70368744177664 1844785692831629 70368744177664); vm_compute; reflexivity. Qed.
Lemma d_A02_211c : close ctol (8421024807779105 / 281474976710656) (clamp A02_lo A02_hi (8421024807779105 / 281474976710656)).
Proof. apply (A02_q_clamp_mid 8421024807779105 281474976710656 8421024807779105 281474976710656); vm_compute; reflexivity. Qed.
Lemma d_A02_219c : close ctol (145 / 1) (clamp A02_lo A02_hi (2871671317184579 / 8796093022208)).
Proof. apply (A02_q_clamp_hi 2871671317184579 8796093022208 145 1); vm_compute; reflexivity. Qed.
Lemma d_A02_227c : close ctol (619499948828787 / 8796093022208) (clamp A02_lo A02_hi (619499948828787 / 8796093022208)).
Proof. apply (A02_q_clamp_mid 619499948828787 8796093022208 619499948828787 8796093022208); vm_compute; reflexivity. Qed.
Lemma d_A02_235c : close ctol (45 / 2) (clamp A02_lo A02_hi (1097284755558557 / 140737488355328)).
Proof. apply (A02_q_clamp_lo 1097284755558557 140737488355328 45 2); vm_compute; reflexivity. Qed.
Lemma d_A02_243c : close ctol (2430191399129999 / 17592186044416) (clamp A02_lo A02_hi (2430191399129999 / 17592186044416)).
Proof. apply (A02_q_clamp_mid 2430191399129999 17592186044416 2430191399129999 17592186044416); vm_compute; reflexivity. Qed.
Lemma d_A02_251c : close ctol (1494776786027563 / 17592186044416) (clamp A02_lo A02_hi (1494776786027563 / 17592186044416)).
Proof. apply (A02_q_clamp_mid 1494776786027563 17592186044416 1494776786027563 17592186044416); vm_compute; reflexivity. Qed.
Lemma d_A02_259c : close ctol (1143778172638919 / 8796093022208) (clamp A02_lo A02_hi (1143778172638919 / 8796093022208)).
Proof. apply (A02_q_clamp_mid 1143778172638919 8796093022208 1143778172638919 8796093022208); vm_compute; reflexivity. Qed.
Lemma d_A02_267c : close ctol (8556600147163877 / 140737488355328) (clamp A02_lo A02_hi (4278300073581939 / 70368744177664)).
Proof. apply (A02_q_clamp_mid 4278300073581939 70368744177664 8556600147163877 140737488355328); vm_compute; reflexivity. Qed.
Lemma d_A02_275c : close ctol (49595841247295 / 549755813888) (clamp A02_lo A02_hi (49595841247295 / 549755813888)).
Proof. apply (A02_q_clamp_mid 49595841247295 549755813888 49595841247295 549755813888); vm_compute; reflexivity. Qed.
Lemma d_A02_283c : close ctol (45 / 2) (clamp A02_lo A02_hi (156483978417331 / 35184372088832)).
Proof. apply (A02_q_clamp_lo 156483978417331 35184372088832 45 2); vm_compute; reflexivity. Qed.
Lemma d_A02_291c : close ctol (7216348344349211 / 281474976710656) (clamp A02_lo A02_hi (1804087086087303 / 70368744177664)).
Proof. apply (A02_q_clamp_mid 1804087086087303 70368744177664 7216348344349211 281474976710656); vm_compute; reflexivity. Qed.
Lemma d_A02_299c : close ctol (45 / 2) (clamp A02_lo A02_hi (158357612345963 / 281474976710656)).
Proof. apply (A02_q_clamp_lo 158357612345963 281474976710656 45 2); vm_compute; reflexivity. Qed.
Lemma d_A02_307c : close ctol (303685182492353 / 4398046511104) (clamp A02_lo A02_hi (303685182492353 / 4398046511104)).
Proof. apply (A02_q_clamp_mid 303685182492353 4398046511104 303685182492353 4398046511104); vm_compute; reflexivity. Qed.
Lemma d_A02_315c : close ctol (3606281560372379 / 35184372088832) (clamp A02_lo A02_hi (3606281560372379 / 35184372088832)).
Proof. apply (A02_q_clamp_mid 3606281560372379 35184372088832 3606281560372379 35184372088832); vm_compute; reflexivity. Qed.
Lemma d_A02_323c : close ctol (5740333426474291 / 140737488355328) (clamp A02_lo A02_hi (5740333426474291 / 140737488355328)).
Proof. apply (A02_q_clamp_mid 5740333426474291 140737488355328 5740333426474291 140737488355328); vm_compute; reflexivity. Qed.
Lemma d_A02_331c : close ctol (5266682129888517 / 70368744177664) (clamp A02_lo A02_hi (5266682129888517 / 70368744177664)).
Proof. apply (A02_q_clamp_mid 5266682129888517 70368744177664 5266682129888517 70368744177664); vm_compute; reflexivity. Qed.
Lemma d_A02_339c : close ctol (45 / 2) (clamp A02_lo A02_hi (2827182756359769 / 1125899906842624)).
Proof. apply (A02_q_clamp_lo 2827182756359769 1125899906842624 45 2); vm_compute; reflexivity. Qed.
Lemma d_A02_347c : close ctol (4947657357558445 / 35184372088832) (clamp A02_lo A02_hi (4947657357558445 / 35184372088832)).
Proof. apply (A02_q_clamp_mid 4947657357558445 35184372088832 4947657357558445 35184372088832); vm_compute; reflexivity. Qed.
Lemma d_A02_355c : close ctol (1249748764467055 / 8796093022208) (clamp A02_lo A02_hi (1249748764467055 / 8796093022208)).
Proof. apply (A02_q_clamp_mid 1249748764467055 8796093022208 1249748764467055 8796093022208); vm_compute; reflexivity. Qed.
Lemma d_A02_363c : close ctol (7072252984567281 / 70368744177664) (clamp A02_lo A02_hi (7072252984567281 / 70368744177664)).
Proof. apply (A02_q_clamp_mid 7072252984567281 70368744177664 7072252984567281 70368744177664); vm_compute; reflexivity. Qed.
Lemma d_A02_371c : close ctol (145 / 1) (clamp A02_lo A02_hi (7619917187050265 / 35184372088832)).
Proof. apply (A02_q_clamp_hi 7619917187050265 35184372088832 145 1); vm_compute; reflexivity. Qed.
Lemma d_A02_379c : close ctol (4246873468528993 / 70368744177664) (clamp A02_lo A02_hi (8493746937057987 / 140737488355328)).
Proof. apply (A02_q_clamp_mid 8493746937057987 140737488355328 4246873468528993 70368744177664); vm_compute; reflexivity. Qed.
Lemma d_A02_387c : close ctol (3321167751978323 / 35184372088832) (clamp A02_lo A02_hi (3321167751978323 / 35184372088832)).
Proof. apply (A02_q_clamp_mid 3321167751978323 35184372088832 3321167751978323 35184372088832); vm_compute; reflexivity. Qed.
Lemma d_A02_395c : close ctol (3185410966288285 / 35184372088832) (clamp A02_lo A02_hi (3185410966288285 / 35184372088832)).
Proof. apply (A02_q_clamp_mid 3185410966288285 35184372088832 3185410966288285 35184372088832); vm_compute; reflexivity. Qed.
Lemma d_A02_403c : close ctol (45 / 2) (clamp A02_lo A02_hi ((-363004080033757) / 281474976710656)).
Proof. apply (A02_q_clamp_lo (-363004080033757) 281474976710656 45 2); vm_compute; reflexivity. Qed.
Lemma d_A02_411c : close ctol (145 / 1) (clamp A02_lo A02_hi (2044422395551269 / 8796093022208)).
Proof. apply (A02_q_clamp_hi 2044422395551269 8796093022208 145 1); vm_compute; reflexivity. Qed.
Lemma d_A02_419c : close ctol (6851127752539707 / 70368744177664) (clamp A02_lo A02_hi (6851127752539707 / 70368744177664)).
Proof. apply (A02_q_clamp_mid 6851127752539707 70368744177664 6851127752539707 70368744177664); vm_compute; reflexivity. Qed.
Lemma d_A02_427c : close ctol (45 / 2) (clamp A02_lo A02_hi (3915505640364969 / 281474976710656)).
Proof. apply (A02_q_clamp_lo 3915505640364969 281474976710656 45 2); vm_compute; reflexivity. Qed.
Lemma d_A02_435c : close ctol (622276436311455 / 4398046511104) (clamp A02_lo A02_hi (622276436311455 / 4398046511104)).
Proof. apply (A02_q_clamp_mid 622276436311455 4398046511104 622276436311455 4398046511104); vm_compute; reflexivity. Qed.
Lemma d_A02_443c : close ctol (3238543545161275 / 70368744177664) (clamp A02_lo A02_hi (3238543545161275 / 70368744177664)).
Proof. apply (A02_q_clamp_mid 3238543545161275 70368744177664 3238543545161275 70368744177664); vm_compute; reflexivity. Qed.
Lemma d_A02_451c : close ctol (45 / 2) (clamp A02_lo A02_hi (22 / 1)).
Proof. apply (A02_q_clamp_lo 22 1 45 2); vm_compute; reflexivity. Qed.
Lemma d_A02_459c : close ctol (35342615492317 / 274877906944) (clamp A02_lo A02_hi (35342615492317 / 274877906944)).
Proof. apply (A02_q_clamp_mid 35342615492317 274877906944 35342615492317 274877906944); vm_compute; reflexivity. Qed.
Lemma d_A02_467c : close ctol (810032857302009 / 8796093022208) (clamp A02_lo A02_hi (810032857302009 / 8796093022208)).
Proof. apply (A02_q_clamp_mid 810032857302009 8796093022208 810032857302009 8796093022208); vm_compute; reflexivity. Qed.
Lemma d_A02_475c : close ctol (145 / 1) (clamp A02_lo A02_hi (4307586029041443 / 17592186044416)).
Proof. apply (A02_q_clamp_hi 4307586029041443 17592186044416 145 1); vm_compute; reflexivity. Qed.
Lemma d_A02_483c : close ctol (6432722934190625 / 70368744177664) (clamp A02_lo A02_hi (6432722934190625 / 70368744177664)).
Proof. apply (A02_q_clamp_mid 6432722934190625 70368744177664 6432722934190625 70368744177664); vm_compute; reflexivity. Qed.
Lemma d_A02_491c : close ctol (45 / 2) (clamp A02_lo A02_hi (10 / 1)).
Proof. apply (A02_q_clamp_lo 10 1 45 2); vm_compute; reflexivity. Qed.
Lemma d_A02_499c : close ctol (9829241378567 / 68719476736) (clamp A02_lo A02_hi (9829241378567 / 68719476736)).
Proof. apply (A02_q_clamp_mid 9829241378567 68719476736 9829241378567 68719476736); vm_compute; reflexivity. Qed.
Lemma d_A02_507c : close ctol (632358456848261 / 4398046511104) (clamp A02_lo A02_hi (632358456848261 / 4398046511104)).
Proof. apply (A02_q_clamp_mid 632358456848261 4398046511104 632358456848261 4398046511104); vm_compute; reflexivity. Qed.
Lemma d_A02_515c : close ctol (45 / 2) (clamp A02_lo A02_hi (450620349956881 / 18014398509481984)).
Proof. apply (A02_q_clamp_lo 450620349956881 18014398509481984 45 2); vm_compute; reflexivity. Qed.
Lemma d_A02_523c : close ctol (2551787736074399 / 35184372088832) (clamp A02_lo A02_hi (2551787736074399 / 35184372088832)).
Proof. apply (A02_q_clamp_mid 2551787736074399 35184372088832 2551787736074399 35184372088832); vm_compute; reflexivity. Qed.
Lemma d_A02_531c : close ctol (45 / 2) (clamp A02_lo A02_hi (375919954989799 / 17592186044416)).
Proof. apply (A02_q_clamp_lo 375919954989799 17592186044416 45 2); vm_compute; reflexivity. Qed.
Lemma d_A02_539c : close ctol (5023564809941987 / 35184372088832) (clamp A02_lo A02_hi (5023564809941987 / 35184372088832)).
Proof. apply (A02_q_clamp_mid 5023564809941987 35184372088832 5023564809941987 35184372088832); vm_compute; reflexivity. Qed.
Lemma d_A02_547c : close ctol (7986430213442225 / 70368744177664) (clamp A02_lo A02_hi (499151888340139 / 4398046511104)).
Proof. apply (A02_q_clamp_mid 499151888340139 4398046511104 7986430213442225 70368744177664); vm_compute; reflexivity. Qed.
Lemma d_A02_555c : close ctol (3520600501952647 / 35184372088832) (clamp A02_lo A02_hi (3520600501952647 / 35184372088832)).
Proof. apply (A02_q_clamp_mid 3520600501952647 35184372088832 3520600501952647 35184372088832); vm_compute; reflexivity. Qed.
Lemma d_A02_563c : close ctol (7950934013350539 / 70368744177664) (clamp A02_lo A02_hi (7950934013350539 / 70368744177664)).
Proof. apply (A02_q_clamp_mid 7950934013350539 70368744177664 7950934013350539 70368744177664); vm_compute; reflexivity. Qed.
Lemma d_A02_571c : close ctol (4339949620652935 / 35184372088832) (clamp A02_lo A02_hi (4339949620652935 / 35184372088832)).
Proof. apply (A02_q_clamp_mid 4339949620652935 35184372088832 4339949620652935 35184372088832); vm_compute; reflexivity. Qed.
Lemma d_A02_579c : close ctol (1446552492392707 / 17592186044416) (clamp A02_lo A02_hi (1446552492392707 / 17592186044416)).
Proof. apply (A02_q_clamp_mid 1446552492392707 17592186044416 1446552492392707 17592186044416); vm_compute; reflexivity. Qed.
Lemma d_A02_587c : close ctol (2726964806874531 / 35184372088832) (clamp A02_lo A02_hi (2726964806874531 / 35184372088832)).
Proof. apply (A02_q_clamp_mid 2726964806874531 35184372088832 2726964806874531 35184372088832); vm_compute; reflexivity. Qed.
Lemma d_A02_595c : close ctol (2842771412867743 / 35184372088832) (clamp A02_lo A02_hi (2842771412867743 / 35184372088832)).
Proof. apply (A02_q_clamp_mid 2842771412867743 35184372088832 2842771412867743 35184372088832); vm_compute; reflexivity. Qed.
Lemma d_A02_603c : close ctol (145 / 1) (clamp A02_lo A02_hi (4344643539432295 / 17592186044416)).
Proof. apply (A02_q_clamp_hi 4344643539432295 17592186044416 145 1); vm_compute; reflexivity. Qed.
Lemma d_A02_611c : close ctol (1440487661035033 / 17592186044416) (clamp A02_lo A02_hi (1440487661035033 / 17592186044416)).
Proof. apply (A02_q_clamp_mid 1440487661035033 17592186044416 1440487661035033 17592186044416); vm_compute; reflexivity. Qed.
Lemma d_A02_619c : close ctol (845114249968077 / 17592186044416) (clamp A02_lo A02_hi (845114249968077 / 17592186044416)).
Proof. apply (A02_q_clamp_mid 845114249968077 17592186044416 845114249968077 17592186044416); vm_compute; reflexivity. Qed.
Lemma d_A02_627c : close ctol (4854231494668753 / 70368744177664) (clamp A02_lo A02_hi (4854231494668753 / 70368744177664)).
Proof. apply (A02_q_clamp_mid 4854231494668753 70368744177664 4854231494668753 70368744177664); vm_compute; reflexivity. Qed.
Lemma d_A02_635c : close ctol (145 / 1) (clamp A02_lo A02_hi (5847459889423187 / 35184372088832)).
Proof. apply (A02_q_clamp_hi 5847459889423187 35184372088832 145 1); vm_compute; reflexivity. Qed.
Lemma d_A02_643c : close ctol (6705875635727285 / 70368744177664) (clamp A02_lo A02_hi (6705875635727285 / 70368744177664)).
Proof. apply (A02_q_clamp_mid 6705875635727285 70368744177664 6705875635727285 70368744177664); vm_compute; reflexivity. Qed.
Lemma d_A02_651c : close ctol (4821684743611955 / 35184372088832) (clamp A02_lo A02_hi (4821684743611955 / 35184372088832)).
Proof. apply (A02_q_clamp_mid 4821684743611955 35184372088832 4821684743611955 35184372088832); vm_compute; reflexivity. Qed.
Lemma d_A02_659c : close ctol (45 / 2) (clamp A02_lo A02_hi ((-6986936022188019) / 1125899906842624)).
Proof. apply (A02_q_clamp_lo (-6986936022188019) 1125899906842624 45 2); vm_compute; reflexivity. Qed.
Lemma r_A21_422 : rio_reads A21_c A21_e A21_lo A21_hi floor_volts ctol (Build_rio (Fin (0 / 1)) (Fin (2589569785738035 / 562949953421312)) (Fin (3602879701896397 / 1125899906842624)) (Fin (0 / 1)) (Fin (7093169413108531 / 1125899906842624)) true true false ((Fin (0 / 1)) :: (Fin (0 / 1)) :: (Fin (0 / 1)) :: (Fin (120 / 1)) :: (Fin (27 / 4)) :: (Fin (45 / 1)) :: nil)) (10 / 1).
Proof. apply (A21_rio_fin _ (0 / 1)); [reflexivity | apply (A21_q_floor 0 1 10 1); vm_compute; reflexivity]. Qed.
Lemma r_A21_447 : rio_reads A21_c A21_e A21_lo A21_hi floor_volts ctol (Build_rio (Fin (368934881474191 / 36893488147419103232)) (Fin (5 / 1)) (Fin (3715469692580659 / 1125899906842624)) (Fin (6 / 1)) (Fin (7093169413108531 / 1125899906842624)) true true true ((Fin (0 / 1)) :: (Fin (0 / 1)) :: (Fin (0 / 1)) :: (Fin (0 / 1)) :: (Fin (27 / 4)) :: (Fin (45 / 1)) :: nil)) (80 / 1).
Proof. apply (A21_rio_fin _ (368934881474191 / 36893488147419103232)); [reflexivity | apply (A21_q_floor 368934881474191 36893488147419103232 80 1); vm_compute; reflexivity]. Qed.
Lemma d_A21_669c : close ctol (10 / 1) (clamp A21_lo A21_hi (10 / 1)).
Proof. apply (A21_q_clamp_lo 10 1 10 1); vm_compute; reflexivity. Qed.
Lemma d_A21_677c : close ctol (25 / 1) (clamp A21_lo A21_hi (25 / 1)).
Proof. apply (A21_q_clamp_mid 25 1 25 1); vm_compute; reflexivity. Qed.
Lemma d_A21_685c : close ctol (10 / 1) (clamp A21_lo A21_hi (0 / 1)).
Proof. apply (A21_q_clamp_lo 0 1 10 1); vm_compute; reflexivity. Qed.
Lemma d_A21_693c : close ctol (10 / 1) (clamp A21_lo A21_hi (1 / 1)).
Proof. apply (A21_q_clamp_lo 1 1 10 1); vm_compute; reflexivity. Qed.
Lemma d_A21_701c : close ctol (80 / 1) (clamp A21_lo A21_hi (100 / 1)).
Proof. apply (A21_q_clamp_hi 100 1 80 1); vm_compute; reflexivity. Qed.
Lemma d_A21_710c : close ctol (80 / 1) (clamp A21_lo A21_hi (80 / 1)).
Proof. apply (A21_q_clamp_hi 80 1 80 1); vm_compute; reflexivity. Qed.
Lemma d_A21_718c : close ctol (80 / 1) (clamp A21_lo A21_hi (1407374884960655 / 17592186044416)).
Proof. apply (A21_q_clamp_hi 1407374884960655 17592186044416 80 1); vm_compute; reflexivity. Qed.
Lemma d_A21_726c : close ctol (1186423855655219 / 17592186044416) (clamp A21_lo A21_hi (1186423855655219 / 17592186044416)).
Proof. apply (A21_q_clamp_mid 1186423855655219 17592186044416 1186423855655219 17592186044416); vm_compute; reflexivity. Qed.
Lemma d_A21_734c : close ctol (7926193069919739 / 140737488355328) (clamp A21_lo A21_hi (1981548267479935 / 35184372088832)).
Proof. apply (A21_q_clamp_mid 1981548267479935 35184372088832 7926193069919739 140737488355328); vm_compute; reflexivity. Qed.
Lemma d_A21_742c : close ctol (1249305319436711 / 17592186044416) (clamp A21_lo A21_hi (1249305319436711 / 17592186044416)).
Proof. apply (A21_q_clamp_mid 1249305319436711 17592186044416 1249305319436711 17592186044416); vm_compute; reflexivity. Qed.
Lemma d_A21_750c : close ctol (3864705040770761 / 70368744177664) (clamp A21_lo A21_hi (3864705040770761 / 70368744177664)).
Proof. apply (A21_q_clamp_mid 3864705040770761 70368744177664 3864705040770761 70368744177664); vm_compute; reflexivity. Qed.
Lemma d_A21_758c : close ctol (7034036671070795 / 140737488355328) (clamp A21_lo A21_hi (3517018335535397 / 70368744177664)).
Proof. apply (A21_q_clamp_mid 3517018335535397 70368744177664 7034036671070795 140737488355328); vm_compute; reflexivity. Qed.
Lemma d_A21_766c : close ctol (575606293107967 / 17592186044416) (clamp A21_lo A21_hi (575606293107967 / 17592186044416)).
Proof. apply (A21_q_clamp_mid 575606293107967 17592186044416 575606293107967 17592186044416); vm_compute; reflexivity. Qed.
Lemma d_A21_774c : close ctol (80 / 1) (clamp A21_lo A21_hi (166998962029129 / 1099511627776)).
Proof. apply (A21_q_clamp_hi 166998962029129 1099511627776 80 1); vm_compute; reflexivity. Qed.
Lemma d_A21_782c : close ctol (773452187992747 / 35184372088832) (clamp A21_lo A21_hi (6187617503941977 / 281474976710656)).
Proof. apply (A21_q_clamp_mid 6187617503941977 281474976710656 773452187992747 35184372088832); vm_compute; reflexivity. Qed.
Lemma d_A21_790c : close ctol (2294768577787947 / 140737488355328) (clamp A21_lo A21_hi (2294768577787947 / 140737488355328)).
Proof. apply (A21_q_clamp_mid 2294768577787947 140737488355328 2294768577787947 140737488355328); vm_compute; reflexivity. Qed.
Lemma d_A21_798c : close ctol (80 / 1) (clamp A21_lo A21_hi (6527312601412363 / 35184372088832)).
Proof. apply (A21_q_clamp_hi 6527312601412363 35184372088832 80 1); vm_compute; reflexivity. Qed.
Lemma d_A21_806c : close ctol (10 / 1) (clamp A21_lo A21_hi (4909639544171229 / 562949953421312)).
Proof. apply (A21_q_clamp_lo 4909639544171229 562949953421312 10 1); vm_compute; reflexivity. Qed.
Lemma d_A21_814c : close ctol (282880218092751 / 4398046511104) (clamp A21_lo A21_hi (282880218092751 / 4398046511104)).
Proof. apply (A21_q_clamp_mid 282880218092751 4398046511104 282880218092751 4398046511104); vm_compute; reflexivity. Qed.
Lemma d_A21_822c : close ctol (2223311908193689 / 35184372088832) (clamp A21_lo A21_hi (8893247632774757 / 140737488355328)).
Proof. apply (A21_q_clamp_mid 8893247632774757 140737488355328 2223311908193689 35184372088832); vm_compute; reflexivity. Qed.
Lemma d_A21_830c : close ctol (8716264298455349 / 281474976710656) (clamp A21_lo A21_hi (8716264298455349 / 281474976710656)).
Proof. apply (A21_q_clamp_mid 8716264298455349 281474976710656 8716264298455349 281474976710656); vm_compute; reflexivity. Qed.
Lemma d_A21_838c : close ctol (65702465007319 / 1099511627776) (clamp A21_lo A21_hi (4204957760468415 / 70368744177664)).
Proof. apply (A21_q_clamp_mid 4204957760468415 70368744177664 65702465007319 1099511627776); vm_compute; reflexivity. Qed.
Lemma d_A21_846c : close ctol (627477410186297 / 8796093022208) (clamp A21_lo A21_hi (627477410186297 / 8796093022208)).
Proof. apply (A21_q_clamp_mid 627477410186297 8796093022208 627477410186297 8796093022208); vm_compute; reflexivity. Qed.
Lemma d_A21_854c : close ctol (6935377962211043 / 562949953421312) (clamp A21_lo A21_hi (1733844490552761 / 140737488355328)).
Proof. apply (A21_q_clamp_mid 1733844490552761 140737488355328 6935377962211043 562949953421312); vm_compute; reflexivity. Qed.
Lemma d_A21_862c : close ctol (506855730014181 / 35184372088832) (clamp A21_lo A21_hi (506855730014181 / 35184372088832)).
Proof. apply (A21_q_clamp_mid 506855730014181 35184372088832 506855730014181 35184372088832); vm_compute; reflexivity. Qed.
Lemma d_A21_870c : close ctol (2021192823298797 / 35184372088832) (clamp A21_lo A21_hi (2021192823298797 / 35184372088832)).
Proof. apply (A21_q_clamp_mid 2021192823298797 35184372088832 2021192823298797 35184372088832); vm_compute; reflexivity. Qed.
Lemma d_A21_878c : close ctol (2376108344733009 / 35184372088832) (clamp A21_lo A21_hi (2376108344733009 / 35184372088832)).
Proof. apply (A21_q_clamp_mid 2376108344733009 35184372088832 2376108344733009 35184372088832); vm_compute; reflexivity. Qed.
Lemma d_A21_886c : close ctol (7599033299956551 / 281474976710656) (clamp A21_lo A21_hi (3799516649978275 / 140737488355328)).
Proof. apply (A21_q_clamp_mid 3799516649978275 140737488355328 7599033299956551 281474976710656); vm_compute; reflexivity. Qed.
Lemma d_A21_894c : close ctol (8189475271363761 / 140737488355328) (clamp A21_lo A21_hi (511842204460235 / 8796093022208)).
Proof. apply (A21_q_clamp_mid 511842204460235 8796093022208 8189475271363761 140737488355328); vm_compute; reflexivity. Qed.
Lemma d_A21_902c : close ctol (80 / 1) (clamp A21_lo A21_hi (153 / 1)).
Proof. apply (A21_q_clamp_hi 153 1 80 1); vm_compute; reflexivity. Qed.
Lemma d_A21_910c : close ctol (227804933555627 / 4398046511104) (clamp A21_lo A21_hi (7289757873780063 / 140737488355328)).
Proof. apply (A21_q_clamp_mid 7289757873780063 140737488355328 227804933555627 4398046511104); vm_compute; reflexivity. Qed.
Lemma d_A21_918c : close ctol (3637767869436039 / 70368744177664) (clamp A21_lo A21_hi (3637767869436039 / 70368744177664)).
Proof. apply (A21_q_clamp_mid 3637767869436039 70368744177664 3637767869436039 70368744177664); vm_compute; reflexivity. Qed.
Lemma d_A21_926c : close ctol (1237457804574133 / 17592186044416) (clamp A21_lo A21_hi (1237457804574133 / 17592186044416)).
Proof. apply (A21_q_clamp_mid 1237457804574133 17592186044416 1237457804574133 17592186044416); vm_compute; reflexivity. Qed.
Lemma d_A21_934c : close ctol (3813525380023147 / 70368744177664) (clamp A21_lo A21_hi (3813525380023147 / 70368744177664)).
Proof. apply (A21_q_clamp_mid 3813525380023147 70368744177664 3813525380023147 70368744177664); vm_compute; reflexivity. Qed.
Lemma d_A21_942c : close ctol (10 / 1) (clamp A21_lo A21_hi (3167332848583941 / 1125899906842624)).
Proof. apply (A21_q_clamp_lo 3167332848583941 1125899906842624 10 1); vm_compute; reflexivity. Qed.
Lemma d_A21_950c : close ctol (3385146696883685 / 140737488355328) (clamp A21_lo A21_hi (3385146696883685 / 140737488355328)).
Proof. apply (A21_q_clamp_mid 3385146696883685 140737488355328 3385146696883685 140737488355328); vm_compute; reflexivity. Qed.
Lemma d_A21_958c : close ctol (847234646740707 / 35184372088832) (clamp A21_lo A21_hi (847234646740707 / 35184372088832)).
Proof. apply (A21_q_clamp_mid 847234646740707 35184372088832 847234646740707 35184372088832); vm_compute; reflexivity. Qed.
Lemma d_A21_966c : close ctol (111490669866675 / 2199023255552) (clamp A21_lo A21_hi (111490669866675 / 2199023255552)).
Proof. apply (A21_q_clamp_mid 111490669866675 2199023255552 111490669866675 2199023255552); vm_compute; reflexivity. Qed.
Lemma d_A21_974c : close ctol (4382013550942733 / 70368744177664) (clamp A21_lo A21_hi (8764027101885467 / 140737488355328)).
Proof. apply (A21_q_clamp_mid 8764027101885467 140737488355328 4382013550942733 70368744177664); vm_compute; reflexivity. Qed.
Lemma d_A21_982c : close ctol (80 / 1) (clamp A21_lo A21_hi (870885865605885 / 4398046511104)).
Proof. apply (A21_q_clamp_hi 870885865605885 4398046511104 80 1); vm_compute; reflexivity. Qed.
Lemma d_A21_990c : close ctol (6968732096897909 / 140737488355328) (clamp A21_lo A21_hi (6968732096897909 / 140737488355328)).
Proof. apply (A21_q_clamp_mid 6968732096897909 140737488355328 6968732096897909 140737488355328); vm_compute; reflexivity. Qed.
Lemma d_A21_998c : close ctol (2547227986317173 / 35184372088832) (clamp A21_lo A21_hi (2547227986317173 / 35184372088832)).
Proof. apply (A21_q_clamp_mid 2547227986317173 35184372088832 2547227986317173 35184372088832); vm_compute; reflexivity. Qed.
Lemma d_A21_1006c : close ctol (80 / 1) (clamp A21_lo A21_hi (1803815734301897 / 8796093022208)).
Proof. apply (A21_q_clamp_hi 1803815734301897 8796093022208 80 1); vm_compute; reflexivity. Qed.
Lemma d_A21_1014c : close ctol (588279549854865 / 8796093022208) (clamp A21_lo A21_hi (588279549854865 / 8796093022208)).
Proof. apply (A21_q_clamp_mid 588279549854865 8796093022208 588279549854865 8796093022208); vm_compute; reflexivity. Qed.
Lemma d_A21_1022c : close ctol (5439888942177601 / 140737488355328) (clamp A21_lo A21_hi (5439888942177601 / 140737488355328)).
Proof. apply (A21_q_clamp_mid 5439888942177601 140737488355328 5439888942177601 140737488355328); vm_compute; reflexivity. Qed.
Lemma d_A21_1030c : close ctol (580824098356285 / 8796093022208) (clamp A21_lo A21_hi (580824098356285 / 8796093022208)).
Proof. apply (A21_q_clamp_mid 580824098356285 8796093022208 580824098356285 8796093022208); vm_compute; reflexivity. Qed.
Lemma d_A21_1038c : close ctol (1072807514414707 / 35184372088832) (clamp A21_lo A21_hi (1072807514414707 / 35184372088832)).
Proof. apply (A21_q_clamp_mid 1072807514414707 35184372088832 1072807514414707 35184372088832); vm_compute; reflexivity. Qed.
Lemma d_A21_1046c : close ctol (10 / 1) (clamp A21_lo A21_hi (688411076412759 / 72057594037927936)).
Proof. apply (A21_q_clamp_lo 688411076412759 72057594037927936 10 1); vm_compute; reflexivity. Qed.
Lemma d_A21_1054c : close ctol (1747732834327165 / 35184372088832) (clamp A21_lo A21_hi (6990931337308661 / 140737488355328)).
Proof. apply (A21_q_clamp_mid 6990931337308661 140737488355328 1747732834327165 35184372088832); vm_compute; reflexivity. Qed.
Lemma d_A21_1062c : close ctol (3010429679159253 / 281474976710656) (clamp A21_lo A21_hi (3010429679159253 / 281474976710656)).
Proof. apply (A21_q_clamp_mid 3010429679159253 281474976710656 3010429679159253 281474976710656); vm_compute; reflexivity. Qed.
Lemma d_A21_1070c : close ctol (2300747322350519 / 35184372088832) (clamp A21_lo A21_hi (2300747322350519 / 35184372088832)).
Proof. apply (A21_q_clamp_mid 2300747322350519 35184372088832 2300747322350519 35184372088832); vm_compute; reflexivity. Qed.
Lemma d_A21_1078c : close ctol (1886009873598355 / 70368744177664) (clamp A21_lo A21_hi (1886009873598355 / 70368744177664)).
Proof. apply (A21_q_clamp_mid 1886009873598355 70368744177664 1886009873598355 70368744177664); vm_compute; reflexivity. Qed.
Lemma d_A21_1086c : close ctol (80 / 1) (clamp A21_lo A21_hi (2427880223777011 / 17592186044416)).
Proof. apply (A21_q_clamp_hi 2427880223777011 17592186044416 80 1); vm_compute; reflexivity. Qed.
Lemma d_A21_1094c : close ctol (6647565895424623 / 140737488355328) (clamp A21_lo A21_hi (3323782947712311 / 70368744177664)).
Proof. apply (A21_q_clamp_mid 3323782947712311 70368744177664 6647565895424623 140737488355328); vm_compute; reflexivity. Qed.
Lemma d_A21_1102c : close ctol (5112594094958581 / 70368744177664) (clamp A21_lo A21_hi (1278148523739645 / 17592186044416)).
Proof. apply (A21_q_clamp_mid 1278148523739645 17592186044416 5112594094958581 70368744177664); vm_compute; reflexivity. Qed.
Lemma d_A21_1110c : close ctol (80 / 1) (clamp A21_lo A21_hi (1828092138171553 / 8796093022208)).
Proof. apply (A21_q_clamp_hi 1828092138171553 8796093022208 80 1); vm_compute; reflexivity. Qed.
Lemma d_A21_1118c : close ctol (80 / 1) (clamp A21_lo A21_hi (6165127141938329 / 70368744177664)).
Proof. apply (A21_q_clamp_hi 6165127141938329 70368744177664 80 1); vm_compute; reflexivity. Qed.
Lemma d_A21_1126c : close ctol (366234803073845 / 8796093022208) (clamp A21_lo A21_hi (366234803073845 / 8796093022208)).
Proof. apply (A21_q_clamp_mid 366234803073845 8796093022208 366234803073845 8796093022208); vm_compute; reflexivity. Qed.
Lemma d_A21_1134c : close ctol (4940062777018487 / 70368744177664) (clamp A21_lo A21_hi (4940062777018487 / 70368744177664)).
Proof. apply (A21_q_clamp_mid 4940062777018487 70368744177664 4940062777018487 70368744177664); vm_compute; reflexivity. Qed.
Lemma d_A21_1142c : close ctol (1600852118560709 / 35184372088832) (clamp A21_lo A21_hi (1600852118560709 / 35184372088832)).
Proof. apply (A21_q_clamp_mid 1600852118560709 35184372088832 1600852118560709 35184372088832); vm_compute; reflexivity. Qed.
Lemma d_A21_1150c : close ctol (6859634942474355 / 281474976710656) (clamp A21_lo A21_hi (3429817471237177 / 140737488355328)).
Proof. apply (A21_q_clamp_mid 3429817471237177 140737488355328 6859634942474355 281474976710656); vm_compute; reflexivity. Qed.
Lemma d_A21_1158c : close ctol (4557978193980125 / 140737488355328) (clamp A21_lo A21_hi (4557978193980125 / 140737488355328)).
Proof. apply (A21_q_clamp_mid 4557978193980125 140737488355328 4557978193980125 140737488355328); vm_compute; reflexivity. Qed.
Lemma d_A21_1166c : close ctol (1351019511808585 / 70368744177664) (clamp A21_lo A21_hi (1351019511808585 / 70368744177664)).
Proof. apply (A21_q_clamp_mid 1351019511808585 70368744177664 1351019511808585 70368744177664); vm_compute; reflexivity. Qed.
Lemma d_A21_1174c : close ctol (301052834088225 / 8796093022208) (clamp A21_lo A21_hi (301052834088225 / 8796093022208)).
Proof. apply (A21_q_clamp_mid 301052834088225 8796093022208 301052834088225 8796093022208); vm_compute; reflexivity. Qed.
Lemma d_A21_1182c : close ctol (1938085303128385 / 70368744177664) (clamp A21_lo A21_hi (7752341212513539 / 281474976710656)).
Proof. apply (A21_q_clamp_mid 7752341212513539 281474976710656 1938085303128385 70368744177664); vm_compute; reflexivity. Qed.
Lemma d_A21_1190c : close ctol (337115514292921 / 8796093022208) (clamp A21_lo A21_hi (337115514292921 / 8796093022208)).
Proof. apply (A21_q_clamp_mid 337115514292921 8796093022208 337115514292921 8796093022208); vm_compute; reflexivity. Qed.
Lemma d_A21_1198c : close ctol (10 / 1) (clamp A21_lo A21_hi (4 / 1)).
Proof. apply (A21_q_clamp_lo 4 1 10 1); vm_compute; reflexivity. Qed.
Lemma d_A21_1206c : close ctol (10 / 1) (clamp A21_lo A21_hi ((-2354630459495559) / 562949953421312)).
Proof. apply (A21_q_clamp_lo (-2354630459495559) 562949953421312 10 1); vm_compute; reflexivity. Qed.
Lemma d_A21_1214c : close ctol (80 / 1) (clamp A21_lo A21_hi (6871839039503575 / 70368744177664)).
Proof. apply (A21_q_clamp_hi 6871839039503575 70368744177664 80 1); vm_compute; reflexivity. Qed.
Lemma d_A21_1222c : close ctol (10 / 1) (clamp A21_lo A21_hi (2681313927632733 / 281474976710656)).
Proof. apply (A21_q_clamp_lo 2681313927632733 281474976710656 10 1); vm_compute; reflexivity. Qed.
Lemma d_A21_1230c : close ctol (6904829659622231 / 562949953421312) (clamp A21_lo A21_hi (863103707452779 / 70368744177664)).
Proof. apply (A21_q_clamp_mid 863103707452779 70368744177664 6904829659622231 562949953421312); vm_compute; reflexivity. Qed.
Lemma d_A21_1238c : close ctol (992935241381607 / 17592186044416) (clamp A21_lo A21_hi (7943481931052857 / 140737488355328)).
Proof. apply (A21_q_clamp_mid 7943481931052857 140737488355328 992935241381607 17592186044416); vm_compute; reflexivity. Qed.
Lemma d_A21_1246c : close ctol (8497243960721093 / 281474976710656) (clamp A21_lo A21_hi (2124310990180273 / 70368744177664)).
Proof. apply (A21_q_clamp_mid 2124310990180273 70368744177664 8497243960721093 281474976710656); vm_compute; reflexivity. Qed.
Lemma d_A21_1254c : close ctol (1848931432014427 / 70368744177664) (clamp A21_lo A21_hi (7395725728057707 / 281474976710656)).
Proof. apply (A21_q_clamp_mid 7395725728057707 281474976710656 1848931432014427 70368744177664); vm_compute; reflexivity. Qed.
Lemma d_A21_1262c : close ctol (2348978324119895 / 70368744177664) (clamp A21_lo A21_hi (2348978324119895 / 70368744177664)).
Proof. apply (A21_q_clamp_mid 2348978324119895 70368744177664 2348978324119895 70368744177664); vm_compute; reflexivity. Qed.
Lemma d_A21_1270c : close ctol (80 / 1) (clamp A21_lo A21_hi (3919773064716233 / 17592186044416)).
Proof. apply (A21_q_clamp_hi 3919773064716233 17592186044416 80 1); vm_compute; reflexivity. Qed.
Lemma d_A21_1278c : close ctol (965370225256455 / 17592186044416) (clamp A21_lo A21_hi (7722961802051641 / 140737488355328)).
Proof. apply (A21_q_clamp_mid 7722961802051641 140737488355328 965370225256455 17592186044416); vm_compute; reflexivity. Qed.
Lemma d_A21_1286c : close ctol (8039637752914441 / 140737488355328) (clamp A21_lo A21_hi (8039637752914439 / 140737488355328)).
Proof. apply (A21_q_clamp_mid 8039637752914439 140737488355328 8039637752914441 140737488355328); vm_compute; reflexivity. Qed.
Lemma d_A21_1294c : close ctol (80 / 1) (clamp A21_lo A21_hi (2608696511033375 / 17592186044416)).
Proof. apply (A21_q_clamp_hi 2608696511033375 17592186044416 80 1); vm_compute; reflexivity. Qed.
Lemma d_A21_1302c : close ctol (7205881667554677 / 281474976710656) (clamp A21_lo A21_hi (1801470416888669 / 70368744177664)).
Proof. apply (A21_q_clamp_mid 1801470416888669 70368744177664 7205881667554677 281474976710656); vm_compute; reflexivity. Qed.
Lemma d_A21_1310c : close ctol (3989133695597941 / 140737488355328) (clamp A21_lo A21_hi (3989133695597941 / 140737488355328)).
Proof. apply (A21_q_clamp_mid 3989133695597941 140737488355328 3989133695597941 140737488355328); vm_compute; reflexivity. Qed.
Lemma d_A21_1318c : close ctol (3628649539345557 / 281474976710656) (clamp A21_lo A21_hi (7257299078691115 / 562949953421312)).
Proof. apply (A21_q_clamp_mid 7257299078691115 562949953421312 3628649539345557 281474976710656); vm_compute; reflexivity. Qed.
Lemma d_A21_1326c : close ctol (10 / 1) (clamp A21_lo A21_hi (1255621424205853 / 1125899906842624)).
Proof. apply (A21_q_clamp_lo 1255621424205853 1125899906842624 10 1); vm_compute; reflexivity. Qed.
Lemma r_A41_857 : rio_reads A41_c A41_e A41_lo A41_hi floor_volts ctol (Build_rio (Fin (0 / 1)) NInf NInf NInf NInf false true true ((Fin (0 / 1)) :: (Fin (0 / 1)) :: (Fin (0 / 1)) :: (Fin (0 / 1)) :: (Fin (27 / 4)) :: (Fin (45 / 1)) :: nil)) (5876659090025575 / 562949953421312).
Proof. apply (A41_rio_fin _ (0 / 1)); [reflexivity | apply (A41_q_floor 0 1 5876659090025575 562949953421312); vm_compute; reflexivity]. Qed.
Lemma r_A41_886 : rio_distance_opt A41_c A41_e A41_lo A41_hi floor_volts (Build_rio NInf (Fin (5 / 1)) (Fin (3715469692580659 / 1125899906842624)) (Fin (6 / 1)) NInf true true true ((Fin (0 / 1)) :: (Fin (0 / 1)) :: (Fin (0 / 1)) :: (Fin (0 / 1)) :: (Fin (27 / 4)) :: (Fin (45 / 1)) :: nil)) = Some (9 / 2).
Proof. apply (A41_rio_x _ NInf); [reflexivity | apply (corr_v_ninf _ _ _ _ _ A41_admissible _ A41_floor_reads_hi); unfold A41_hi; lra]. Qed.
Lemma d_A41_1335c : close ctol (10 / 1) (clamp A41_lo A41_hi (10 / 1)).
Proof. apply (A41_q_clamp_mid 10 1 10 1); vm_compute; reflexivity. Qed.
Lemma d_A41_1343c : close ctol (7036874417766401 / 281474976710656) (clamp A41_lo A41_hi (25 / 1)).
Proof. apply (A41_q_clamp_mid 25 1 7036874417766401 281474976710656); vm_compute; reflexivity. Qed.
Lemma d_A41_1351c : close ctol (9 / 2) (clamp A41_lo A41_hi (0 / 1)).
Proof. apply (A41_q_clamp_lo 0 1 9 2); vm_compute; reflexivity. Qed.
Lemma d_A41_1359c : close ctol (9 / 2) (clamp A41_lo A41_hi (1 / 1)).
Proof. apply (A41_q_clamp_lo 1 1 9 2); vm_compute; reflexivity. Qed.
Lemma d_A41_1367c : close ctol (35 / 1) (clamp A41_lo A41_hi (100 / 1)).
Proof. apply (A41_q_clamp_hi 100 1 35 1); vm_compute; reflexivity. Qed.
Lemma d_A41_1376c : close ctol (35 / 1) (clamp A41_lo A41_hi (35 / 1)).
Proof. apply (A41_q_clamp_hi 35 1 35 1); vm_compute; reflexivity. Qed.
Lemma d_A41_1384c : close ctol (35 / 1) (clamp A41_lo A41_hi (1231453024340573 / 35184372088832)).
Proof. apply (A41_q_clamp_hi 1231453024340573 35184372088832 35 1); vm_compute; reflexivity. Qed.
Lemma d_A41_1392c : close ctol (5871916994782295 / 281474976710656) (clamp A41_lo A41_hi (5871916994782295 / 281474976710656)).
Proof. apply (A41_q_clamp_mid 5871916994782295 281474976710656 5871916994782295 281474976710656); vm_compute; reflexivity. Qed.
Lemma d_A41_1400c : close ctol (3808686616710511 / 281474976710656) (clamp A41_lo A41_hi (3808686616710511 / 281474976710656)).
Proof. apply (A41_q_clamp_mid 3808686616710511 281474976710656 3808686616710511 281474976710656); vm_compute; reflexivity. Qed.
Lemma d_A41_1408c : close ctol (2363227707027783 / 70368744177664) (clamp A41_lo A41_hi (2363227707027783 / 70368744177664)).
Proof. apply (A41_q_clamp_mid 2363227707027783 70368744177664 2363227707027783 70368744177664); vm_compute; reflexivity. Qed.
Lemma d_A41_1416c : close ctol (531819533436457 / 70368744177664) (clamp A41_lo A41_hi (531819533436457 / 70368744177664)).
Proof. apply (A41_q_clamp_mid 531819533436457 70368744177664 531819533436457 70368744177664); vm_compute; reflexivity. Qed.
Lemma d_A41_1424c : close ctol (7581022413876561 / 281474976710656) (clamp A41_lo A41_hi (7581022413876561 / 281474976710656)).
Proof. apply (A41_q_clamp_mid 7581022413876561 281474976710656 7581022413876561 281474976710656); vm_compute; reflexivity. Qed.
Lemma d_A41_1432c : close ctol (35 / 1) (clamp A41_lo A41_hi (1947928072423963 / 35184372088832)).
Proof. apply (A41_q_clamp_hi 1947928072423963 35184372088832 35 1); vm_compute; reflexivity. Qed.
Lemma d_A41_1440c : close ctol (4332743848358879 / 281474976710656) (clamp A41_lo A41_hi (8665487696717757 / 562949953421312)).
Proof. apply (A41_q_clamp_mid 8665487696717757 562949953421312 4332743848358879 281474976710656); vm_compute; reflexivity. Qed.
Lemma d_A41_1448c : close ctol (2281134046455155 / 70368744177664) (clamp A41_lo A41_hi (2281134046455155 / 70368744177664)).
Proof. apply (A41_q_clamp_mid 2281134046455155 70368744177664 2281134046455155 70368744177664); vm_compute; reflexivity. Qed.
Lemma d_A41_1456c : close ctol (3897708570349307 / 281474976710656) (clamp A41_lo A41_hi (7795417140698615 / 562949953421312)).
Proof. apply (A41_q_clamp_mid 7795417140698615 562949953421312 3897708570349307 281474976710656); vm_compute; reflexivity. Qed.
Lemma d_A41_1464c : close ctol (889548136478237 / 70368744177664) (clamp A41_lo A41_hi (889548136478237 / 70368744177664)).
Proof. apply (A41_q_clamp_mid 889548136478237 70368744177664 889548136478237 70368744177664); vm_compute; reflexivity. Qed.
Lemma d_A41_1472c : close ctol (1499778471042943 / 70368744177664) (clamp A41_lo A41_hi (1499778471042943 / 70368744177664)).
Proof. apply (A41_q_clamp_mid 1499778471042943 70368744177664 1499778471042943 70368744177664); vm_compute; reflexivity. Qed.
Lemma d_A41_1480c : close ctol (2622522519613479 / 140737488355328) (clamp A41_lo A41_hi (2622522519613479 / 140737488355328)).
Proof. apply (A41_q_clamp_mid 2622522519613479 140737488355328 2622522519613479 140737488355328); vm_compute; reflexivity. Qed.
Lemma d_A41_1488c : close ctol (9 / 2) (clamp A41_lo A41_hi ((-3350060896262553) / 2251799813685248)).
Proof. apply (A41_q_clamp_lo (-3350060896262553) 2251799813685248 9 2); vm_compute; reflexivity. Qed.
Lemma d_A41_1496c : close ctol (1174242826445871 / 70368744177664) (clamp A41_lo A41_hi (1174242826445871 / 70368744177664)).
Proof. apply (A41_q_clamp_mid 1174242826445871 70368744177664 1174242826445871 70368744177664); vm_compute; reflexivity. Qed.
Lemma d_A41_1504c : close ctol (5127226069948305 / 1125899906842624) (clamp A41_lo A41_hi (5127226069948305 / 1125899906842624)).
Proof. apply (A41_q_clamp_mid 5127226069948305 1125899906842624 5127226069948305 1125899906842624); vm_compute; reflexivity. Qed.
Lemma d_A41_1512c : close ctol (35 / 1) (clamp A41_lo A41_hi (1104545388868597 / 34359738368)).
Proof. apply (A41_q_clamp_hi 1104545388868597 34359738368 35 1); vm_compute; reflexivity. Qed.
Lemma d_A41_1520c : close ctol (9 / 2) (clamp A41_lo A41_hi (6313433767125435 / 18014398509481984)).
Proof. apply (A41_q_clamp_lo 6313433767125435 18014398509481984 9 2); vm_compute; reflexivity. Qed.
Lemma d_A41_1528c : close ctol (8841584628567999 / 562949953421312) (clamp A41_lo A41_hi (8841584628567999 / 562949953421312)).
Proof. apply (A41_q_clamp_mid 8841584628567999 562949953421312 8841584628567999 562949953421312); vm_compute; reflexivity. Qed.
Lemma d_A41_1536c : close ctol (8962574591634879 / 281474976710656) (clamp A41_lo A41_hi (140040227994295 / 4398046511104)).
Proof. apply (A41_q_clamp_mid 140040227994295 4398046511104 8962574591634879 281474976710656); vm_compute; reflexivity. Qed.
Lemma d_A41_1544c : close ctol (9 / 2) (clamp A41_lo A41_hi (1449460993556745 / 1125899906842624)).
Proof. apply (A41_q_clamp_lo 1449460993556745 1125899906842624 9 2); vm_compute; reflexivity. Qed.
Lemma d_A41_1552c : close ctol (1722210395014285 / 281474976710656) (clamp A41_lo A41_hi (1722210395014285 / 281474976710656)).
Proof. apply (A41_q_clamp_mid 1722210395014285 281474976710656 1722210395014285 281474976710656); vm_compute; reflexivity. Qed.
Lemma d_A41_1560c : close ctol (4762327596050399 / 281474976710656) (clamp A41_lo A41_hi (4762327596050399 / 281474976710656)).
Proof. apply (A41_q_clamp_mid 4762327596050399 281474976710656 4762327596050399 281474976710656); vm_compute; reflexivity. Qed.
Lemma d_A41_1568c : close ctol (5637741502241631 / 281474976710656) (clamp A41_lo A41_hi (2818870751120815 / 140737488355328)).
Proof. apply (A41_q_clamp_mid 2818870751120815 140737488355328 5637741502241631 281474976710656); vm_compute; reflexivity. Qed.
Lemma d_A41_1576c : close ctol (9 / 2) (clamp A41_lo A41_hi (2809213783049059 / 1125899906842624)).
Proof. apply (A41_q_clamp_lo 2809213783049059 1125899906842624 9 2); vm_compute; reflexivity. Qed.
Lemma d_A41_1584c : close ctol (4740764987714675 / 562949953421312) (clamp A41_lo A41_hi (4740764987714675 / 562949953421312)).
Proof. apply (A41_q_clamp_mid 4740764987714675 562949953421312 4740764987714675 562949953421312); vm_compute; reflexivity. Qed.
Lemma d_A41_1592c : close ctol (589699908627533 / 70368744177664) (clamp A41_lo A41_hi (589699908627533 / 70368744177664)).
Proof. apply (A41_q_clamp_mid 589699908627533 70368744177664 589699908627533 70368744177664); vm_compute; reflexivity. Qed.
Lemma d_A41_1600c : close ctol (3405084986456759 / 281474976710656) (clamp A41_lo A41_hi (3405084986456759 / 281474976710656)).
Proof. apply (A41_q_clamp_mid 3405084986456759 281474976710656 3405084986456759 281474976710656); vm_compute; reflexivity. Qed.
Lemma d_A41_1608c : close ctol (8783529576463707 / 281474976710656) (clamp A41_lo A41_hi (2195882394115927 / 70368744177664)).
Proof. apply (A41_q_clamp_mid 2195882394115927 70368744177664 8783529576463707 281474976710656); vm_compute; reflexivity. Qed.
Lemma d_A41_1616c : close ctol (2268455743566697 / 70368744177664) (clamp A41_lo A41_hi (2268455743566697 / 70368744177664)).
Proof. apply (A41_q_clamp_mid 2268455743566697 70368744177664 2268455743566697 70368744177664); vm_compute; reflexivity. Qed.
Lemma d_A41_1624c : close ctol (5498263363765507 / 1125899906842624) (clamp A41_lo A41_hi (5498263363765507 / 1125899906842624)).
Proof. apply (A41_q_clamp_mid 5498263363765507 1125899906842624 5498263363765507 1125899906842624); vm_compute; reflexivity. Qed.
Lemma d_A41_1632c : close ctol (35 / 1) (clamp A41_lo A41_hi (52 / 1)).
Proof. apply (A41_q_clamp_hi 52 1 35 1); vm_compute; reflexivity. Qed.
Lemma d_A41_1640c : close ctol (1184723308163149 / 35184372088832) (clamp A41_lo A41_hi (1184723308163149 / 35184372088832)).
Proof. apply (A41_q_clamp_mid 1184723308163149 35184372088832 1184723308163149 35184372088832); vm_compute; reflexivity. Qed.
Lemma d_A41_1648c : close ctol (2824459849716789 / 281474976710656) (clamp A41_lo A41_hi (2824459849716789 / 281474976710656)).
Proof. apply (A41_q_clamp_mid 2824459849716789 281474976710656 2824459849716789 281474976710656); vm_compute; reflexivity. Qed.
Lemma d_A41_1656c : close ctol (3795848045272599 / 140737488355328) (clamp A41_lo A41_hi (3795848045272599 / 140737488355328)).
Proof. apply (A41_q_clamp_mid 3795848045272599 140737488355328 3795848045272599 140737488355328); vm_compute; reflexivity. Qed.
Lemma d_A41_1664c : close ctol (6696326056215985 / 562949953421312) (clamp A41_lo A41_hi (6696326056215985 / 562949953421312)).
Proof. apply (A41_q_clamp_mid 6696326056215985 562949953421312 6696326056215985 562949953421312); vm_compute; reflexivity. Qed.
Lemma d_A41_1672c : close ctol (2983427552102713 / 281474976710656) (clamp A41_lo A41_hi (2983427552102713 / 281474976710656)).
Proof. apply (A41_q_clamp_mid 2983427552102713 281474976710656 2983427552102713 281474976710656); vm_compute; reflexivity. Qed.
Lemma d_A41_1680c : close ctol (2389624742554381 / 70368744177664) (clamp A41_lo A41_hi (2389624742554381 / 70368744177664)).
Proof. apply (A41_q_clamp_mid 2389624742554381 70368744177664 2389624742554381 70368744177664); vm_compute; reflexivity. Qed.
Lemma d_A41_1688c : close ctol (3019780372069893 / 281474976710656) (clamp A41_lo A41_hi (3019780372069893 / 281474976710656)).
Proof. apply (A41_q_clamp_mid 3019780372069893 281474976710656 3019780372069893 281474976710656); vm_compute; reflexivity. Qed.
Lemma d_A41_1696c : close ctol (3170099503745177 / 140737488355328) (clamp A41_lo A41_hi (6340199007490353 / 281474976710656)).
Proof. apply (A41_q_clamp_mid 6340199007490353 281474976710656 3170099503745177 140737488355328); vm_compute; reflexivity. Qed.
Lemma d_A41_1704c : close ctol (2405703549267585 / 140737488355328) (clamp A41_lo A41_hi (2405703549267585 / 140737488355328)).
Proof. apply (A41_q_clamp_mid 2405703549267585 140737488355328 2405703549267585 140737488355328); vm_compute; reflexivity. Qed.
Lemma d_A41_1712c : close ctol (6788689012987463 / 281474976710656) (clamp A41_lo A41_hi (3394344506493731 / 140737488355328)).
Proof. apply (A41_q_clamp_mid 3394344506493731 140737488355328 6788689012987463 281474976710656); vm_compute; reflexivity. Qed.
Lemma d_A41_1720c : close ctol (5615762666651733 / 562949953421312) (clamp A41_lo A41_hi (2807881333325867 / 281474976710656)).
Proof. apply (A41_q_clamp_mid 2807881333325867 281474976710656 5615762666651733 562949953421312); vm_compute; reflexivity. Qed.
Lemma d_A41_1728c : close ctol (1626174766226661 / 70368744177664) (clamp A41_lo A41_hi (1626174766226661 / 70368744177664)).
Proof. apply (A41_q_clamp_mid 1626174766226661 70368744177664 1626174766226661 70368744177664); vm_compute; reflexivity. Qed.
Lemma d_A41_1736c : close ctol (1640636642941575 / 70368744177664) (clamp A41_lo A41_hi (6562546571766299 / 281474976710656)).
Proof. apply (A41_q_clamp_mid 6562546571766299 281474976710656 1640636642941575 70368744177664); vm_compute; reflexivity. Qed.
Lemma d_A41_1744c : close ctol (7338070047892547 / 281474976710656) (clamp A41_lo A41_hi (7338070047892547 / 281474976710656)).
Proof. apply (A41_q_clamp_mid 7338070047892547 281474976710656 7338070047892547 281474976710656); vm_compute; reflexivity. Qed.
Lemma d_A41_1752c : close ctol (4399629708002679 / 281474976710656) (clamp A41_lo A41_hi (4399629708002679 / 281474976710656)).
Proof. apply (A41_q_clamp_mid 4399629708002679 281474976710656 4399629708002679 281474976710656); vm_compute; reflexivity. Qed.
Lemma d_A41_1760c : close ctol (6152930063260305 / 1125899906842624) (clamp A41_lo A41_hi (6152930063260305 / 1125899906842624)).
Proof. apply (A41_q_clamp_mid 6152930063260305 1125899906842624 6152930063260305 1125899906842624); vm_compute; reflexivity. Qed.
Lemma d_A41_1768c : close ctol (3481921090062211 / 281474976710656) (clamp A41_lo A41_hi (3481921090062211 / 281474976710656)).
Proof. apply (A41_q_clamp_mid 3481921090062211 281474976710656 3481921090062211 281474976710656); vm_compute; reflexivity. Qed.
Lemma d_A41_1776c : close ctol (2055914005240769 / 70368744177664) (clamp A41_lo A41_hi (2055914005240769 / 70368744177664)).
Proof. apply (A41_q_clamp_mid 2055914005240769 70368744177664 2055914005240769 70368744177664); vm_compute; reflexivity. Qed.
Lemma d_A41_1784c : close ctol (3161573278539227 / 281474976710656) (clamp A41_lo A41_hi (6323146557078453 / 562949953421312)).
Proof. apply (A41_q_clamp_mid 6323146557078453 562949953421312 3161573278539227 281474976710656); vm_compute; reflexivity. Qed.
Lemma d_A41_1792c : close ctol (35 / 1) (clamp A41_lo A41_hi (2875810409092751 / 35184372088832)).
Proof. apply (A41_q_clamp_hi 2875810409092751 35184372088832 35 1); vm_compute; reflexivity. Qed.
Lemma d_A41_1800c : close ctol (5021691546807357 / 281474976710656) (clamp A41_lo A41_hi (5021691546807357 / 281474976710656)).
Proof. apply (A41_q_clamp_mid 5021691546807357 281474976710656 5021691546807357 281474976710656); vm_compute; reflexivity. Qed.
Lemma d_A41_1808c : close ctol (9 / 2) (clamp A41_lo A41_hi (2403572523510355 / 1125899906842624)).
Proof. apply (A41_q_clamp_lo 2403572523510355 1125899906842624 9 2); vm_compute; reflexivity. Qed.
Lemma d_A41_1816c : close ctol (2693146297895285 / 140737488355328) (clamp A41_lo A41_hi (2693146297895285 / 140737488355328)).
Proof. apply (A41_q_clamp_mid 2693146297895285 140737488355328 2693146297895285 140737488355328); vm_compute; reflexivity. Qed.
Lemma d_A41_1824c : close ctol (9 / 2) (clamp A41_lo A41_hi (5841361334899841 / 4503599627370496)).
Proof. apply (A41_q_clamp_lo 5841361334899841 4503599627370496 9 2); vm_compute; reflexivity. Qed.
Lemma d_A41_1832c : close ctol (169521890092335 / 17592186044416) (clamp A41_lo A41_hi (169521890092335 / 17592186044416)).
Proof. apply (A41_q_clamp_mid 169521890092335 17592186044416 169521890092335 17592186044416); vm_compute; reflexivity. Qed.
Lemma d_A41_1840c : close ctol (2657953224531405 / 140737488355328) (clamp A41_lo A41_hi (2657953224531405 / 140737488355328)).
Proof. apply (A41_q_clamp_mid 2657953224531405 140737488355328 2657953224531405 140737488355328); vm_compute; reflexivity. Qed.
Lemma d_A41_1848c : close ctol (4797763718995269 / 140737488355328) (clamp A41_lo A41_hi (1199440929748817 / 35184372088832)).
Proof. apply (A41_q_clamp_mid 1199440929748817 35184372088832 4797763718995269 140737488355328); vm_compute; reflexivity. Qed.
Lemma d_A41_1856c : close ctol (3673929231731255 / 140737488355328) (clamp A41_lo A41_hi (7347858463462511 / 281474976710656)).
Proof. apply (A41_q_clamp_mid 7347858463462511 281474976710656 3673929231731255 140737488355328); vm_compute; reflexivity. Qed.
Lemma d_A41_1864c : close ctol (6403508506053375 / 281474976710656) (clamp A41_lo A41_hi (6403508506053375 / 281474976710656)).
Proof. apply (A41_q_clamp_mid 6403508506053375 281474976710656 6403508506053375 281474976710656); vm_compute; reflexivity. Qed.
Lemma d_A41_1872c : close ctol (4374997610523721 / 140737488355328) (clamp A41_lo A41_hi (4374997610523721 / 140737488355328)).
Proof. apply (A41_q_clamp_mid 4374997610523721 140737488355328 4374997610523721 140737488355328); vm_compute; reflexivity. Qed.
Lemma d_A41_1880c : close ctol (1387712998282801 / 140737488355328) (clamp A41_lo A41_hi (1387712998282801 / 140737488355328)).
Proof. apply (A41_q_clamp_mid 1387712998282801 140737488355328 1387712998282801 140737488355328); vm_compute; reflexivity. Qed.
Lemma d_A41_1888c : close ctol (907257547172651 / 70368744177664) (clamp A41_lo A41_hi (907257547172651 / 70368744177664)).
Proof. apply (A41_q_clamp_mid 907257547172651 70368744177664 907257547172651 70368744177664); vm_compute; reflexivity. Qed.
Lemma d_A41_1896c : close ctol (9 / 2) (clamp A41_lo A41_hi (251842016699703 / 70368744177664)).
Proof. apply (A41_q_clamp_lo 251842016699703 70368744177664 9 2); vm_compute; reflexivity. Qed.
Lemma d_A41_1904c : close ctol (35 / 1) (clamp A41_lo A41_hi (5557871072679875 / 8796093022208)).
Proof. apply (A41_q_clamp_hi 5557871072679875 8796093022208 35 1); vm_compute; reflexivity. Qed.
Lemma d_A41_1912c : close ctol (1990321781877951 / 70368744177664) (clamp A41_lo A41_hi (1990321781877951 / 70368744177664)).
Proof. apply (A41_q_clamp_mid 1990321781877951 70368744177664 1990321781877951 70368744177664); vm_compute; reflexivity. Qed.
Lemma d_A41_1920c : close ctol (35 / 1) (clamp A41_lo A41_hi (38 / 1)).
Proof. apply (A41_q_clamp_hi 38 1 35 1); vm_compute; reflexivity. Qed.
Lemma d_A41_1928c : close ctol (35 / 1) (clamp A41_lo A41_hi (3025971678746443 / 70368744177664)).
Proof. apply (A41_q_clamp_hi 3025971678746443 70368744177664 35 1); vm_compute; reflexivity. Qed.
Lemma d_A41_1936c : close ctol (8667555152501739 / 562949953421312) (clamp A41_lo A41_hi (4333777576250869 / 281474976710656)).
Proof. apply (A41_q_clamp_mid 4333777576250869 281474976710656 8667555152501739 562949953421312); vm_compute; reflexivity. Qed.
Lemma d_A41_1944c : close ctol (9007199254740991 / 281474976710656) (clamp A41_lo A41_hi (32 / 1)).
Proof. apply (A41_q_clamp_mid 32 1 9007199254740991 281474976710656); vm_compute; reflexivity. Qed.
Lemma d_A41_1952c : close ctol (2856057852881257 / 140737488355328) (clamp A41_lo A41_hi (2856057852881257 / 140737488355328)).
Proof. apply (A41_q_clamp_mid 2856057852881257 140737488355328 2856057852881257 140737488355328); vm_compute; reflexivity. Qed.
Lemma d_A41_1960c : close ctol (4767832411808173 / 281474976710656) (clamp A41_lo A41_hi (4767832411808173 / 281474976710656)).
Proof. apply (A41_q_clamp_mid 4767832411808173 281474976710656 4767832411808173 281474976710656); vm_compute; reflexivity. Qed.
Lemma d_A41_1968c : close ctol (344102487300935 / 17592186044416) (clamp A41_lo A41_hi (344102487300935 / 17592186044416)).
Proof. apply (A41_q_clamp_mid 344102487300935 17592186044416 344102487300935 17592186044416); vm_compute; reflexivity. Qed.
Lemma d_A41_1976c : close ctol (8358309825755605 / 562949953421312) (clamp A41_lo A41_hi (8358309825755605 / 562949953421312)).
Proof. apply (A41_q_clamp_mid 8358309825755605 562949953421312 8358309825755605 562949953421312); vm_compute; reflexivity. Qed.
Lemma d_A41_1984c : close ctol (8068240611426593 / 562949953421312) (clamp A41_lo A41_hi (4034120305713297 / 281474976710656)).
Proof. apply (A41_q_clamp_mid 4034120305713297 281474976710656 8068240611426593 562949953421312); vm_compute; reflexivity. Qed.
Lemma d_A41_1992c : close ctol (4624937218999733 / 140737488355328) (clamp A41_lo A41_hi (4624937218999733 / 140737488355328)).
Proof. apply (A41_q_clamp_mid 4624937218999733 140737488355328 4624937218999733 140737488355328); vm_compute; reflexivity. Qed.
Check d_A41_1992c.
