From Coq Require Import Reals Lra.
From Interval Require Import Tactic.
From RV Require Import IR.Model IR.Proofs.
Open Scope R_scope.
Lemma r_A02_4 : rio_reads A02_c A02_e A02_lo A02_hi floor_volts ctol (Build_rio (Fin (8106479329266893 / 18014398509481984)) (Fin (19 / 4)) (Fin (3715469692580659 / 1125899906842624)) (Fin (6 / 1)) (Fin (12 / 1)) true true true ((Fin (0 / 1)) :: (Fin (0 / 1)) :: (Fin (0 / 1)) :: (Fin (0 / 1)) :: (Fin (27 / 4)) :: (Fin (45 / 1)) :: nil)) (145 / 1).
Proof. apply (A02_rio_fin _ (8106479329266893 / 18014398509481984)); [reflexivity | apply (A02_q_hi 8106479329266893 18014398509481984 145 1); [vm_compute; reflexivity | unfold fr, ctol, A02_hi, A02_c, A02_e; interval with (i_prec 80)]]. Qed.
Lemma r_A02_35 : rio_reads A02_c A02_e A02_lo A02_hi floor_volts ctol (Build_rio (Fin (100 / 1)) (Fin (5 / 1)) (Fin (3715469692580659 / 1125899906842624)) (Fin (13 / 2)) (Fin (12 / 1)) true true true ((Fin (0 / 1)) :: (Fin (0 / 1)) :: (Fin (0 / 1)) :: (Fin (0 / 1)) :: (Fin (27 / 4)) :: (Fin (45 / 1)) :: nil)) (45 / 2).
Proof. apply (A02_rio_fin _ (100 / 1)); [reflexivity | apply (A02_q_lo 100 1 45 2); [vm_compute; reflexivity | unfold fr, ctol, A02_lo, A02_c, A02_e; interval with (i_prec 80)]]. Qed.
Lemma r_A02_53 : rio_reads A02_c A02_e A02_lo A02_hi floor_volts ctol (Build_rio (Fin (5726349542755617 / 2251799813685248)) (Fin (5 / 1)) (Fin (3715469692580659 / 1125899906842624)) (Fin (6 / 1)) (Fin (12 / 1)) true true true ((Fin (0 / 1)) :: (Fin (0 / 1)) :: (Fin (0 / 1)) :: (Fin (0 / 1)) :: (Fin (27 / 4)) :: (Fin (0 / 1)) :: nil)) (45 / 2).
Proof. apply (A02_rio_fin _ (5726349542755617 / 2251799813685248)); [reflexivity | apply (A02_q_lo 5726349542755617 2251799813685248 45 2); [vm_compute; reflexivity | unfold fr, ctol, A02_lo, A02_c, A02_e; interval with (i_prec 80)]]. Qed.
Lemma r_A02_69 : rio_reads A02_c A02_e A02_lo A02_hi floor_volts ctol (Build_rio (Fin (5 / 128)) (Fin (4233 / 1024)) (Fin (100000000000000001097906362944045541740492309677311846336810682903157585404911491537163328978494688899061249669721172515611590283743140088328307009198146046031271664502933027185697489699588559043338384466165001178426897626212945177628091195786707458122783970171784415105291802893207873272974885715430223118336 / 1)) (Fin ((-1) / 1)) (Fin (12 / 1)) true true true ((Fin (2647 / 1024)) :: (Fin (1395 / 1024)) :: (Fin (951 / 1024)) :: (Fin (6387 / 1024)) :: (Fin (2145 / 512)) :: (Fin (2245 / 1024)) :: nil)) (145 / 1).
Proof. apply (A02_rio_fin _ (5 / 128)); [reflexivity | apply (A02_q_hi 5 128 145 1); [vm_compute; reflexivity | unfold fr, ctol, A02_hi, A02_c, A02_e; interval with (i_prec 80)]]. Qed.
Lemma r_A02_85 : rio_reads A02_c A02_e A02_lo A02_hi floor_volts ctol (Build_rio (Fin (45 / 128)) (Fin (4517 / 1024)) (Fin (3715469692580659 / 1125899906842624)) (Fin (0 / 1)) (Fin (1 / 1)) true true true ((Fin (505 / 512)) :: (Fin (1501 / 1024)) :: (Fin (817 / 512)) :: (Fin (145953 / 1024)) :: (Fin (3661 / 1024)) :: (Fin ((-6607) / 1024)) :: nil)) (145 / 1).
Proof. apply (A02_rio_fin _ (45 / 128)); [reflexivity | apply (A02_q_hi 45 128 145 1); [vm_compute; reflexivity | unfold fr, ctol, A02_hi, A02_c, A02_e; interval with (i_prec 80)]]. Qed.
Lemma r_A02_101 : rio_reads A02_c A02_e A02_lo A02_hi floor_volts ctol (Build_rio (Fin (85 / 128)) (Fin (5 / 1)) (Fin (3715469692580659 / 1125899906842624)) (Fin (6 / 1)) (Fin (12 / 1)) true true true ((Fin (0 / 1)) :: (Fin (0 / 1)) :: (Fin (0 / 1)) :: (Fin (0 / 1)) :: (Fin (27 / 4)) :: (Fin (45 / 1)) :: nil)) (856616109410843 / 8796093022208).
Proof. apply (A02_rio_fin _ (85 / 128)); [reflexivity | apply (A02_q_mid 85 128 856616109410843 8796093022208); [vm_compute; reflexivity | unfold fr, close, ctol, A02_c, A02_e; interval with (i_prec 80)]]. Qed.
Lemma r_A02_117 : rio_reads A02_c A02_e A02_lo A02_hi floor_volts ctol (Build_rio (Fin (125 / 128)) (Fin (5361 / 1024)) (Fin (8847 / 1024)) (Fin (1275 / 256)) (Fin (6529 / 512)) true true true ((Fin (1777 / 1024)) :: (Fin (945 / 512)) :: (Fin (9 / 64)) :: (Fin (49365 / 256)) :: (Fin (5737 / 1024)) :: (Fin (31687 / 1024)) :: nil)) (2248774776945299 / 35184372088832).
Proof. apply (A02_rio_fin _ (125 / 128)); [reflexivity | apply (A02_q_mid 125 128 2248774776945299 35184372088832); [vm_compute; reflexivity | unfold fr, close, ctol, A02_c, A02_e; interval with (i_prec 80)]]. Qed.
Lemma r_A02_133 : rio_reads A02_c A02_e A02_lo A02_hi floor_volts ctol (Build_rio (Fin (165 / 128)) (Fin (5 / 1)) (Fin (5225 / 1024)) (Fin (6 / 1)) (Fin (10169 / 1024)) true true false ((Fin (175 / 256)) :: (Fin (49 / 128)) :: (Fin (437 / 512)) :: (Fin (176585 / 1024)) :: (Fin (1943 / 256)) :: (Fin (24397 / 1024)) :: nil)) (3321308555553579 / 70368744177664).
Proof. apply (A02_rio_fin _ (165 / 128)); [reflexivity | apply (A02_q_mid 165 128 3321308555553579 70368744177664); [vm_compute; reflexivity | unfold fr, close, ctol, A02_c, A02_e; interval with (i_prec 80)]]. Qed.
Lemma r_A02_149 : rio_reads A02_c A02_e A02_lo A02_hi floor_volts ctol (Build_rio (Fin (205 / 128)) (Fin (5 / 1)) (Fin (3715469692580659 / 1125899906842624)) (Fin (6 / 1)) (Fin (12 / 1)) true true true ((Fin (0 / 1)) :: (Fin (0 / 1)) :: (Fin (0 / 1)) :: (Fin (0 / 1)) :: (Fin (27 / 4)) :: (Fin (45 / 1)) :: nil)) (2620393267986417 / 70368744177664).
Proof. apply (A02_rio_fin _ (205 / 128)); [reflexivity | apply (A02_q_mid 205 128 2620393267986417 70368744177664); [vm_compute; reflexivity | unfold fr, close, ctol, A02_c, A02_e; interval with (i_prec 80)]]. Qed.
Lemma r_A02_165 : rio_reads A02_c A02_e A02_lo A02_hi floor_volts ctol (Build_rio (Fin (245 / 128)) (Fin (5 / 1)) (Fin (1797 / 512)) (Fin (3093 / 512)) (Fin (12 / 1)) true true true ((Fin (717 / 512)) :: (Fin (269 / 1024)) :: (Fin (777 / 512)) :: (Fin (10973 / 1024)) :: (Fin (5801 / 1024)) :: (Fin (30821 / 1024)) :: nil)) (4313823011819489 / 140737488355328).
Proof. apply (A02_rio_fin _ (245 / 128)); [reflexivity | apply (A02_q_mid 245 128 4313823011819489 140737488355328); [vm_compute; reflexivity | unfold fr, close, ctol, A02_c, A02_e; interval with (i_prec 80)]]. Qed.
Lemma r_A02_181 : rio_reads A02_c A02_e A02_lo A02_hi floor_volts ctol (Build_rio (Fin (285 / 128)) (Fin (5 / 1)) (Fin (2831 / 1024)) NInf (Fin (2665 / 256)) false true true ((Fin (1091 / 1024)) :: (Fin (175 / 128)) :: (Fin (1479 / 512)) :: (Fin (194385 / 1024)) :: (Fin (3839 / 1024)) :: (Fin (3871 / 128)) :: nil)) (3657135905978515 / 140737488355328).
Proof. apply (A02_rio_fin _ (285 / 128)); [reflexivity | apply (A02_q_mid 285 128 3657135905978515 140737488355328); [vm_compute; reflexivity | unfold fr, close, ctol, A02_c, A02_e; interval with (i_prec 80)]]. Qed.
Lemma r_A02_197 : rio_reads A02_c A02_e A02_lo A02_hi floor_volts ctol (Build_rio (Fin (655 / 256)) (Fin (5 / 1)) (Fin (3715469692580659 / 1125899906842624)) (Fin (6 / 1)) (Fin (12 / 1)) true true true ((Fin (0 / 1)) :: (Fin (0 / 1)) :: (Fin (0 / 1)) :: (Fin (0 / 1)) :: (Fin (27 / 4)) :: (Fin (45 / 1)) :: nil)) (45 / 2).
Proof. apply (A02_rio_fin _ (655 / 256)); [reflexivity | apply (A02_q_lo 655 256 45 2); [vm_compute; reflexivity | unfold fr, ctol, A02_lo, A02_c, A02_e; interval with (i_prec 80)]]. Qed.
Lemma r_A02_213 : rio_reads A02_c A02_e A02_lo A02_hi floor_volts ctol (Build_rio (Fin (735 / 256)) (Fin (0 / 1)) (Fin (55 / 16)) (Fin (0 / 1)) (Fin (12 / 1)) true false true ((Fin (1467 / 1024)) :: (Fin (11 / 512)) :: (Fin (643 / 256)) :: (Fin (102155 / 1024)) :: (Fin (1367 / 256)) :: (Fin (14499 / 256)) :: nil)) (45 / 2).
Proof. apply (A02_rio_fin _ (735 / 256)); [reflexivity | apply (A02_q_lo 735 256 45 2); [vm_compute; reflexivity | unfold fr, ctol, A02_lo, A02_c, A02_e; interval with (i_prec 80)]]. Qed.
Lemma r_A02_229 : rio_reads A02_c A02_e A02_lo A02_hi floor_volts ctol (Build_rio (Fin (815 / 256)) (Fin (1073 / 256)) (Fin (5902958103587057 / 590295810358705651712)) (Fin (5853 / 1024)) (Fin (11483 / 1024)) true true true ((Fin (227 / 256)) :: (Fin (915 / 512)) :: (Fin (387 / 1024)) :: (Fin (133245 / 1024)) :: (Fin (4233 / 512)) :: (Fin ((-1539) / 1024)) :: nil)) (45 / 2).
Proof. apply (A02_rio_fin _ (815 / 256)); [reflexivity | apply (A02_q_lo 815 256 45 2); [vm_compute; reflexivity | unfold fr, ctol, A02_lo, A02_c, A02_e; interval with (i_prec 80)]]. Qed.
Lemma r_A02_245 : rio_reads A02_c A02_e A02_lo A02_hi floor_volts ctol (Build_rio (Fin (895 / 256)) (Fin (5 / 1)) (Fin (3715469692580659 / 1125899906842624)) (Fin (6 / 1)) (Fin (12 / 1)) true true true ((Fin (0 / 1)) :: (Fin (0 / 1)) :: (Fin (0 / 1)) :: (Fin (0 / 1)) :: (Fin (27 / 4)) :: (Fin (45 / 1)) :: nil)) (45 / 2).
Proof. apply (A02_rio_fin _ (895 / 256)); [reflexivity | apply (A02_q_lo 895 256 45 2); [vm_compute; reflexivity | unfold fr, ctol, A02_lo, A02_c, A02_e; interval with (i_prec 80)]]. Qed.
Lemma r_A02_261 : rio_reads A02_c A02_e A02_lo A02_hi floor_volts ctol (Build_rio (Fin (975 / 256)) (Fin (4231 / 1024)) (Fin (1 / 202402253307310618352495346718917307049556649764142118356901358027430339567995346891960383701437124495187077864316811911389808737385793476867013399940738509921517424276566361364466907742093216341239767678472745068562007483424692698618103355649159556340810056512358769552333414615230502532186327508646006263307707741093494784)) (Fin (2845 / 256)) (Fin (10783 / 1024)) false true true ((Fin (2965 / 1024)) :: (Fin (1435 / 1024)) :: (Fin (125 / 256)) :: (Fin (139991 / 1024)) :: (Fin (2255 / 512)) :: (Fin (55663 / 1024)) :: nil)) (45 / 2).
Proof. apply (A02_rio_fin _ (975 / 256)); [reflexivity | apply (A02_q_lo 975 256 45 2); [vm_compute; reflexivity | unfold fr, ctol, A02_lo, A02_c, A02_e; interval with (i_prec 80)]]. Qed.
Lemma r_A02_277 : rio_reads A02_c A02_e A02_lo A02_hi floor_volts ctol (Build_rio (Fin (1055 / 256)) (Fin ((-1) / 1)) (Fin (3365 / 1024)) (Fin (4927 / 1024)) (Fin (1 / 1)) true true true ((Fin (2363 / 1024)) :: (Fin (107 / 64)) :: (Fin (1413 / 1024)) :: (Fin (152315 / 1024)) :: (Fin (2459 / 512)) :: (Fin (24467 / 256)) :: nil)) (45 / 2).
Proof. apply (A02_rio_fin _ (1055 / 256)); [reflexivity | apply (A02_q_lo 1055 256 45 2); [vm_compute; reflexivity | unfold fr, ctol, A02_lo, A02_c, A02_e; interval with (i_prec 80)]]. Qed.
Lemma r_A02_293 : rio_reads A02_c A02_e A02_lo A02_hi floor_volts ctol (Build_rio (Fin (1135 / 256)) (Fin (5 / 1)) (Fin (3715469692580659 / 1125899906842624)) (Fin (6 / 1)) (Fin (12 / 1)) true true true ((Fin (0 / 1)) :: (Fin (0 / 1)) :: (Fin (0 / 1)) :: (Fin (0 / 1)) :: (Fin (27 / 4)) :: (Fin (45 / 1)) :: nil)) (45 / 2).
Proof. apply (A02_rio_fin _ (1135 / 256)); [reflexivity | apply (A02_q_lo 1135 256 45 2); [vm_compute; reflexivity | unfold fr, ctol, A02_lo, A02_c, A02_e; interval with (i_prec 80)]]. Qed.
Lemma r_A02_309 : rio_reads A02_c A02_e A02_lo A02_hi floor_volts ctol (Build_rio (Fin (1215 / 256)) (Fin (5155 / 1024)) (Fin (2915 / 1024)) (Fin (5533 / 1024)) (Fin (12 / 1)) true true false ((Fin (335 / 1024)) :: (Fin (97 / 256)) :: (Fin (827 / 1024)) :: (Fin (123061 / 1024)) :: (Fin (7897 / 1024)) :: (Fin (9933 / 128)) :: nil)) (45 / 2).
Proof. apply (A02_rio_fin _ (1215 / 256)); [reflexivity | apply (A02_q_lo 1215 256 45 2); [vm_compute; reflexivity | unfold fr, ctol, A02_lo, A02_c, A02_e; interval with (i_prec 80)]]. Qed.
Lemma r_A02_325 : rio_reads A02_c A02_e A02_lo A02_hi floor_volts ctol (Build_rio (Fin (4984793550404801 / 2251799813685248)) NInf (Fin (2819 / 1024)) (Fin (6249 / 1024)) (Fin (11559 / 1024)) true false false ((Fin (1063 / 1024)) :: (Fin (1499 / 1024)) :: (Fin (515 / 256)) :: (Fin (73923 / 1024)) :: (Fin (2447 / 512)) :: (Fin (12531 / 512)) :: nil)) (7360718307508719 / 281474976710656).
Proof. apply (A02_rio_fin _ (4984793550404801 / 2251799813685248)); [reflexivity | apply (A02_q_mid 4984793550404801 2251799813685248 7360718307508719 281474976710656); [vm_compute; reflexivity | unfold fr, close, ctol, A02_c, A02_e; interval with (i_prec 80)]]. Qed.
Lemma r_A02_341 : rio_reads A02_c A02_e A02_lo A02_hi floor_volts ctol (Build_rio (Fin (1137174165039605 / 562949953421312)) (Fin (5 / 1)) (Fin (3715469692580659 / 1125899906842624)) (Fin (6 / 1)) (Fin (12 / 1)) true true true ((Fin (0 / 1)) :: (Fin (0 / 1)) :: (Fin (0 / 1)) :: (Fin (0 / 1)) :: (Fin (27 / 4)) :: (Fin (45 / 1)) :: nil)) (4067319987575669 / 140737488355328).
Proof. apply (A02_rio_fin _ (1137174165039605 / 562949953421312)); [reflexivity | apply (A02_q_mid 1137174165039605 562949953421312 4067319987575669 140737488355328); [vm_compute; reflexivity | unfold fr, close, ctol, A02_c, A02_e; interval with (i_prec 80)]]. Qed.
Lemma r_A02_357 : rio_reads A02_c A02_e A02_lo A02_hi floor_volts ctol (Build_rio (Fin (6417044509182895 / 9007199254740992)) (Fin (2147 / 512)) (Fin (3345 / 1024)) (Fin (6 / 1)) (Fin (5749 / 512)) true true true ((Fin (1043 / 1024)) :: (Fin (61 / 256)) :: (Fin (1433 / 512)) :: (Fin (19573 / 1024)) :: (Fin (8429 / 1024)) :: (Fin (13235 / 512)) :: nil)) (6346445532555235 / 70368744177664).
Proof. apply (A02_rio_fin _ (6417044509182895 / 9007199254740992)); [reflexivity | apply (A02_q_mid 6417044509182895 9007199254740992 6346445532555235 70368744177664); [vm_compute; reflexivity | unfold fr, close, ctol, A02_c, A02_e; interval with (i_prec 80)]]. Qed.
Lemma r_A02_373 : rio_reads A02_c A02_e A02_lo A02_hi floor_volts ctol (Build_rio (Fin (8956602968720471 / 2251799813685248)) (Fin (5489 / 1024)) (Fin (3715469692580659 / 1125899906842624)) (Fin (6 / 1)) (Fin (4399 / 1024)) true true true ((Fin (633 / 512)) :: (Fin (1469 / 1024)) :: (Fin (1609 / 1024)) :: (Fin (38863 / 1024)) :: (Fin (4173 / 1024)) :: (Fin (2389 / 256)) :: nil)) (45 / 2).
Proof. apply (A02_rio_fin _ (8956602968720471 / 2251799813685248)); [reflexivity | apply (A02_q_lo 8956602968720471 2251799813685248 45 2); [vm_compute; reflexivity | unfold fr, ctol, A02_lo, A02_c, A02_e; interval with (i_prec 80)]]. Qed.
Lemma r_A02_391 : rio_reads A02_c A02_e A02_lo A02_hi floor_volts ctol (Build_rio (Fin (5509336926924665 / 36028797018963968)) (Fin (1 / 1)) (Fin (5902958103587057 / 590295810358705651712)) (Fin (6 / 1)) (Fin (11133 / 1024)) true true false ((Fin (585 / 1024)) :: (Fin (23 / 512)) :: (Fin (1965 / 1024)) :: (Fin (118629 / 1024)) :: (Fin (7551 / 1024)) :: (Fin (7565 / 1024)) :: nil)) (145 / 1).
Proof. apply (A02_rio_fin _ (5509336926924665 / 36028797018963968)); [reflexivity | apply (A02_q_hi 5509336926924665 36028797018963968 145 1); [vm_compute; reflexivity | unfold fr, ctol, A02_hi, A02_c, A02_e; interval with (i_prec 80)]]. Qed.
Lemma r_A02_409 : rio_reads A02_c A02_e A02_lo A02_hi floor_volts ctol (Build_rio (Fin (867272511336639 / 2251799813685248)) (Fin (100000000000000001097906362944045541740492309677311846336810682903157585404911491537163328978494688899061249669721172515611590283743140088328307009198146046031271664502933027185697489699588559043338384466165001178426897626212945177628091195786707458122783970171784415105291802893207873272974885715430223118336 / 1)) (Fin (2905 / 1024)) (Fin (2793 / 512)) (Fin (10785 / 1024)) true true false ((Fin (1553 / 1024)) :: (Fin (997 / 512)) :: (Fin (29 / 128)) :: (Fin (3619 / 256)) :: (Fin (3313 / 1024)) :: (Fin (33537 / 512)) :: nil)) (145 / 1).
Proof. apply (A02_rio_fin _ (867272511336639 / 2251799813685248)); [reflexivity | apply (A02_q_hi 867272511336639 2251799813685248 145 1); [vm_compute; reflexivity | unfold fr, ctol, A02_hi, A02_c, A02_e; interval with (i_prec 80)]]. Qed.
Lemma d_A02_3r : rio_reads A02_c A02_e A02_lo A02_hi floor_volts ctol (Build_rio (Fin (357539307115111 / 140737488355328)) (Fin (5854679515581645 / 1125899906842624)) (Fin (3715469692580659 / 1125899906842624)) (Fin (6 / 1)) (Fin (12 / 1)) true true true ((Fin (0 / 1)) :: (Fin (0 / 1)) :: (Fin (0 / 1)) :: (Fin (0 / 1)) :: (Fin (27 / 4)) :: (Fin (45 / 1)) :: nil)) (45 / 2).
Proof. apply (A02_rio_fin _ (357539307115111 / 140737488355328)); [reflexivity | apply (A02_q_lo 357539307115111 140737488355328 45 2); [vm_compute; reflexivity | unfold fr, ctol, A02_lo, A02_c, A02_e; interval with (i_prec 80)]]. Qed.
Lemma d_A02_11r : rio_reads A02_c A02_e A02_lo A02_hi floor_volts ctol (Build_rio (Fin (1298617710960269 / 562949953421312)) (Fin (5629499534213121 / 1125899906842624)) (Fin (3715469692580659 / 1125899906842624)) (Fin (6 / 1)) (Fin (12 / 1)) true true true ((Fin (0 / 1)) :: (Fin (0 / 1)) :: (Fin (0 / 1)) :: (Fin (0 / 1)) :: (Fin (27 / 4)) :: (Fin (45 / 1)) :: nil)) (7036874417766399 / 281474976710656).
Proof. apply (A02_rio_fin _ (1298617710960269 / 562949953421312)); [reflexivity | apply (A02_q_mid 1298617710960269 562949953421312 7036874417766399 281474976710656); [vm_compute; reflexivity | unfold fr, close, ctol, A02_c, A02_e; interval with (i_prec 80)]]. Qed.
Lemma d_A02_19r : rio_reads A02_c A02_e A02_lo A02_hi floor_volts ctol (Build_rio (Fin (357539307115111 / 140737488355328)) (Fin (5 / 1)) (Fin (3715469692580659 / 1125899906842624)) (Fin (6 / 1)) (Fin (7 / 1)) true true true ((Fin (0 / 1)) :: (Fin (0 / 1)) :: (Fin (0 / 1)) :: (Fin (0 / 1)) :: (Fin (27 / 4)) :: (Fin (45 / 1)) :: nil)) (45 / 2).
Proof. apply (A02_rio_fin _ (357539307115111 / 140737488355328)); [reflexivity | apply (A02_q_lo 357539307115111 140737488355328 45 2); [vm_compute; reflexivity | unfold fr, ctol, A02_lo, A02_c, A02_e; interval with (i_prec 80)]]. Qed.
Lemma d_A02_27r : rio_reads A02_c A02_e A02_lo A02_hi floor_volts ctol (Build_rio (Fin (357539307115111 / 140737488355328)) (Fin (5 / 1)) (Fin (3715469692580659 / 1125899906842624)) (Fin (6 / 1)) NInf true true true ((Fin (0 / 1)) :: (Fin (0 / 1)) :: (Fin (0 / 1)) :: (Fin (0 / 1)) :: (Fin (27 / 4)) :: (Fin (45 / 1)) :: nil)) (45 / 2).
Proof. apply (A02_rio_fin _ (357539307115111 / 140737488355328)); [reflexivity | apply (A02_q_lo 357539307115111 140737488355328 45 2); [vm_compute; reflexivity | unfold fr, ctol, A02_lo, A02_c, A02_e; interval with (i_prec 80)]]. Qed.
Lemma d_A02_35r : rio_reads A02_c A02_e A02_lo A02_hi floor_volts ctol (Build_rio (Fin (1459500756917977 / 2251799813685248)) (Fin (5 / 1)) (Fin (3715469692580659 / 1125899906842624)) (Fin (13 / 2)) (Fin (12 / 1)) true true true ((Fin (0 / 1)) :: (Fin (0 / 1)) :: (Fin (0 / 1)) :: (Fin (0 / 1)) :: (Fin (27 / 4)) :: (Fin (45 / 1)) :: nil)) (7036874417766401 / 70368744177664).
Proof. apply (A02_rio_fin _ (1459500756917977 / 2251799813685248)); [reflexivity | apply (A02_q_mid 1459500756917977 2251799813685248 7036874417766401 70368744177664); [vm_compute; reflexivity | unfold fr, close, ctol, A02_c, A02_e; interval with (i_prec 80)]]. Qed.
Lemma d_A02_43r : rio_reads A02_c A02_e A02_lo A02_hi floor_volts ctol (Build_rio (Fin (357539307115111 / 140737488355328)) (Fin (5 / 1)) (Fin (3715469692580659 / 1125899906842624)) (Fin (6 / 1)) (Fin (12 / 1)) true true true ((Fin (1 / 2)) :: (Fin (0 / 1)) :: (Fin (0 / 1)) :: (Fin (0 / 1)) :: (Fin (27 / 4)) :: (Fin (45 / 1)) :: nil)) (45 / 2).
Proof. apply (A02_rio_fin _ (357539307115111 / 140737488355328)); [reflexivity | apply (A02_q_lo 357539307115111 140737488355328 45 2); [vm_compute; reflexivity | unfold fr, ctol, A02_lo, A02_c, A02_e; interval with (i_prec 80)]]. Qed.
Lemma d_A02_51r : rio_reads A02_c A02_e A02_lo A02_hi floor_volts ctol (Build_rio (Fin (8308476888279511 / 18014398509481984)) (Fin (5 / 1)) (Fin (3715469692580659 / 1125899906842624)) (Fin (6 / 1)) (Fin (12 / 1)) true true true ((Fin (0 / 1)) :: (Fin (0 / 1)) :: (Fin (0 / 1)) :: (Fin (0 / 1)) :: (Fin (0 / 1)) :: (Fin (45 / 1)) :: nil)) (2550866973889453 / 17592186044416).
Proof. apply (A02_rio_fin _ (8308476888279511 / 18014398509481984)); [reflexivity | apply (A02_q_mid 8308476888279511 18014398509481984 2550866973889453 17592186044416); [vm_compute; reflexivity | unfold fr, close, ctol, A02_c, A02_e; interval with (i_prec 80)]]. Qed.
Lemma d_A02_60r : rio_reads A02_c A02_e A02_lo A02_hi floor_volts ctol (Build_rio (Fin (8308476880671015 / 18014398509481984)) (Fin (6499 / 1024)) (Fin (1329 / 512)) (Fin (5867 / 1024)) (Fin (12911 / 1024)) true false true ((Fin (1779 / 1024)) :: (Fin (743 / 1024)) :: (Fin (255 / 512)) :: (Fin (10659 / 512)) :: (Fin (5151 / 1024)) :: (Fin (22711 / 512)) :: nil)) (145 / 1).
Proof. apply (A02_rio_fin _ (8308476880671015 / 18014398509481984)); [reflexivity | apply (A02_q_hi 8308476880671015 18014398509481984 145 1); [vm_compute; reflexivity | unfold fr, ctol, A02_hi, A02_c, A02_e; interval with (i_prec 80)]]. Qed.
Lemma d_A02_73u : close ctol (1412027036348399 / 2251799813685248) (volts_A02 (7295622490989543 / 70368744177664)).
Proof. apply (A02_q_volts_mid 7295622490989543 70368744177664 1412027036348399 2251799813685248); [vm_compute; reflexivity | unfold fr, close, ctol, A02_lo, A02_hi, A02_c, A02_e; interval with (i_prec 80)]. Qed.
Lemma d_A02_86u : close ctol (171836505123433 / 140737488355328) (volts_A02 (1762040374100945 / 35184372088832)).
Proof. apply (A02_q_volts_mid 1762040374100945 35184372088832 171836505123433 140737488355328); [vm_compute; reflexivity | unfold fr, close, ctol, A02_lo, A02_hi, A02_c, A02_e; interval with (i_prec 80)]. Qed.
Lemma d_A02_99u : close ctol (4676365066315699 / 4503599627370496) (volts_A02 (8412124522946963 / 140737488355328)).
Proof. apply (A02_q_volts_mid 8412124522946963 140737488355328 4676365066315699 4503599627370496); [vm_compute; reflexivity | unfold fr, close, ctol, A02_lo, A02_hi, A02_c, A02_e; interval with (i_prec 80)]. Qed.
Lemma d_A02_112u : close ctol (5092074076315337 / 9007199254740992) (volts_A02 (8169799662753435 / 70368744177664)).
Proof. apply (A02_q_volts_mid 8169799662753435 70368744177664 5092074076315337 9007199254740992); [vm_compute; reflexivity | unfold fr, close, ctol, A02_lo, A02_hi, A02_c, A02_e; interval with (i_prec 80)]. Qed.
Lemma d_A02_124r : rio_reads A02_c A02_e A02_lo A02_hi floor_volts ctol (Build_rio (Fin (8308476880671015 / 18014398509481984)) (Fin (5 / 1)) (Fin (741 / 256)) (Fin (1285 / 256)) (Fin (5753 / 512)) false true true ((Fin (181 / 64)) :: (Fin (899 / 1024)) :: (Fin (419 / 1024)) :: (Fin (23541 / 1024)) :: (Fin (3247 / 1024)) :: (Fin ((-17945) / 1024)) :: nil)) (145 / 1).
Proof. apply (A02_rio_fin _ (8308476880671015 / 18014398509481984)); [reflexivity | apply (A02_q_hi 8308476880671015 18014398509481984 145 1); [vm_compute; reflexivity | unfold fr, ctol, A02_hi, A02_c, A02_e; interval with (i_prec 80)]]. Qed.
Lemma d_A02_137u : close ctol (4722912009710937 / 2251799813685248) (volts_A02 (7807531644764103 / 281474976710656)).
Proof. apply (A02_q_volts_mid 7807531644764103 281474976710656 4722912009710937 2251799813685248); [vm_compute; reflexivity | unfold fr, close, ctol, A02_lo, A02_hi, A02_c, A02_e; interval with (i_prec 80)]. Qed.
Lemma d_A02_150u : close ctol (5678826349471869 / 9007199254740992) (volts_A02 (1813134673521081 / 17592186044416)).
Proof. apply (A02_q_volts_mid 1813134673521081 17592186044416 5678826349471869 9007199254740992); [vm_compute; reflexivity | unfold fr, close, ctol, A02_lo, A02_hi, A02_c, A02_e; interval with (i_prec 80)]. Qed.
Lemma d_A02_163u : close ctol (2625171228425681 / 4503599627370496) (volts_A02 (7901245207894161 / 70368744177664)).
Proof. apply (A02_q_volts_mid 7901245207894161 70368744177664 2625171228425681 4503599627370496); [vm_compute; reflexivity | unfold fr, close, ctol, A02_lo, A02_hi, A02_c, A02_e; interval with (i_prec 80)]. Qed.
Lemma d_A02_176u : close ctol (357539307115111 / 140737488355328) (volts_A02 (1506468350337181 / 70368744177664)).
Proof. apply (A02_q_volts_lo 1506468350337181 70368744177664 357539307115111 140737488355328); [vm_compute; reflexivity | unfold fr, close, ctol, A02_lo, A02_hi, A02_c, A02_e; interval with (i_prec 80)]. Qed.
Lemma d_A02_188r : rio_reads A02_c A02_e A02_lo A02_hi floor_volts ctol (Build_rio (Fin (1127923882343051 / 2251799813685248)) (Fin (4687 / 1024)) (Fin (3715469692580659 / 1125899906842624)) (Fin (6519 / 1024)) (Fin (10291 / 1024)) false true true ((Fin (731 / 512)) :: (Fin (2015 / 1024)) :: (Fin (2545 / 1024)) :: (Fin (34013 / 512)) :: (Fin (6281 / 1024)) :: (Fin ((-7785) / 1024)) :: nil)) (1165497651331795 / 8796093022208).
Proof. apply (A02_rio_fin _ (1127923882343051 / 2251799813685248)); [reflexivity | apply (A02_q_mid 1127923882343051 2251799813685248 1165497651331795 8796093022208); [vm_compute; reflexivity | unfold fr, close, ctol, A02_c, A02_e; interval with (i_prec 80)]]. Qed.
Lemma d_A02_201u : close ctol (8631255103954001 / 4503599627370496) (volts_A02 (8615548134764839 / 281474976710656)).
Proof. apply (A02_q_volts_mid 8615548134764839 281474976710656 8631255103954001 4503599627370496); [vm_compute; reflexivity | unfold fr, close, ctol, A02_lo, A02_hi, A02_c, A02_e; interval with (i_prec 80)]. Qed.
Lemma d_A02_214u : close ctol (7252074524666637 / 9007199254740992) (volts_A02 (2776423116325511 / 35184372088832)).
Proof. apply (A02_q_volts_mid 2776423116325511 35184372088832 7252074524666637 9007199254740992); [vm_compute; reflexivity | unfold fr, close, ctol, A02_lo, A02_hi, A02_c, A02_e; interval with (i_prec 80)]. Qed.
Lemma d_A02_227u : close ctol (4023982274190789 / 4503599627370496) (volts_A02 (619499948828787 / 8796093022208)).
Proof. apply (A02_q_volts_mid 619499948828787 8796093022208 4023982274190789 4503599627370496); [vm_compute; reflexivity | unfold fr, close, ctol, A02_lo, A02_hi, A02_c, A02_e; interval with (i_prec 80)]. Qed.
Lemma d_A02_240u : close ctol (731625947244609 / 562949953421312) (volts_A02 (3291832402975391 / 70368744177664)).
Proof. apply (A02_q_volts_mid 3291832402975391 70368744177664 731625947244609 562949953421312); [vm_compute; reflexivity | unfold fr, close, ctol, A02_lo, A02_hi, A02_c, A02_e; interval with (i_prec 80)]. Qed.
Lemma d_A02_252r : rio_reads A02_c A02_e A02_lo A02_hi floor_volts ctol (Build_rio (Fin (2522448000521883 / 1125899906842624)) (Fin (1363 / 256)) (Fin (3607 / 1024)) (Fin (2701 / 512)) (Fin (2977 / 256)) true true true ((Fin (845 / 1024)) :: (Fin (995 / 1024)) :: (Fin (731 / 512)) :: (Fin (78285 / 512)) :: (Fin (3125 / 1024)) :: (Fin (17941 / 512)) :: nil)) (7265011271392179 / 281474976710656).
Proof. apply (A02_rio_fin _ (2522448000521883 / 1125899906842624)); [reflexivity | apply (A02_q_mid 2522448000521883 1125899906842624 7265011271392179 281474976710656); [vm_compute; reflexivity | unfold fr, close, ctol, A02_c, A02_e; interval with (i_prec 80)]]. Qed.
Lemma d_A02_265u : close ctol (1790398715945009 / 2251799813685248) (volts_A02 (80 / 1)).
Proof. apply (A02_q_volts_mid 80 1 1790398715945009 2251799813685248); [vm_compute; reflexivity | unfold fr, close, ctol, A02_lo, A02_hi, A02_c, A02_e; interval with (i_prec 80)]. Qed.
Lemma d_A02_278u : close ctol (8308476880671015 / 18014398509481984) (volts_A02 (283 / 1)).
Proof. apply (A02_q_volts_hi 283 1 8308476880671015 18014398509481984); [vm_compute; reflexivity | unfold fr, close, ctol, A02_lo, A02_hi, A02_c, A02_e; interval with (i_prec 80)]. Qed.
Lemma d_A02_291u : close ctol (2538020461002611 / 1125899906842624) (volts_A02 (1804087086087303 / 70368744177664)).
Proof. apply (A02_q_volts_mid 1804087086087303 70368744177664 2538020461002611 1125899906842624); [vm_compute; reflexivity | unfold fr, close, ctol, A02_lo, A02_hi, A02_c, A02_e; interval with (i_prec 80)]. Qed.
Lemma d_A02_304u : close ctol (5506844515100971 / 4503599627370496) (volts_A02 (50 / 1)).
Proof. apply (A02_q_volts_mid 50 1 5506844515100971 4503599627370496); [vm_compute; reflexivity | unfold fr, close, ctol, A02_lo, A02_hi, A02_c, A02_e; interval with (i_prec 80)]. Qed.
Lemma d_A02_316r : rio_reads A02_c A02_e A02_lo A02_hi floor_volts ctol (Build_rio (Fin (1478534016413995 / 2251799813685248)) (Fin (5 / 1)) (Fin (3715469692580659 / 1125899906842624)) (Fin (2601 / 512)) NInf true true true ((Fin (699 / 1024)) :: (Fin (1401 / 1024)) :: (Fin (1115 / 1024)) :: (Fin (197757 / 1024)) :: (Fin (389 / 128)) :: (Fin (100975 / 1024)) :: nil)) (3469006591578671 / 35184372088832).
Proof. apply (A02_rio_fin _ (1478534016413995 / 2251799813685248)); [reflexivity | apply (A02_q_mid 1478534016413995 2251799813685248 3469006591578671 35184372088832); [vm_compute; reflexivity | unfold fr, close, ctol, A02_c, A02_e; interval with (i_prec 80)]]. Qed.
Lemma d_A02_329u : close ctol (8308476880671015 / 18014398509481984) (volts_A02 (3450650604933643 / 8796093022208)).
Proof. apply (A02_q_volts_hi 3450650604933643 8796093022208 8308476880671015 18014398509481984); [vm_compute; reflexivity | unfold fr, close, ctol, A02_lo, A02_hi, A02_c, A02_e; interval with (i_prec 80)]. Qed.
Lemma d_A02_342u : close ctol (6510164619110331 / 9007199254740992) (volts_A02 (6247381133438995 / 70368744177664)).
Proof. apply (A02_q_volts_mid 6247381133438995 70368744177664 6510164619110331 9007199254740992); [vm_compute; reflexivity | unfold fr, close, ctol, A02_lo, A02_hi, A02_c, A02_e; interval with (i_prec 80)]. Qed.
Lemma d_A02_355u : close ctol (4232355804604713 / 9007199254740992) (volts_A02 (1249748764467055 / 8796093022208)).
Proof. apply (A02_q_volts_mid 1249748764467055 8796093022208 4232355804604713 9007199254740992); [vm_compute; reflexivity | unfold fr, close, ctol, A02_lo, A02_hi, A02_c, A02_e; interval with (i_prec 80)]. Qed.
Lemma d_A02_368u : close ctol (1937617758879377 / 2251799813685248) (volts_A02 (2582047071092723 / 35184372088832)).
Proof. apply (A02_q_volts_mid 2582047071092723 35184372088832 1937617758879377 2251799813685248); [vm_compute; reflexivity | unfold fr, close, ctol, A02_lo, A02_hi, A02_c, A02_e; interval with (i_prec 80)]. Qed.
Lemma d_A02_380r : rio_reads A02_c A02_e A02_lo A02_hi floor_volts ctol (Build_rio (Fin (8325831834026321 / 4503599627370496)) (Fin (4489 / 1024)) (Fin (2905 / 1024)) (Fin (6125 / 512)) (Fin (12 / 1)) false false false ((Fin (2337 / 1024)) :: (Fin (849 / 1024)) :: (Fin (2065 / 1024)) :: (Fin (2247 / 256)) :: (Fin (2095 / 512)) :: (Fin (46705 / 512)) :: nil)) (8961252043722931 / 281474976710656).
Proof. apply (A02_rio_fin _ (8325831834026321 / 4503599627370496)); [reflexivity | apply (A02_q_mid 8325831834026321 4503599627370496 8961252043722931 281474976710656); [vm_compute; reflexivity | unfold fr, close, ctol, A02_c, A02_e; interval with (i_prec 80)]]. Qed.
Lemma d_A02_393u : close ctol (357539307115111 / 140737488355328) (volts_A02 (4108523515761633 / 281474976710656)).
Proof. apply (A02_q_volts_lo 4108523515761633 281474976710656 357539307115111 140737488355328); [vm_compute; reflexivity | unfold fr, close, ctol, A02_lo, A02_hi, A02_c, A02_e; interval with (i_prec 80)]. Qed.
Lemma d_A02_406u : close ctol (5965949312564753 / 4503599627370496) (volts_A02 (1611920445499057 / 35184372088832)).
Proof. apply (A02_q_volts_mid 1611920445499057 35184372088832 5965949312564753 4503599627370496); [vm_compute; reflexivity | unfold fr, close, ctol, A02_lo, A02_hi, A02_c, A02_e; interval with (i_prec 80)]. Qed.
Lemma d_A02_419u : close ctol (1495695805512659 / 2251799813685248) (volts_A02 (6851127752539707 / 70368744177664)).
Proof. apply (A02_q_volts_mid 6851127752539707 70368744177664 1495695805512659 2251799813685248); [vm_compute; reflexivity | unfold fr, close, ctol, A02_lo, A02_hi, A02_c, A02_e; interval with (i_prec 80)]. Qed.
Lemma d_A02_432u : close ctol (8308476880671015 / 18014398509481984) (volts_A02 (157 / 1)).
Proof. apply (A02_q_volts_hi 157 1 8308476880671015 18014398509481984); [vm_compute; reflexivity | unfold fr, close, ctol, A02_lo, A02_hi, A02_c, A02_e; interval with (i_prec 80)]. Qed.
Lemma d_A02_444r : rio_reads A02_c A02_e A02_lo A02_hi floor_volts ctol (Build_rio (Fin (357539307115111 / 140737488355328)) (Fin (1235 / 256)) NInf (Fin (3237 / 512)) (Fin (637 / 64)) true true false ((Fin (1005 / 512)) :: (Fin (875 / 512)) :: (Fin (1869 / 1024)) :: (Fin (166423 / 1024)) :: (Fin (6177 / 1024)) :: (Fin (23369 / 256)) :: nil)) (45 / 2).
Proof. apply (A02_rio_fin _ (357539307115111 / 140737488355328)); [reflexivity | apply (A02_q_lo 357539307115111 140737488355328 45 2); [vm_compute; reflexivity | unfold fr, ctol, A02_lo, A02_c, A02_e; interval with (i_prec 80)]]. Qed.
Lemma d_A02_457u : close ctol (357539307115111 / 140737488355328) (volts_A02 (330739707085001 / 17592186044416)).
Proof. apply (A02_q_volts_lo 330739707085001 17592186044416 357539307115111 140737488355328); [vm_compute; reflexivity | unfold fr, close, ctol, A02_lo, A02_hi, A02_c, A02_e; interval with (i_prec 80)]. Qed.
Lemma d_A02_470u : close ctol (5258992039868399 / 9007199254740992) (volts_A02 (7887055352782791 / 70368744177664)).
Proof. apply (A02_q_volts_mid 7887055352782791 70368744177664 5258992039868399 9007199254740992); [vm_compute; reflexivity | unfold fr, close, ctol, A02_lo, A02_hi, A02_c, A02_e; interval with (i_prec 80)]. Qed.
Lemma d_A02_483u : close ctol (3169091859690753 / 4503599627370496) (volts_A02 (6432722934190625 / 70368744177664)).
Proof. apply (A02_q_volts_mid 6432722934190625 70368744177664 3169091859690753 4503599627370496); [vm_compute; reflexivity | unfold fr, close, ctol, A02_lo, A02_hi, A02_c, A02_e; interval with (i_prec 80)]. Qed.
Lemma d_A02_496u : close ctol (6803203379958617 / 4503599627370496) (volts_A02 (698284810038327 / 17592186044416)).
Proof. apply (A02_q_volts_mid 698284810038327 17592186044416 6803203379958617 4503599627370496); [vm_compute; reflexivity | unfold fr, close, ctol, A02_lo, A02_hi, A02_c, A02_e; interval with (i_prec 80)]. Qed.
Lemma d_A02_508r : rio_reads A02_c A02_e A02_lo A02_hi floor_volts ctol (Build_rio (Fin (7575823762459845 / 4503599627370496)) (Fin (4487 / 1024)) (Fin (3601 / 1024)) (Fin (5297 / 1024)) (Fin (13365 / 1024)) true true false ((Fin (2393 / 1024)) :: (Fin (139 / 512)) :: (Fin (2359 / 1024)) :: (Fin (34377 / 1024)) :: (Fin (8361 / 1024)) :: (Fin (36637 / 1024)) :: nil)) (4967161302776539 / 140737488355328).
Proof. apply (A02_rio_fin _ (7575823762459845 / 4503599627370496)); [reflexivity | apply (A02_q_mid 7575823762459845 4503599627370496 4967161302776539 140737488355328); [vm_compute; reflexivity | unfold fr, close, ctol, A02_c, A02_e; interval with (i_prec 80)]]. Qed.
Lemma d_A02_521u : close ctol (182440088278249 / 281474976710656) (volts_A02 (879596173278067 / 8796093022208)).
Proof. apply (A02_q_volts_mid 879596173278067 8796093022208 182440088278249 281474976710656); [vm_compute; reflexivity | unfold fr, close, ctol, A02_lo, A02_hi, A02_c, A02_e; interval with (i_prec 80)]. Qed.
Lemma d_A02_534u : close ctol (7498980548309813 / 9007199254740992) (volts_A02 (1338375599410315 / 17592186044416)).
Proof. apply (A02_q_volts_mid 1338375599410315 17592186044416 7498980548309813 9007199254740992); [vm_compute; reflexivity | unfold fr, close, ctol, A02_lo, A02_hi, A02_c, A02_e; interval with (i_prec 80)]. Qed.
Lemma d_A02_547u : close ctol (2599518043179047 / 4503599627370496) (volts_A02 (499151888340139 / 4398046511104)).
Proof. apply (A02_q_volts_mid 499151888340139 4398046511104 2599518043179047 4503599627370496); [vm_compute; reflexivity | unfold fr, close, ctol, A02_lo, A02_hi, A02_c, A02_e; interval with (i_prec 80)]. Qed.
Lemma d_A02_560u : close ctol (3193244461077159 / 4503599627370496) (volts_A02 (6379610310684957 / 70368744177664)).
Proof. apply (A02_q_volts_mid 6379610310684957 70368744177664 3193244461077159 4503599627370496); [vm_compute; reflexivity | unfold fr, close, ctol, A02_lo, A02_hi, A02_c, A02_e; interval with (i_prec 80)]. Qed.
Lemma d_A02_572r : rio_reads A02_c A02_e A02_lo A02_hi floor_volts ctol (Build_rio (Fin (283241636274899 / 281474976710656)) (Fin (4403 / 1024)) (Fin (3017 / 1024)) (Fin (6547 / 1024)) (Fin (6319 / 512)) false true false ((Fin (2253 / 1024)) :: (Fin (1433 / 1024)) :: (Fin (479 / 512)) :: (Fin (33061 / 1024)) :: (Fin (7171 / 1024)) :: (Fin (27139 / 1024)) :: nil)) (8705447595003469 / 140737488355328).
Proof. apply (A02_rio_fin _ (283241636274899 / 281474976710656)); [reflexivity | apply (A02_q_mid 283241636274899 281474976710656 8705447595003469 140737488355328); [vm_compute; reflexivity | unfold fr, close, ctol, A02_c, A02_e; interval with (i_prec 80)]]. Qed.
Lemma d_A02_585u : close ctol (3226932497762999 / 2251799813685248) (volts_A02 (2958641694100515 / 70368744177664)).
Proof. apply (A02_q_volts_mid 2958641694100515 70368744177664 3226932497762999 2251799813685248); [vm_compute; reflexivity | unfold fr, close, ctol, A02_lo, A02_hi, A02_c, A02_e; interval with (i_prec 80)]. Qed.
Lemma d_A02_598u : close ctol (8308476880671015 / 18014398509481984) (volts_A02 (201 / 1)).
Proof. apply (A02_q_volts_hi 201 1 8308476880671015 18014398509481984); [vm_compute; reflexivity | unfold fr, close, ctol, A02_lo, A02_hi, A02_c, A02_e; interval with (i_prec 80)]. Qed.
Lemma d_A02_611u : close ctol (3505346075621887 / 4503599627370496) (volts_A02 (1440487661035033 / 17592186044416)).
Proof. apply (A02_q_volts_mid 1440487661035033 17592186044416 3505346075621887 4503599627370496); [vm_compute; reflexivity | unfold fr, close, ctol, A02_lo, A02_hi, A02_c, A02_e; interval with (i_prec 80)]. Qed.
Lemma d_A02_624u : close ctol (522894179613687 / 562949953421312) (volts_A02 (2375218344453359 / 35184372088832)).
Proof. apply (A02_q_volts_mid 2375218344453359 35184372088832 522894179613687 562949953421312); [vm_compute; reflexivity | unfold fr, close, ctol, A02_lo, A02_hi, A02_c, A02_e; interval with (i_prec 80)]. Qed.
Lemma d_A02_636r : rio_reads A02_c A02_e A02_lo A02_hi floor_volts ctol (Build_rio (Fin (7589354440263369 / 4503599627370496)) (Fin (5277 / 1024)) PInf (Fin (2527 / 512)) (Fin (6939 / 1024)) true true true ((Fin (2665 / 1024)) :: (Fin (933 / 1024)) :: (Fin (365 / 128)) :: (Fin (15925 / 256)) :: (Fin (557 / 64)) :: (Fin (61589 / 1024)) :: nil)) (2478745835003249 / 70368744177664).
Proof. apply (A02_rio_fin _ (7589354440263369 / 4503599627370496)); [reflexivity | apply (A02_q_mid 7589354440263369 4503599627370496 2478745835003249 70368744177664); [vm_compute; reflexivity | unfold fr, close, ctol, A02_c, A02_e; interval with (i_prec 80)]]. Qed.
Lemma d_A02_649u : close ctol (357539307115111 / 140737488355328) (volts_A02 (3338106387012727 / 281474976710656)).
Proof. apply (A02_q_volts_lo 3338106387012727 281474976710656 357539307115111 140737488355328); [vm_compute; reflexivity | unfold fr, close, ctol, A02_lo, A02_hi, A02_c, A02_e; interval with (i_prec 80)]. Qed.
Lemma d_A02_662u : close ctol (4830489549933297 / 9007199254740992) (volts_A02 (8654103821963625 / 70368744177664)).
Proof. apply (A02_q_volts_mid 8654103821963625 70368744177664 4830489549933297 9007199254740992); [vm_compute; reflexivity | unfold fr, close, ctol, A02_lo, A02_hi, A02_c, A02_e; interval with (i_prec 80)]. Qed.
Lemma r_A21_449 : rio_reads A21_c A21_e A21_lo A21_hi floor_volts ctol (Build_rio (Fin (3246626956972881 / 295147905179352825856)) (Fin (5 / 1)) (Fin (3715469692580659 / 1125899906842624)) (Fin (6 / 1)) (Fin (21 / 2)) true true true ((Fin (0 / 1)) :: (Fin (0 / 1)) :: (Fin (0 / 1)) :: (Fin (0 / 1)) :: (Fin (27 / 4)) :: (Fin (45 / 1)) :: nil)) (80 / 1).
Proof. apply (A21_rio_fin _ (3246626956972881 / 295147905179352825856)); [reflexivity | apply (A21_q_hi 3246626956972881 295147905179352825856 80 1); [vm_compute; reflexivity | unfold fr, ctol, A21_hi, A21_c, A21_e; interval with (i_prec 80)]]. Qed.
Lemma r_A21_467 : rio_reads A21_c A21_e A21_lo A21_hi floor_volts ctol (Build_rio (Fin (7303775110035475 / 18014398509481984)) (Fin (5 / 1)) (Fin (3715469692580659 / 1125899906842624)) (Fin ((-1) / 1)) (Fin (12 / 1)) true true true ((Fin (0 / 1)) :: (Fin (0 / 1)) :: (Fin (0 / 1)) :: (Fin (0 / 1)) :: (Fin (27 / 4)) :: (Fin (45 / 1)) :: nil)) (2814749763655677 / 35184372088832).
Proof. apply (A21_rio_fin _ (7303775110035475 / 18014398509481984)); [reflexivity | apply (A21_q_mid 7303775110035475 18014398509481984 2814749763655677 35184372088832); [vm_compute; reflexivity | unfold fr, close, ctol, A21_c, A21_e; interval with (i_prec 80)]]. Qed.
Lemma r_A21_483 : rio_reads A21_c A21_e A21_lo A21_hi floor_volts ctol (Build_rio (Fin (9045 / 4096)) (Fin (5 / 1)) (Fin (3715469692580659 / 1125899906842624)) (Fin (6 / 1)) (Fin (12 / 1)) true true true ((Fin (0 / 1)) :: (Fin (0 / 1)) :: (Fin (0 / 1)) :: (Fin (0 / 1)) :: (Fin (27 / 4)) :: (Fin (85 / 1)) :: nil)) (5637355618501153 / 562949953421312).
Proof. apply (A21_rio_fin _ (9045 / 4096)); [reflexivity | apply (A21_q_mid 9045 4096 5637355618501153 562949953421312); [vm_compute; reflexivity | unfold fr, close, ctol, A21_c, A21_e; interval with (i_prec 80)]]. Qed.
Lemma r_A21_499 : rio_reads A21_c A21_e A21_lo A21_hi floor_volts ctol (Build_rio (Fin (45 / 256)) (Fin (4631 / 1024)) (Fin (2997 / 1024)) (Fin (100000000000000001097906362944045541740492309677311846336810682903157585404911491537163328978494688899061249669721172515611590283743140088328307009198146046031271664502933027185697489699588559043338384466165001178426897626212945177628091195786707458122783970171784415105291802893207873272974885715430223118336 / 1)) (Fin ((-12) / 1)) true true true ((Fin (2183 / 1024)) :: (Fin (107 / 256)) :: (Fin (477 / 256)) :: (Fin (100119 / 1024)) :: (Fin (6967 / 1024)) :: (Fin ((-12135) / 1024)) :: nil)) (80 / 1).
Proof. apply (A21_rio_fin _ (45 / 256)); [reflexivity | apply (A21_q_hi 45 256 80 1); [vm_compute; reflexivity | unfold fr, ctol, A21_hi, A21_c, A21_e; interval with (i_prec 80)]]. Qed.
Lemma r_A21_515 : rio_reads A21_c A21_e A21_lo A21_hi floor_volts ctol (Build_rio (Fin (125 / 256)) (Fin (5 / 1)) (Fin (1555 / 512)) (Fin ((-1) / 1)) (Fin (7239 / 1024)) true false true ((Fin (375 / 1024)) :: (Fin (5 / 256)) :: (Fin (257 / 1024)) :: (Fin (21683 / 256)) :: (Fin (4037 / 512)) :: (Fin (21689 / 256)) :: nil)) (8964159478809761 / 140737488355328).
Proof. apply (A21_rio_fin _ (125 / 256)); [reflexivity | apply (A21_q_mid 125 256 8964159478809761 140737488355328); [vm_compute; reflexivity | unfold fr, close, ctol, A21_c, A21_e; interval with (i_prec 80)]]. Qed.
Lemma r_A21_531 : rio_reads A21_c A21_e A21_lo A21_hi floor_volts ctol (Build_rio (Fin (205 / 256)) (Fin (5 / 1)) (Fin (3715469692580659 / 1125899906842624)) (Fin (6 / 1)) (Fin (12 / 1)) true true true ((Fin (0 / 1)) :: (Fin (0 / 1)) :: (Fin (0 / 1)) :: (Fin (0 / 1)) :: (Fin (27 / 4)) :: (Fin (45 / 1)) :: nil)) (4887772871902163 / 140737488355328).
Proof. apply (A21_rio_fin _ (205 / 256)); [reflexivity | apply (A21_q_mid 205 256 4887772871902163 140737488355328); [vm_compute; reflexivity | unfold fr, close, ctol, A21_c, A21_e; interval with (i_prec 80)]]. Qed.
Lemma r_A21_547 : rio_reads A21_c A21_e A21_lo A21_hi floor_volts ctol (Build_rio (Fin (285 / 256)) (Fin (539 / 128)) (Fin (1603 / 512)) (Fin (6683 / 1024)) (Fin (12 / 1)) false false false ((Fin (3045 / 1024)) :: (Fin (223 / 512)) :: (Fin (2025 / 1024)) :: (Fin (61083 / 512)) :: (Fin (7711 / 1024)) :: (Fin (53571 / 1024)) :: nil)) (3263483730326097 / 140737488355328).
Proof. apply (A21_rio_fin _ (285 / 256)); [reflexivity | apply (A21_q_mid 285 256 3263483730326097 140737488355328); [vm_compute; reflexivity | unfold fr, close, ctol, A21_c, A21_e; interval with (i_prec 80)]]. Qed.
Lemma r_A21_563 : rio_reads A21_c A21_e A21_lo A21_hi floor_volts ctol (Build_rio (Fin (365 / 256)) (Fin (5 / 1)) (Fin (179 / 64)) (Fin (5355 / 1024)) (Fin (3201 / 256)) false true true ((Fin (1111 / 1024)) :: (Fin (913 / 512)) :: (Fin (1505 / 1024)) :: (Fin (18723 / 256)) :: (Fin (1017 / 128)) :: (Fin (75971 / 1024)) :: nil)) (1204814547601269 / 70368744177664).
Proof. apply (A21_rio_fin _ (365 / 256)); [reflexivity | apply (A21_q_mid 365 256 1204814547601269 70368744177664); [vm_compute; reflexivity | unfold fr, close, ctol, A21_c, A21_e; interval with (i_prec 80)]]. Qed.
Lemma r_A21_579 : rio_reads A21_c A21_e A21_lo A21_hi floor_volts ctol (Build_rio (Fin (445 / 256)) (Fin (5 / 1)) (Fin (3715469692580659 / 1125899906842624)) (Fin (6 / 1)) (Fin (12 / 1)) true true true ((Fin (0 / 1)) :: (Fin (0 / 1)) :: (Fin (0 / 1)) :: (Fin (0 / 1)) :: (Fin (27 / 4)) :: (Fin (45 / 1)) :: nil)) (7559479056365345 / 562949953421312).
Proof. apply (A21_rio_fin _ (445 / 256)); [reflexivity | apply (A21_q_mid 445 256 7559479056365345 562949953421312); [vm_compute; reflexivity | unfold fr, close, ctol, A21_c, A21_e; interval with (i_prec 80)]]. Qed.
Lemma r_A21_595 : rio_reads A21_c A21_e A21_lo A21_hi floor_volts ctol (Build_rio (Fin (525 / 256)) (Fin (2629 / 512)) (Fin (1569 / 256)) (Fin ((-1) / 1)) (Fin (5902958103587057 / 590295810358705651712)) false false false ((Fin (3007 / 1024)) :: (Fin (997 / 1024)) :: (Fin (2761 / 1024)) :: (Fin (168073 / 1024)) :: (Fin (6313 / 1024)) :: (Fin (34473 / 1024)) :: nil)) (6172568747776125 / 562949953421312).
Proof. apply (A21_rio_fin _ (525 / 256)); [reflexivity | apply (A21_q_mid 525 256 6172568747776125 562949953421312); [vm_compute; reflexivity | unfold fr, close, ctol, A21_c, A21_e; interval with (i_prec 80)]]. Qed.
Lemma r_A21_611 : rio_reads A21_c A21_e A21_lo A21_hi floor_volts ctol (Build_rio (Fin (605 / 256)) (Fin (5445 / 1024)) (Fin (1421 / 512)) (Fin (5301 / 1024)) (Fin (12 / 1)) true true false ((Fin (1141 / 512)) :: (Fin (347 / 1024)) :: (Fin (1213 / 512)) :: (Fin (98543 / 512)) :: (Fin (7487 / 1024)) :: (Fin (3605 / 1024)) :: nil)) (10 / 1).
Proof. apply (A21_rio_fin _ (605 / 256)); [reflexivity | apply (A21_q_lo 605 256 10 1); [vm_compute; reflexivity | unfold fr, ctol, A21_lo, A21_c, A21_e; interval with (i_prec 80)]]. Qed.
Lemma r_A21_627 : rio_reads A21_c A21_e A21_lo A21_hi floor_volts ctol (Build_rio (Fin (685 / 256)) (Fin (5 / 1)) (Fin (3715469692580659 / 1125899906842624)) (Fin (6 / 1)) (Fin (12 / 1)) true true true ((Fin (0 / 1)) :: (Fin (0 / 1)) :: (Fin (0 / 1)) :: (Fin (0 / 1)) :: (Fin (27 / 4)) :: (Fin (45 / 1)) :: nil)) (10 / 1).
Proof. apply (A21_rio_fin _ (685 / 256)); [reflexivity | apply (A21_q_lo 685 256 10 1); [vm_compute; reflexivity | unfold fr, ctol, A21_lo, A21_c, A21_e; interval with (i_prec 80)]]. Qed.
Lemma r_A21_643 : rio_reads A21_c A21_e A21_lo A21_hi floor_volts ctol (Build_rio (Fin (765 / 256)) (Fin (2201 / 512)) (Fin (3715469692580659 / 1125899906842624)) (Fin (709 / 128)) (Fin (12 / 1)) true true true ((Fin (845 / 512)) :: (Fin (25 / 1024)) :: (Fin (467 / 1024)) :: (Fin (167161 / 1024)) :: (Fin (3475 / 512)) :: (Fin (45095 / 512)) :: nil)) (10 / 1).
Proof. apply (A21_rio_fin _ (765 / 256)); [reflexivity | apply (A21_q_lo 765 256 10 1); [vm_compute; reflexivity | unfold fr, ctol, A21_lo, A21_c, A21_e; interval with (i_prec 80)]]. Qed.
Lemma r_A21_659 : rio_reads A21_c A21_e A21_lo A21_hi floor_volts ctol (Build_rio (Fin (845 / 256)) (Fin (5 / 1)) (Fin (2811 / 512)) (Fin (6 / 1)) (Fin (12 / 1)) false false true ((Fin (2859 / 1024)) :: (Fin (1325 / 1024)) :: (Fin (43 / 1024)) :: (Fin (21357 / 1024)) :: (Fin (6085 / 1024)) :: (Fin (18561 / 512)) :: nil)) (10 / 1).
Proof. apply (A21_rio_fin _ (845 / 256)); [reflexivity | apply (A21_q_lo 845 256 10 1); [vm_compute; reflexivity | unfold fr, ctol, A21_lo, A21_c, A21_e; interval with (i_prec 80)]]. Qed.
Lemma r_A21_675 : rio_reads A21_c A21_e A21_lo A21_hi floor_volts ctol (Build_rio (Fin (925 / 256)) (Fin (5 / 1)) (Fin (3715469692580659 / 1125899906842624)) (Fin (6 / 1)) (Fin (12 / 1)) true true true ((Fin (0 / 1)) :: (Fin (0 / 1)) :: (Fin (0 / 1)) :: (Fin (0 / 1)) :: (Fin (27 / 4)) :: (Fin (45 / 1)) :: nil)) (10 / 1).
Proof. apply (A21_rio_fin _ (925 / 256)); [reflexivity | apply (A21_q_lo 925 256 10 1); [vm_compute; reflexivity | unfold fr, ctol, A21_lo, A21_c, A21_e; interval with (i_prec 80)]]. Qed.
Lemma r_A21_691 : rio_reads A21_c A21_e A21_lo A21_hi floor_volts ctol (Build_rio (Fin (1005 / 256)) (Fin (4119 / 1024)) (Fin (3049 / 1024)) (Fin (6173 / 1024)) (Fin (11875 / 1024)) false true false ((Fin (41 / 256)) :: (Fin (1479 / 1024)) :: (Fin (61 / 32)) :: (Fin (182699 / 1024)) :: (Fin (3479 / 1024)) :: (Fin (44023 / 512)) :: nil)) (10 / 1).
Proof. apply (A21_rio_fin _ (1005 / 256)); [reflexivity | apply (A21_q_lo 1005 256 10 1); [vm_compute; reflexivity | unfold fr, ctol, A21_lo, A21_c, A21_e; interval with (i_prec 80)]]. Qed.
Lemma r_A21_707 : rio_reads A21_c A21_e A21_lo A21_hi floor_volts ctol (Build_rio (Fin (1085 / 256)) (Fin (4667 / 1024)) (Fin (1667 / 512)) (Fin (689 / 128)) (Fin (12 / 1)) true true true ((Fin (1005 / 1024)) :: (Fin (1519 / 1024)) :: (Fin (813 / 1024)) :: (Fin (133913 / 1024)) :: (Fin (4409 / 1024)) :: (Fin (94189 / 1024)) :: nil)) (10 / 1).
Proof. apply (A21_rio_fin _ (1085 / 256)); [reflexivity | apply (A21_q_lo 1085 256 10 1); [vm_compute; reflexivity | unfold fr, ctol, A21_lo, A21_c, A21_e; interval with (i_prec 80)]]. Qed.
Lemma r_A21_723 : rio_reads A21_c A21_e A21_lo A21_hi floor_volts ctol (Build_rio (Fin (1165 / 256)) (Fin (5 / 1)) (Fin (3715469692580659 / 1125899906842624)) (Fin (6 / 1)) (Fin (12 / 1)) true true true ((Fin (0 / 1)) :: (Fin (0 / 1)) :: (Fin (0 / 1)) :: (Fin (0 / 1)) :: (Fin (27 / 4)) :: (Fin (45 / 1)) :: nil)) (10 / 1).
Proof. apply (A21_rio_fin _ (1165 / 256)); [reflexivity | apply (A21_q_lo 1165 256 10 1); [vm_compute; reflexivity | unfold fr, ctol, A21_lo, A21_c, A21_e; interval with (i_prec 80)]]. Qed.
Lemma r_A21_739 : rio_reads A21_c A21_e A21_lo A21_hi floor_volts ctol (Build_rio (Fin (1245 / 256)) (Fin (2721 / 512)) (Fin (3715469692580659 / 1125899906842624)) (Fin (6185 / 1024)) (Fin (1 / 1)) true true false ((Fin (1583 / 1024)) :: (Fin (613 / 512)) :: (Fin (1099 / 512)) :: (Fin (64545 / 1024)) :: (Fin (4433 / 512)) :: (Fin (36129 / 1024)) :: nil)) (10 / 1).
Proof. apply (A21_rio_fin _ (1245 / 256)); [reflexivity | apply (A21_q_lo 1245 256 10 1); [vm_compute; reflexivity | unfold fr, ctol, A21_lo, A21_c, A21_e; interval with (i_prec 80)]]. Qed.
Lemma r_A21_755 : rio_reads A21_c A21_e A21_lo A21_hi floor_volts ctol (Build_rio (Fin (36490683025015 / 9007199254740992)) (Fin (811 / 512)) (Fin (5902958103587057 / 590295810358705651712)) (Fin (6 / 1)) (Fin ((-12) / 1)) false true true ((Fin (41 / 32)) :: (Fin (413 / 1024)) :: (Fin (1271 / 1024)) :: (Fin (93205 / 1024)) :: (Fin (4147 / 1024)) :: (Fin (4537 / 1024)) :: nil)) (80 / 1).
Proof. apply (A21_rio_fin _ (36490683025015 / 9007199254740992)); [reflexivity | apply (A21_q_hi 36490683025015 9007199254740992 80 1); [vm_compute; reflexivity | unfold fr, ctol, A21_hi, A21_c, A21_e; interval with (i_prec 80)]]. Qed.
Lemma r_A21_771 : rio_reads A21_c A21_e A21_lo A21_hi floor_volts ctol (Build_rio (Fin (7273937579831981 / 2251799813685248)) (Fin (5 / 1)) (Fin (3715469692580659 / 1125899906842624)) (Fin (6 / 1)) (Fin (12 / 1)) true true true ((Fin (0 / 1)) :: (Fin (0 / 1)) :: (Fin (0 / 1)) :: (Fin (0 / 1)) :: (Fin (27 / 4)) :: (Fin (45 / 1)) :: nil)) (10 / 1).
Proof. apply (A21_rio_fin _ (7273937579831981 / 2251799813685248)); [reflexivity | apply (A21_q_lo 7273937579831981 2251799813685248 10 1); [vm_compute; reflexivity | unfold fr, ctol, A21_lo, A21_c, A21_e; interval with (i_prec 80)]]. Qed.
Lemma r_A21_787 : rio_reads A21_c A21_e A21_lo A21_hi floor_volts ctol (Build_rio (Fin (1397221778400845 / 562949953421312)) (Fin (4335 / 1024)) (Fin (3421 / 1024)) (Fin (6 / 1)) (Fin (0 / 1)) false false false ((Fin (1521 / 512)) :: (Fin (283 / 256)) :: (Fin (761 / 512)) :: (Fin (33989 / 512)) :: (Fin (4065 / 512)) :: (Fin (37901 / 512)) :: nil)) (10 / 1).
Proof. apply (A21_rio_fin _ (1397221778400845 / 562949953421312)); [reflexivity | apply (A21_q_lo 1397221778400845 562949953421312 10 1); [vm_compute; reflexivity | unfold fr, ctol, A21_lo, A21_c, A21_e; interval with (i_prec 80)]]. Qed.
Lemma r_A21_803 : rio_reads A21_c A21_e A21_lo A21_hi floor_volts ctol (Build_rio (Fin (2779044099589105 / 1125899906842624)) (Fin (5411 / 1024)) (Fin (2747 / 1024)) (Fin (6 / 1)) (Fin (4971 / 512)) false true true ((Fin (275 / 512)) :: (Fin (361 / 512)) :: (Fin (1171 / 512)) :: (Fin (90905 / 512)) :: (Fin (1775 / 512)) :: (Fin (94027 / 1024)) :: nil)) (10 / 1).
Proof. apply (A21_rio_fin _ (2779044099589105 / 1125899906842624)); [reflexivity | apply (A21_q_lo 2779044099589105 1125899906842624 10 1); [vm_compute; reflexivity | unfold fr, ctol, A21_lo, A21_c, A21_e; interval with (i_prec 80)]]. Qed.
Lemma r_A21_824 : rio_reads A21_c A21_e A21_lo A21_hi floor_volts ctol (Build_rio (Fin (8131768584135921 / 9223372036854775808)) NInf (Fin (3715469692580659 / 1125899906842624)) (Fin (1009 / 256)) (Fin (3841 / 512)) true true false ((Fin (2941 / 1024)) :: (Fin (15 / 8)) :: (Fin (525 / 512)) :: (Fin (127977 / 1024)) :: (Fin (2117 / 512)) :: (Fin (22815 / 512)) :: nil)) (80 / 1).
Proof. apply (A21_rio_fin _ (8131768584135921 / 9223372036854775808)); [reflexivity | apply (A21_q_hi 8131768584135921 9223372036854775808 80 1); [vm_compute; reflexivity | unfold fr, ctol, A21_hi, A21_c, A21_e; interval with (i_prec 80)]]. Qed.
Lemma r_A21_844 : rio_reads A21_c A21_e A21_lo A21_hi floor_volts ctol (Build_rio (Fin (531758860010221 / 4398046511104)) (Fin (2013 / 256)) (Fin (5902958103587057 / 590295810358705651712)) (Fin (185 / 32)) (Fin (6443 / 512)) true true true ((Fin (13 / 256)) :: (Fin (1055 / 1024)) :: (Fin (481 / 512)) :: (Fin (27077 / 256)) :: (Fin (4075 / 512)) :: (Fin (59189 / 1024)) :: nil)) (10 / 1).
Proof. apply (A21_rio_fin _ (531758860010221 / 4398046511104)); [reflexivity | apply (A21_q_lo 531758860010221 4398046511104 10 1); [vm_compute; reflexivity | unfold fr, ctol, A21_lo, A21_c, A21_e; interval with (i_prec 80)]]. Qed.
Lemma d_A21_674u : close ctol (2031904784704105 / 2251799813685248) (volts_A21 (30 / 1)).
Proof. apply (A21_q_volts_mid 30 1 2031904784704105 2251799813685248); [vm_compute; reflexivity | unfold fr, close, ctol, A21_lo, A21_hi, A21_c, A21_e; interval with (i_prec 80)]. Qed.
Lemma d_A21_682u : close ctol (7167331307107829 / 9007199254740992) (volts_A21 (35 / 1)).
Proof. apply (A21_q_volts_mid 35 1 7167331307107829 9007199254740992); [vm_compute; reflexivity | unfold fr, close, ctol, A21_lo, A21_hi, A21_c, A21_e; interval with (i_prec 80)]. Qed.
Lemma d_A21_690u : close ctol (2489100355631953 / 1125899906842624) (volts_A21 ((-100000000000000001097906362944045541740492309677311846336810682903157585404911491537163328978494688899061249669721172515611590283743140088328307009198146046031271664502933027185697489699588559043338384466165001178426897626212945177628091195786707458122783970171784415105291802893207873272974885715430223118336) / 1)).
Proof. apply (A21_q_volts_lo (-100000000000000001097906362944045541740492309677311846336810682903157585404911491537163328978494688899061249669721172515611590283743140088328307009198146046031271664502933027185697489699588559043338384466165001178426897626212945177628091195786707458122783970171784415105291802893207873272974885715430223118336) 1 2489100355631953 1125899906842624); [vm_compute; reflexivity | unfold fr, close, ctol, A21_lo, A21_hi, A21_c, A21_e; interval with (i_prec 80)]. Qed.
Lemma d_A21_698u : close ctol (2031904784704105 / 2251799813685248) (volts_A21 (30 / 1)).
Proof. apply (A21_q_volts_mid 30 1 2031904784704105 2251799813685248); [vm_compute; reflexivity | unfold fr, close, ctol, A21_lo, A21_hi, A21_c, A21_e; interval with (i_prec 80)]. Qed.
Lemma d_A21_706u : close ctol (7303775102731699 / 18014398509481984) (volts_A21 (179769313486231570814527423731704356798070567525844996598917476803157260780028538760589558632766878171540458953514382464234321326889464182768467546703537516986049910576551282076245490090389328944075868508455133942304583236903222948165808559332123348274797826204144723168738177180919299881250404026184124858368 / 1)).
Proof. apply (A21_q_volts_hi 179769313486231570814527423731704356798070567525844996598917476803157260780028538760589558632766878171540458953514382464234321326889464182768467546703537516986049910576551282076245490090389328944075868508455133942304583236903222948165808559332123348274797826204144723168738177180919299881250404026184124858368 1 7303775102731699 18014398509481984); [vm_compute; reflexivity | unfold fr, close, ctol, A21_lo, A21_hi, A21_c, A21_e; interval with (i_prec 80)]. Qed.
Lemma d_A21_714u : close ctol (7303775102731699 / 18014398509481984) (volts_A21 (5629499534213121 / 70368744177664)).
Proof. apply (A21_q_volts_hi 5629499534213121 70368744177664 7303775102731699 18014398509481984); [vm_compute; reflexivity | unfold fr, close, ctol, A21_lo, A21_hi, A21_c, A21_e; interval with (i_prec 80)]. Qed.
Lemma d_A21_722u : close ctol (1151463100580199 / 562949953421312) (volts_A21 (11 / 1)).
Proof. apply (A21_q_volts_mid 11 1 1151463100580199 562949953421312); [vm_compute; reflexivity | unfold fr, close, ctol, A21_lo, A21_hi, A21_c, A21_e; interval with (i_prec 80)]. Qed.
Lemma d_A21_733u : close ctol (2489100355631953 / 1125899906842624) (volts_A21 ((-41772812889819) / 140737488355328)).
Proof. apply (A21_q_volts_lo (-41772812889819) 140737488355328 2489100355631953 1125899906842624); [vm_compute; reflexivity | unfold fr, close, ctol, A21_lo, A21_hi, A21_c, A21_e; interval with (i_prec 80)]. Qed.
Lemma d_A21_746u : close ctol (8254797223051485 / 18014398509481984) (volts_A21 (4845034034712211 / 70368744177664)).
Proof. apply (A21_q_volts_mid 4845034034712211 70368744177664 8254797223051485 18014398509481984); [vm_compute; reflexivity | unfold fr, close, ctol, A21_lo, A21_hi, A21_c, A21_e; interval with (i_prec 80)]. Qed.
Lemma d_A21_759u : close ctol (2489100355631953 / 1125899906842624) (volts_A21 (6 / 1)).
Proof. apply (A21_q_volts_lo 6 1 2489100355631953 1125899906842624); [vm_compute; reflexivity | unfold fr, close, ctol, A21_lo, A21_hi, A21_c, A21_e; interval with (i_prec 80)]. Qed.
Lemma d_A21_772u : close ctol (7303775102731699 / 18014398509481984) (volts_A21 (140 / 1)).
Proof. apply (A21_q_volts_hi 140 1 7303775102731699 18014398509481984); [vm_compute; reflexivity | unfold fr, close, ctol, A21_lo, A21_hi, A21_c, A21_e; interval with (i_prec 80)]. Qed.
Lemma d_A21_784r : rio_reads A21_c A21_e A21_lo A21_hi floor_volts ctol (Build_rio (Fin (2489100355631953 / 1125899906842624)) (Fin (159 / 32)) (Fin (367 / 128)) (Fin (5902958103587057 / 590295810358705651712)) (Fin (5051 / 512)) true true true ((Fin (1157 / 1024)) :: (Fin (253 / 1024)) :: (Fin (2921 / 1024)) :: (Fin (9845 / 1024)) :: (Fin (5551 / 1024)) :: (Fin (83153 / 1024)) :: nil)) (10 / 1).
Proof. apply (A21_rio_fin _ (2489100355631953 / 1125899906842624)); [reflexivity | apply (A21_q_lo 2489100355631953 1125899906842624 10 1); [vm_compute; reflexivity | unfold fr, ctol, A21_lo, A21_c, A21_e; interval with (i_prec 80)]]. Qed.
Lemma d_A21_797u : close ctol (4160689484399713 / 9007199254740992) (volts_A21 (4797549353994125 / 70368744177664)).
Proof. apply (A21_q_volts_mid 4797549353994125 70368744177664 4160689484399713 9007199254740992); [vm_compute; reflexivity | unfold fr, close, ctol, A21_lo, A21_hi, A21_c, A21_e; interval with (i_prec 80)]. Qed.
Lemma d_A21_810u : close ctol (7303775102731699 / 18014398509481984) (volts_A21 (613150133857673 / 4398046511104)).
Proof. apply (A21_q_volts_hi 613150133857673 4398046511104 7303775102731699 18014398509481984); [vm_compute; reflexivity | unfold fr, close, ctol, A21_lo, A21_hi, A21_c, A21_e; interval with (i_prec 80)]. Qed.
Lemma d_A21_823u : close ctol (7303775102731699 / 18014398509481984) (volts_A21 (7390552497387407 / 35184372088832)).
Proof. apply (A21_q_volts_hi 7390552497387407 35184372088832 7303775102731699 18014398509481984); [vm_compute; reflexivity | unfold fr, close, ctol, A21_lo, A21_hi, A21_c, A21_e; interval with (i_prec 80)]. Qed.
Lemma d_A21_836u : close ctol (2489100355631953 / 1125899906842624) (volts_A21 (8 / 1)).
Proof. apply (A21_q_volts_lo 8 1 2489100355631953 1125899906842624); [vm_compute; reflexivity | unfold fr, close, ctol, A21_lo, A21_hi, A21_c, A21_e; interval with (i_prec 80)]. Qed.
Lemma d_A21_848r : rio_reads A21_c A21_e A21_lo A21_hi floor_volts ctol (Build_rio (Fin (2489100355631953 / 1125899906842624)) (Fin (5902958103587057 / 590295810358705651712)) (Fin (0 / 1)) (Fin (3117 / 512)) (Fin (12293 / 1024)) false true false ((Fin (653 / 512)) :: (Fin (1491 / 1024)) :: (Fin (699 / 256)) :: (Fin (127959 / 1024)) :: (Fin (5439 / 1024)) :: (Fin (675 / 16)) :: nil)) (10 / 1).
Proof. apply (A21_rio_fin _ (2489100355631953 / 1125899906842624)); [reflexivity | apply (A21_q_lo 2489100355631953 1125899906842624 10 1); [vm_compute; reflexivity | unfold fr, ctol, A21_lo, A21_c, A21_e; interval with (i_prec 80)]]. Qed.
Lemma d_A21_861u : close ctol (7303775102731699 / 18014398509481984) (volts_A21 (150 / 1)).
Proof. apply (A21_q_volts_hi 150 1 7303775102731699 18014398509481984); [vm_compute; reflexivity | unfold fr, close, ctol, A21_lo, A21_hi, A21_c, A21_e; interval with (i_prec 80)]. Qed.
Lemma d_A21_874u : close ctol (981580316734741 / 1125899906842624) (volts_A21 (8808190555392571 / 281474976710656)).
Proof. apply (A21_q_volts_mid 8808190555392571 281474976710656 981580316734741 1125899906842624); [vm_compute; reflexivity | unfold fr, close, ctol, A21_lo, A21_hi, A21_c, A21_e; interval with (i_prec 80)]. Qed.
Lemma d_A21_887u : close ctol (148578323019521 / 281474976710656) (volts_A21 (8147321480414195 / 140737488355328)).
Proof. apply (A21_q_volts_mid 8147321480414195 140737488355328 148578323019521 281474976710656); [vm_compute; reflexivity | unfold fr, close, ctol, A21_lo, A21_hi, A21_c, A21_e; interval with (i_prec 80)]. Qed.
Lemma d_A21_900u : close ctol (6528892311847439 / 9007199254740992) (volts_A21 (1380679530396737 / 35184372088832)).
Proof. apply (A21_q_volts_mid 1380679530396737 35184372088832 6528892311847439 9007199254740992); [vm_compute; reflexivity | unfold fr, close, ctol, A21_lo, A21_hi, A21_c, A21_e; interval with (i_prec 80)]. Qed.
Lemma d_A21_912r : rio_reads A21_c A21_e A21_lo A21_hi floor_volts ctol (Build_rio (Fin (1079732650940125 / 2251799813685248)) (Fin (4475 / 1024)) (Fin (7257 / 1024)) (Fin (2479 / 512)) (Fin (5967 / 512)) true true true ((Fin (575 / 512)) :: (Fin (159 / 512)) :: (Fin (245 / 128)) :: (Fin (39075 / 512)) :: (Fin (779 / 128)) :: (Fin (82281 / 1024)) :: nil)) (4582947291613791 / 70368744177664).
Proof. apply (A21_rio_fin _ (1079732650940125 / 2251799813685248)); [reflexivity | apply (A21_q_mid 1079732650940125 2251799813685248 4582947291613791 70368744177664); [vm_compute; reflexivity | unfold fr, close, ctol, A21_c, A21_e; interval with (i_prec 80)]]. Qed.
Lemma d_A21_925u : close ctol (4277350566542211 / 2251799813685248) (volts_A21 (3390238068545955 / 281474976710656)).
Proof. apply (A21_q_volts_mid 3390238068545955 281474976710656 4277350566542211 2251799813685248); [vm_compute; reflexivity | unfold fr, close, ctol, A21_lo, A21_hi, A21_c, A21_e; interval with (i_prec 80)]. Qed.
Lemma d_A21_938u : close ctol (7489853993206595 / 18014398509481984) (volts_A21 (5458515664370013 / 70368744177664)).
Proof. apply (A21_q_volts_mid 5458515664370013 70368744177664 7489853993206595 18014398509481984); [vm_compute; reflexivity | unfold fr, close, ctol, A21_lo, A21_hi, A21_c, A21_e; interval with (i_prec 80)]. Qed.
Lemma d_A21_951u : close ctol (7303775102731699 / 18014398509481984) (volts_A21 (7734684465988801 / 70368744177664)).
Proof. apply (A21_q_volts_hi 7734684465988801 70368744177664 7303775102731699 18014398509481984); [vm_compute; reflexivity | unfold fr, close, ctol, A21_lo, A21_hi, A21_c, A21_e; interval with (i_prec 80)]. Qed.
Lemma d_A21_964u : close ctol (2245681610659155 / 4503599627370496) (volts_A21 (4368179423513013 / 70368744177664)).
Proof. apply (A21_q_volts_mid 4368179423513013 70368744177664 2245681610659155 4503599627370496); [vm_compute; reflexivity | unfold fr, close, ctol, A21_lo, A21_hi, A21_c, A21_e; interval with (i_prec 80)]. Qed.
Lemma d_A21_976r : rio_reads A21_c A21_e A21_lo A21_hi floor_volts ctol (Build_rio (Fin (6136137759480309 / 9007199254740992)) (Fin (100000000000000001097906362944045541740492309677311846336810682903157585404911491537163328978494688899061249669721172515611590283743140088328307009198146046031271664502933027185697489699588559043338384466165001178426897626212945177628091195786707458122783970171784415105291802893207873272974885715430223118336 / 1)) (Fin (3357 / 1024)) (Fin (837 / 128)) (Fin (3331 / 256)) false true true ((Fin (585 / 1024)) :: (Fin (1837 / 1024)) :: (Fin (601 / 512)) :: (Fin (131835 / 1024)) :: (Fin (5871 / 1024)) :: (Fin (5677 / 64)) :: nil)) (5959182926959265 / 140737488355328).
Proof. apply (A21_rio_fin _ (6136137759480309 / 9007199254740992)); [reflexivity | apply (A21_q_mid 6136137759480309 9007199254740992 5959182926959265 140737488355328); [vm_compute; reflexivity | unfold fr, close, ctol, A21_c, A21_e; interval with (i_prec 80)]]. Qed.
Lemma d_A21_989u : close ctol (912310247829587 / 1125899906842624) (volts_A21 (301094646713363 / 8796093022208)).
Proof. apply (A21_q_volts_mid 301094646713363 8796093022208 912310247829587 1125899906842624); [vm_compute; reflexivity | unfold fr, close, ctol, A21_lo, A21_hi, A21_c, A21_e; interval with (i_prec 80)]. Qed.
Lemma d_A21_1002u : close ctol (8468680772198293 / 18014398509481984) (volts_A21 (1173861270477303 / 17592186044416)).
Proof. apply (A21_q_volts_mid 1173861270477303 17592186044416 8468680772198293 18014398509481984); [vm_compute; reflexivity | unfold fr, close, ctol, A21_lo, A21_hi, A21_c, A21_e; interval with (i_prec 80)]. Qed.
Lemma d_A21_1015u : close ctol (3202893763718593 / 4503599627370496) (volts_A21 (1413279952675363 / 35184372088832)).
Proof. apply (A21_q_volts_mid 1413279952675363 35184372088832 3202893763718593 4503599627370496); [vm_compute; reflexivity | unfold fr, close, ctol, A21_lo, A21_hi, A21_c, A21_e; interval with (i_prec 80)]. Qed.
Lemma d_A21_1028u : close ctol (4482892889259921 / 9007199254740992) (volts_A21 (1094575119042667 / 17592186044416)).
Proof. apply (A21_q_volts_mid 1094575119042667 17592186044416 4482892889259921 9007199254740992); [vm_compute; reflexivity | unfold fr, close, ctol, A21_lo, A21_hi, A21_c, A21_e; interval with (i_prec 80)]. Qed.
Lemma d_A21_1040r : rio_reads A21_c A21_e A21_lo A21_hi floor_volts ctol (Build_rio (Fin (1895154168156535 / 2251799813685248)) (Fin (3263 / 512)) (Fin (3715469692580659 / 1125899906842624)) (Fin (0 / 1)) (Fin (11133 / 1024)) true true true ((Fin (1215 / 512)) :: (Fin (1171 / 1024)) :: (Fin (1439 / 512)) :: (Fin (92343 / 1024)) :: (Fin (2045 / 512)) :: (Fin ((-14651) / 1024)) :: nil)) (1149657185912693 / 35184372088832).
Proof. apply (A21_rio_fin _ (1895154168156535 / 2251799813685248)); [reflexivity | apply (A21_q_mid 1895154168156535 2251799813685248 1149657185912693 35184372088832); [vm_compute; reflexivity | unfold fr, close, ctol, A21_c, A21_e; interval with (i_prec 80)]]. Qed.
Lemma d_A21_1053u : close ctol (8136467497130559 / 18014398509481984) (volts_A21 (2465780924458773 / 35184372088832)).
Proof. apply (A21_q_volts_mid 2465780924458773 35184372088832 8136467497130559 18014398509481984); [vm_compute; reflexivity | unfold fr, close, ctol, A21_lo, A21_hi, A21_c, A21_e; interval with (i_prec 80)]. Qed.
Lemma d_A21_1066u : close ctol (2489100355631953 / 1125899906842624) (volts_A21 (1734798427717955 / 562949953421312)).
Proof. apply (A21_q_volts_lo 1734798427717955 562949953421312 2489100355631953 1125899906842624); [vm_compute; reflexivity | unfold fr, close, ctol, A21_lo, A21_hi, A21_c, A21_e; interval with (i_prec 80)]. Qed.
Lemma d_A21_1079u : close ctol (1065462824805433 / 562949953421312) (volts_A21 (1702680079177857 / 140737488355328)).
Proof. apply (A21_q_volts_mid 1702680079177857 140737488355328 1065462824805433 562949953421312); [vm_compute; reflexivity | unfold fr, close, ctol, A21_lo, A21_hi, A21_c, A21_e; interval with (i_prec 80)]. Qed.
Lemma d_A21_1092u : close ctol (8199088008737583 / 18014398509481984) (volts_A21 (4885424747973769 / 70368744177664)).
Proof. apply (A21_q_volts_mid 4885424747973769 70368744177664 8199088008737583 18014398509481984); [vm_compute; reflexivity | unfold fr, close, ctol, A21_lo, A21_hi, A21_c, A21_e; interval with (i_prec 80)]. Qed.
Lemma d_A21_1104r : rio_reads A21_c A21_e A21_lo A21_hi floor_volts ctol (Build_rio (Fin (7325557112830051 / 9007199254740992)) (Fin (4389 / 1024)) (Fin (99 / 32)) (Fin (6207 / 1024)) (Fin (0 / 1)) true true true ((Fin (2283 / 1024)) :: (Fin (181 / 256)) :: (Fin (391 / 1024)) :: (Fin (41967 / 256)) :: (Fin (3909 / 1024)) :: (Fin (18245 / 512)) :: nil)) (2397846996773647 / 70368744177664).
Proof. apply (A21_rio_fin _ (7325557112830051 / 9007199254740992)); [reflexivity | apply (A21_q_mid 7325557112830051 9007199254740992 2397846996773647 70368744177664); [vm_compute; reflexivity | unfold fr, close, ctol, A21_c, A21_e; interval with (i_prec 80)]]. Qed.
Lemma d_A21_1117u : close ctol (7367547570460025 / 9007199254740992) (volts_A21 (2381102989813211 / 70368744177664)).
Proof. apply (A21_q_volts_mid 2381102989813211 70368744177664 7367547570460025 9007199254740992); [vm_compute; reflexivity | unfold fr, close, ctol, A21_lo, A21_hi, A21_c, A21_e; interval with (i_prec 80)]. Qed.
Lemma d_A21_1130u : close ctol (2489100355631953 / 1125899906842624) (volts_A21 ((-7874144502292349) / 2251799813685248)).
Proof. apply (A21_q_volts_lo (-7874144502292349) 2251799813685248 2489100355631953 1125899906842624); [vm_compute; reflexivity | unfold fr, close, ctol, A21_lo, A21_hi, A21_c, A21_e; interval with (i_prec 80)]. Qed.
Lemma d_A21_1143u : close ctol (2489100355631953 / 1125899906842624) (volts_A21 (4371398809267291 / 4503599627370496)).
Proof. apply (A21_q_volts_lo 4371398809267291 4503599627370496 2489100355631953 1125899906842624); [vm_compute; reflexivity | unfold fr, close, ctol, A21_lo, A21_hi, A21_c, A21_e; interval with (i_prec 80)]. Qed.
Lemma d_A21_1156u : close ctol (7438060393138797 / 9007199254740992) (volts_A21 (2353458382616447 / 70368744177664)).
Proof. apply (A21_q_volts_mid 2353458382616447 70368744177664 7438060393138797 9007199254740992); [vm_compute; reflexivity | unfold fr, close, ctol, A21_lo, A21_hi, A21_c, A21_e; interval with (i_prec 80)]. Qed.
Lemma d_A21_1168r : rio_reads A21_c A21_e A21_lo A21_hi floor_volts ctol (Build_rio (Fin (4167451146443283 / 4503599627370496)) (Fin (1 / 1)) (Fin (7143 / 512)) (Fin (5721 / 1024)) (Fin (11163 / 1024)) true true false ((Fin (85 / 256)) :: (Fin (1735 / 1024)) :: (Fin (2843 / 1024)) :: (Fin (53671 / 512)) :: (Fin (791 / 256)) :: (Fin (10833 / 1024)) :: nil)) (8187514415670299 / 281474976710656).
Proof. apply (A21_rio_fin _ (4167451146443283 / 4503599627370496)); [reflexivity | apply (A21_q_mid 4167451146443283 4503599627370496 8187514415670299 281474976710656); [vm_compute; reflexivity | unfold fr, close, ctol, A21_c, A21_e; interval with (i_prec 80)]]. Qed.
Lemma d_A21_1181u : close ctol (7133118159137075 / 9007199254740992) (volts_A21 (2477396666030329 / 70368744177664)).
Proof. apply (A21_q_volts_mid 2477396666030329 70368744177664 7133118159137075 9007199254740992); [vm_compute; reflexivity | unfold fr, close, ctol, A21_lo, A21_hi, A21_c, A21_e; interval with (i_prec 80)]. Qed.
Lemma d_A21_1194u : close ctol (8465865958489289 / 18014398509481984) (volts_A21 (2348679584778141 / 35184372088832)).
Proof. apply (A21_q_volts_mid 2348679584778141 35184372088832 8465865958489289 18014398509481984); [vm_compute; reflexivity | unfold fr, close, ctol, A21_lo, A21_hi, A21_c, A21_e; interval with (i_prec 80)]. Qed.
Lemma d_A21_1207u : close ctol (5502456731490195 / 9007199254740992) (volts_A21 (1702800165831977 / 35184372088832)).
Proof. apply (A21_q_volts_mid 1702800165831977 35184372088832 5502456731490195 9007199254740992); [vm_compute; reflexivity | unfold fr, close, ctol, A21_lo, A21_hi, A21_c, A21_e; interval with (i_prec 80)]. Qed.
Lemma d_A21_1220u : close ctol (6057258843081819 / 9007199254740992) (volts_A21 (6054462205002525 / 140737488355328)).
Proof. apply (A21_q_volts_mid 6054462205002525 140737488355328 6057258843081819 9007199254740992); [vm_compute; reflexivity | unfold fr, close, ctol, A21_lo, A21_hi, A21_c, A21_e; interval with (i_prec 80)]. Qed.
Lemma d_A21_1232r : rio_reads A21_c A21_e A21_lo A21_hi floor_volts ctol (Build_rio (Fin (4829404264847699 / 4503599627370496)) (Fin (5013 / 1024)) (Fin (3715469692580659 / 1125899906842624)) (Fin (6543 / 1024)) (Fin (10365 / 1024)) false false true ((Fin (2843 / 1024)) :: (Fin (803 / 512)) :: (Fin (1733 / 1024)) :: (Fin (125997 / 1024)) :: (Fin (2403 / 512)) :: (Fin (97135 / 1024)) :: nil)) (3416880814166255 / 140737488355328).
Proof. apply (A21_rio_fin _ (4829404264847699 / 4503599627370496)); [reflexivity | apply (A21_q_mid 4829404264847699 4503599627370496 3416880814166255 140737488355328); [vm_compute; reflexivity | unfold fr, close, ctol, A21_c, A21_e; interval with (i_prec 80)]]. Qed.
Lemma d_A21_1245u : close ctol (1419746005784993 / 2251799813685248) (volts_A21 (3276274656305397 / 70368744177664)).
Proof. apply (A21_q_volts_mid 3276274656305397 70368744177664 1419746005784993 2251799813685248); [vm_compute; reflexivity | unfold fr, close, ctol, A21_lo, A21_hi, A21_c, A21_e; interval with (i_prec 80)]. Qed.
Lemma d_A21_1258u : close ctol (8834530542843549 / 4503599627370496) (volts_A21 (6518120507776319 / 562949953421312)).
Proof. apply (A21_q_volts_mid 6518120507776319 562949953421312 8834530542843549 4503599627370496); [vm_compute; reflexivity | unfold fr, close, ctol, A21_lo, A21_hi, A21_c, A21_e; interval with (i_prec 80)]. Qed.
Lemma d_A21_1271u : close ctol (7303775102731699 / 18014398509481984) (volts_A21 (7538465393658539 / 35184372088832)).
Proof. apply (A21_q_volts_hi 7538465393658539 35184372088832 7303775102731699 18014398509481984); [vm_compute; reflexivity | unfold fr, close, ctol, A21_lo, A21_hi, A21_c, A21_e; interval with (i_prec 80)]. Qed.
Lemma d_A21_1284u : close ctol (7303775102731699 / 18014398509481984) (volts_A21 (2202643217220315 / 17592186044416)).
Proof. apply (A21_q_volts_hi 2202643217220315 17592186044416 7303775102731699 18014398509481984); [vm_compute; reflexivity | unfold fr, close, ctol, A21_lo, A21_hi, A21_c, A21_e; interval with (i_prec 80)]. Qed.
Lemma d_A21_1296r : rio_reads A21_c A21_e A21_lo A21_hi floor_volts ctol (Build_rio (Fin (3182185371814683 / 4503599627370496)) (Fin (5033 / 1024)) (Fin (3243 / 1024)) (Fin (6461 / 1024)) (Fin (3385 / 256)) false true true ((Fin (139 / 128)) :: (Fin (931 / 1024)) :: (Fin (3 / 256)) :: (Fin (81431 / 1024)) :: (Fin (1867 / 512)) :: (Fin (38251 / 1024)) :: nil)) (1424563828020111 / 35184372088832).
Proof. apply (A21_rio_fin _ (3182185371814683 / 4503599627370496)); [reflexivity | apply (A21_q_mid 3182185371814683 4503599627370496 1424563828020111 35184372088832); [vm_compute; reflexivity | unfold fr, close, ctol, A21_c, A21_e; interval with (i_prec 80)]]. Qed.
Lemma d_A21_1309u : close ctol (307776000009139 / 281474976710656) (volts_A21 (834058363335471 / 35184372088832)).
Proof. apply (A21_q_volts_mid 834058363335471 35184372088832 307776000009139 281474976710656); [vm_compute; reflexivity | unfold fr, close, ctol, A21_lo, A21_hi, A21_c, A21_e; interval with (i_prec 80)]. Qed.
Lemma d_A21_1322u : close ctol (7303775102731699 / 18014398509481984) (volts_A21 (121 / 1)).
Proof. apply (A21_q_volts_hi 121 1 7303775102731699 18014398509481984); [vm_compute; reflexivity | unfold fr, close, ctol, A21_lo, A21_hi, A21_c, A21_e; interval with (i_prec 80)]. Qed.
Lemma r_A41_850 : rio_reads A41_c A41_e A41_lo A41_hi floor_volts ctol (Build_rio (Fin (8308476880671015 / 18014398509481984)) (Fin (0 / 1)) (Fin (3715469692580659 / 1125899906842624)) (Fin (6 / 1)) (Fin (12 / 1)) false true true ((Fin (0 / 1)) :: (Fin (0 / 1)) :: (Fin (0 / 1)) :: (Fin (0 / 1)) :: (Fin (27 / 4)) :: (Fin (45 / 1)) :: nil)) (7730148460080999 / 281474976710656).
Proof. apply (A41_rio_fin _ (8308476880671015 / 18014398509481984)); [reflexivity | apply (A41_q_mid 8308476880671015 18014398509481984 7730148460080999 281474976710656); [vm_compute; reflexivity | unfold fr, close, ctol, A41_c, A41_e; interval with (i_prec 80)]]. Qed.
Lemma r_A41_881 : rio_reads A41_c A41_e A41_lo A41_hi floor_volts ctol (Build_rio (Fin (1000000 / 1)) (Fin (5 / 1)) (Fin (3715469692580659 / 1125899906842624)) (Fin (6 / 1)) (Fin (5 / 1)) true true true ((Fin (0 / 1)) :: (Fin (0 / 1)) :: (Fin (0 / 1)) :: (Fin (0 / 1)) :: (Fin (27 / 4)) :: (Fin (45 / 1)) :: nil)) (9 / 2).
Proof. apply (A41_rio_fin _ (1000000 / 1)); [reflexivity | apply (A41_q_lo 1000000 1 9 2); [vm_compute; reflexivity | unfold fr, ctol, A41_lo, A41_c, A41_e; interval with (i_prec 80)]]. Qed.
Lemma r_A41_899 : rio_reads A41_c A41_e A41_lo A41_hi floor_volts ctol (Build_rio (Fin (3270209399634249 / 1125899906842624)) (Fin (5 / 1)) (Fin (3715469692580659 / 1125899906842624)) (Fin (6 / 1)) (Fin (12 / 1)) false true true ((Fin (0 / 1)) :: (Fin (0 / 1)) :: (Fin (0 / 1)) :: (Fin (0 / 1)) :: (Fin (27 / 4)) :: (Fin (45 / 1)) :: nil)) (5071531897586879 / 1125899906842624).
Proof. apply (A41_rio_fin _ (3270209399634249 / 1125899906842624)); [reflexivity | apply (A41_q_mid 3270209399634249 1125899906842624 5071531897586879 1125899906842624); [vm_compute; reflexivity | unfold fr, close, ctol, A41_c, A41_e; interval with (i_prec 80)]]. Qed.
Lemma r_A41_915 : rio_reads A41_c A41_e A41_lo A41_hi floor_volts ctol (Build_rio (Fin (5 / 256)) (Fin (4219 / 1024)) (Fin (3715469692580659 / 1125899906842624)) (Fin (2927 / 512)) (Fin (3207 / 256)) true true true ((Fin (861 / 512)) :: (Fin (1607 / 1024)) :: (Fin (1319 / 1024)) :: (Fin (44949 / 512)) :: (Fin (2349 / 512)) :: (Fin (1093 / 64)) :: nil)) (35 / 1).
Proof. apply (A41_rio_fin _ (5 / 256)); [reflexivity | apply (A41_q_hi 5 256 35 1); [vm_compute; reflexivity | unfold fr, ctol, A41_hi, A41_c, A41_e; interval with (i_prec 80)]]. Qed.
Lemma r_A41_931 : rio_reads A41_c A41_e A41_lo A41_hi floor_volts ctol (Build_rio (Fin (85 / 256)) (Fin (5 / 1)) (Fin (3715469692580659 / 1125899906842624)) (Fin (6 / 1)) (Fin (12 / 1)) true true true ((Fin (0 / 1)) :: (Fin (0 / 1)) :: (Fin (0 / 1)) :: (Fin (0 / 1)) :: (Fin (27 / 4)) :: (Fin (45 / 1)) :: nil)) (35 / 1).
Proof. apply (A41_rio_fin _ (85 / 256)); [reflexivity | apply (A41_q_hi 85 256 35 1); [vm_compute; reflexivity | unfold fr, ctol, A41_hi, A41_c, A41_e; interval with (i_prec 80)]]. Qed.
Lemma r_A41_947 : rio_reads A41_c A41_e A41_lo A41_hi floor_volts ctol (Build_rio (Fin (165 / 256)) (Fin (2347 / 512)) (Fin (2843 / 1024)) (Fin (1599 / 256)) (Fin (11755 / 1024)) true false false ((Fin (53 / 1024)) :: (Fin (399 / 256)) :: (Fin (1035 / 512)) :: (Fin (10111 / 1024)) :: (Fin (3279 / 512)) :: (Fin (31845 / 1024)) :: nil)) (5564210234504385 / 281474976710656).
Proof. apply (A41_rio_fin _ (165 / 256)); [reflexivity | apply (A41_q_mid 165 256 5564210234504385 281474976710656); [vm_compute; reflexivity | unfold fr, close, ctol, A41_c, A41_e; interval with (i_prec 80)]]. Qed.
Lemma r_A41_963 : rio_reads A41_c A41_e A41_lo A41_hi floor_volts ctol (Build_rio (Fin (245 / 256)) (Fin (5147 / 1024)) (Fin (1651 / 512)) (Fin (7671 / 512)) (Fin (1419 / 256)) true true true ((Fin (1267 / 512)) :: (Fin (387 / 256)) :: (Fin (1273 / 1024)) :: (Fin (11757 / 64)) :: (Fin (8255 / 1024)) :: (Fin (539 / 32)) :: nil)) (7546976399838113 / 562949953421312).
Proof. apply (A41_rio_fin _ (245 / 256)); [reflexivity | apply (A41_q_mid 245 256 7546976399838113 562949953421312); [vm_compute; reflexivity | unfold fr, close, ctol, A41_c, A41_e; interval with (i_prec 80)]]. Qed.
Lemma r_A41_979 : rio_reads A41_c A41_e A41_lo A41_hi floor_volts ctol (Build_rio (Fin (325 / 256)) (Fin (5 / 1)) (Fin (3715469692580659 / 1125899906842624)) (Fin (6 / 1)) (Fin (12 / 1)) true true true ((Fin (0 / 1)) :: (Fin (0 / 1)) :: (Fin (0 / 1)) :: (Fin (0 / 1)) :: (Fin (27 / 4)) :: (Fin (45 / 1)) :: nil)) (1429405826533307 / 140737488355328).
Proof. apply (A41_rio_fin _ (325 / 256)); [reflexivity | apply (A41_q_mid 325 256 1429405826533307 140737488355328); [vm_compute; reflexivity | unfold fr, close, ctol, A41_c, A41_e; interval with (i_prec 80)]]. Qed.
Lemma r_A41_995 : rio_reads A41_c A41_e A41_lo A41_hi floor_volts ctol (Build_rio (Fin (405 / 256)) (Fin (0 / 1)) (Fin (2713 / 1024)) (Fin (14171 / 1024)) (Fin (1555 / 128)) true true true ((Fin (3 / 2)) :: (Fin (171 / 512)) :: (Fin (11 / 128)) :: (Fin (62169 / 512)) :: (Fin (999 / 256)) :: (Fin (75471 / 1024)) :: nil)) (4606021261903389 / 562949953421312).
Proof. apply (A41_rio_fin _ (405 / 256)); [reflexivity | apply (A41_q_mid 405 256 4606021261903389 562949953421312); [vm_compute; reflexivity | unfold fr, close, ctol, A41_c, A41_e; interval with (i_prec 80)]]. Qed.
Lemma r_A41_1011 : rio_reads A41_c A41_e A41_lo A41_hi floor_volts ctol (Build_rio (Fin (485 / 256)) (Fin (5215 / 1024)) (Fin (2895 / 1024)) (Fin (2585 / 512)) (Fin (4211 / 512)) true false true ((Fin (139 / 512)) :: (Fin (1671 / 1024)) :: (Fin (169 / 1024)) :: (Fin (88429 / 1024)) :: (Fin (5153 / 1024)) :: (Fin ((-15299) / 1024)) :: nil)) (60288863237301 / 8796093022208).
Proof. apply (A41_rio_fin _ (485 / 256)); [reflexivity | apply (A41_q_mid 485 256 60288863237301 8796093022208); [vm_compute; reflexivity | unfold fr, close, ctol, A41_c, A41_e; interval with (i_prec 80)]]. Qed.
Lemma r_A41_1027 : rio_reads A41_c A41_e A41_lo A41_hi floor_volts ctol (Build_rio (Fin (565 / 256)) (Fin (5 / 1)) (Fin (3715469692580659 / 1125899906842624)) (Fin (6 / 1)) (Fin (12 / 1)) true true true ((Fin (0 / 1)) :: (Fin (0 / 1)) :: (Fin (0 / 1)) :: (Fin (0 / 1)) :: (Fin (27 / 4)) :: (Fin (45 / 1)) :: nil)) (6642129729970121 / 1125899906842624).
Proof. apply (A41_rio_fin _ (565 / 256)); [reflexivity | apply (A41_q_mid 565 256 6642129729970121 1125899906842624); [vm_compute; reflexivity | unfold fr, close, ctol, A41_c, A41_e; interval with (i_prec 80)]]. Qed.
Lemma r_A41_1043 : rio_reads A41_c A41_e A41_lo A41_hi floor_volts ctol (Build_rio (Fin (645 / 256)) (Fin (4857 / 1024)) (Fin (25 / 8)) (Fin (3023 / 512)) (Fin (12971 / 1024)) true false true ((Fin (2707 / 1024)) :: (Fin (159 / 128)) :: (Fin (2789 / 1024)) :: (Fin (1789 / 1024)) :: (Fin (5637 / 1024)) :: (Fin (56139 / 1024)) :: nil)) (5831876053113091 / 1125899906842624).
Proof. apply (A41_rio_fin _ (645 / 256)); [reflexivity | apply (A41_q_mid 645 256 5831876053113091 1125899906842624); [vm_compute; reflexivity | unfold fr, close, ctol, A41_c, A41_e; interval with (i_prec 80)]]. Qed.
Lemma r_A41_1059 : rio_reads A41_c A41_e A41_lo A41_hi floor_volts ctol (Build_rio (Fin (725 / 256)) (Fin (1 / 1)) (Fin (3061 / 1024)) NInf (Fin (2851 / 256)) true true true ((Fin (699 / 1024)) :: (Fin (1583 / 1024)) :: (Fin (2223 / 1024)) :: (Fin (85595 / 1024)) :: (Fin (1367 / 256)) :: (Fin (51761 / 1024)) :: nil)) (81235099587399 / 17592186044416).
Proof. apply (A41_rio_fin _ (725 / 256)); [reflexivity | apply (A41_q_mid 725 256 81235099587399 17592186044416); [vm_compute; reflexivity | unfold fr, close, ctol, A41_c, A41_e; interval with (i_prec 80)]]. Qed.
Lemma r_A41_1075 : rio_reads A41_c A41_e A41_lo A41_hi floor_volts ctol (Build_rio (Fin (405 / 128)) (Fin (5 / 1)) (Fin (3715469692580659 / 1125899906842624)) (Fin (6 / 1)) (Fin (12 / 1)) true true true ((Fin (0 / 1)) :: (Fin (0 / 1)) :: (Fin (0 / 1)) :: (Fin (0 / 1)) :: (Fin (27 / 4)) :: (Fin (45 / 1)) :: nil)) (9 / 2).
Proof. apply (A41_rio_fin _ (405 / 128)); [reflexivity | apply (A41_q_lo 405 128 9 2); [vm_compute; reflexivity | unfold fr, ctol, A41_lo, A41_c, A41_e; interval with (i_prec 80)]]. Qed.
Lemma r_A41_1091 : rio_reads A41_c A41_e A41_lo A41_hi floor_volts ctol (Build_rio (Fin (445 / 128)) (Fin (0 / 1)) (Fin (1623 / 512)) (Fin (6561 / 1024)) (Fin (100000000000000001097906362944045541740492309677311846336810682903157585404911491537163328978494688899061249669721172515611590283743140088328307009198146046031271664502933027185697489699588559043338384466165001178426897626212945177628091195786707458122783970171784415105291802893207873272974885715430223118336 / 1)) true true true ((Fin (17 / 256)) :: (Fin (951 / 512)) :: (Fin (1269 / 1024)) :: (Fin (63937 / 512)) :: (Fin (4255 / 512)) :: (Fin ((-8499) / 512)) :: nil)) (9 / 2).
Proof. apply (A41_rio_fin _ (445 / 128)); [reflexivity | apply (A41_q_lo 445 128 9 2); [vm_compute; reflexivity | unfold fr, ctol, A41_lo, A41_c, A41_e; interval with (i_prec 80)]]. Qed.
Lemma r_A41_1107 : rio_reads A41_c A41_e A41_lo A41_hi floor_volts ctol (Build_rio (Fin (485 / 128)) PInf (Fin (2977 / 1024)) (Fin (1463 / 128)) (Fin (2961 / 256)) true true true ((Fin (2065 / 1024)) :: (Fin (709 / 1024)) :: (Fin (535 / 256)) :: (Fin (33195 / 256)) :: (Fin (8765 / 1024)) :: (Fin (7549 / 512)) :: nil)) (9 / 2).
Proof. apply (A41_rio_fin _ (485 / 128)); [reflexivity | apply (A41_q_lo 485 128 9 2); [vm_compute; reflexivity | unfold fr, ctol, A41_lo, A41_c, A41_e; interval with (i_prec 80)]]. Qed.
Lemma r_A41_1123 : rio_reads A41_c A41_e A41_lo A41_hi floor_volts ctol (Build_rio (Fin (525 / 128)) (Fin (5 / 1)) (Fin (3715469692580659 / 1125899906842624)) (Fin (6 / 1)) (Fin (12 / 1)) true true true ((Fin (0 / 1)) :: (Fin (0 / 1)) :: (Fin (0 / 1)) :: (Fin (0 / 1)) :: (Fin (27 / 4)) :: (Fin (45 / 1)) :: nil)) (9 / 2).
Proof. apply (A41_rio_fin _ (525 / 128)); [reflexivity | apply (A41_q_lo 525 128 9 2); [vm_compute; reflexivity | unfold fr, ctol, A41_lo, A41_c, A41_e; interval with (i_prec 80)]]. Qed.
Lemma r_A41_1139 : rio_reads A41_c A41_e A41_lo A41_hi floor_volts ctol (Build_rio (Fin (565 / 128)) (Fin (100000000000000001097906362944045541740492309677311846336810682903157585404911491537163328978494688899061249669721172515611590283743140088328307009198146046031271664502933027185697489699588559043338384466165001178426897626212945177628091195786707458122783970171784415105291802893207873272974885715430223118336 / 1)) (Fin (3169 / 1024)) (Fin (1669 / 256)) (Fin (6161 / 512)) true true true ((Fin (1087 / 1024)) :: (Fin (469 / 512)) :: (Fin (1577 / 1024)) :: (Fin (10695 / 512)) :: (Fin (9049 / 1024)) :: (Fin (6309 / 256)) :: nil)) (9 / 2).
Proof. apply (A41_rio_fin _ (565 / 128)); [reflexivity | apply (A41_q_lo 565 128 9 2); [vm_compute; reflexivity | unfold fr, ctol, A41_lo, A41_c, A41_e; interval with (i_prec 80)]]. Qed.
Lemma r_A41_1155 : rio_reads A41_c A41_e A41_lo A41_hi floor_volts ctol (Build_rio (Fin (605 / 128)) (Fin (943 / 512)) (Fin (0 / 1)) (Fin (0 / 1)) (Fin (225 / 64)) true false false ((Fin (1787 / 1024)) :: (Fin (783 / 1024)) :: (Fin (923 / 1024)) :: (Fin (200115 / 1024)) :: (Fin (2767 / 512)) :: (Fin ((-12503) / 1024)) :: nil)) (9 / 2).
Proof. apply (A41_rio_fin _ (605 / 128)); [reflexivity | apply (A41_q_lo 605 128 9 2); [vm_compute; reflexivity | unfold fr, ctol, A41_lo, A41_c, A41_e; interval with (i_prec 80)]]. Qed.
Lemma r_A41_1171 : rio_reads A41_c A41_e A41_lo A41_hi floor_volts ctol (Build_rio (Fin (3949683714390539 / 2251799813685248)) (Fin (5 / 1)) (Fin (3715469692580659 / 1125899906842624)) (Fin (6 / 1)) (Fin (12 / 1)) true true true ((Fin (0 / 1)) :: (Fin (0 / 1)) :: (Fin (0 / 1)) :: (Fin (0 / 1)) :: (Fin (27 / 4)) :: (Fin (45 / 1)) :: nil)) (8323907381051471 / 1125899906842624).
Proof. apply (A41_rio_fin _ (3949683714390539 / 2251799813685248)); [reflexivity | apply (A41_q_mid 3949683714390539 2251799813685248 8323907381051471 1125899906842624); [vm_compute; reflexivity | unfold fr, close, ctol, A41_c, A41_e; interval with (i_prec 80)]]. Qed.
Lemma r_A41_1187 : rio_reads A41_c A41_e A41_lo A41_hi floor_volts ctol (Build_rio (Fin (3761901475992171 / 1125899906842624)) (Fin (5119 / 1024)) (Fin (1 / 202402253307310618352495346718917307049556649764142118356901358027430339567995346891960383701437124495187077864316811911389808737385793476867013399940738509921517424276566361364466907742093216341239767678472745068562007483424692698618103355649159556340810056512358769552333414615230502532186327508646006263307707741093494784)) (Fin (2651 / 512)) (Fin (1815 / 128)) true true true ((Fin (1463 / 1024)) :: (Fin (1013 / 1024)) :: (Fin (51 / 256)) :: (Fin (4647 / 128)) :: (Fin (5827 / 1024)) :: (Fin (34547 / 1024)) :: nil)) (9 / 2).
Proof. apply (A41_rio_fin _ (3761901475992171 / 1125899906842624)); [reflexivity | apply (A41_q_lo 3761901475992171 1125899906842624 9 2); [vm_compute; reflexivity | unfold fr, ctol, A41_lo, A41_c, A41_e; interval with (i_prec 80)]]. Qed.
Lemma r_A41_1203 : rio_reads A41_c A41_e A41_lo A41_hi floor_volts ctol (Build_rio (Fin (1658491853641895 / 1125899906842624)) (Fin ((-12) / 1)) (Fin (3495 / 1024)) (Fin (3317 / 512)) (Fin (6127 / 512)) false true false ((Fin (2289 / 1024)) :: (Fin (571 / 1024)) :: (Fin (1619 / 1024)) :: (Fin (11741 / 1024)) :: (Fin (1773 / 256)) :: (Fin (18883 / 1024)) :: nil)) (4940624076870801 / 562949953421312).
Proof. apply (A41_rio_fin _ (1658491853641895 / 1125899906842624)); [reflexivity | apply (A41_q_mid 1658491853641895 1125899906842624 4940624076870801 562949953421312); [vm_compute; reflexivity | unfold fr, close, ctol, A41_c, A41_e; interval with (i_prec 80)]]. Qed.
Lemma r_A41_1219 : rio_reads A41_c A41_e A41_lo A41_hi floor_volts ctol (Build_rio (Fin (1996511218805395 / 1125899906842624)) (Fin (5 / 1)) (Fin (3715469692580659 / 1125899906842624)) (Fin (6 / 1)) (Fin (12 / 1)) true true true ((Fin (0 / 1)) :: (Fin (0 / 1)) :: (Fin (0 / 1)) :: (Fin (0 / 1)) :: (Fin (27 / 4)) :: (Fin (45 / 1)) :: nil)) (8235144459768731 / 1125899906842624).
Proof. apply (A41_rio_fin _ (1996511218805395 / 1125899906842624)); [reflexivity | apply (A41_q_mid 1996511218805395 1125899906842624 8235144459768731 1125899906842624); [vm_compute; reflexivity | unfold fr, close, ctol, A41_c, A41_e; interval with (i_prec 80)]]. Qed.
Lemma r_A41_1238 : rio_reads A41_c A41_e A41_lo A41_hi floor_volts ctol (Build_rio (Fin (8220092968007891 / 9223372036854775808)) PInf (Fin (2793 / 1024)) (Fin (3317 / 512)) (Fin (399 / 64)) false true true ((Fin (47 / 256)) :: (Fin (469 / 256)) :: (Fin (1003 / 512)) :: (Fin (74867 / 512)) :: (Fin (4615 / 1024)) :: (Fin (6323 / 512)) :: nil)) (35 / 1).
Proof. apply (A41_rio_fin _ (8220092968007891 / 9223372036854775808)); [reflexivity | apply (A41_q_hi 8220092968007891 9223372036854775808 35 1); [vm_compute; reflexivity | unfold fr, ctol, A41_hi, A41_c, A41_e; interval with (i_prec 80)]]. Qed.
Lemma r_A41_1259 : rio_reads A41_c A41_e A41_lo A41_hi floor_volts ctol (Build_rio (Fin (5870060657552649 / 295147905179352825856)) (Fin (5 / 1)) (Fin (205 / 64)) (Fin (6079 / 1024)) (Fin (12 / 1)) true true true ((Fin (423 / 512)) :: (Fin (485 / 512)) :: (Fin (993 / 1024)) :: (Fin (131983 / 1024)) :: (Fin (6381 / 1024)) :: (Fin ((-79) / 512)) :: nil)) (35 / 1).
Proof. apply (A41_rio_fin _ (5870060657552649 / 295147905179352825856)); [reflexivity | apply (A41_q_hi 5870060657552649 295147905179352825856 35 1); [vm_compute; reflexivity | unfold fr, ctol, A41_hi, A41_c, A41_e; interval with (i_prec 80)]]. Qed.
Lemma d_A41_1337r : rio_reads A41_c A41_e A41_lo A41_hi floor_volts ctol (Build_rio (Fin (6491044311201869 / 18014398509481984)) (Fin (2589569785738035 / 562949953421312)) (Fin (3602879701896397 / 1125899906842624)) (Fin (0 / 1)) (Fin (7093169413108531 / 1125899906842624)) true true false ((Fin (0 / 1)) :: (Fin (0 / 1)) :: (Fin (0 / 1)) :: (Fin (120 / 1)) :: (Fin (27 / 4)) :: (Fin (45 / 1)) :: nil)) (35 / 1).
Proof. apply (A41_rio_fin _ (6491044311201869 / 18014398509481984)); [reflexivity | apply (A41_q_hi 6491044311201869 18014398509481984 35 1); [vm_compute; reflexivity | unfold fr, ctol, A41_hi, A41_c, A41_e; interval with (i_prec 80)]]. Qed.
Lemma d_A41_1345r : rio_reads A41_c A41_e A41_lo A41_hi floor_volts ctol (Build_rio (Fin (5088711070971125 / 9007199254740992)) (Fin (2589569785738035 / 562949953421312)) (Fin (3715469692580659 / 1125899906842624)) (Fin (6 / 1)) (Fin (12 / 1)) true true true ((Fin (0 / 1)) :: (Fin (0 / 1)) :: (Fin (0 / 1)) :: (Fin (0 / 1)) :: (Fin (27 / 4)) :: (Fin (45 / 1)) :: nil)) (45 / 2).
Proof. apply (A41_rio_fin _ (5088711070971125 / 9007199254740992)); [reflexivity | apply (A41_q_mid 5088711070971125 9007199254740992 45 2); [vm_compute; reflexivity | unfold fr, close, ctol, A41_c, A41_e; interval with (i_prec 80)]]. Qed.
Lemma d_A41_1353r : rio_reads A41_c A41_e A41_lo A41_hi floor_volts ctol (Build_rio (Fin (1636741441258383 / 562949953421312)) (Fin (0 / 1)) (Fin (3715469692580659 / 1125899906842624)) (Fin (6 / 1)) (Fin (12 / 1)) true true true ((Fin (0 / 1)) :: (Fin (0 / 1)) :: (Fin (0 / 1)) :: (Fin (0 / 1)) :: (Fin (27 / 4)) :: (Fin (45 / 1)) :: nil)) (9 / 2).
Proof. apply (A41_rio_fin _ (1636741441258383 / 562949953421312)); [reflexivity | apply (A41_q_lo 1636741441258383 562949953421312 9 2); [vm_compute; reflexivity | unfold fr, ctol, A41_lo, A41_c, A41_e; interval with (i_prec 80)]]. Qed.
Lemma d_A41_1361r : rio_reads A41_c A41_e A41_lo A41_hi floor_volts ctol (Build_rio (Fin (5881157630324709 / 2251799813685248)) NInf (Fin (3715469692580659 / 1125899906842624)) (Fin (6 / 1)) (Fin (12 / 1)) true true true ((Fin (0 / 1)) :: (Fin (0 / 1)) :: (Fin (0 / 1)) :: (Fin (0 / 1)) :: (Fin (27 / 4)) :: (Fin (45 / 1)) :: nil)) (5 / 1).
Proof. apply (A41_rio_fin _ (5881157630324709 / 2251799813685248)); [reflexivity | apply (A41_q_mid 5881157630324709 2251799813685248 5 1); [vm_compute; reflexivity | unfold fr, close, ctol, A41_c, A41_e; interval with (i_prec 80)]]. Qed.
Lemma d_A41_1369r : rio_reads A41_c A41_e A41_lo A41_hi floor_volts ctol (Build_rio (Fin (6491044311201869 / 18014398509481984)) (Fin (5 / 1)) (Fin (3715469692580659 / 1125899906842624)) (Fin (6 / 1)) (Fin (100000000000000001097906362944045541740492309677311846336810682903157585404911491537163328978494688899061249669721172515611590283743140088328307009198146046031271664502933027185697489699588559043338384466165001178426897626212945177628091195786707458122783970171784415105291802893207873272974885715430223118336 / 1)) true true true ((Fin (0 / 1)) :: (Fin (0 / 1)) :: (Fin (0 / 1)) :: (Fin (0 / 1)) :: (Fin (27 / 4)) :: (Fin (45 / 1)) :: nil)) (35 / 1).
Proof. apply (A41_rio_fin _ (6491044311201869 / 18014398509481984)); [reflexivity | apply (A41_q_hi 6491044311201869 18014398509481984 35 1); [vm_compute; reflexivity | unfold fr, ctol, A41_hi, A41_c, A41_e; interval with (i_prec 80)]]. Qed.
Lemma d_A41_1377r : rio_reads A41_c A41_e A41_lo A41_hi floor_volts ctol (Build_rio (Fin (1636741441258383 / 562949953421312)) (Fin (5 / 1)) PInf (Fin (6 / 1)) (Fin (12 / 1)) true true true ((Fin (0 / 1)) :: (Fin (0 / 1)) :: (Fin (0 / 1)) :: (Fin (0 / 1)) :: (Fin (27 / 4)) :: (Fin (45 / 1)) :: nil)) (9 / 2).
Proof. apply (A41_rio_fin _ (1636741441258383 / 562949953421312)); [reflexivity | apply (A41_q_lo 1636741441258383 562949953421312 9 2); [vm_compute; reflexivity | unfold fr, ctol, A41_lo, A41_c, A41_e; interval with (i_prec 80)]]. Qed.
Lemma d_A41_1385r : rio_reads A41_c A41_e A41_lo A41_hi floor_volts ctol (Build_rio (Fin (6491044311201869 / 18014398509481984)) (Fin (5 / 1)) (Fin (3715469692580659 / 1125899906842624)) (Fin (6 / 1)) (Fin (12 / 1)) true false true ((Fin (0 / 1)) :: (Fin (0 / 1)) :: (Fin (0 / 1)) :: (Fin (0 / 1)) :: (Fin (27 / 4)) :: (Fin (45 / 1)) :: nil)) (35 / 1).
Proof. apply (A41_rio_fin _ (6491044311201869 / 18014398509481984)); [reflexivity | apply (A41_q_hi 6491044311201869 18014398509481984 35 1); [vm_compute; reflexivity | unfold fr, ctol, A41_hi, A41_c, A41_e; interval with (i_prec 80)]]. Qed.
Lemma d_A41_1396u : close ctol (4720932275756473 / 9007199254740992) (volts_A41 (6817559301938881 / 281474976710656)).
Proof. apply (A41_q_volts_mid 6817559301938881 281474976710656 4720932275756473 9007199254740992); [vm_compute; reflexivity | unfold fr, close, ctol, A41_lo, A41_hi, A41_c, A41_e; interval with (i_prec 80)]. Qed.
Lemma d_A41_1408r : rio_reads A41_c A41_e A41_lo A41_hi floor_volts ctol (Build_rio (Fin (6769838219965953 / 18014398509481984)) (Fin (1 / 1)) (Fin (1521 / 512)) (Fin (5027 / 1024)) (Fin (13139 / 1024)) false true true ((Fin (561 / 1024)) :: (Fin (369 / 1024)) :: (Fin (1275 / 512)) :: (Fin (39511 / 1024)) :: (Fin (7777 / 1024)) :: (Fin (30529 / 1024)) :: nil)) (2363227707027783 / 70368744177664).
Proof. apply (A41_rio_fin _ (6769838219965953 / 18014398509481984)); [reflexivity | apply (A41_q_mid 6769838219965953 18014398509481984 2363227707027783 70368744177664); [vm_compute; reflexivity | unfold fr, close, ctol, A41_c, A41_e; interval with (i_prec 80)]]. Qed.
Lemma d_A41_1421u : close ctol (3562393561706585 / 9007199254740992) (volts_A41 (8990059498308119 / 281474976710656)).
Proof. apply (A41_q_volts_mid 8990059498308119 281474976710656 3562393561706585 9007199254740992); [vm_compute; reflexivity | unfold fr, close, ctol, A41_lo, A41_hi, A41_c, A41_e; interval with (i_prec 80)]. Qed.
Lemma d_A41_1434u : close ctol (8005491056713581 / 18014398509481984) (volts_A41 (1002183707843663 / 35184372088832)).
Proof. apply (A41_q_volts_mid 1002183707843663 35184372088832 8005491056713581 18014398509481984); [vm_compute; reflexivity | unfold fr, close, ctol, A41_lo, A41_hi, A41_c, A41_e; interval with (i_prec 80)]. Qed.
Lemma d_A41_1447u : close ctol (1636741441258383 / 562949953421312) (volts_A41 (2144917022879055 / 562949953421312)).
Proof. apply (A41_q_volts_lo 2144917022879055 562949953421312 1636741441258383 562949953421312); [vm_compute; reflexivity | unfold fr, close, ctol, A41_lo, A41_hi, A41_c, A41_e; interval with (i_prec 80)]. Qed.
Lemma d_A41_1460u : close ctol (1721704564843881 / 4503599627370496) (volts_A41 (580946576027611 / 17592186044416)).
Proof. apply (A41_q_volts_mid 580946576027611 17592186044416 1721704564843881 4503599627370496); [vm_compute; reflexivity | unfold fr, close, ctol, A41_lo, A41_hi, A41_c, A41_e; interval with (i_prec 80)]. Qed.
Lemma d_A41_1472r : rio_reads A41_c A41_e A41_lo A41_hi floor_volts ctol (Build_rio (Fin (5377304587780209 / 9007199254740992)) (Fin (5 / 1)) (Fin (3715469692580659 / 1125899906842624)) (Fin (6 / 1)) (Fin (12 / 1)) true true true ((Fin (0 / 1)) :: (Fin (0 / 1)) :: (Fin (0 / 1)) :: (Fin (0 / 1)) :: (Fin (27 / 4)) :: (Fin (45 / 1)) :: nil)) (1499778471042943 / 70368744177664).
Proof. apply (A41_rio_fin _ (5377304587780209 / 9007199254740992)); [reflexivity | apply (A41_q_mid 5377304587780209 9007199254740992 1499778471042943 70368744177664); [vm_compute; reflexivity | unfold fr, close, ctol, A41_c, A41_e; interval with (i_prec 80)]]. Qed.
Lemma d_A41_1485u : close ctol (6177982933502881 / 9007199254740992) (volts_A41 (5234389108061903 / 281474976710656)).
Proof. apply (A41_q_volts_mid 5234389108061903 281474976710656 6177982933502881 9007199254740992); [vm_compute; reflexivity | unfold fr, close, ctol, A41_lo, A41_hi, A41_c, A41_e; interval with (i_prec 80)]. Qed.
Lemma d_A41_1498u : close ctol (1636741441258383 / 562949953421312) (volts_A41 (301274305471575 / 70368744177664)).
Proof. apply (A41_q_volts_lo 301274305471575 70368744177664 1636741441258383 562949953421312); [vm_compute; reflexivity | unfold fr, close, ctol, A41_lo, A41_hi, A41_c, A41_e; interval with (i_prec 80)]. Qed.
Lemma d_A41_1511u : close ctol (2643219402398301 / 1125899906842624) (volts_A41 (1562768085620347 / 281474976710656)).
Proof. apply (A41_q_volts_mid 1562768085620347 281474976710656 2643219402398301 1125899906842624); [vm_compute; reflexivity | unfold fr, close, ctol, A41_lo, A41_hi, A41_c, A41_e; interval with (i_prec 80)]. Qed.
Lemma d_A41_1524u : close ctol (6491044311201869 / 18014398509481984) (volts_A41 (651683794872843 / 17592186044416)).
Proof. apply (A41_q_volts_hi 651683794872843 17592186044416 6491044311201869 18014398509481984); [vm_compute; reflexivity | unfold fr, close, ctol, A41_lo, A41_hi, A41_c, A41_e; interval with (i_prec 80)]. Qed.
Lemma d_A41_1536r : rio_reads A41_c A41_e A41_lo A41_hi floor_volts ctol (Build_rio (Fin (7147028258118763 / 18014398509481984)) (Fin (4725 / 1024)) (Fin (3365 / 1024)) PInf (Fin (11335 / 1024)) true false true ((Fin (2683 / 1024)) :: (Fin (73 / 128)) :: (Fin (131 / 64)) :: (Fin (15653 / 128)) :: (Fin (1647 / 256)) :: (Fin (41233 / 512)) :: nil)) (8962574591634879 / 281474976710656).
Proof. apply (A41_rio_fin _ (7147028258118763 / 18014398509481984)); [reflexivity | apply (A41_q_mid 7147028258118763 18014398509481984 8962574591634879 281474976710656); [vm_compute; reflexivity | unfold fr, close, ctol, A41_c, A41_e; interval with (i_prec 80)]]. Qed.
Lemma d_A41_1549u : close ctol (1636741441258383 / 562949953421312) (volts_A41 (4164206402451473 / 1125899906842624)).
Proof. apply (A41_q_volts_lo 4164206402451473 1125899906842624 1636741441258383 562949953421312); [vm_compute; reflexivity | unfold fr, close, ctol, A41_lo, A41_hi, A41_c, A41_e; interval with (i_prec 80)]. Qed.
Lemma d_A41_1562u : close ctol (6491044311201869 / 18014398509481984) (volts_A41 (2747172363486401 / 35184372088832)).
Proof. apply (A41_q_volts_hi 2747172363486401 35184372088832 6491044311201869 18014398509481984); [vm_compute; reflexivity | unfold fr, close, ctol, A41_lo, A41_hi, A41_c, A41_e; interval with (i_prec 80)]. Qed.
Lemma d_A41_1575u : close ctol (7848311481208515 / 18014398509481984) (volts_A41 (4087591700920437 / 140737488355328)).
Proof. apply (A41_q_volts_mid 4087591700920437 140737488355328 7848311481208515 18014398509481984); [vm_compute; reflexivity | unfold fr, close, ctol, A41_lo, A41_hi, A41_c, A41_e; interval with (i_prec 80)]. Qed.
Lemma d_A41_1588u : close ctol (3886328972406069 / 9007199254740992) (volts_A41 (4126673852283671 / 140737488355328)).
Proof. apply (A41_q_volts_mid 4126673852283671 140737488355328 3886328972406069 9007199254740992); [vm_compute; reflexivity | unfold fr, close, ctol, A41_lo, A41_hi, A41_c, A41_e; interval with (i_prec 80)]. Qed.
Lemma d_A41_1600r : rio_reads A41_c A41_e A41_lo A41_hi floor_volts ctol (Build_rio (Fin (4785201456776261 / 4503599627370496)) (Fin (5063 / 1024)) (Fin (1 / 1)) (Fin (6 / 1)) (Fin (12 / 1)) true false true ((Fin (1231 / 1024)) :: (Fin (201 / 1024)) :: (Fin (1407 / 1024)) :: (Fin (4877 / 32)) :: (Fin (1019 / 256)) :: (Fin (11307 / 512)) :: nil)) (3405084986456759 / 281474976710656).
Proof. apply (A41_rio_fin _ (4785201456776261 / 4503599627370496)); [reflexivity | apply (A41_q_mid 4785201456776261 4503599627370496 3405084986456759 281474976710656); [vm_compute; reflexivity | unfold fr, close, ctol, A41_c, A41_e; interval with (i_prec 80)]]. Qed.
Lemma d_A41_1613u : close ctol (608274164595381 / 1125899906842624) (volts_A41 (6617576654015561 / 281474976710656)).
Proof. apply (A41_q_volts_mid 6617576654015561 281474976710656 608274164595381 1125899906842624); [vm_compute; reflexivity | unfold fr, close, ctol, A41_lo, A41_hi, A41_c, A41_e; interval with (i_prec 80)]. Qed.
Lemma d_A41_1626u : close ctol (3517358513251839 / 9007199254740992) (volts_A41 (4551563291280781 / 140737488355328)).
Proof. apply (A41_q_volts_mid 4551563291280781 140737488355328 3517358513251839 9007199254740992); [vm_compute; reflexivity | unfold fr, close, ctol, A41_lo, A41_hi, A41_c, A41_e; interval with (i_prec 80)]. Qed.
Lemma d_A41_1639u : close ctol (8766759725256499 / 18014398509481984) (volts_A41 (1833245158310377 / 70368744177664)).
Proof. apply (A41_q_volts_mid 1833245158310377 70368744177664 8766759725256499 18014398509481984); [vm_compute; reflexivity | unfold fr, close, ctol, A41_lo, A41_hi, A41_c, A41_e; interval with (i_prec 80)]. Qed.
Lemma d_A41_1652u : close ctol (6491044311201869 / 18014398509481984) (volts_A41 (4663304165276373 / 68719476736)).
Proof. apply (A41_q_volts_hi 4663304165276373 68719476736 6491044311201869 18014398509481984); [vm_compute; reflexivity | unfold fr, close, ctol, A41_lo, A41_hi, A41_c, A41_e; interval with (i_prec 80)]. Qed.
Lemma d_A41_1664r : rio_reads A41_c A41_e A41_lo A41_hi floor_volts ctol (Build_rio (Fin (1217006110378771 / 1125899906842624)) (Fin (5 / 1)) (Fin (3715469692580659 / 1125899906842624)) (Fin (6 / 1)) (Fin (12 / 1)) true true true ((Fin (0 / 1)) :: (Fin (0 / 1)) :: (Fin (0 / 1)) :: (Fin (0 / 1)) :: (Fin (27 / 4)) :: (Fin (45 / 1)) :: nil)) (6696326056215985 / 562949953421312).
Proof. apply (A41_rio_fin _ (1217006110378771 / 1125899906842624)); [reflexivity | apply (A41_q_mid 1217006110378771 1125899906842624 6696326056215985 562949953421312); [vm_compute; reflexivity | unfold fr, close, ctol, A41_c, A41_e; interval with (i_prec 80)]]. Qed.
Lemma d_A41_1677u : close ctol (4525565227069787 / 9007199254740992) (volts_A41 (1776645693509937 / 70368744177664)).
Proof. apply (A41_q_volts_mid 1776645693509937 70368744177664 4525565227069787 9007199254740992); [vm_compute; reflexivity | unfold fr, close, ctol, A41_lo, A41_hi, A41_c, A41_e; interval with (i_prec 80)]. Qed.
Lemma d_A41_1690u : close ctol (8482964486645309 / 18014398509481984) (volts_A41 (7573915636476549 / 281474976710656)).
Proof. apply (A41_q_volts_mid 7573915636476549 281474976710656 8482964486645309 18014398509481984); [vm_compute; reflexivity | unfold fr, close, ctol, A41_lo, A41_hi, A41_c, A41_e; interval with (i_prec 80)]. Qed.
Lemma d_A41_1703u : close ctol (1332770111328139 / 2251799813685248) (volts_A41 (6050210959804233 / 281474976710656)).
Proof. apply (A41_q_volts_mid 6050210959804233 281474976710656 1332770111328139 2251799813685248); [vm_compute; reflexivity | unfold fr, close, ctol, A41_lo, A41_hi, A41_c, A41_e; interval with (i_prec 80)]. Qed.
Lemma d_A41_1716u : close ctol (1636741441258383 / 562949953421312) (volts_A41 (1839748188909233 / 2251799813685248)).
Proof. apply (A41_q_volts_lo 1839748188909233 2251799813685248 1636741441258383 562949953421312); [vm_compute; reflexivity | unfold fr, close, ctol, A41_lo, A41_hi, A41_c, A41_e; interval with (i_prec 80)]. Qed.
Lemma d_A41_1728r : rio_reads A41_c A41_e A41_lo A41_hi floor_volts ctol (Build_rio (Fin (4952163656553211 / 9007199254740992)) (Fin (14489 / 1024)) (Fin (3715469692580659 / 1125899906842624)) (Fin ((-12) / 1)) (Fin (10359 / 1024)) true true true ((Fin (1095 / 512)) :: (Fin (1303 / 1024)) :: (Fin (509 / 256)) :: (Fin (175493 / 1024)) :: (Fin (2027 / 512)) :: (Fin (14751 / 256)) :: nil)) (1626174766226661 / 70368744177664).
Proof. apply (A41_rio_fin _ (4952163656553211 / 9007199254740992)); [reflexivity | apply (A41_q_mid 4952163656553211 9007199254740992 1626174766226661 70368744177664); [vm_compute; reflexivity | unfold fr, close, ctol, A41_c, A41_e; interval with (i_prec 80)]]. Qed.
Lemma d_A41_1741u : close ctol (4468766103694127 / 9007199254740992) (volts_A41 (7195309572463649 / 281474976710656)).
Proof. apply (A41_q_volts_mid 7195309572463649 281474976710656 4468766103694127 9007199254740992); [vm_compute; reflexivity | unfold fr, close, ctol, A41_lo, A41_hi, A41_c, A41_e; interval with (i_prec 80)]. Qed.
Lemma d_A41_1754u : close ctol (7168231142551549 / 18014398509481984) (volts_A41 (8936530129197729 / 281474976710656)).
Proof. apply (A41_q_volts_mid 8936530129197729 281474976710656 7168231142551549 18014398509481984); [vm_compute; reflexivity | unfold fr, close, ctol, A41_lo, A41_hi, A41_c, A41_e; interval with (i_prec 80)]. Qed.
Lemma d_A41_1767u : close ctol (5357299842970985 / 9007199254740992) (volts_A41 (6021120246977077 / 281474976710656)).
Proof. apply (A41_q_volts_mid 6021120246977077 281474976710656 5357299842970985 9007199254740992); [vm_compute; reflexivity | unfold fr, close, ctol, A41_lo, A41_hi, A41_c, A41_e; interval with (i_prec 80)]. Qed.
Lemma d_A41_1780u : close ctol (4266976190029495 / 9007199254740992) (volts_A41 (7529457776754441 / 281474976710656)).
Proof. apply (A41_q_volts_mid 7529457776754441 281474976710656 4266976190029495 9007199254740992); [vm_compute; reflexivity | unfold fr, close, ctol, A41_lo, A41_hi, A41_c, A41_e; interval with (i_prec 80)]. Qed.
Lemma d_A41_1792r : rio_reads A41_c A41_e A41_lo A41_hi floor_volts ctol (Build_rio (Fin (6491044311201869 / 18014398509481984)) (Fin ((-1) / 1)) (Fin ((-12) / 1)) (Fin (2873 / 512)) (Fin (1251 / 128)) false true true ((Fin (2153 / 1024)) :: (Fin (343 / 256)) :: (Fin (1661 / 1024)) :: (Fin (1455 / 32)) :: (Fin (3659 / 1024)) :: (Fin (39113 / 1024)) :: nil)) (35 / 1).
Proof. apply (A41_rio_fin _ (6491044311201869 / 18014398509481984)); [reflexivity | apply (A41_q_hi 6491044311201869 18014398509481984 35 1); [vm_compute; reflexivity | unfold fr, ctol, A41_hi, A41_c, A41_e; interval with (i_prec 80)]]. Qed.
Lemma d_A41_1805u : close ctol (6491044311201869 / 18014398509481984) (volts_A41 (38 / 1)).
Proof. apply (A41_q_volts_hi 38 1 6491044311201869 18014398509481984); [vm_compute; reflexivity | unfold fr, close, ctol, A41_lo, A41_hi, A41_c, A41_e; interval with (i_prec 80)]. Qed.
Lemma d_A41_1818u : close ctol (5736892721144189 / 9007199254740992) (volts_A41 (20 / 1)).
Proof. apply (A41_q_volts_mid 20 1 5736892721144189 9007199254740992); [vm_compute; reflexivity | unfold fr, close, ctol, A41_lo, A41_hi, A41_c, A41_e; interval with (i_prec 80)]. Qed.
Lemma d_A41_1831u : close ctol (1567928178901433 / 2251799813685248) (volts_A41 (2578764303429171 / 140737488355328)).
Proof. apply (A41_q_volts_mid 2578764303429171 140737488355328 1567928178901433 2251799813685248); [vm_compute; reflexivity | unfold fr, close, ctol, A41_lo, A41_hi, A41_c, A41_e; interval with (i_prec 80)]. Qed.
Lemma d_A41_1844u : close ctol (4366494573300145 / 2251799813685248) (volts_A41 (117853776183859 / 17592186044416)).
Proof. apply (A41_q_volts_mid 117853776183859 17592186044416 4366494573300145 2251799813685248); [vm_compute; reflexivity | unfold fr, close, ctol, A41_lo, A41_hi, A41_c, A41_e; interval with (i_prec 80)]. Qed.
Lemma d_A41_1856r : rio_reads A41_c A41_e A41_lo A41_hi floor_volts ctol (Build_rio (Fin (4374345621283325 / 9007199254740992)) (Fin (5 / 1)) (Fin (3715469692580659 / 1125899906842624)) (Fin (6 / 1)) (Fin (12 / 1)) true true true ((Fin (0 / 1)) :: (Fin (0 / 1)) :: (Fin (0 / 1)) :: (Fin (0 / 1)) :: (Fin (27 / 4)) :: (Fin (45 / 1)) :: nil)) (3673929231731255 / 140737488355328).
Proof. apply (A41_rio_fin _ (4374345621283325 / 9007199254740992)); [reflexivity | apply (A41_q_mid 4374345621283325 9007199254740992 3673929231731255 140737488355328); [vm_compute; reflexivity | unfold fr, close, ctol, A41_c, A41_e; interval with (i_prec 80)]]. Qed.
Lemma d_A41_1869u : close ctol (7058278019832131 / 4503599627370496) (volts_A41 (4648686628912679 / 562949953421312)).
Proof. apply (A41_q_volts_mid 4648686628912679 562949953421312 7058278019832131 4503599627370496); [vm_compute; reflexivity | unfold fr, close, ctol, A41_lo, A41_hi, A41_c, A41_e; interval with (i_prec 80)]. Qed.
Lemma d_A41_1882u : close ctol (6491044311201869 / 18014398509481984) (volts_A41 (5202974173723319 / 137438953472)).
Proof. apply (A41_q_volts_hi 5202974173723319 137438953472 6491044311201869 18014398509481984); [vm_compute; reflexivity | unfold fr, close, ctol, A41_lo, A41_hi, A41_c, A41_e; interval with (i_prec 80)]. Qed.
Lemma d_A41_1895u : close ctol (1636741441258383 / 562949953421312) (volts_A41 ((-5812117673990787) / 4503599627370496)).
Proof. apply (A41_q_volts_lo (-5812117673990787) 4503599627370496 1636741441258383 562949953421312); [vm_compute; reflexivity | unfold fr, close, ctol, A41_lo, A41_hi, A41_c, A41_e; interval with (i_prec 80)]. Qed.
Lemma d_A41_1908u : close ctol (6275480970865451 / 4503599627370496) (volts_A41 (2608876426756781 / 281474976710656)).
Proof. apply (A41_q_volts_mid 2608876426756781 281474976710656 6275480970865451 4503599627370496); [vm_compute; reflexivity | unfold fr, close, ctol, A41_lo, A41_hi, A41_c, A41_e; interval with (i_prec 80)]. Qed.
Lemma d_A41_1920r : rio_reads A41_c A41_e A41_lo A41_hi floor_volts ctol (Build_rio (Fin (6491044311201869 / 18014398509481984)) (Fin (4425 / 1024)) (Fin (3715469692580659 / 1125899906842624)) (Fin (1291 / 256)) NInf true true true ((Fin (2273 / 1024)) :: (Fin (181 / 512)) :: (Fin (1143 / 512)) :: (Fin (93511 / 512)) :: (Fin (5187 / 1024)) :: (Fin (1107 / 64)) :: nil)) (35 / 1).
Proof. apply (A41_rio_fin _ (6491044311201869 / 18014398509481984)); [reflexivity | apply (A41_q_hi 6491044311201869 18014398509481984 35 1); [vm_compute; reflexivity | unfold fr, ctol, A41_hi, A41_c, A41_e; interval with (i_prec 80)]]. Qed.
Lemma d_A41_1933u : close ctol (8887538036496713 / 9007199254740992) (volts_A41 (1830968579742101 / 140737488355328)).
Proof. apply (A41_q_volts_mid 1830968579742101 140737488355328 8887538036496713 9007199254740992); [vm_compute; reflexivity | unfold fr, close, ctol, A41_lo, A41_hi, A41_c, A41_e; interval with (i_prec 80)]. Qed.
Lemma d_A41_1946u : close ctol (6533059650086231 / 18014398509481984) (volts_A41 (305918065497467 / 8796093022208)).
Proof. apply (A41_q_volts_mid 305918065497467 8796093022208 6533059650086231 18014398509481984); [vm_compute; reflexivity | unfold fr, close, ctol, A41_lo, A41_hi, A41_c, A41_e; interval with (i_prec 80)]. Qed.
Lemma d_A41_1959u : close ctol (1636741441258383 / 562949953421312) (volts_A41 (1185984086905725 / 1125899906842624)).
Proof. apply (A41_q_volts_lo 1185984086905725 1125899906842624 1636741441258383 562949953421312); [vm_compute; reflexivity | unfold fr, close, ctol, A41_lo, A41_hi, A41_c, A41_e; interval with (i_prec 80)]. Qed.
Lemma d_A41_1972u : close ctol (4172272160326413 / 9007199254740992) (volts_A41 (1924330852006905 / 70368744177664)).
Proof. apply (A41_q_volts_mid 1924330852006905 70368744177664 4172272160326413 9007199254740992); [vm_compute; reflexivity | unfold fr, close, ctol, A41_lo, A41_hi, A41_c, A41_e; interval with (i_prec 80)]. Qed.
Lemma d_A41_1984r : rio_reads A41_c A41_e A41_lo A41_hi floor_volts ctol (Build_rio (Fin (1006700777694969 / 1125899906842624)) (Fin (1 / 1)) (Fin (2905 / 1024)) (Fin (10955 / 1024)) (Fin (2575 / 512)) true true true ((Fin (537 / 1024)) :: (Fin (1895 / 1024)) :: (Fin (2121 / 1024)) :: (Fin (29059 / 512)) :: (Fin (5819 / 1024)) :: (Fin (2849 / 512)) :: nil)) (8068240611426593 / 562949953421312).
Proof. apply (A41_rio_fin _ (1006700777694969 / 1125899906842624)); [reflexivity | apply (A41_q_mid 1006700777694969 1125899906842624 8068240611426593 562949953421312); [vm_compute; reflexivity | unfold fr, close, ctol, A41_c, A41_e; interval with (i_prec 80)]]. Qed.
Lemma d_A41_1997u : close ctol (7048842975725695 / 9007199254740992) (volts_A41 (2299179338425331 / 140737488355328)).
Proof. apply (A41_q_volts_mid 2299179338425331 140737488355328 7048842975725695 9007199254740992); [vm_compute; reflexivity | unfold fr, close, ctol, A41_lo, A41_hi, A41_c, A41_e; interval with (i_prec 80)]. Qed.
Lemma d_A02_28c : close ctol (45 / 2) (clamp A02_lo A02_hi (2 / 1)).
Proof. apply (A02_q_clamp_lo 2 1 45 2); vm_compute; reflexivity. Qed.
Lemma d_A02_36c : close ctol (145 / 1) (clamp A02_lo A02_hi (200 / 1)).
Proof. apply (A02_q_clamp_hi 200 1 145 1); vm_compute; reflexivity. Qed.
Lemma d_A02_45c : close ctol (45 / 2) (clamp A02_lo A02_hi (6333186975989759 / 281474976710656)).
Proof. apply (A02_q_clamp_lo 6333186975989759 281474976710656 45 2); vm_compute; reflexivity. Qed.
Lemma d_A02_53c : close ctol (145 / 1) (clamp A02_lo A02_hi (145 / 1)).
Proof. apply (A02_q_clamp_hi 145 1 145 1); vm_compute; reflexivity. Qed.
Lemma d_A02_61c : close ctol (45 / 2) (clamp A02_lo A02_hi ((-325157656203077) / 35184372088832)).
Proof. apply (A02_q_clamp_lo (-325157656203077) 35184372088832 45 2); vm_compute; reflexivity. Qed.
Lemma d_A02_69c : close ctol (2975899612834297 / 70368744177664) (clamp A02_lo A02_hi (2975899612834297 / 70368744177664)).
Proof. apply (A02_q_clamp_mid 2975899612834297 70368744177664 2975899612834297 70368744177664); vm_compute; reflexivity. Qed.
Lemma d_A02_77c : close ctol (145 / 1) (clamp A02_lo A02_hi (6472189996839281 / 17592186044416)).
Proof. apply (A02_q_clamp_hi 6472189996839281 17592186044416 145 1); vm_compute; reflexivity. Qed.
Lemma d_A02_85c : close ctol (8397953688567845 / 70368744177664) (clamp A02_lo A02_hi (2099488422141961 / 17592186044416)).
Proof. apply (A02_q_clamp_mid 2099488422141961 17592186044416 8397953688567845 70368744177664); vm_compute; reflexivity. Qed.
Lemma d_A02_93c : close ctol (7983765296407557 / 281474976710656) (clamp A02_lo A02_hi (3991882648203779 / 140737488355328)).
Proof. apply (A02_q_clamp_mid 3991882648203779 140737488355328 7983765296407557 281474976710656); vm_compute; reflexivity. Qed.
Lemma d_A02_101c : close ctol (7676406352675931 / 70368744177664) (clamp A02_lo A02_hi (7676406352675931 / 70368744177664)).
Proof. apply (A02_q_clamp_mid 7676406352675931 70368744177664 7676406352675931 70368744177664); vm_compute; reflexivity. Qed.
Lemma d_A02_109c : close ctol (400839414438017 / 8796093022208) (clamp A02_lo A02_hi (400839414438017 / 8796093022208)).
Proof. apply (A02_q_clamp_mid 400839414438017 8796093022208 400839414438017 8796093022208); vm_compute; reflexivity. Qed.
Lemma d_A02_117c : close ctol (143 / 1) (clamp A02_lo A02_hi (143 / 1)).
Proof. apply (A02_q_clamp_mid 143 1 143 1); vm_compute; reflexivity. Qed.
Lemma d_A02_125c : close ctol (145 / 1) (clamp A02_lo A02_hi (5162785351907675 / 17592186044416)).
Proof. apply (A02_q_clamp_hi 5162785351907675 17592186044416 145 1); vm_compute; reflexivity. Qed.
Lemma d_A02_133c : close ctol (4994451581360871 / 35184372088832) (clamp A02_lo A02_hi (4994451581360871 / 35184372088832)).
Proof. apply (A02_q_clamp_mid 4994451581360871 35184372088832 4994451581360871 35184372088832); vm_compute; reflexivity. Qed.
Lemma d_A02_141c : close ctol (3866677632226659 / 35184372088832) (clamp A02_lo A02_hi (7733355264453317 / 70368744177664)).
Proof. apply (A02_q_clamp_mid 7733355264453317 70368744177664 3866677632226659 35184372088832); vm_compute; reflexivity. Qed.
Lemma d_A02_149c : close ctol (45 / 2) (clamp A02_lo A02_hi (2530388282986339 / 281474976710656)).
Proof. apply (A02_q_clamp_lo 2530388282986339 281474976710656 45 2); vm_compute; reflexivity. Qed.
Lemma d_A02_157c : close ctol (45 / 2) (clamp A02_lo A02_hi (636093302123197 / 140737488355328)).
Proof. apply (A02_q_clamp_lo 636093302123197 140737488355328 45 2); vm_compute; reflexivity. Qed.
Lemma d_A02_165c : close ctol (145 / 1) (clamp A02_lo A02_hi (7187195672709091 / 17592186044416)).
Proof. apply (A02_q_clamp_hi 7187195672709091 17592186044416 145 1); vm_compute; reflexivity. Qed.
Lemma d_A02_173c : close ctol (769224177505019 / 17592186044416) (clamp A02_lo A02_hi (6153793420040153 / 140737488355328)).
Proof. apply (A02_q_clamp_mid 6153793420040153 140737488355328 769224177505019 17592186044416); vm_compute; reflexivity. Qed.
Lemma d_A02_181c : close ctol (2267767757418099 / 17592186044416) (clamp A02_lo A02_hi (2267767757418099 / 17592186044416)).
Proof. apply (A02_q_clamp_mid 2267767757418099 17592186044416 2267767757418099 17592186044416); vm_compute; reflexivity. Qed.
Lemma d_A02_189c : close ctol (45 / 2) (clamp A02_lo A02_hi ((-4507437465353697) / 1125899906842624)).
Proof. apply (A02_q_clamp_lo (-4507437465353697) 1125899906842624 45 2); vm_compute; reflexivity. Qed.
Lemma d_A02_197c : close ctol (45 / 2) (clamp A02_lo A02_hi (3256396125156907 / 4503599627370496)).
Proof. apply (A02_q_clamp_lo 3256396125156907 4503599627370496 45 2); vm_compute; reflexivity. Qed.
Lemma d_A02_205c : close ctol (2357197531524031 / 17592186044416) (clamp A02_lo A02_hi (2357197531524031 / 17592186044416)).
Proof. apply (A02_q_clamp_mid 2357197531524031 17592186044416 2357197531524031 17592186044416); vm_compute; reflexivity. Qed.
Lemma d_A02_213c : close ctol (1792983921592549 / 70368744177664) (clamp A02_lo A02_hi (1792983921592549 / 70368744177664)).
Proof. apply (A02_q_clamp_mid 1792983921592549 70368744177664 1792983921592549 70368744177664); vm_compute; reflexivity. Qed.
Lemma d_A02_221c : close ctol (2375679931777185 / 35184372088832) (clamp A02_lo A02_hi (2375679931777185 / 35184372088832)).
Proof. apply (A02_q_clamp_mid 2375679931777185 35184372088832 2375679931777185 35184372088832); vm_compute; reflexivity. Qed.
Lemma d_A02_229c : close ctol (1290601168450207 / 17592186044416) (clamp A02_lo A02_hi (1290601168450207 / 17592186044416)).
Proof. apply (A02_q_clamp_mid 1290601168450207 17592186044416 1290601168450207 17592186044416); vm_compute; reflexivity. Qed.
Lemma d_A02_237c : close ctol (145 / 1) (clamp A02_lo A02_hi (332343539976117 / 1099511627776)).
Proof. apply (A02_q_clamp_hi 332343539976117 1099511627776 145 1); vm_compute; reflexivity. Qed.
Lemma d_A02_245c : close ctol (524635818838153 / 8796093022208) (clamp A02_lo A02_hi (524635818838153 / 8796093022208)).
Proof. apply (A02_q_clamp_mid 524635818838153 8796093022208 524635818838153 8796093022208); vm_compute; reflexivity. Qed.
Lemma d_A02_253c : close ctol (1176661413131113 / 8796093022208) (clamp A02_lo A02_hi (1176661413131113 / 8796093022208)).
Proof. apply (A02_q_clamp_mid 1176661413131113 8796093022208 1176661413131113 8796093022208); vm_compute; reflexivity. Qed.
Lemma d_A02_261c : close ctol (145 / 1) (clamp A02_lo A02_hi (4125789951327509 / 17592186044416)).
Proof. apply (A02_q_clamp_hi 4125789951327509 17592186044416 145 1); vm_compute; reflexivity. Qed.
Lemma d_A02_269c : close ctol (145 / 1) (clamp A02_lo A02_hi (1645905840978793 / 8796093022208)).
Proof. apply (A02_q_clamp_hi 1645905840978793 8796093022208 145 1); vm_compute; reflexivity. Qed.
Lemma d_A02_277c : close ctol (1277217457816487 / 17592186044416) (clamp A02_lo A02_hi (1277217457816487 / 17592186044416)).
Proof. apply (A02_q_clamp_mid 1277217457816487 17592186044416 1277217457816487 17592186044416); vm_compute; reflexivity. Qed.
Lemma d_A02_285c : close ctol (45 / 2) (clamp A02_lo A02_hi ((-211919469381421) / 281474976710656)).
Proof. apply (A02_q_clamp_lo (-211919469381421) 281474976710656 45 2); vm_compute; reflexivity. Qed.
Lemma d_A02_293c : close ctol (2084868772833983 / 35184372088832) (clamp A02_lo A02_hi (2084868772833983 / 35184372088832)).
Proof. apply (A02_q_clamp_mid 2084868772833983 35184372088832 2084868772833983 35184372088832); vm_compute; reflexivity. Qed.
Lemma d_A02_301c : close ctol (19082441512893 / 274877906944) (clamp A02_lo A02_hi (19082441512893 / 274877906944)).
Proof. apply (A02_q_clamp_mid 19082441512893 274877906944 19082441512893 274877906944); vm_compute; reflexivity. Qed.
Lemma d_A02_309c : close ctol (8678217386079669 / 140737488355328) (clamp A02_lo A02_hi (2169554346519917 / 35184372088832)).
Proof. apply (A02_q_clamp_mid 2169554346519917 35184372088832 8678217386079669 140737488355328); vm_compute; reflexivity. Qed.
Lemma d_A02_317c : close ctol (145 / 1) (clamp A02_lo A02_hi (2334913803777945 / 8796093022208)).
Proof. apply (A02_q_clamp_hi 2334913803777945 8796093022208 145 1); vm_compute; reflexivity. Qed.
Lemma d_A02_325c : close ctol (2579077112900815 / 35184372088832) (clamp A02_lo A02_hi (2579077112900815 / 35184372088832)).
Proof. apply (A02_q_clamp_mid 2579077112900815 35184372088832 2579077112900815 35184372088832); vm_compute; reflexivity. Qed.
Lemma d_A02_333c : close ctol (6737527294167665 / 70368744177664) (clamp A02_lo A02_hi (6737527294167665 / 70368744177664)).
Proof. apply (A02_q_clamp_mid 6737527294167665 70368744177664 6737527294167665 70368744177664); vm_compute; reflexivity. Qed.
Lemma d_A02_341c : close ctol (3521319035127335 / 140737488355328) (clamp A02_lo A02_hi (3521319035127335 / 140737488355328)).
Proof. apply (A02_q_clamp_mid 3521319035127335 140737488355328 3521319035127335 140737488355328); vm_compute; reflexivity. Qed.
Lemma d_A02_349c : close ctol (45 / 2) (clamp A02_lo A02_hi ((-113369583416119) / 35184372088832)).
Proof. apply (A02_q_clamp_lo (-113369583416119) 35184372088832 45 2); vm_compute; reflexivity. Qed.
Lemma d_A02_357c : close ctol (145 / 1) (clamp A02_lo A02_hi (2670650937441015 / 8796093022208)).
Proof. apply (A02_q_clamp_hi 2670650937441015 8796093022208 145 1); vm_compute; reflexivity. Qed.
Lemma d_A02_365c : close ctol (3824972219371587 / 70368744177664) (clamp A02_lo A02_hi (3824972219371587 / 70368744177664)).
Proof. apply (A02_q_clamp_mid 3824972219371587 70368744177664 3824972219371587 70368744177664); vm_compute; reflexivity. Qed.
Lemma d_A02_373c : close ctol (6260607438102903 / 70368744177664) (clamp A02_lo A02_hi (6260607438102903 / 70368744177664)).
Proof. apply (A02_q_clamp_mid 6260607438102903 70368744177664 6260607438102903 70368744177664); vm_compute; reflexivity. Qed.
Lemma d_A02_381c : close ctol (552654808029551 / 4398046511104) (clamp A02_lo A02_hi (552654808029551 / 4398046511104)).
Proof. apply (A02_q_clamp_mid 552654808029551 4398046511104 552654808029551 4398046511104); vm_compute; reflexivity. Qed.
Lemma d_A02_389c : close ctol (4376717352978581 / 35184372088832) (clamp A02_lo A02_hi (8753434705957161 / 70368744177664)).
Proof. apply (A02_q_clamp_mid 8753434705957161 70368744177664 4376717352978581 35184372088832); vm_compute; reflexivity. Qed.
Lemma d_A02_397c : close ctol (2495497848435751 / 17592186044416) (clamp A02_lo A02_hi (2495497848435751 / 17592186044416)).
Proof. apply (A02_q_clamp_mid 2495497848435751 17592186044416 2495497848435751 17592186044416); vm_compute; reflexivity. Qed.
Lemma d_A02_405c : close ctol (45 / 2) (clamp A02_lo A02_hi (1461723317940919 / 70368744177664)).
Proof. apply (A02_q_clamp_lo 1461723317940919 70368744177664 45 2); vm_compute; reflexivity. Qed.
Lemma d_A02_413c : close ctol (45 / 2) (clamp A02_lo A02_hi (3852431448881297 / 562949953421312)).
Proof. apply (A02_q_clamp_lo 3852431448881297 562949953421312 45 2); vm_compute; reflexivity. Qed.
Lemma d_A02_421c : close ctol (452677253881045 / 17592186044416) (clamp A02_lo A02_hi (452677253881045 / 17592186044416)).
Proof. apply (A02_q_clamp_mid 452677253881045 17592186044416 452677253881045 17592186044416); vm_compute; reflexivity. Qed.
Lemma d_A02_429c : close ctol (891348066167233 / 8796093022208) (clamp A02_lo A02_hi (891348066167233 / 8796093022208)).
Proof. apply (A02_q_clamp_mid 891348066167233 8796093022208 891348066167233 8796093022208); vm_compute; reflexivity. Qed.
Lemma d_A02_437c : close ctol (145 / 1) (clamp A02_lo A02_hi (662862792209369 / 2199023255552)).
Proof. apply (A02_q_clamp_hi 662862792209369 2199023255552 145 1); vm_compute; reflexivity. Qed.
Lemma d_A02_445c : close ctol (145 / 1) (clamp A02_lo A02_hi (1907842558621637 / 8796093022208)).
Proof. apply (A02_q_clamp_hi 1907842558621637 8796093022208 145 1); vm_compute; reflexivity. Qed.
Lemma d_A02_453c : close ctol (4597583226342411 / 35184372088832) (clamp A02_lo A02_hi (4597583226342411 / 35184372088832)).
Proof. apply (A02_q_clamp_mid 4597583226342411 35184372088832 4597583226342411 35184372088832); vm_compute; reflexivity. Qed.
Lemma d_A02_461c : close ctol (145 / 1) (clamp A02_lo A02_hi (5426460537231565 / 17592186044416)).
Proof. apply (A02_q_clamp_hi 5426460537231565 17592186044416 145 1); vm_compute; reflexivity. Qed.
Lemma d_A02_469c : close ctol (4307277488181595 / 35184372088832) (clamp A02_lo A02_hi (4307277488181595 / 35184372088832)).
Proof. apply (A02_q_clamp_mid 4307277488181595 35184372088832 4307277488181595 35184372088832); vm_compute; reflexivity. Qed.
Lemma d_A02_477c : close ctol (142532907501569 / 1099511627776) (clamp A02_lo A02_hi (142532907501569 / 1099511627776)).
Proof. apply (A02_q_clamp_mid 142532907501569 1099511627776 142532907501569 1099511627776); vm_compute; reflexivity. Qed.
Lemma d_A02_485c : close ctol (8111135203915759 / 70368744177664) (clamp A02_lo A02_hi (4055567601957879 / 35184372088832)).
Proof. apply (A02_q_clamp_mid 4055567601957879 35184372088832 8111135203915759 70368744177664); vm_compute; reflexivity. Qed.
Lemma d_A02_493c : close ctol (6333528050076271 / 70368744177664) (clamp A02_lo A02_hi (6333528050076271 / 70368744177664)).
Proof. apply (A02_q_clamp_mid 6333528050076271 70368744177664 6333528050076271 70368744177664); vm_compute; reflexivity. Qed.
Lemma d_A02_501c : close ctol (3309081019033911 / 35184372088832) (clamp A02_lo A02_hi (3309081019033911 / 35184372088832)).
Proof. apply (A02_q_clamp_mid 3309081019033911 35184372088832 3309081019033911 35184372088832); vm_compute; reflexivity. Qed.
Lemma d_A02_509c : close ctol (4726108127939725 / 70368744177664) (clamp A02_lo A02_hi (4726108127939725 / 70368744177664)).
Proof. apply (A02_q_clamp_mid 4726108127939725 70368744177664 4726108127939725 70368744177664); vm_compute; reflexivity. Qed.
Lemma d_A02_517c : close ctol (45 / 2) (clamp A02_lo A02_hi (1600241497522495 / 140737488355328)).
Proof. apply (A02_q_clamp_lo 1600241497522495 140737488355328 45 2); vm_compute; reflexivity. Qed.
Lemma d_A02_525c : close ctol (5990752168939059 / 140737488355328) (clamp A02_lo A02_hi (5990752168939059 / 140737488355328)).
Proof. apply (A02_q_clamp_mid 5990752168939059 140737488355328 5990752168939059 140737488355328); vm_compute; reflexivity. Qed.
Lemma d_A02_533c : close ctol (8229908989743865 / 281474976710656) (clamp A02_lo A02_hi (8229908989743865 / 281474976710656)).
Proof. apply (A02_q_clamp_mid 8229908989743865 281474976710656 8229908989743865 281474976710656); vm_compute; reflexivity. Qed.
Lemma d_A02_541c : close ctol (5062392862372767 / 35184372088832) (clamp A02_lo A02_hi (5062392862372767 / 35184372088832)).
Proof. apply (A02_q_clamp_mid 5062392862372767 35184372088832 5062392862372767 35184372088832); vm_compute; reflexivity. Qed.
Lemma d_A02_549c : close ctol (2312908012012967 / 17592186044416) (clamp A02_lo A02_hi (2312908012012967 / 17592186044416)).
Proof. apply (A02_q_clamp_mid 2312908012012967 17592186044416 2312908012012967 17592186044416); vm_compute; reflexivity. Qed.
Lemma d_A02_557c : close ctol (6992142814913097 / 281474976710656) (clamp A02_lo A02_hi (6992142814913097 / 281474976710656)).
Proof. apply (A02_q_clamp_mid 6992142814913097 281474976710656 6992142814913097 281474976710656); vm_compute; reflexivity. Qed.
Lemma d_A02_565c : close ctol (145 / 1) (clamp A02_lo A02_hi (3912807494409493 / 17592186044416)).
Proof. apply (A02_q_clamp_hi 3912807494409493 17592186044416 145 1); vm_compute; reflexivity. Qed.
Lemma d_A02_573c : close ctol (45 / 2) (clamp A02_lo A02_hi ((-447939385014269) / 562949953421312)).
Proof. apply (A02_q_clamp_lo (-447939385014269) 562949953421312 45 2); vm_compute; reflexivity. Qed.
Lemma d_A02_581c : close ctol (8481610256204327 / 140737488355328) (clamp A02_lo A02_hi (1060201282025541 / 17592186044416)).
Proof. apply (A02_q_clamp_mid 1060201282025541 17592186044416 8481610256204327 140737488355328); vm_compute; reflexivity. Qed.
Lemma d_A02_589c : close ctol (7622298779405931 / 140737488355328) (clamp A02_lo A02_hi (1905574694851483 / 35184372088832)).
Proof. apply (A02_q_clamp_mid 1905574694851483 35184372088832 7622298779405931 140737488355328); vm_compute; reflexivity. Qed.
Lemma d_A02_597c : close ctol (45 / 2) (clamp A02_lo A02_hi (3113968554883079 / 140737488355328)).
Proof. apply (A02_q_clamp_lo 3113968554883079 140737488355328 45 2); vm_compute; reflexivity. Qed.
Lemma d_A02_605c : close ctol (145 / 1) (clamp A02_lo A02_hi (193 / 1)).
Proof. apply (A02_q_clamp_hi 193 1 145 1); vm_compute; reflexivity. Qed.
Lemma d_A02_613c : close ctol (145 / 1) (clamp A02_lo A02_hi (889208271023005 / 2199023255552)).
Proof. apply (A02_q_clamp_hi 889208271023005 2199023255552 145 1); vm_compute; reflexivity. Qed.
Lemma d_A02_621c : close ctol (2726529220104211 / 35184372088832) (clamp A02_lo A02_hi (2726529220104211 / 35184372088832)).
Proof. apply (A02_q_clamp_mid 2726529220104211 35184372088832 2726529220104211 35184372088832); vm_compute; reflexivity. Qed.
Lemma d_A02_629c : close ctol (4660699238906457 / 35184372088832) (clamp A02_lo A02_hi (582587404863307 / 4398046511104)).
Proof. apply (A02_q_clamp_mid 582587404863307 4398046511104 4660699238906457 35184372088832); vm_compute; reflexivity. Qed.
Lemma d_A02_637c : close ctol (7767081430072627 / 281474976710656) (clamp A02_lo A02_hi (1941770357518157 / 70368744177664)).
Proof. apply (A02_q_clamp_mid 1941770357518157 70368744177664 7767081430072627 281474976710656); vm_compute; reflexivity. Qed.
Lemma d_A02_645c : close ctol (4612945570755249 / 35184372088832) (clamp A02_lo A02_hi (4612945570755249 / 35184372088832)).
Proof. apply (A02_q_clamp_mid 4612945570755249 35184372088832 4612945570755249 35184372088832); vm_compute; reflexivity. Qed.
Lemma d_A02_653c : close ctol (6141722874041763 / 70368744177664) (clamp A02_lo A02_hi (6141722874041763 / 70368744177664)).
Proof. apply (A02_q_clamp_mid 6141722874041763 70368744177664 6141722874041763 70368744177664); vm_compute; reflexivity. Qed.
Lemma d_A02_661c : close ctol (8241277797642159 / 70368744177664) (clamp A02_lo A02_hi (4120638898821079 / 35184372088832)).
Proof. apply (A02_q_clamp_mid 4120638898821079 35184372088832 8241277797642159 70368744177664); vm_compute; reflexivity. Qed.
Lemma r_A21_435 : rio_reads A21_c A21_e A21_lo A21_hi floor_volts ctol (Build_rio (Fin ((-6032057205060441) / 6032057205060440848842124543157735677050252251748505781796615064961622344493727293370973578138265743708225425014400837164813540499979063179105919597766951022193355091707896034850684039059079180396788349106095584290087446076413771468940477241550670753145517602931224392424029547429993824129889235158145614364972941312)) (Fin (5 / 2)) (Fin (3715469692580659 / 1125899906842624)) (Fin (6 / 1)) (Fin (12 / 1)) true true true ((Fin (0 / 1)) :: (Fin (0 / 1)) :: (Fin (0 / 1)) :: (Fin (0 / 1)) :: (Fin (27 / 4)) :: (Fin (45 / 1)) :: nil)) (5749786070656609 / 281474976710656).
Proof. apply (A21_rio_fin _ ((-6032057205060441) / 6032057205060440848842124543157735677050252251748505781796615064961622344493727293370973578138265743708225425014400837164813540499979063179105919597766951022193355091707896034850684039059079180396788349106095584290087446076413771468940477241550670753145517602931224392424029547429993824129889235158145614364972941312)); [reflexivity | apply (A21_q_floor (-6032057205060441) 6032057205060440848842124543157735677050252251748505781796615064961622344493727293370973578138265743708225425014400837164813540499979063179105919597766951022193355091707896034850684039059079180396788349106095584290087446076413771468940477241550670753145517602931224392424029547429993824129889235158145614364972941312 5749786070656609 281474976710656); vm_compute; reflexivity]. Qed.
Lemma r_A21_819 : rio_reads A21_c A21_e A21_lo A21_hi floor_volts ctol (Build_rio (Fin (2121939230451891 / 2361183241434822606848)) (Fin (5 / 1)) (Fin (3715469692580659 / 1125899906842624)) (Fin (6 / 1)) (Fin (12 / 1)) true true true ((Fin (0 / 1)) :: (Fin (0 / 1)) :: (Fin (0 / 1)) :: (Fin (0 / 1)) :: (Fin (27 / 4)) :: (Fin (45 / 1)) :: nil)) (80 / 1).
Proof. apply (A21_rio_fin _ (2121939230451891 / 2361183241434822606848)); [reflexivity | apply (A21_q_floor 2121939230451891 2361183241434822606848 80 1); vm_compute; reflexivity]. Qed.
Lemma d_A21_671c : close ctol (50 / 1) (clamp A21_lo A21_hi (50 / 1)).
Proof. apply (A21_q_clamp_mid 50 1 50 1); vm_compute; reflexivity. Qed.
Lemma d_A21_679c : close ctol (6333186975989761 / 281474976710656) (clamp A21_lo A21_hi (45 / 2)).
Proof. apply (A21_q_clamp_mid 45 2 6333186975989761 281474976710656); vm_compute; reflexivity. Qed.
Lemma d_A21_687c : close ctol (10 / 1) (clamp A21_lo A21_hi (0 / 1)).
Proof. apply (A21_q_clamp_lo 0 1 10 1); vm_compute; reflexivity. Qed.
Lemma d_A21_695c : close ctol (10 / 1) (clamp A21_lo A21_hi (5 / 1)).
Proof. apply (A21_q_clamp_lo 5 1 10 1); vm_compute; reflexivity. Qed.
Lemma d_A21_703c : close ctol (80 / 1) (clamp A21_lo A21_hi (1000 / 1)).
Proof. apply (A21_q_clamp_hi 1000 1 80 1); vm_compute; reflexivity. Qed.
Lemma d_A21_712c : close ctol (10 / 1) (clamp A21_lo A21_hi (5629499534213121 / 562949953421312)).
Proof. apply (A21_q_clamp_mid 5629499534213121 562949953421312 10 1); vm_compute; reflexivity. Qed.
Lemma d_A21_720c : close ctol (80 / 1) (clamp A21_lo A21_hi (81 / 1)).
Proof. apply (A21_q_clamp_hi 81 1 80 1); vm_compute; reflexivity. Qed.
Lemma d_A21_728c : close ctol (80 / 1) (clamp A21_lo A21_hi (7741728042605739 / 70368744177664)).
Proof. apply (A21_q_clamp_hi 7741728042605739 70368744177664 80 1); vm_compute; reflexivity. Qed.
Lemma d_A21_736c : close ctol (4986965913238729 / 70368744177664) (clamp A21_lo A21_hi (4986965913238729 / 70368744177664)).
Proof. apply (A21_q_clamp_mid 4986965913238729 70368744177664 4986965913238729 70368744177664); vm_compute; reflexivity. Qed.
Lemma d_A21_744c : close ctol (3751725538760615 / 140737488355328) (clamp A21_lo A21_hi (7503451077521231 / 281474976710656)).
Proof. apply (A21_q_clamp_mid 7503451077521231 281474976710656 3751725538760615 140737488355328); vm_compute; reflexivity. Qed.
Lemma d_A21_752c : close ctol (3045698731436681 / 140737488355328) (clamp A21_lo A21_hi (3045698731436681 / 140737488355328)).
Proof. apply (A21_q_clamp_mid 3045698731436681 140737488355328 3045698731436681 140737488355328); vm_compute; reflexivity. Qed.
Lemma d_A21_760c : close ctol (2525632097262825 / 35184372088832) (clamp A21_lo A21_hi (2525632097262825 / 35184372088832)).
Proof. apply (A21_q_clamp_mid 2525632097262825 35184372088832 2525632097262825 35184372088832); vm_compute; reflexivity. Qed.
Lemma d_A21_768c : close ctol (2753046924661741 / 35184372088832) (clamp A21_lo A21_hi (2753046924661741 / 35184372088832)).
Proof. apply (A21_q_clamp_mid 2753046924661741 35184372088832 2753046924661741 35184372088832); vm_compute; reflexivity. Qed.
Lemma d_A21_776c : close ctol (80 / 1) (clamp A21_lo A21_hi (7583988962800821 / 70368744177664)).
Proof. apply (A21_q_clamp_hi 7583988962800821 70368744177664 80 1); vm_compute; reflexivity. Qed.
Lemma d_A21_784c : close ctol (10 / 1) (clamp A21_lo A21_hi (1088714296808819 / 140737488355328)).
Proof. apply (A21_q_clamp_lo 1088714296808819 140737488355328 10 1); vm_compute; reflexivity. Qed.
Lemma d_A21_792c : close ctol (19 / 1) (clamp A21_lo A21_hi (19 / 1)).
Proof. apply (A21_q_clamp_mid 19 1 19 1); vm_compute; reflexivity. Qed.
Lemma d_A21_800c : close ctol (8829615901246263 / 281474976710656) (clamp A21_lo A21_hi (1103701987655783 / 35184372088832)).
Proof. apply (A21_q_clamp_mid 1103701987655783 35184372088832 8829615901246263 281474976710656); vm_compute; reflexivity. Qed.
Lemma d_A21_808c : close ctol (12 / 1) (clamp A21_lo A21_hi (12 / 1)).
Proof. apply (A21_q_clamp_mid 12 1 12 1); vm_compute; reflexivity. Qed.
Lemma d_A21_816c : close ctol (1012075094452337 / 17592186044416) (clamp A21_lo A21_hi (4048300377809347 / 70368744177664)).
Proof. apply (A21_q_clamp_mid 4048300377809347 70368744177664 1012075094452337 17592186044416); vm_compute; reflexivity. Qed.
Lemma d_A21_824c : close ctol (4696940864601273 / 70368744177664) (clamp A21_lo A21_hi (587117608075159 / 8796093022208)).
Proof. apply (A21_q_clamp_mid 587117608075159 8796093022208 4696940864601273 70368744177664); vm_compute; reflexivity. Qed.
Lemma d_A21_832c : close ctol (7372976752851691 / 140737488355328) (clamp A21_lo A21_hi (3686488376425845 / 70368744177664)).
Proof. apply (A21_q_clamp_mid 3686488376425845 70368744177664 7372976752851691 140737488355328); vm_compute; reflexivity. Qed.
Lemma d_A21_840c : close ctol (6027852466547263 / 140737488355328) (clamp A21_lo A21_hi (94185194789801 / 2199023255552)).
Proof. apply (A21_q_clamp_mid 94185194789801 2199023255552 6027852466547263 140737488355328); vm_compute; reflexivity. Qed.
Lemma d_A21_848c : close ctol (10 / 1) (clamp A21_lo A21_hi (3415370136343353 / 562949953421312)).
Proof. apply (A21_q_clamp_lo 3415370136343353 562949953421312 10 1); vm_compute; reflexivity. Qed.
Lemma d_A21_856c : close ctol (7724074721788083 / 281474976710656) (clamp A21_lo A21_hi (7724074721788083 / 281474976710656)).
Proof. apply (A21_q_clamp_mid 7724074721788083 281474976710656 7724074721788083 281474976710656); vm_compute; reflexivity. Qed.
Lemma d_A21_864c : close ctol (2979132562728465 / 70368744177664) (clamp A21_lo A21_hi (2979132562728465 / 70368744177664)).
Proof. apply (A21_q_clamp_mid 2979132562728465 70368744177664 2979132562728465 70368744177664); vm_compute; reflexivity. Qed.
Lemma d_A21_872c : close ctol (6469658578338843 / 140737488355328) (clamp A21_lo A21_hi (6469658578338843 / 140737488355328)).
Proof. apply (A21_q_clamp_mid 6469658578338843 140737488355328 6469658578338843 140737488355328); vm_compute; reflexivity. Qed.
Lemma d_A21_880c : close ctol (6420556331276065 / 562949953421312) (clamp A21_lo A21_hi (6420556331276065 / 562949953421312)).
Proof. apply (A21_q_clamp_mid 6420556331276065 562949953421312 6420556331276065 562949953421312); vm_compute; reflexivity. Qed.
Lemma d_A21_888c : close ctol (6400165696930079 / 281474976710656) (clamp A21_lo A21_hi (3200082848465039 / 140737488355328)).
Proof. apply (A21_q_clamp_mid 3200082848465039 140737488355328 6400165696930079 281474976710656); vm_compute; reflexivity. Qed.
Lemma d_A21_896c : close ctol (1197757341203871 / 17592186044416) (clamp A21_lo A21_hi (1197757341203871 / 17592186044416)).
Proof. apply (A21_q_clamp_mid 1197757341203871 17592186044416 1197757341203871 17592186044416); vm_compute; reflexivity. Qed.
Lemma d_A21_904c : close ctol (80 / 1) (clamp A21_lo A21_hi (652100872193439 / 137438953472)).
Proof. apply (A21_q_clamp_hi 652100872193439 137438953472 80 1); vm_compute; reflexivity. Qed.
Lemma d_A21_912c : close ctol (4582947291613791 / 70368744177664) (clamp A21_lo A21_hi (4582947291613791 / 70368744177664)).
Proof. apply (A21_q_clamp_mid 4582947291613791 70368744177664 4582947291613791 70368744177664); vm_compute; reflexivity. Qed.
Lemma d_A21_920c : close ctol (10 / 1) (clamp A21_lo A21_hi ((-6762075422127779) / 2251799813685248)).
Proof. apply (A21_q_clamp_lo (-6762075422127779) 2251799813685248 10 1); vm_compute; reflexivity. Qed.
Lemma d_A21_928c : close ctol (4710228520413477 / 70368744177664) (clamp A21_lo A21_hi (4710228520413477 / 70368744177664)).
Proof. apply (A21_q_clamp_mid 4710228520413477 70368744177664 4710228520413477 70368744177664); vm_compute; reflexivity. Qed.
Lemma d_A21_936c : close ctol (6400048594787809 / 562949953421312) (clamp A21_lo A21_hi (6400048594787809 / 562949953421312)).
Proof. apply (A21_q_clamp_mid 6400048594787809 562949953421312 6400048594787809 562949953421312); vm_compute; reflexivity. Qed.
Lemma d_A21_944c : close ctol (5803353315926825 / 140737488355328) (clamp A21_lo A21_hi (5803353315926825 / 140737488355328)).
Proof. apply (A21_q_clamp_mid 5803353315926825 140737488355328 5803353315926825 140737488355328); vm_compute; reflexivity. Qed.
Lemma d_A21_952c : close ctol (5840753703660217 / 140737488355328) (clamp A21_lo A21_hi (730094212957527 / 17592186044416)).
Proof. apply (A21_q_clamp_mid 730094212957527 17592186044416 5840753703660217 140737488355328); vm_compute; reflexivity. Qed.
Lemma d_A21_960c : close ctol (7297727695746655 / 562949953421312) (clamp A21_lo A21_hi (7297727695746655 / 562949953421312)).
Proof. apply (A21_q_clamp_mid 7297727695746655 562949953421312 7297727695746655 562949953421312); vm_compute; reflexivity. Qed.
Lemma d_A21_968c : close ctol (80 / 1) (clamp A21_lo A21_hi (8284094635989193 / 35184372088832)).
Proof. apply (A21_q_clamp_hi 8284094635989193 35184372088832 80 1); vm_compute; reflexivity. Qed.
Lemma d_A21_976c : close ctol (5959182926959265 / 140737488355328) (clamp A21_lo A21_hi (5959182926959265 / 140737488355328)).
Proof. apply (A21_q_clamp_mid 5959182926959265 140737488355328 5959182926959265 140737488355328); vm_compute; reflexivity. Qed.
Lemma d_A21_984c : close ctol (2520371219991577 / 70368744177664) (clamp A21_lo A21_hi (2520371219991577 / 70368744177664)).
Proof. apply (A21_q_clamp_mid 2520371219991577 70368744177664 2520371219991577 70368744177664); vm_compute; reflexivity. Qed.
Lemma d_A21_992c : close ctol (80 / 1) (clamp A21_lo A21_hi (1614542943149799 / 8796093022208)).
Proof. apply (A21_q_clamp_hi 1614542943149799 8796093022208 80 1); vm_compute; reflexivity. Qed.
Lemma d_A21_1000c : close ctol (6825579994405661 / 140737488355328) (clamp A21_lo A21_hi (6825579994405661 / 140737488355328)).
Proof. apply (A21_q_clamp_mid 6825579994405661 140737488355328 6825579994405661 140737488355328); vm_compute; reflexivity. Qed.
Lemma d_A21_1008c : close ctol (1172643094263907 / 70368744177664) (clamp A21_lo A21_hi (1172643094263907 / 70368744177664)).
Proof. apply (A21_q_clamp_mid 1172643094263907 70368744177664 1172643094263907 70368744177664); vm_compute; reflexivity. Qed.
Lemma d_A21_1016c : close ctol (5527708838711509 / 70368744177664) (clamp A21_lo A21_hi (5527708838711509 / 70368744177664)).
Proof. apply (A21_q_clamp_mid 5527708838711509 70368744177664 5527708838711509 70368744177664); vm_compute; reflexivity. Qed.
Lemma d_A21_1024c : close ctol (5952836897620715 / 140737488355328) (clamp A21_lo A21_hi (5952836897620715 / 140737488355328)).
Proof. apply (A21_q_clamp_mid 5952836897620715 140737488355328 5952836897620715 140737488355328); vm_compute; reflexivity. Qed.
Lemma d_A21_1032c : close ctol (6598258229399853 / 140737488355328) (clamp A21_lo A21_hi (1649564557349963 / 35184372088832)).
Proof. apply (A21_q_clamp_mid 1649564557349963 35184372088832 6598258229399853 140737488355328); vm_compute; reflexivity. Qed.
Lemma d_A21_1040c : close ctol (1149657185912693 / 35184372088832) (clamp A21_lo A21_hi (1149657185912693 / 35184372088832)).
Proof. apply (A21_q_clamp_mid 1149657185912693 35184372088832 1149657185912693 35184372088832); vm_compute; reflexivity. Qed.
Lemma d_A21_1048c : close ctol (2395331463557251 / 35184372088832) (clamp A21_lo A21_hi (2395331463557251 / 35184372088832)).
Proof. apply (A21_q_clamp_mid 2395331463557251 35184372088832 2395331463557251 35184372088832); vm_compute; reflexivity. Qed.
Lemma d_A21_1056c : close ctol (10 / 1) (clamp A21_lo A21_hi (1534425892091985 / 281474976710656)).
Proof. apply (A21_q_clamp_lo 1534425892091985 281474976710656 10 1); vm_compute; reflexivity. Qed.
Lemma d_A21_1064c : close ctol (2948832281692279 / 70368744177664) (clamp A21_lo A21_hi (2948832281692279 / 70368744177664)).
Proof. apply (A21_q_clamp_mid 2948832281692279 70368744177664 2948832281692279 70368744177664); vm_compute; reflexivity. Qed.
Lemma d_A21_1072c : close ctol (5582836607234385 / 70368744177664) (clamp A21_lo A21_hi (5582836607234385 / 70368744177664)).
Proof. apply (A21_q_clamp_mid 5582836607234385 70368744177664 5582836607234385 70368744177664); vm_compute; reflexivity. Qed.
Lemma d_A21_1080c : close ctol (10 / 1) (clamp A21_lo A21_hi ((-3285772612974485) / 1125899906842624)).
Proof. apply (A21_q_clamp_lo (-3285772612974485) 1125899906842624 10 1); vm_compute; reflexivity. Qed.
Lemma d_A21_1088c : close ctol (80 / 1) (clamp A21_lo A21_hi (453755931552897 / 4398046511104)).
Proof. apply (A21_q_clamp_hi 453755931552897 4398046511104 80 1); vm_compute; reflexivity. Qed.
Lemma d_A21_1096c : close ctol (1236044340564945 / 70368744177664) (clamp A21_lo A21_hi (1236044340564945 / 70368744177664)).
Proof. apply (A21_q_clamp_mid 1236044340564945 70368744177664 1236044340564945 70368744177664); vm_compute; reflexivity. Qed.
Lemma d_A21_1104c : close ctol (2397846996773647 / 70368744177664) (clamp A21_lo A21_hi (2397846996773647 / 70368744177664)).
Proof. apply (A21_q_clamp_mid 2397846996773647 70368744177664 2397846996773647 70368744177664); vm_compute; reflexivity. Qed.
Lemma d_A21_1112c : close ctol (80 / 1) (clamp A21_lo A21_hi (136 / 1)).
Proof. apply (A21_q_clamp_hi 136 1 80 1); vm_compute; reflexivity. Qed.
Lemma d_A21_1120c : close ctol (4988984222850639 / 140737488355328) (clamp A21_lo A21_hi (4988984222850639 / 140737488355328)).
Proof. apply (A21_q_clamp_mid 4988984222850639 140737488355328 4988984222850639 140737488355328); vm_compute; reflexivity. Qed.
Lemma d_A21_1128c : close ctol (2480866004526197 / 70368744177664) (clamp A21_lo A21_hi (2480866004526197 / 70368744177664)).
Proof. apply (A21_q_clamp_mid 2480866004526197 70368744177664 2480866004526197 70368744177664); vm_compute; reflexivity. Qed.
Lemma d_A21_1136c : close ctol (3058939405227695 / 70368744177664) (clamp A21_lo A21_hi (6117878810455391 / 140737488355328)).
Proof. apply (A21_q_clamp_mid 6117878810455391 140737488355328 3058939405227695 70368744177664); vm_compute; reflexivity. Qed.
Lemma d_A21_1144c : close ctol (10 / 1) (clamp A21_lo A21_hi ((-1000512026664335) / 281474976710656)).
Proof. apply (A21_q_clamp_lo (-1000512026664335) 281474976710656 10 1); vm_compute; reflexivity. Qed.
Lemma d_A21_1152c : close ctol (10 / 1) (clamp A21_lo A21_hi (468217889474795 / 562949953421312)).
Proof. apply (A21_q_clamp_lo 468217889474795 562949953421312 10 1); vm_compute; reflexivity. Qed.
Lemma d_A21_1160c : close ctol (10 / 1) (clamp A21_lo A21_hi ((-1726624890811111) / 1125899906842624)).
Proof. apply (A21_q_clamp_lo (-1726624890811111) 1125899906842624 10 1); vm_compute; reflexivity. Qed.
Lemma d_A21_1168c : close ctol (8187514415670299 / 281474976710656) (clamp A21_lo A21_hi (4093757207835149 / 140737488355328)).
Proof. apply (A21_q_clamp_mid 4093757207835149 140737488355328 8187514415670299 281474976710656); vm_compute; reflexivity. Qed.
Lemma d_A21_1176c : close ctol (3517119953331037 / 281474976710656) (clamp A21_lo A21_hi (3517119953331037 / 281474976710656)).
Proof. apply (A21_q_clamp_mid 3517119953331037 281474976710656 3517119953331037 281474976710656); vm_compute; reflexivity. Qed.
Lemma d_A21_1184c : close ctol (3599189084707059 / 140737488355328) (clamp A21_lo A21_hi (3599189084707059 / 140737488355328)).
Proof. apply (A21_q_clamp_mid 3599189084707059 140737488355328 3599189084707059 140737488355328); vm_compute; reflexivity. Qed.
Lemma d_A21_1192c : close ctol (4619571997793085 / 70368744177664) (clamp A21_lo A21_hi (4619571997793085 / 70368744177664)).
Proof. apply (A21_q_clamp_mid 4619571997793085 70368744177664 4619571997793085 70368744177664); vm_compute; reflexivity. Qed.
Lemma d_A21_1200c : close ctol (3746037474142831 / 70368744177664) (clamp A21_lo A21_hi (7492074948285663 / 140737488355328)).
Proof. apply (A21_q_clamp_mid 7492074948285663 140737488355328 3746037474142831 70368744177664); vm_compute; reflexivity. Qed.
Lemma d_A21_1208c : close ctol (2550521253493433 / 35184372088832) (clamp A21_lo A21_hi (2550521253493433 / 35184372088832)).
Proof. apply (A21_q_clamp_mid 2550521253493433 35184372088832 2550521253493433 35184372088832); vm_compute; reflexivity. Qed.
Lemma d_A21_1216c : close ctol (5545203880860017 / 70368744177664) (clamp A21_lo A21_hi (5545203880860017 / 70368744177664)).
Proof. apply (A21_q_clamp_mid 5545203880860017 70368744177664 5545203880860017 70368744177664); vm_compute; reflexivity. Qed.
Lemma d_A21_1224c : close ctol (1291503546041025 / 35184372088832) (clamp A21_lo A21_hi (5166014184164099 / 140737488355328)).
Proof. apply (A21_q_clamp_mid 5166014184164099 140737488355328 1291503546041025 35184372088832); vm_compute; reflexivity. Qed.
Lemma d_A21_1232c : close ctol (3416880814166255 / 140737488355328) (clamp A21_lo A21_hi (3416880814166255 / 140737488355328)).
Proof. apply (A21_q_clamp_mid 3416880814166255 140737488355328 3416880814166255 140737488355328); vm_compute; reflexivity. Qed.
Lemma d_A21_1240c : close ctol (47214268653967 / 4398046511104) (clamp A21_lo A21_hi (47214268653967 / 4398046511104)).
Proof. apply (A21_q_clamp_mid 47214268653967 4398046511104 47214268653967 4398046511104); vm_compute; reflexivity. Qed.
Lemma d_A21_1248c : close ctol (512356223069433 / 8796093022208) (clamp A21_lo A21_hi (8197699569110929 / 140737488355328)).
Proof. apply (A21_q_clamp_mid 8197699569110929 140737488355328 512356223069433 8796093022208); vm_compute; reflexivity. Qed.
Lemma d_A21_1256c : close ctol (5284245707669757 / 140737488355328) (clamp A21_lo A21_hi (1321061426917439 / 35184372088832)).
Proof. apply (A21_q_clamp_mid 1321061426917439 35184372088832 5284245707669757 140737488355328); vm_compute; reflexivity. Qed.
Lemma d_A21_1264c : close ctol (1234446106474565 / 35184372088832) (clamp A21_lo A21_hi (1234446106474565 / 35184372088832)).
Proof. apply (A21_q_clamp_mid 1234446106474565 35184372088832 1234446106474565 35184372088832); vm_compute; reflexivity. Qed.
Lemma d_A21_1272c : close ctol (80 / 1) (clamp A21_lo A21_hi (2031463087189129 / 8796093022208)).
Proof. apply (A21_q_clamp_hi 2031463087189129 8796093022208 80 1); vm_compute; reflexivity. Qed.
Lemma d_A21_1280c : close ctol (2074392667748477 / 140737488355328) (clamp A21_lo A21_hi (2074392667748477 / 140737488355328)).
Proof. apply (A21_q_clamp_mid 2074392667748477 140737488355328 2074392667748477 140737488355328); vm_compute; reflexivity. Qed.
Lemma d_A21_1288c : close ctol (10 / 1) (clamp A21_lo A21_hi (4196073677161445 / 562949953421312)).
Proof. apply (A21_q_clamp_lo 4196073677161445 562949953421312 10 1); vm_compute; reflexivity. Qed.
Lemma d_A21_1296c : close ctol (1424563828020111 / 35184372088832) (clamp A21_lo A21_hi (1424563828020111 / 35184372088832)).
Proof. apply (A21_q_clamp_mid 1424563828020111 35184372088832 1424563828020111 35184372088832); vm_compute; reflexivity. Qed.
Lemma d_A21_1304c : close ctol (10 / 1) (clamp A21_lo A21_hi (109261895889923 / 562949953421312)).
Proof. apply (A21_q_clamp_lo 109261895889923 562949953421312 10 1); vm_compute; reflexivity. Qed.
Lemma d_A21_1312c : close ctol (585814171385853 / 35184372088832) (clamp A21_lo A21_hi (585814171385853 / 35184372088832)).
Proof. apply (A21_q_clamp_mid 585814171385853 35184372088832 585814171385853 35184372088832); vm_compute; reflexivity. Qed.
Lemma d_A21_1320c : close ctol (2954070365781561 / 70368744177664) (clamp A21_lo A21_hi (2954070365781561 / 70368744177664)).
Proof. apply (A21_q_clamp_mid 2954070365781561 70368744177664 2954070365781561 70368744177664); vm_compute; reflexivity. Qed.
Lemma d_A21_1328c : close ctol (10 / 1) (clamp A21_lo A21_hi (1042355077188173 / 562949953421312)).
Proof. apply (A21_q_clamp_lo 1042355077188173 562949953421312 10 1); vm_compute; reflexivity. Qed.
Lemma r_A41_861 : rio_reads A41_c A41_e A41_lo A41_hi floor_volts ctol (Build_rio (Fin ((-5) / 1)) (Fin (2758454771764429 / 562949953421312)) (Fin (3715469692580659 / 1125899906842624)) (Fin (6 / 1)) (Fin (12 / 1)) true true true ((Fin (0 / 1)) :: (Fin (0 / 1)) :: (Fin (0 / 1)) :: (Fin (0 / 1)) :: (Fin (27 / 4)) :: (Fin (45 / 1)) :: nil)) (5876659090025575 / 562949953421312).
Proof. apply (A41_rio_fin _ ((-5) / 1)); [reflexivity | apply (A41_q_floor (-5) 1 5876659090025575 562949953421312); vm_compute; reflexivity]. Qed.
Lemma r_A41_1244 : rio_reads A41_c A41_e A41_lo A41_hi floor_volts ctol (Build_rio (Fin (510111229337591 / 1180591620717411303424)) (Fin (4537 / 1024)) (Fin (3715469692580659 / 1125899906842624)) (Fin (6 / 1)) (Fin (10093 / 1024)) true false true ((Fin (1797 / 1024)) :: (Fin (1535 / 1024)) :: (Fin (2613 / 1024)) :: (Fin (18687 / 1024)) :: (Fin (3537 / 1024)) :: (Fin ((-2353) / 256)) :: nil)) (35 / 1).
Proof. apply (A41_rio_fin _ (510111229337591 / 1180591620717411303424)); [reflexivity | apply (A41_q_floor 510111229337591 1180591620717411303424 35 1); vm_compute; reflexivity]. Qed.
Lemma d_A41_1337c : close ctol (35 / 1) (clamp A41_lo A41_hi (50 / 1)).
Proof. apply (A41_q_clamp_hi 50 1 35 1); vm_compute; reflexivity. Qed.
Lemma d_A41_1345c : close ctol (45 / 2) (clamp A41_lo A41_hi (45 / 2)).
Proof. apply (A41_q_clamp_mid 45 2 45 2); vm_compute; reflexivity. Qed.
Lemma d_A41_1353c : close ctol (9 / 2) (clamp A41_lo A41_hi (0 / 1)).
Proof. apply (A41_q_clamp_lo 0 1 9 2); vm_compute; reflexivity. Qed.
Lemma d_A41_1361c : close ctol (5 / 1) (clamp A41_lo A41_hi (5 / 1)).
Proof. apply (A41_q_clamp_mid 5 1 5 1); vm_compute; reflexivity. Qed.
Lemma d_A41_1369c : close ctol (35 / 1) (clamp A41_lo A41_hi (1000 / 1)).
Proof. apply (A41_q_clamp_hi 1000 1 35 1); vm_compute; reflexivity. Qed.
Lemma d_A41_1378c : close ctol (5066549580791809 / 1125899906842624) (clamp A41_lo A41_hi (5066549580791809 / 1125899906842624)).
Proof. apply (A41_q_clamp_mid 5066549580791809 1125899906842624 5066549580791809 1125899906842624); vm_compute; reflexivity. Qed.
Lemma d_A41_1386c : close ctol (35 / 1) (clamp A41_lo A41_hi (36 / 1)).
Proof. apply (A41_q_clamp_hi 36 1 35 1); vm_compute; reflexivity. Qed.
Lemma d_A41_1394c : close ctol (7209876733822039 / 1125899906842624) (clamp A41_lo A41_hi (7209876733822039 / 1125899906842624)).
Proof. apply (A41_q_clamp_mid 7209876733822039 1125899906842624 7209876733822039 1125899906842624); vm_compute; reflexivity. Qed.
Lemma d_A41_1402c : close ctol (7353277181979487 / 562949953421312) (clamp A41_lo A41_hi (3676638590989743 / 281474976710656)).
Proof. apply (A41_q_clamp_mid 3676638590989743 281474976710656 7353277181979487 562949953421312); vm_compute; reflexivity. Qed.
Lemma d_A41_1410c : close ctol (7612993019167093 / 281474976710656) (clamp A41_lo A41_hi (7612993019167093 / 281474976710656)).
Proof. apply (A41_q_clamp_mid 7612993019167093 281474976710656 7612993019167093 281474976710656); vm_compute; reflexivity. Qed.
Lemma d_A41_1418c : close ctol (4180052806255059 / 140737488355328) (clamp A41_lo A41_hi (4180052806255059 / 140737488355328)).
Proof. apply (A41_q_clamp_mid 4180052806255059 140737488355328 4180052806255059 140737488355328); vm_compute; reflexivity. Qed.
Lemma d_A41_1426c : close ctol (35 / 1) (clamp A41_lo A41_hi (413571416639687 / 4398046511104)).
Proof. apply (A41_q_clamp_hi 413571416639687 4398046511104 35 1); vm_compute; reflexivity. Qed.
Lemma d_A41_1434c : close ctol (1002183707843663 / 35184372088832) (clamp A41_lo A41_hi (1002183707843663 / 35184372088832)).
Proof. apply (A41_q_clamp_mid 1002183707843663 35184372088832 1002183707843663 35184372088832); vm_compute; reflexivity. Qed.
Lemma d_A41_1442c : close ctol (5047000315220149 / 281474976710656) (clamp A41_lo A41_hi (5047000315220149 / 281474976710656)).
Proof. apply (A41_q_clamp_mid 5047000315220149 281474976710656 5047000315220149 281474976710656); vm_compute; reflexivity. Qed.
Lemma d_A41_1450c : close ctol (9 / 2) (clamp A41_lo A41_hi (2215950293071037 / 1125899906842624)).
Proof. apply (A41_q_clamp_lo 2215950293071037 1125899906842624 9 2); vm_compute; reflexivity. Qed.
Lemma d_A41_1458c : close ctol (4671700767289371 / 140737488355328) (clamp A41_lo A41_hi (2335850383644685 / 70368744177664)).
Proof. apply (A41_q_clamp_mid 2335850383644685 70368744177664 4671700767289371 140737488355328); vm_compute; reflexivity. Qed.
Lemma d_A41_1466c : close ctol (592530790843909 / 17592186044416) (clamp A41_lo A41_hi (592530790843909 / 17592186044416)).
Proof. apply (A41_q_clamp_mid 592530790843909 17592186044416 592530790843909 17592186044416); vm_compute; reflexivity. Qed.
Lemma d_A41_1474c : close ctol (4040870972237975 / 140737488355328) (clamp A41_lo A41_hi (8081741944475951 / 281474976710656)).
Proof. apply (A41_q_clamp_mid 8081741944475951 281474976710656 4040870972237975 140737488355328); vm_compute; reflexivity. Qed.
Lemma d_A41_1482c : close ctol (2666960665643183 / 140737488355328) (clamp A41_lo A41_hi (2666960665643183 / 140737488355328)).
Proof. apply (A41_q_clamp_mid 2666960665643183 140737488355328 2666960665643183 140737488355328); vm_compute; reflexivity. Qed.
Lemma d_A41_1490c : close ctol (9 / 2) (clamp A41_lo A41_hi ((-1) / 1)).
Proof. apply (A41_q_clamp_lo (-1) 1 9 2); vm_compute; reflexivity. Qed.
Lemma d_A41_1498c : close ctol (9 / 2) (clamp A41_lo A41_hi (301274305471575 / 70368744177664)).
Proof. apply (A41_q_clamp_lo 301274305471575 70368744177664 9 2); vm_compute; reflexivity. Qed.
Lemma d_A41_1506c : close ctol (9 / 2) (clamp A41_lo A41_hi ((-2010683417414379) / 1125899906842624)).
Proof. apply (A41_q_clamp_lo (-2010683417414379) 1125899906842624 9 2); vm_compute; reflexivity. Qed.
Lemma d_A41_1514c : close ctol (2096864278420763 / 140737488355328) (clamp A41_lo A41_hi (2096864278420763 / 140737488355328)).
Proof. apply (A41_q_clamp_mid 2096864278420763 140737488355328 2096864278420763 140737488355328); vm_compute; reflexivity. Qed.
Lemma d_A41_1522c : close ctol (8771405804401775 / 1125899906842624) (clamp A41_lo A41_hi (8771405804401775 / 1125899906842624)).
Proof. apply (A41_q_clamp_mid 8771405804401775 1125899906842624 8771405804401775 1125899906842624); vm_compute; reflexivity. Qed.
Lemma d_A41_1530c : close ctol (66479512017603 / 4398046511104) (clamp A41_lo A41_hi (8509377538253183 / 562949953421312)).
Proof. apply (A41_q_clamp_mid 8509377538253183 562949953421312 66479512017603 4398046511104); vm_compute; reflexivity. Qed.
Lemma d_A41_1538c : close ctol (5108105832581033 / 281474976710656) (clamp A41_lo A41_hi (5108105832581033 / 281474976710656)).
Proof. apply (A41_q_clamp_mid 5108105832581033 281474976710656 5108105832581033 281474976710656); vm_compute; reflexivity. Qed.
Lemma d_A41_1546c : close ctol (6505276311273299 / 281474976710656) (clamp A41_lo A41_hi (6505276311273299 / 281474976710656)).
Proof. apply (A41_q_clamp_mid 6505276311273299 281474976710656 6505276311273299 281474976710656); vm_compute; reflexivity. Qed.
Lemma d_A41_1554c : close ctol (9 / 2) (clamp A41_lo A41_hi ((-1043504368042367) / 562949953421312)).
Proof. apply (A41_q_clamp_lo (-1043504368042367) 562949953421312 9 2); vm_compute; reflexivity. Qed.
Lemma d_A41_1562c : close ctol (35 / 1) (clamp A41_lo A41_hi (2747172363486401 / 35184372088832)).
Proof. apply (A41_q_clamp_hi 2747172363486401 35184372088832 35 1); vm_compute; reflexivity. Qed.
Lemma d_A41_1570c : close ctol (1735109829888681 / 70368744177664) (clamp A41_lo A41_hi (1735109829888681 / 70368744177664)).
Proof. apply (A41_q_clamp_mid 1735109829888681 70368744177664 1735109829888681 70368744177664); vm_compute; reflexivity. Qed.
Lemma d_A41_1578c : close ctol (2652757534920993 / 281474976710656) (clamp A41_lo A41_hi (2652757534920993 / 281474976710656)).
Proof. apply (A41_q_clamp_mid 2652757534920993 281474976710656 2652757534920993 281474976710656); vm_compute; reflexivity. Qed.
Lemma d_A41_1586c : close ctol (6236004009133301 / 562949953421312) (clamp A41_lo A41_hi (6236004009133301 / 562949953421312)).
Proof. apply (A41_q_clamp_mid 6236004009133301 562949953421312 6236004009133301 562949953421312); vm_compute; reflexivity. Qed.
Lemma d_A41_1594c : close ctol (9 / 2) (clamp A41_lo A41_hi ((-3602367655334677) / 4503599627370496)).
Proof. apply (A41_q_clamp_lo (-3602367655334677) 4503599627370496 9 2); vm_compute; reflexivity. Qed.
Lemma d_A41_1602c : close ctol (223295967828327 / 17592186044416) (clamp A41_lo A41_hi (223295967828327 / 17592186044416)).
Proof. apply (A41_q_clamp_mid 223295967828327 17592186044416 223295967828327 17592186044416); vm_compute; reflexivity. Qed.
Lemma d_A41_1610c : close ctol (3780897162236477 / 140737488355328) (clamp A41_lo A41_hi (3780897162236477 / 140737488355328)).
Proof. apply (A41_q_clamp_mid 3780897162236477 140737488355328 3780897162236477 140737488355328); vm_compute; reflexivity. Qed.
Lemma d_A41_1618c : close ctol (4885668629164507 / 281474976710656) (clamp A41_lo A41_hi (4885668629164507 / 281474976710656)).
Proof. apply (A41_q_clamp_mid 4885668629164507 281474976710656 4885668629164507 281474976710656); vm_compute; reflexivity. Qed.
Lemma d_A41_1626c : close ctol (4551563291280781 / 140737488355328) (clamp A41_lo A41_hi (4551563291280781 / 140737488355328)).
Proof. apply (A41_q_clamp_mid 4551563291280781 140737488355328 4551563291280781 140737488355328); vm_compute; reflexivity. Qed.
Lemma d_A41_1634c : close ctol (2943652162050507 / 281474976710656) (clamp A41_lo A41_hi (2943652162050507 / 281474976710656)).
Proof. apply (A41_q_clamp_mid 2943652162050507 281474976710656 2943652162050507 281474976710656); vm_compute; reflexivity. Qed.
Lemma d_A41_1642c : close ctol (4690828764778875 / 281474976710656) (clamp A41_lo A41_hi (4690828764778875 / 281474976710656)).
Proof. apply (A41_q_clamp_mid 4690828764778875 281474976710656 4690828764778875 281474976710656); vm_compute; reflexivity. Qed.
Lemma d_A41_1650c : close ctol (881921064730571 / 35184372088832) (clamp A41_lo A41_hi (881921064730571 / 35184372088832)).
Proof. apply (A41_q_clamp_mid 881921064730571 35184372088832 881921064730571 35184372088832); vm_compute; reflexivity. Qed.
Lemma d_A41_1658c : close ctol (3070980671118401 / 281474976710656) (clamp A41_lo A41_hi (3070980671118401 / 281474976710656)).
Proof. apply (A41_q_clamp_mid 3070980671118401 281474976710656 3070980671118401 281474976710656); vm_compute; reflexivity. Qed.
Lemma d_A41_1666c : close ctol (4567366827535067 / 140737488355328) (clamp A41_lo A41_hi (4567366827535067 / 140737488355328)).
Proof. apply (A41_q_clamp_mid 4567366827535067 140737488355328 4567366827535067 140737488355328); vm_compute; reflexivity. Qed.
Lemma d_A41_1674c : close ctol (2779889778702443 / 562949953421312) (clamp A41_lo A41_hi (2779889778702443 / 562949953421312)).
Proof. apply (A41_q_clamp_mid 2779889778702443 562949953421312 2779889778702443 562949953421312); vm_compute; reflexivity. Qed.
Lemma d_A41_1682c : close ctol (5109714556512415 / 562949953421312) (clamp A41_lo A41_hi (159678579891013 / 17592186044416)).
Proof. apply (A41_q_clamp_mid 159678579891013 17592186044416 5109714556512415 562949953421312); vm_compute; reflexivity. Qed.
Lemma d_A41_1690c : close ctol (1893478909119137 / 70368744177664) (clamp A41_lo A41_hi (7573915636476549 / 281474976710656)).
Proof. apply (A41_q_clamp_mid 7573915636476549 281474976710656 1893478909119137 70368744177664); vm_compute; reflexivity. Qed.
Lemma d_A41_1698c : close ctol (23 / 1) (clamp A41_lo A41_hi (23 / 1)).
Proof. apply (A41_q_clamp_mid 23 1 23 1); vm_compute; reflexivity. Qed.
Lemma d_A41_1706c : close ctol (9 / 2) (clamp A41_lo A41_hi (5956553439750999 / 1152921504606846976)).
Proof. apply (A41_q_clamp_lo 5956553439750999 1152921504606846976 9 2); vm_compute; reflexivity. Qed.
Lemma d_A41_1714c : close ctol (35 / 1) (clamp A41_lo A41_hi (5036195630321185 / 140737488355328)).
Proof. apply (A41_q_clamp_hi 5036195630321185 140737488355328 35 1); vm_compute; reflexivity. Qed.
Lemma d_A41_1722c : close ctol (3180684115224559 / 140737488355328) (clamp A41_lo A41_hi (3180684115224559 / 140737488355328)).
Proof. apply (A41_q_clamp_mid 3180684115224559 140737488355328 3180684115224559 140737488355328); vm_compute; reflexivity. Qed.
Lemma d_A41_1730c : close ctol (6459693442632135 / 562949953421312) (clamp A41_lo A41_hi (3229846721316067 / 281474976710656)).
Proof. apply (A41_q_clamp_mid 3229846721316067 281474976710656 6459693442632135 562949953421312); vm_compute; reflexivity. Qed.
Lemma d_A41_1738c : close ctol (1131788980838717 / 70368744177664) (clamp A41_lo A41_hi (1131788980838717 / 70368744177664)).
Proof. apply (A41_q_clamp_mid 1131788980838717 70368744177664 1131788980838717 70368744177664); vm_compute; reflexivity. Qed.
Lemma d_A41_1746c : close ctol (3730642443159533 / 562949953421312) (clamp A41_lo A41_hi (7461284886319065 / 1125899906842624)).
Proof. apply (A41_q_clamp_mid 7461284886319065 1125899906842624 3730642443159533 562949953421312); vm_compute; reflexivity. Qed.
Lemma d_A41_1754c : close ctol (8936530129197729 / 281474976710656) (clamp A41_lo A41_hi (8936530129197729 / 281474976710656)).
Proof. apply (A41_q_clamp_mid 8936530129197729 281474976710656 8936530129197729 281474976710656); vm_compute; reflexivity. Qed.
Lemma d_A41_1762c : close ctol (35 / 1) (clamp A41_lo A41_hi (2338976113968887 / 35184372088832)).
Proof. apply (A41_q_clamp_hi 2338976113968887 35184372088832 35 1); vm_compute; reflexivity. Qed.
Lemma d_A41_1770c : close ctol (35 / 1) (clamp A41_lo A41_hi (3169836144675135 / 70368744177664)).
Proof. apply (A41_q_clamp_hi 3169836144675135 70368744177664 35 1); vm_compute; reflexivity. Qed.
Lemma d_A41_1778c : close ctol (6085599893305443 / 281474976710656) (clamp A41_lo A41_hi (6085599893305443 / 281474976710656)).
Proof. apply (A41_q_clamp_mid 6085599893305443 281474976710656 6085599893305443 281474976710656); vm_compute; reflexivity. Qed.
Lemma d_A41_1786c : close ctol (5319490426964361 / 1125899906842624) (clamp A41_lo A41_hi (5319490426964361 / 1125899906842624)).
Proof. apply (A41_q_clamp_mid 5319490426964361 1125899906842624 5319490426964361 1125899906842624); vm_compute; reflexivity. Qed.
Lemma d_A41_1794c : close ctol (35 / 1) (clamp A41_lo A41_hi (5995118474163501 / 70368744177664)).
Proof. apply (A41_q_clamp_hi 5995118474163501 70368744177664 35 1); vm_compute; reflexivity. Qed.
Lemma d_A41_1802c : close ctol (6152903420031799 / 281474976710656) (clamp A41_lo A41_hi (3076451710015899 / 140737488355328)).
Proof. apply (A41_q_clamp_mid 3076451710015899 140737488355328 6152903420031799 281474976710656); vm_compute; reflexivity. Qed.
Lemma d_A41_1810c : close ctol (2875339115173647 / 140737488355328) (clamp A41_lo A41_hi (2875339115173647 / 140737488355328)).
Proof. apply (A41_q_clamp_mid 2875339115173647 140737488355328 2875339115173647 140737488355328); vm_compute; reflexivity. Qed.
Lemma d_A41_1818c : close ctol (20 / 1) (clamp A41_lo A41_hi (20 / 1)).
Proof. apply (A41_q_clamp_mid 20 1 20 1); vm_compute; reflexivity. Qed.
Lemma d_A41_1826c : close ctol (7997292431029995 / 1125899906842624) (clamp A41_lo A41_hi (7997292431029995 / 1125899906842624)).
Proof. apply (A41_q_clamp_mid 7997292431029995 1125899906842624 7997292431029995 1125899906842624); vm_compute; reflexivity. Qed.
Lemma d_A41_1834c : close ctol (1077144878075245 / 70368744177664) (clamp A41_lo A41_hi (1077144878075245 / 70368744177664)).
Proof. apply (A41_q_clamp_mid 1077144878075245 70368744177664 1077144878075245 70368744177664); vm_compute; reflexivity. Qed.
Lemma d_A41_1842c : close ctol (35 / 1) (clamp A41_lo A41_hi (3182559223480863 / 70368744177664)).
Proof. apply (A41_q_clamp_hi 3182559223480863 70368744177664 35 1); vm_compute; reflexivity. Qed.
Lemma d_A41_1850c : close ctol (6703879873147829 / 562949953421312) (clamp A41_lo A41_hi (1675969968286957 / 140737488355328)).
Proof. apply (A41_q_clamp_mid 1675969968286957 140737488355328 6703879873147829 562949953421312); vm_compute; reflexivity. Qed.
Lemma d_A41_1858c : close ctol (9 / 2) (clamp A41_lo A41_hi (2302614524510863 / 2251799813685248)).
Proof. apply (A41_q_clamp_lo 2302614524510863 2251799813685248 9 2); vm_compute; reflexivity. Qed.
Lemma d_A41_1866c : close ctol (4956944088471179 / 562949953421312) (clamp A41_lo A41_hi (1239236022117795 / 140737488355328)).
Proof. apply (A41_q_clamp_mid 1239236022117795 140737488355328 4956944088471179 562949953421312); vm_compute; reflexivity. Qed.
Lemma d_A41_1874c : close ctol (7419786936279577 / 281474976710656) (clamp A41_lo A41_hi (7419786936279577 / 281474976710656)).
Proof. apply (A41_q_clamp_mid 7419786936279577 281474976710656 7419786936279577 281474976710656); vm_compute; reflexivity. Qed.
Lemma d_A41_1882c : close ctol (35 / 1) (clamp A41_lo A41_hi (5202974173723319 / 137438953472)).
Proof. apply (A41_q_clamp_hi 5202974173723319 137438953472 35 1); vm_compute; reflexivity. Qed.
Lemma d_A41_1890c : close ctol (7576300665567611 / 281474976710656) (clamp A41_lo A41_hi (7576300665567611 / 281474976710656)).
Proof. apply (A41_q_clamp_mid 7576300665567611 281474976710656 7576300665567611 281474976710656); vm_compute; reflexivity. Qed.
Lemma d_A41_1898c : close ctol (4024394850822799 / 140737488355328) (clamp A41_lo A41_hi (2012197425411399 / 70368744177664)).
Proof. apply (A41_q_clamp_mid 2012197425411399 70368744177664 4024394850822799 140737488355328); vm_compute; reflexivity. Qed.
Lemma d_A41_1906c : close ctol (3505609458128401 / 140737488355328) (clamp A41_lo A41_hi (3505609458128401 / 140737488355328)).
Proof. apply (A41_q_clamp_mid 3505609458128401 140737488355328 3505609458128401 140737488355328); vm_compute; reflexivity. Qed.
Lemma d_A41_1914c : close ctol (7589969883231701 / 562949953421312) (clamp A41_lo A41_hi (1897492470807925 / 140737488355328)).
Proof. apply (A41_q_clamp_mid 1897492470807925 140737488355328 7589969883231701 562949953421312); vm_compute; reflexivity. Qed.
Lemma d_A41_1922c : close ctol (9 / 2) (clamp A41_lo A41_hi (3986548432082797 / 1125899906842624)).
Proof. apply (A41_q_clamp_lo 3986548432082797 1125899906842624 9 2); vm_compute; reflexivity. Qed.
Lemma d_A41_1930c : close ctol (1502113652240945 / 70368744177664) (clamp A41_lo A41_hi (1502113652240945 / 70368744177664)).
Proof. apply (A41_q_clamp_mid 1502113652240945 70368744177664 1502113652240945 70368744177664); vm_compute; reflexivity. Qed.
Lemma d_A41_1938c : close ctol (5218225794605553 / 562949953421312) (clamp A41_lo A41_hi (5218225794605553 / 562949953421312)).
Proof. apply (A41_q_clamp_mid 5218225794605553 562949953421312 5218225794605553 562949953421312); vm_compute; reflexivity. Qed.
Lemma d_A41_1946c : close ctol (305918065497467 / 8796093022208) (clamp A41_lo A41_hi (305918065497467 / 8796093022208)).
Proof. apply (A41_q_clamp_mid 305918065497467 8796093022208 305918065497467 8796093022208); vm_compute; reflexivity. Qed.
Lemma d_A41_1954c : close ctol (2841033467796611 / 140737488355328) (clamp A41_lo A41_hi (5682066935593221 / 281474976710656)).
Proof. apply (A41_q_clamp_mid 5682066935593221 281474976710656 2841033467796611 140737488355328); vm_compute; reflexivity. Qed.
Lemma d_A41_1962c : close ctol (2337478262417545 / 70368744177664) (clamp A41_lo A41_hi (4674956524835089 / 140737488355328)).
Proof. apply (A41_q_clamp_mid 4674956524835089 140737488355328 2337478262417545 70368744177664); vm_compute; reflexivity. Qed.
Lemma d_A41_1970c : close ctol (35 / 1) (clamp A41_lo A41_hi (1868252811060219 / 8796093022208)).
Proof. apply (A41_q_clamp_hi 1868252811060219 8796093022208 35 1); vm_compute; reflexivity. Qed.
Lemma d_A41_1978c : close ctol (6023921487530577 / 281474976710656) (clamp A41_lo A41_hi (6023921487530577 / 281474976710656)).
Proof. apply (A41_q_clamp_mid 6023921487530577 281474976710656 6023921487530577 281474976710656); vm_compute; reflexivity. Qed.
Lemma d_A41_1986c : close ctol (35 / 1) (clamp A41_lo A41_hi (3236778576378517 / 35184372088832)).
Proof. apply (A41_q_clamp_hi 3236778576378517 35184372088832 35 1); vm_compute; reflexivity. Qed.
Lemma d_A41_1994c : close ctol (7957469276363917 / 562949953421312) (clamp A41_lo A41_hi (7957469276363917 / 562949953421312)).
Proof. apply (A41_q_clamp_mid 7957469276363917 562949953421312 7957469276363917 562949953421312); vm_compute; reflexivity. Qed.
Check d_A41_1994c.
