From Coq Require Import Reals Lra.
From Interval Require Import Tactic.
From RV Require Import IR.Model IR.Proofs.
Open Scope R_scope.
Lemma r_A02_27 : rio_reads A02_c A02_e A02_lo A02_hi floor_volts ctol (Build_rio (Fin (2951479051793529 / 295147905179352825856)) (Fin (5 / 1)) (Fin (3715469692580659 / 1125899906842624)) (Fin (6 / 1)) NInf true true true ((Fin (0 / 1)) :: (Fin (0 / 1)) :: (Fin (0 / 1)) :: (Fin (0 / 1)) :: (Fin (27 / 4)) :: (Fin (45 / 1)) :: nil)) (145 / 1).
Proof. apply (A02_rio_fin _ (2951479051793529 / 295147905179352825856)); [reflexivity | apply (A02_q_hi 2951479051793529 295147905179352825856 145 1); [vm_compute; reflexivity | unfold fr, ctol, A02_hi, A02_c, A02_e; interval with (i_prec 80)]]. Qed.
Lemma r_A02_45 : rio_reads A02_c A02_e A02_lo A02_hi floor_volts ctol (Build_rio (Fin (8308476888979493 / 18014398509481984)) (Fin (5 / 1)) (Fin (3715469692580659 / 1125899906842624)) (Fin (6 / 1)) (Fin (12 / 1)) true true true (PInf :: (Fin (0 / 1)) :: (Fin (0 / 1)) :: (Fin (0 / 1)) :: (Fin (27 / 4)) :: (Fin (45 / 1)) :: nil)) (2550866973654773 / 17592186044416).
Proof. apply (A02_rio_fin _ (8308476888979493 / 18014398509481984)); [reflexivity | apply (A02_q_mid 8308476888979493 18014398509481984 2550866973654773 17592186044416); [vm_compute; reflexivity | unfold fr, close, ctol, A02_c, A02_e; interval with (i_prec 80)]]. Qed.
Lemma r_A02_61 : rio_reads A02_c A02_e A02_lo A02_hi floor_volts ctol (Build_rio (Fin (325 / 128)) (Fin (5854679515581645 / 1125899906842624)) (Fin (7656119366529843 / 2251799813685248)) (Fin (6980579422424269 / 1125899906842624)) (Fin (27 / 2)) true true true ((Fin (0 / 1)) :: (Fin (0 / 1)) :: (Fin (0 / 1)) :: (Fin (0 / 1)) :: (Fin (27 / 4)) :: (Fin (45 / 1)) :: nil)) (396063726879659 / 17592186044416).
Proof. apply (A02_rio_fin _ (325 / 128)); [reflexivity | apply (A02_q_mid 325 128 396063726879659 17592186044416); [vm_compute; reflexivity | unfold fr, close, ctol, A02_c, A02_e; interval with (i_prec 80)]]. Qed.
Lemma r_A02_77 : rio_reads A02_c A02_e A02_lo A02_hi floor_volts ctol (Build_rio (Fin (25 / 128)) (Fin (5 / 1)) (Fin (3715469692580659 / 1125899906842624)) (Fin (6 / 1)) (Fin (12 / 1)) true true true ((Fin (0 / 1)) :: (Fin (0 / 1)) :: (Fin (0 / 1)) :: (Fin (0 / 1)) :: (Fin (27 / 4)) :: (Fin (45 / 1)) :: nil)) (145 / 1).
Proof. apply (A02_rio_fin _ (25 / 128)); [reflexivity | apply (A02_q_hi 25 128 145 1); [vm_compute; reflexivity | unfold fr, ctol, A02_hi, A02_c, A02_e; interval with (i_prec 80)]]. Qed.
Lemma r_A02_93 : rio_reads A02_c A02_e A02_lo A02_hi floor_volts ctol (Build_rio (Fin (65 / 128)) (Fin (631 / 128)) (Fin (1381 / 512)) (Fin (6627 / 1024)) (Fin (4795 / 1024)) true false false ((Fin (2383 / 1024)) :: (Fin (1827 / 1024)) :: (Fin (155 / 1024)) :: (Fin (12801 / 512)) :: (Fin (7029 / 1024)) :: (Fin (9233 / 128)) :: nil)) (4592723607929481 / 35184372088832).
Proof. apply (A02_rio_fin _ (65 / 128)); [reflexivity | apply (A02_q_mid 65 128 4592723607929481 35184372088832); [vm_compute; reflexivity | unfold fr, close, ctol, A02_c, A02_e; interval with (i_prec 80)]]. Qed.
Lemma r_A02_109 : rio_reads A02_c A02_e A02_lo A02_hi floor_volts ctol (Build_rio (Fin (105 / 128)) (Fin (6487 / 1024)) (Fin (2791 / 1024)) (Fin (917 / 1024)) (Fin (13055 / 1024)) false false true ((Fin (1357 / 1024)) :: (Fin (535 / 1024)) :: (Fin (27 / 64)) :: (Fin (12831 / 128)) :: (Fin (5045 / 1024)) :: (Fin (3649 / 512)) :: nil)) (680100336487387 / 8796093022208).
Proof. apply (A02_rio_fin _ (105 / 128)); [reflexivity | apply (A02_q_mid 105 128 680100336487387 8796093022208); [vm_compute; reflexivity | unfold fr, close, ctol, A02_c, A02_e; interval with (i_prec 80)]]. Qed.
Lemma r_A02_125 : rio_reads A02_c A02_e A02_lo A02_hi floor_volts ctol (Build_rio (Fin (145 / 128)) (Fin (5 / 1)) (Fin (3715469692580659 / 1125899906842624)) (Fin (6 / 1)) (Fin (12 / 1)) true true true ((Fin (0 / 1)) :: (Fin (0 / 1)) :: (Fin (0 / 1)) :: (Fin (0 / 1)) :: (Fin (27 / 4)) :: (Fin (45 / 1)) :: nil)) (3824615958723003 / 70368744177664).
Proof. apply (A02_rio_fin _ (145 / 128)); [reflexivity | apply (A02_q_mid 145 128 3824615958723003 70368744177664); [vm_compute; reflexivity | unfold fr, close, ctol, A02_c, A02_e; interval with (i_prec 80)]]. Qed.
Lemma r_A02_141 : rio_reads A02_c A02_e A02_lo A02_hi floor_volts ctol (Build_rio (Fin (185 / 128)) (Fin (609 / 128)) (Fin (3715469692580659 / 1125899906842624)) (Fin (647 / 128)) (Fin (10595 / 1024)) true true false ((Fin (121 / 64)) :: (Fin (909 / 512)) :: (Fin (701 / 512)) :: (Fin (34333 / 512)) :: (Fin (943 / 256)) :: (Fin (14173 / 1024)) :: nil)) (5862463604627447 / 140737488355328).
Proof. apply (A02_rio_fin _ (185 / 128)); [reflexivity | apply (A02_q_mid 185 128 5862463604627447 140737488355328); [vm_compute; reflexivity | unfold fr, close, ctol, A02_c, A02_e; interval with (i_prec 80)]]. Qed.
Lemma r_A02_157 : rio_reads A02_c A02_e A02_lo A02_hi floor_volts ctol (Build_rio (Fin (225 / 128)) (Fin (10253 / 1024)) (Fin (5541 / 512)) (Fin (2883 / 1024)) (Fin (10029 / 1024)) true true false ((Fin (1065 / 1024)) :: (Fin (1 / 1024)) :: (Fin (259 / 128)) :: (Fin (125537 / 1024)) :: (Fin (615 / 128)) :: (Fin (99439 / 1024)) :: nil)) (2367109680501027 / 70368744177664).
Proof. apply (A02_rio_fin _ (225 / 128)); [reflexivity | apply (A02_q_mid 225 128 2367109680501027 70368744177664); [vm_compute; reflexivity | unfold fr, close, ctol, A02_c, A02_e; interval with (i_prec 80)]]. Qed.
Lemma r_A02_173 : rio_reads A02_c A02_e A02_lo A02_hi floor_volts ctol (Build_rio (Fin (265 / 128)) (Fin (5 / 1)) (Fin (3715469692580659 / 1125899906842624)) (Fin (6 / 1)) (Fin (12 / 1)) true true true ((Fin (0 / 1)) :: (Fin (0 / 1)) :: (Fin (0 / 1)) :: (Fin (0 / 1)) :: (Fin (27 / 4)) :: (Fin (45 / 1)) :: nil)) (7919124819687403 / 281474976710656).
Proof. apply (A02_rio_fin _ (265 / 128)); [reflexivity | apply (A02_q_mid 265 128 7919124819687403 281474976710656); [vm_compute; reflexivity | unfold fr, close, ctol, A02_c, A02_e; interval with (i_prec 80)]]. Qed.
Lemma r_A02_189 : rio_reads A02_c A02_e A02_lo A02_hi floor_volts ctol (Build_rio (Fin (305 / 128)) (Fin (621 / 128)) (Fin (6839 / 512)) (Fin (11641 / 1024)) (Fin (2435 / 256)) false true true ((Fin (2393 / 1024)) :: (Fin (857 / 512)) :: (Fin (47 / 32)) :: (Fin (48727 / 1024)) :: (Fin (657 / 128)) :: (Fin ((-1705) / 1024)) :: nil)) (1698033549531527 / 70368744177664).
Proof. apply (A02_rio_fin _ (305 / 128)); [reflexivity | apply (A02_q_mid 305 128 1698033549531527 70368744177664); [vm_compute; reflexivity | unfold fr, close, ctol, A02_c, A02_e; interval with (i_prec 80)]]. Qed.
Lemma r_A02_205 : rio_reads A02_c A02_e A02_lo A02_hi floor_volts ctol (Build_rio (Fin (695 / 256)) (Fin (5151 / 1024)) (Fin (3181 / 1024)) (Fin (5902958103587057 / 590295810358705651712)) (Fin (3501 / 512)) false true true ((Fin (1151 / 1024)) :: (Fin (367 / 256)) :: (Fin (1107 / 512)) :: (Fin (12989 / 512)) :: (Fin (4097 / 1024)) :: (Fin (12241 / 256)) :: nil)) (45 / 2).
Proof. apply (A02_rio_fin _ (695 / 256)); [reflexivity | apply (A02_q_lo 695 256 45 2); [vm_compute; reflexivity | unfold fr, ctol, A02_lo, A02_c, A02_e; interval with (i_prec 80)]]. Qed.
Lemma r_A02_221 : rio_reads A02_c A02_e A02_lo A02_hi floor_volts ctol (Build_rio (Fin (775 / 256)) (Fin (5 / 1)) (Fin (3715469692580659 / 1125899906842624)) (Fin (6 / 1)) (Fin (12 / 1)) true true true ((Fin (0 / 1)) :: (Fin (0 / 1)) :: (Fin (0 / 1)) :: (Fin (0 / 1)) :: (Fin (27 / 4)) :: (Fin (45 / 1)) :: nil)) (45 / 2).
Proof. apply (A02_rio_fin _ (775 / 256)); [reflexivity | apply (A02_q_lo 775 256 45 2); [vm_compute; reflexivity | unfold fr, ctol, A02_lo, A02_c, A02_e; interval with (i_prec 80)]]. Qed.
Lemma r_A02_237 : rio_reads A02_c A02_e A02_lo A02_hi floor_volts ctol (Build_rio (Fin (855 / 256)) (Fin (5403 / 1024)) (Fin (291 / 256)) (Fin (6401 / 1024)) (Fin (4957 / 512)) true true true ((Fin (1075 / 1024)) :: (Fin (563 / 512)) :: (Fin (253 / 1024)) :: (Fin (38145 / 256)) :: (Fin (4009 / 1024)) :: (Fin (7783 / 256)) :: nil)) (45 / 2).
Proof. apply (A02_rio_fin _ (855 / 256)); [reflexivity | apply (A02_q_lo 855 256 45 2); [vm_compute; reflexivity | unfold fr, ctol, A02_lo, A02_c, A02_e; interval with (i_prec 80)]]. Qed.
Lemma r_A02_253 : rio_reads A02_c A02_e A02_lo A02_hi floor_volts ctol (Build_rio (Fin (935 / 256)) (Fin (5137 / 1024)) (Fin (3565 / 1024)) (Fin (1 / 1)) (Fin (12019 / 1024)) true true true ((Fin (1947 / 1024)) :: (Fin (813 / 1024)) :: (Fin (1265 / 1024)) :: (Fin (825 / 256)) :: (Fin (8417 / 1024)) :: (Fin (48761 / 512)) :: nil)) (45 / 2).
Proof. apply (A02_rio_fin _ (935 / 256)); [reflexivity | apply (A02_q_lo 935 256 45 2); [vm_compute; reflexivity | unfold fr, ctol, A02_lo, A02_c, A02_e; interval with (i_prec 80)]]. Qed.
Lemma r_A02_269 : rio_reads A02_c A02_e A02_lo A02_hi floor_volts ctol (Build_rio (Fin (1015 / 256)) (Fin (5 / 1)) (Fin (3715469692580659 / 1125899906842624)) (Fin (6 / 1)) (Fin (12 / 1)) true true true ((Fin (0 / 1)) :: (Fin (0 / 1)) :: (Fin (0 / 1)) :: (Fin (0 / 1)) :: (Fin (27 / 4)) :: (Fin (45 / 1)) :: nil)) (45 / 2).
Proof. apply (A02_rio_fin _ (1015 / 256)); [reflexivity | apply (A02_q_lo 1015 256 45 2); [vm_compute; reflexivity | unfold fr, ctol, A02_lo, A02_c, A02_e; interval with (i_prec 80)]]. Qed.
Lemma r_A02_285 : rio_reads A02_c A02_e A02_lo A02_hi floor_volts ctol (Build_rio (Fin (1095 / 256)) (Fin (2603 / 512)) (Fin (3599 / 1024)) (Fin (1601 / 256)) (Fin (12 / 1)) true false false ((Fin (1933 / 1024)) :: (Fin (209 / 1024)) :: (Fin (1311 / 1024)) :: (Fin (40683 / 256)) :: (Fin (519 / 128)) :: (Fin (64449 / 1024)) :: nil)) (45 / 2).
Proof. apply (A02_rio_fin _ (1095 / 256)); [reflexivity | apply (A02_q_lo 1095 256 45 2); [vm_compute; reflexivity | unfold fr, ctol, A02_lo, A02_c, A02_e; interval with (i_prec 80)]]. Qed.
Lemma r_A02_301 : rio_reads A02_c A02_e A02_lo A02_hi floor_volts ctol (Build_rio (Fin (1175 / 256)) (Fin (13593 / 1024)) (Fin (843 / 256)) (Fin (100000000000000001097906362944045541740492309677311846336810682903157585404911491537163328978494688899061249669721172515611590283743140088328307009198146046031271664502933027185697489699588559043338384466165001178426897626212945177628091195786707458122783970171784415105291802893207873272974885715430223118336 / 1)) (Fin (12 / 1)) false true true ((Fin (71 / 64)) :: (Fin (183 / 512)) :: (Fin (1103 / 1024)) :: (Fin (18249 / 1024)) :: (Fin (1105 / 128)) :: (Fin ((-107) / 1024)) :: nil)) (45 / 2).
Proof. apply (A02_rio_fin _ (1175 / 256)); [reflexivity | apply (A02_q_lo 1175 256 45 2); [vm_compute; reflexivity | unfold fr, ctol, A02_lo, A02_c, A02_e; interval with (i_prec 80)]]. Qed.
Lemma r_A02_317 : rio_reads A02_c A02_e A02_lo A02_hi floor_volts ctol (Build_rio (Fin (1255 / 256)) (Fin (5 / 1)) (Fin (3715469692580659 / 1125899906842624)) (Fin (6 / 1)) (Fin (12 / 1)) true true true ((Fin (0 / 1)) :: (Fin (0 / 1)) :: (Fin (0 / 1)) :: (Fin (0 / 1)) :: (Fin (27 / 4)) :: (Fin (45 / 1)) :: nil)) (45 / 2).
Proof. apply (A02_rio_fin _ (1255 / 256)); [reflexivity | apply (A02_q_lo 1255 256 45 2); [vm_compute; reflexivity | unfold fr, ctol, A02_lo, A02_c, A02_e; interval with (i_prec 80)]]. Qed.
Lemma r_A02_333 : rio_reads A02_c A02_e A02_lo A02_hi floor_volts ctol (Build_rio (Fin (4680618857269179 / 2251799813685248)) (Fin (5 / 1)) (Fin (5902958103587057 / 590295810358705651712)) (Fin (5867 / 1024)) (Fin (4423 / 1024)) true true false ((Fin (647 / 256)) :: (Fin (989 / 1024)) :: (Fin (1159 / 512)) :: (Fin (13575 / 512)) :: (Fin (5821 / 1024)) :: (Fin (1987 / 64)) :: nil)) (1971150313438345 / 70368744177664).
Proof. apply (A02_rio_fin _ (4680618857269179 / 2251799813685248)); [reflexivity | apply (A02_q_mid 4680618857269179 2251799813685248 1971150313438345 70368744177664); [vm_compute; reflexivity | unfold fr, close, ctol, A02_c, A02_e; interval with (i_prec 80)]]. Qed.
Lemma r_A02_349 : rio_reads A02_c A02_e A02_lo A02_hi floor_volts ctol (Build_rio (Fin (4935632808681791 / 1125899906842624)) (Fin (5381 / 1024)) (Fin (1789 / 512)) (Fin (6211 / 1024)) (Fin (6723 / 512)) true true true ((Fin (45 / 16)) :: (Fin (447 / 512)) :: (Fin (1613 / 1024)) :: (Fin (21039 / 1024)) :: (Fin (9039 / 1024)) :: (Fin ((-4003) / 256)) :: nil)) (45 / 2).
Proof. apply (A02_rio_fin _ (4935632808681791 / 1125899906842624)); [reflexivity | apply (A02_q_lo 4935632808681791 1125899906842624 45 2); [vm_compute; reflexivity | unfold fr, ctol, A02_lo, A02_c, A02_e; interval with (i_prec 80)]]. Qed.
Lemma r_A02_365 : rio_reads A02_c A02_e A02_lo A02_hi floor_volts ctol (Build_rio (Fin (7321310739305729 / 2251799813685248)) (Fin (5 / 1)) (Fin (3715469692580659 / 1125899906842624)) (Fin (6 / 1)) (Fin (12 / 1)) true true true ((Fin (0 / 1)) :: (Fin (0 / 1)) :: (Fin (0 / 1)) :: (Fin (0 / 1)) :: (Fin (27 / 4)) :: (Fin (45 / 1)) :: nil)) (45 / 2).
Proof. apply (A02_rio_fin _ (7321310739305729 / 2251799813685248)); [reflexivity | apply (A02_q_lo 7321310739305729 2251799813685248 45 2); [vm_compute; reflexivity | unfold fr, ctol, A02_lo, A02_c, A02_e; interval with (i_prec 80)]]. Qed.
Lemma r_A02_381 : rio_reads A02_c A02_e A02_lo A02_hi floor_volts ctol (Build_rio (Fin (2726374610719069 / 562949953421312)) (Fin (10285 / 1024)) (Fin ((-1) / 1)) (Fin (4925 / 1024)) (Fin (3165 / 1024)) false false true ((Fin (2695 / 1024)) :: (Fin (1315 / 1024)) :: (Fin (183 / 128)) :: (Fin (83221 / 1024)) :: (Fin (6425 / 1024)) :: (Fin (6819 / 512)) :: nil)) (45 / 2).
Proof. apply (A02_rio_fin _ (2726374610719069 / 562949953421312)); [reflexivity | apply (A02_q_lo 2726374610719069 562949953421312 45 2); [vm_compute; reflexivity | unfold fr, ctol, A02_lo, A02_c, A02_e; interval with (i_prec 80)]]. Qed.
Lemma r_A02_400 : rio_reads A02_c A02_e A02_lo A02_hi floor_volts ctol (Build_rio (Fin (3423330362234297 / 576460752303423488)) (Fin (6929 / 1024)) (Fin (85 / 32)) (Fin (6 / 1)) (Fin (12 / 1)) false false true ((Fin (123 / 256)) :: (Fin (125 / 128)) :: (Fin (193 / 128)) :: (Fin (3899 / 128)) :: (Fin (1683 / 512)) :: (Fin (33541 / 1024)) :: nil)) (145 / 1).
Proof. apply (A02_rio_fin _ (3423330362234297 / 576460752303423488)); [reflexivity | apply (A02_q_hi 3423330362234297 576460752303423488 145 1); [vm_compute; reflexivity | unfold fr, ctol, A02_hi, A02_c, A02_e; interval with (i_prec 80)]]. Qed.
Lemma r_A02_419 : rio_reads A02_c A02_e A02_lo A02_hi floor_volts ctol (Build_rio (Fin (8672034993738443 / 144115188075855872)) (Fin (5 / 1)) (Fin (3715469692580659 / 1125899906842624)) (Fin (6 / 1)) (Fin (12 / 1)) true true true ((Fin (0 / 1)) :: (Fin (0 / 1)) :: (Fin (0 / 1)) :: (Fin (0 / 1)) :: (Fin (27 / 4)) :: (Fin (45 / 1)) :: nil)) (145 / 1).
Proof. apply (A02_rio_fin _ (8672034993738443 / 144115188075855872)); [reflexivity | apply (A02_q_hi 8672034993738443 144115188075855872 145 1); [vm_compute; reflexivity | unfold fr, ctol, A02_hi, A02_c, A02_e; interval with (i_prec 80)]]. Qed.
Lemma d_A02_7r : rio_reads A02_c A02_e A02_lo A02_hi floor_volts ctol (Build_rio (Fin (357539307115111 / 140737488355328)) (Fin (10 / 1)) (Fin (3715469692580659 / 1125899906842624)) (Fin (6 / 1)) (Fin (12 / 1)) true true true ((Fin (0 / 1)) :: (Fin (0 / 1)) :: (Fin (0 / 1)) :: (Fin (0 / 1)) :: (Fin (27 / 4)) :: (Fin (45 / 1)) :: nil)) (45 / 2).
Proof. apply (A02_rio_fin _ (357539307115111 / 140737488355328)); [reflexivity | apply (A02_q_lo 357539307115111 140737488355328 45 2); [vm_compute; reflexivity | unfold fr, ctol, A02_lo, A02_c, A02_e; interval with (i_prec 80)]]. Qed.
Lemma d_A02_15r : rio_reads A02_c A02_e A02_lo A02_hi floor_volts ctol (Build_rio (Fin (1790398715945009 / 2251799813685248)) (Fin (100000000000000001097906362944045541740492309677311846336810682903157585404911491537163328978494688899061249669721172515611590283743140088328307009198146046031271664502933027185697489699588559043338384466165001178426897626212945177628091195786707458122783970171784415105291802893207873272974885715430223118336 / 1)) (Fin (3715469692580659 / 1125899906842624)) (Fin (6 / 1)) (Fin (12 / 1)) true true true ((Fin (0 / 1)) :: (Fin (0 / 1)) :: (Fin (0 / 1)) :: (Fin (0 / 1)) :: (Fin (27 / 4)) :: (Fin (45 / 1)) :: nil)) (80 / 1).
Proof. apply (A02_rio_fin _ (1790398715945009 / 2251799813685248)); [reflexivity | apply (A02_q_mid 1790398715945009 2251799813685248 80 1); [vm_compute; reflexivity | unfold fr, close, ctol, A02_c, A02_e; interval with (i_prec 80)]]. Qed.
Lemma d_A02_23r : rio_reads A02_c A02_e A02_lo A02_hi floor_volts ctol (Build_rio (Fin (357539307115111 / 140737488355328)) (Fin (5 / 1)) (Fin (3715469692580659 / 1125899906842624)) (Fin (6 / 1)) (Fin (0 / 1)) true true true ((Fin (0 / 1)) :: (Fin (0 / 1)) :: (Fin (0 / 1)) :: (Fin (0 / 1)) :: (Fin (27 / 4)) :: (Fin (45 / 1)) :: nil)) (45 / 2).
Proof. apply (A02_rio_fin _ (357539307115111 / 140737488355328)); [reflexivity | apply (A02_q_lo 357539307115111 140737488355328 45 2); [vm_compute; reflexivity | unfold fr, ctol, A02_lo, A02_c, A02_e; interval with (i_prec 80)]]. Qed.
Lemma d_A02_31r : rio_reads A02_c A02_e A02_lo A02_hi floor_volts ctol (Build_rio (Fin (1298617710960269 / 562949953421312)) (Fin (5 / 1)) (Fin (0 / 1)) (Fin (6 / 1)) (Fin (12 / 1)) true true true ((Fin (0 / 1)) :: (Fin (0 / 1)) :: (Fin (0 / 1)) :: (Fin (0 / 1)) :: (Fin (27 / 4)) :: (Fin (45 / 1)) :: nil)) (7036874417766399 / 281474976710656).
Proof. apply (A02_rio_fin _ (1298617710960269 / 562949953421312)); [reflexivity | apply (A02_q_mid 1298617710960269 562949953421312 7036874417766399 281474976710656); [vm_compute; reflexivity | unfold fr, close, ctol, A02_c, A02_e; interval with (i_prec 80)]]. Qed.
Lemma d_A02_39r : rio_reads A02_c A02_e A02_lo A02_hi floor_volts ctol (Build_rio (Fin (8308476880671015 / 18014398509481984)) (Fin (5 / 1)) (Fin (3715469692580659 / 1125899906842624)) PInf (Fin (12 / 1)) true true true ((Fin (0 / 1)) :: (Fin (0 / 1)) :: (Fin (0 / 1)) :: (Fin (0 / 1)) :: (Fin (27 / 4)) :: (Fin (45 / 1)) :: nil)) (145 / 1).
Proof. apply (A02_rio_fin _ (8308476880671015 / 18014398509481984)); [reflexivity | apply (A02_q_hi 8308476880671015 18014398509481984 145 1); [vm_compute; reflexivity | unfold fr, ctol, A02_hi, A02_c, A02_e; interval with (i_prec 80)]]. Qed.
Lemma d_A02_47r : rio_reads A02_c A02_e A02_lo A02_hi floor_volts ctol (Build_rio (Fin (8308476880671017 / 18014398509481984)) (Fin (5 / 1)) (Fin (3715469692580659 / 1125899906842624)) (Fin (6 / 1)) (Fin (12 / 1)) true true true ((Fin (0 / 1)) :: (Fin (0 / 1)) :: (Fin (2476979795053773 / 1125899906842624)) :: (Fin (0 / 1)) :: (Fin (27 / 4)) :: (Fin (45 / 1)) :: nil)) (5101733952880639 / 35184372088832).
Proof. apply (A02_rio_fin _ (8308476880671017 / 18014398509481984)); [reflexivity | apply (A02_q_mid 8308476880671017 18014398509481984 5101733952880639 35184372088832); [vm_compute; reflexivity | unfold fr, close, ctol, A02_c, A02_e; interval with (i_prec 80)]]. Qed.
Lemma d_A02_55r : rio_reads A02_c A02_e A02_lo A02_hi floor_volts ctol (Build_rio (Fin (357539307115111 / 140737488355328)) (Fin (5 / 1)) (Fin (3715469692580659 / 1125899906842624)) (Fin (6 / 1)) (Fin (12 / 1)) true true true ((Fin (0 / 1)) :: (Fin (0 / 1)) :: (Fin (0 / 1)) :: (Fin (0 / 1)) :: (Fin (27 / 4)) :: (Fin ((-40) / 1)) :: nil)) (45 / 2).
Proof. apply (A02_rio_fin _ (357539307115111 / 140737488355328)); [reflexivity | apply (A02_q_lo 357539307115111 140737488355328 45 2); [vm_compute; reflexivity | unfold fr, ctol, A02_lo, A02_c, A02_e; interval with (i_prec 80)]]. Qed.
Lemma d_A02_67u : close ctol (3641655227870995 / 4503599627370496) (volts_A02 (2763422973435803 / 35184372088832)).
Proof. apply (A02_q_volts_mid 2763422973435803 35184372088832 3641655227870995 4503599627370496); [vm_compute; reflexivity | unfold fr, close, ctol, A02_lo, A02_hi, A02_c, A02_e; interval with (i_prec 80)]. Qed.
Lemma d_A02_80u : close ctol (8039878645789809 / 9007199254740992) (volts_A02 (4961442774403035 / 70368744177664)).
Proof. apply (A02_q_volts_mid 4961442774403035 70368744177664 8039878645789809 9007199254740992); [vm_compute; reflexivity | unfold fr, close, ctol, A02_lo, A02_hi, A02_c, A02_e; interval with (i_prec 80)]. Qed.
Lemma d_A02_92r : rio_reads A02_c A02_e A02_lo A02_hi floor_volts ctol (Build_rio (Fin (2311079850690097 / 4503599627370496)) (Fin (4655 / 1024)) (Fin (1 / 1)) (Fin (809 / 128)) (Fin (5902958103587057 / 590295810358705651712)) false true true ((Fin (703 / 256)) :: (Fin (703 / 1024)) :: (Fin (1237 / 1024)) :: (Fin (195075 / 1024)) :: (Fin (3023 / 512)) :: (Fin (1007 / 128)) :: nil)) (1135114743504083 / 8796093022208).
Proof. apply (A02_rio_fin _ (2311079850690097 / 4503599627370496)); [reflexivity | apply (A02_q_mid 2311079850690097 4503599627370496 1135114743504083 8796093022208); [vm_compute; reflexivity | unfold fr, close, ctol, A02_c, A02_e; interval with (i_prec 80)]]. Qed.
Lemma d_A02_105u : close ctol (5141799002719339 / 4503599627370496) (volts_A02 (3792084390409215 / 70368744177664)).
Proof. apply (A02_q_volts_mid 3792084390409215 70368744177664 5141799002719339 4503599627370496); [vm_compute; reflexivity | unfold fr, close, ctol, A02_lo, A02_hi, A02_c, A02_e; interval with (i_prec 80)]. Qed.
Lemma d_A02_118u : close ctol (5304630171398623 / 2251799813685248) (volts_A02 (6877451445058875 / 281474976710656)).
Proof. apply (A02_q_volts_mid 6877451445058875 281474976710656 5304630171398623 2251799813685248); [vm_compute; reflexivity | unfold fr, close, ctol, A02_lo, A02_hi, A02_c, A02_e; interval with (i_prec 80)]. Qed.
Lemma d_A02_131u : close ctol (357539307115111 / 140737488355328) (volts_A02 ((-4726071738620065) / 562949953421312)).
Proof. apply (A02_q_volts_lo (-4726071738620065) 562949953421312 357539307115111 140737488355328); [vm_compute; reflexivity | unfold fr, close, ctol, A02_lo, A02_hi, A02_c, A02_e; interval with (i_prec 80)]. Qed.
Lemma d_A02_144u : close ctol (8420324095709951 / 18014398509481984) (volts_A02 (2513889241963051 / 17592186044416)).
Proof. apply (A02_q_volts_mid 2513889241963051 17592186044416 8420324095709951 18014398509481984); [vm_compute; reflexivity | unfold fr, close, ctol, A02_lo, A02_hi, A02_c, A02_e; interval with (i_prec 80)]. Qed.
Lemma d_A02_156r : rio_reads A02_c A02_e A02_lo A02_hi floor_volts ctol (Build_rio (Fin (4745200601021235 / 9007199254740992)) (Fin (2447 / 512)) (Fin (3255 / 1024)) (Fin (2473 / 512)) (Fin (5751 / 512)) false false false ((Fin (2249 / 1024)) :: (Fin (45 / 128)) :: (Fin (5 / 256)) :: (Fin (79803 / 512)) :: (Fin (1605 / 512)) :: (Fin (84779 / 1024)) :: nil)) (8824100295531331 / 70368744177664).
Proof. apply (A02_rio_fin _ (4745200601021235 / 9007199254740992)); [reflexivity | apply (A02_q_mid 4745200601021235 9007199254740992 8824100295531331 70368744177664); [vm_compute; reflexivity | unfold fr, close, ctol, A02_c, A02_e; interval with (i_prec 80)]]. Qed.
Lemma d_A02_169u : close ctol (4365702838861511 / 4503599627370496) (volts_A02 (566743484889479 / 8796093022208)).
Proof. apply (A02_q_volts_mid 566743484889479 8796093022208 4365702838861511 4503599627370496); [vm_compute; reflexivity | unfold fr, close, ctol, A02_lo, A02_hi, A02_c, A02_e; interval with (i_prec 80)]. Qed.
Lemma d_A02_182u : close ctol (357539307115111 / 140737488355328) (volts_A02 (4464529606316745 / 281474976710656)).
Proof. apply (A02_q_volts_lo 4464529606316745 281474976710656 357539307115111 140737488355328); [vm_compute; reflexivity | unfold fr, close, ctol, A02_lo, A02_hi, A02_c, A02_e; interval with (i_prec 80)]. Qed.
Lemma d_A02_195u : close ctol (357539307115111 / 140737488355328) (volts_A02 (4100836303716957 / 4503599627370496)).
Proof. apply (A02_q_volts_lo 4100836303716957 4503599627370496 357539307115111 140737488355328); [vm_compute; reflexivity | unfold fr, close, ctol, A02_lo, A02_hi, A02_c, A02_e; interval with (i_prec 80)]. Qed.
Lemma d_A02_208u : close ctol (4950078891506421 / 9007199254740992) (volts_A02 (4213024670005411 / 35184372088832)).
Proof. apply (A02_q_volts_mid 4213024670005411 35184372088832 4950078891506421 9007199254740992); [vm_compute; reflexivity | unfold fr, close, ctol, A02_lo, A02_hi, A02_c, A02_e; interval with (i_prec 80)]. Qed.
Lemma d_A02_220r : rio_reads A02_c A02_e A02_lo A02_hi floor_volts ctol (Build_rio (Fin (5167513376131115 / 4503599627370496)) (Fin (2735 / 512)) (Fin (3349 / 1024)) (Fin (695 / 128)) (Fin (13483 / 1024)) false true true ((Fin (2837 / 1024)) :: (Fin (1391 / 1024)) :: (Fin (819 / 512)) :: (Fin (81385 / 512)) :: (Fin (1019 / 256)) :: (Fin (44927 / 1024)) :: nil)) (7542966107819329 / 140737488355328).
Proof. apply (A02_rio_fin _ (5167513376131115 / 4503599627370496)); [reflexivity | apply (A02_q_mid 5167513376131115 4503599627370496 7542966107819329 140737488355328); [vm_compute; reflexivity | unfold fr, close, ctol, A02_c, A02_e; interval with (i_prec 80)]]. Qed.
Lemma d_A02_233u : close ctol (2252600443663577 / 4503599627370496) (volts_A02 (1167332515356251 / 8796093022208)).
Proof. apply (A02_q_volts_mid 1167332515356251 8796093022208 2252600443663577 4503599627370496); [vm_compute; reflexivity | unfold fr, close, ctol, A02_lo, A02_hi, A02_c, A02_e; interval with (i_prec 80)]. Qed.
Lemma d_A02_246u : close ctol (8308476880671015 / 18014398509481984) (volts_A02 (1569137927582095 / 8796093022208)).
Proof. apply (A02_q_volts_hi 1569137927582095 8796093022208 8308476880671015 18014398509481984); [vm_compute; reflexivity | unfold fr, close, ctol, A02_lo, A02_hi, A02_c, A02_e; interval with (i_prec 80)]. Qed.
Lemma d_A02_259u : close ctol (4590088940816233 / 9007199254740992) (volts_A02 (1143778172638919 / 8796093022208)).
Proof. apply (A02_q_volts_mid 1143778172638919 8796093022208 4590088940816233 9007199254740992); [vm_compute; reflexivity | unfold fr, close, ctol, A02_lo, A02_hi, A02_c, A02_e; interval with (i_prec 80)]. Qed.
Lemma d_A02_272u : close ctol (8308476880671015 / 18014398509481984) (volts_A02 (6213447572515497 / 35184372088832)).
Proof. apply (A02_q_volts_hi 6213447572515497 35184372088832 8308476880671015 18014398509481984); [vm_compute; reflexivity | unfold fr, close, ctol, A02_lo, A02_hi, A02_c, A02_e; interval with (i_prec 80)]. Qed.
Lemma d_A02_284r : rio_reads A02_c A02_e A02_lo A02_hi floor_volts ctol (Build_rio (Fin (5091207486145663 / 9007199254740992)) (Fin (1 / 202402253307310618352495346718917307049556649764142118356901358027430339567995346891960383701437124495187077864316811911389808737385793476867013399940738509921517424276566361364466907742093216341239767678472745068562007483424692698618103355649159556340810056512358769552333414615230502532186327508646006263307707741093494784)) (Fin (3057 / 1024)) (Fin (3073 / 512)) (Fin (11293 / 1024)) true true true ((Fin (1237 / 512)) :: (Fin (993 / 1024)) :: (Fin (981 / 1024)) :: (Fin (84141 / 512)) :: (Fin (8401 / 1024)) :: (Fin ((-19647) / 1024)) :: nil)) (8171318217338129 / 70368744177664).
Proof. apply (A02_rio_fin _ (5091207486145663 / 9007199254740992)); [reflexivity | apply (A02_q_mid 5091207486145663 9007199254740992 8171318217338129 70368744177664); [vm_compute; reflexivity | unfold fr, close, ctol, A02_c, A02_e; interval with (i_prec 80)]]. Qed.
Lemma d_A02_297u : close ctol (4802224253341819 / 4503599627370496) (volts_A02 (4085832298875255 / 70368744177664)).
Proof. apply (A02_q_volts_mid 4085832298875255 70368744177664 4802224253341819 4503599627370496); [vm_compute; reflexivity | unfold fr, close, ctol, A02_lo, A02_hi, A02_c, A02_e; interval with (i_prec 80)]. Qed.
Lemma d_A02_310u : close ctol (4687621547804951 / 4503599627370496) (volts_A02 (8390068335666717 / 140737488355328)).
Proof. apply (A02_q_volts_mid 8390068335666717 140737488355328 4687621547804951 4503599627370496); [vm_compute; reflexivity | unfold fr, close, ctol, A02_lo, A02_hi, A02_c, A02_e; interval with (i_prec 80)]. Qed.
Lemma d_A02_323u : close ctol (6635815170426141 / 4503599627370496) (volts_A02 (5740333426474291 / 140737488355328)).
Proof. apply (A02_q_volts_mid 5740333426474291 140737488355328 6635815170426141 4503599627370496); [vm_compute; reflexivity | unfold fr, close, ctol, A02_lo, A02_hi, A02_c, A02_e; interval with (i_prec 80)]. Qed.
Lemma d_A02_336u : close ctol (2270549504527277 / 1125899906842624) (volts_A02 (2037375797505503 / 70368744177664)).
Proof. apply (A02_q_volts_mid 2037375797505503 70368744177664 2270549504527277 1125899906842624); [vm_compute; reflexivity | unfold fr, close, ctol, A02_lo, A02_hi, A02_c, A02_e; interval with (i_prec 80)]. Qed.
Lemma d_A02_348r : rio_reads A02_c A02_e A02_lo A02_hi floor_volts ctol (Build_rio (Fin (6827806112041677 / 9007199254740992)) (Fin (2491 / 512)) (Fin (2907 / 1024)) (Fin (11801 / 1024)) (Fin (12997 / 1024)) false false true ((Fin (1727 / 1024)) :: (Fin (129 / 1024)) :: (Fin (2249 / 1024)) :: (Fin (60239 / 1024)) :: (Fin (4659 / 1024)) :: (Fin (48531 / 512)) :: nil)) (2965346099580493 / 35184372088832).
Proof. apply (A02_rio_fin _ (6827806112041677 / 9007199254740992)); [reflexivity | apply (A02_q_mid 6827806112041677 9007199254740992 2965346099580493 35184372088832); [vm_compute; reflexivity | unfold fr, close, ctol, A02_c, A02_e; interval with (i_prec 80)]]. Qed.
Lemma d_A02_361u : close ctol (357539307115111 / 140737488355328) (volts_A02 ((-4179023277895813) / 1125899906842624)).
Proof. apply (A02_q_volts_lo (-4179023277895813) 1125899906842624 357539307115111 140737488355328); [vm_compute; reflexivity | unfold fr, close, ctol, A02_lo, A02_hi, A02_c, A02_e; interval with (i_prec 80)]. Qed.
Lemma d_A02_374u : close ctol (957239952628999 / 1125899906842624) (volts_A02 (2616142766194269 / 35184372088832)).
Proof. apply (A02_q_volts_mid 2616142766194269 35184372088832 957239952628999 1125899906842624); [vm_compute; reflexivity | unfold fr, close, ctol, A02_lo, A02_hi, A02_c, A02_e; interval with (i_prec 80)]. Qed.
Lemma d_A02_387u : close ctol (769346751327417 / 1125899906842624) (volts_A02 (3321167751978323 / 35184372088832)).
Proof. apply (A02_q_volts_mid 3321167751978323 35184372088832 769346751327417 1125899906842624); [vm_compute; reflexivity | unfold fr, close, ctol, A02_lo, A02_hi, A02_c, A02_e; interval with (i_prec 80)]. Qed.
Lemma d_A02_400u : close ctol (2778103840483363 / 4503599627370496) (volts_A02 (7427494582221989 / 70368744177664)).
Proof. apply (A02_q_volts_mid 7427494582221989 70368744177664 2778103840483363 4503599627370496); [vm_compute; reflexivity | unfold fr, close, ctol, A02_lo, A02_hi, A02_c, A02_e; interval with (i_prec 80)]. Qed.
Lemma d_A02_412r : rio_reads A02_c A02_e A02_lo A02_hi floor_volts ctol (Build_rio (Fin (5323154017904145 / 9007199254740992)) (Fin (5049 / 1024)) (Fin (1 / 202402253307310618352495346718917307049556649764142118356901358027430339567995346891960383701437124495187077864316811911389808737385793476867013399940738509921517424276566361364466907742093216341239767678472745068562007483424692698618103355649159556340810056512358769552333414615230502532186327508646006263307707741093494784)) NInf (Fin (2705 / 256)) true true true ((Fin (1027 / 512)) :: (Fin (1129 / 1024)) :: (Fin (2391 / 1024)) :: (Fin (163757 / 1024)) :: (Fin (5677 / 1024)) :: (Fin (77909 / 1024)) :: nil)) (7783301438137761 / 70368744177664).
Proof. apply (A02_rio_fin _ (5323154017904145 / 9007199254740992)); [reflexivity | apply (A02_q_mid 5323154017904145 9007199254740992 7783301438137761 70368744177664); [vm_compute; reflexivity | unfold fr, close, ctol, A02_c, A02_e; interval with (i_prec 80)]]. Qed.
Lemma d_A02_425u : close ctol (8308476880671015 / 18014398509481984) (volts_A02 (6974228770972619 / 17592186044416)).
Proof. apply (A02_q_volts_hi 6974228770972619 17592186044416 8308476880671015 18014398509481984); [vm_compute; reflexivity | unfold fr, close, ctol, A02_lo, A02_hi, A02_c, A02_e; interval with (i_prec 80)]. Qed.
Lemma d_A02_438u : close ctol (588026276583727 / 562949953421312) (volts_A02 (8357765375592051 / 140737488355328)).
Proof. apply (A02_q_volts_mid 8357765375592051 140737488355328 588026276583727 562949953421312); [vm_compute; reflexivity | unfold fr, close, ctol, A02_lo, A02_hi, A02_c, A02_e; interval with (i_prec 80)]. Qed.
Lemma d_A02_451u : close ctol (357539307115111 / 140737488355328) (volts_A02 (22 / 1)).
Proof. apply (A02_q_volts_lo 22 1 357539307115111 140737488355328); [vm_compute; reflexivity | unfold fr, close, ctol, A02_lo, A02_hi, A02_c, A02_e; interval with (i_prec 80)]. Qed.
Lemma d_A02_464u : close ctol (4610028369652061 / 4503599627370496) (volts_A02 (8544395544200499 / 140737488355328)).
Proof. apply (A02_q_volts_mid 8544395544200499 140737488355328 4610028369652061 4503599627370496); [vm_compute; reflexivity | unfold fr, close, ctol, A02_lo, A02_hi, A02_c, A02_e; interval with (i_prec 80)]. Qed.
Lemma d_A02_476r : rio_reads A02_c A02_e A02_lo A02_hi floor_volts ctol (Build_rio (Fin (8308476880671015 / 18014398509481984)) (Fin (2379 / 512)) (Fin (2831 / 1024)) (Fin (3157 / 512)) (Fin (5071 / 512)) false false true ((Fin (2403 / 1024)) :: (Fin (1821 / 1024)) :: (Fin (2325 / 1024)) :: (Fin (26613 / 256)) :: (Fin (6157 / 1024)) :: (Fin (46227 / 1024)) :: nil)) (145 / 1).
Proof. apply (A02_rio_fin _ (8308476880671015 / 18014398509481984)); [reflexivity | apply (A02_q_hi 8308476880671015 18014398509481984 145 1); [vm_compute; reflexivity | unfold fr, ctol, A02_hi, A02_c, A02_e; interval with (i_prec 80)]]. Qed.
Lemma d_A02_489u : close ctol (6516108530492297 / 4503599627370496) (volts_A02 (5855587031283973 / 140737488355328)).
Proof. apply (A02_q_volts_mid 5855587031283973 140737488355328 6516108530492297 4503599627370496); [vm_compute; reflexivity | unfold fr, close, ctol, A02_lo, A02_hi, A02_c, A02_e; interval with (i_prec 80)]. Qed.
Lemma d_A02_502u : close ctol (2325391535573945 / 4503599627370496) (volts_A02 (1127488092360745 / 8796093022208)).
Proof. apply (A02_q_volts_mid 1127488092360745 8796093022208 2325391535573945 4503599627370496); [vm_compute; reflexivity | unfold fr, close, ctol, A02_lo, A02_hi, A02_c, A02_e; interval with (i_prec 80)]. Qed.
Lemma d_A02_515u : close ctol (357539307115111 / 140737488355328) (volts_A02 (450620349956881 / 18014398509481984)).
Proof. apply (A02_q_volts_lo 450620349956881 18014398509481984 357539307115111 140737488355328); [vm_compute; reflexivity | unfold fr, close, ctol, A02_lo, A02_hi, A02_c, A02_e; interval with (i_prec 80)]. Qed.
Lemma d_A02_528u : close ctol (357539307115111 / 140737488355328) (volts_A02 (742194923124983 / 35184372088832)).
Proof. apply (A02_q_volts_lo 742194923124983 35184372088832 357539307115111 140737488355328); [vm_compute; reflexivity | unfold fr, close, ctol, A02_lo, A02_hi, A02_c, A02_e; interval with (i_prec 80)]. Qed.
Lemma d_A02_540r : rio_reads A02_c A02_e A02_lo A02_hi floor_volts ctol (Build_rio (Fin (3863168159451315 / 2251799813685248)) (Fin (5902958103587057 / 590295810358705651712)) (Fin (2767 / 1024)) (Fin (5223 / 1024)) (Fin (0 / 1)) true true true ((Fin (875 / 1024)) :: (Fin (1757 / 1024)) :: (Fin (949 / 512)) :: (Fin (15449 / 512)) :: (Fin (8557 / 1024)) :: (Fin (10955 / 1024)) :: nil)) (4861591827957119 / 140737488355328).
Proof. apply (A02_rio_fin _ (3863168159451315 / 2251799813685248)); [reflexivity | apply (A02_q_mid 3863168159451315 2251799813685248 4861591827957119 140737488355328); [vm_compute; reflexivity | unfold fr, close, ctol, A02_c, A02_e; interval with (i_prec 80)]]. Qed.
Lemma d_A02_553u : close ctol (789441817341805 / 1125899906842624) (volts_A02 (807239865520697 / 8796093022208)).
Proof. apply (A02_q_volts_mid 807239865520697 8796093022208 789441817341805 1125899906842624); [vm_compute; reflexivity | unfold fr, close, ctol, A02_lo, A02_hi, A02_c, A02_e; interval with (i_prec 80)]. Qed.
Lemma d_A02_566u : close ctol (357539307115111 / 140737488355328) (volts_A02 (3368577236192559 / 281474976710656)).
Proof. apply (A02_q_volts_lo 3368577236192559 281474976710656 357539307115111 140737488355328); [vm_compute; reflexivity | unfold fr, close, ctol, A02_lo, A02_hi, A02_c, A02_e; interval with (i_prec 80)]. Qed.
Lemma d_A02_579u : close ctol (1745942657432059 / 2251799813685248) (volts_A02 (1446552492392707 / 17592186044416)).
Proof. apply (A02_q_volts_mid 1446552492392707 17592186044416 1745942657432059 2251799813685248); [vm_compute; reflexivity | unfold fr, close, ctol, A02_lo, A02_hi, A02_c, A02_e; interval with (i_prec 80)]. Qed.
Lemma d_A02_592u : close ctol (6815497783977311 / 9007199254740992) (volts_A02 (742798619840089 / 8796093022208)).
Proof. apply (A02_q_volts_mid 742798619840089 8796093022208 6815497783977311 9007199254740992); [vm_compute; reflexivity | unfold fr, close, ctol, A02_lo, A02_hi, A02_c, A02_e; interval with (i_prec 80)]. Qed.
Lemma d_A02_604r : rio_reads A02_c A02_e A02_lo A02_hi floor_volts ctol (Build_rio (Fin (2830604345233575 / 2251799813685248)) (Fin (5 / 1)) (Fin (3715469692580659 / 1125899906842624)) (Fin (6263 / 1024)) (Fin (8801 / 1024)) false true false ((Fin (197 / 512)) :: (Fin (193 / 256)) :: (Fin (209 / 256)) :: (Fin (107729 / 1024)) :: (Fin (5579 / 1024)) :: (Fin (20907 / 256)) :: nil)) (6827612519260485 / 140737488355328).
Proof. apply (A02_rio_fin _ (2830604345233575 / 2251799813685248)); [reflexivity | apply (A02_q_mid 2830604345233575 2251799813685248 6827612519260485 140737488355328); [vm_compute; reflexivity | unfold fr, close, ctol, A02_c, A02_e; interval with (i_prec 80)]]. Qed.
Lemma d_A02_617u : close ctol (7442284741942163 / 9007199254740992) (volts_A02 (674756670237785 / 8796093022208)).
Proof. apply (A02_q_volts_mid 674756670237785 8796093022208 7442284741942163 9007199254740992); [vm_compute; reflexivity | unfold fr, close, ctol, A02_lo, A02_hi, A02_c, A02_e; interval with (i_prec 80)]. Qed.
Lemma d_A02_630u : close ctol (3454674376609183 / 4503599627370496) (volts_A02 (2927150880519075 / 35184372088832)).
Proof. apply (A02_q_volts_mid 2927150880519075 35184372088832 3454674376609183 4503599627370496); [vm_compute; reflexivity | unfold fr, close, ctol, A02_lo, A02_hi, A02_c, A02_e; interval with (i_prec 80)]. Qed.
Lemma d_A02_643u : close ctol (6101347600186947 / 9007199254740992) (volts_A02 (6705875635727285 / 70368744177664)).
Proof. apply (A02_q_volts_mid 6705875635727285 70368744177664 6101347600186947 9007199254740992); [vm_compute; reflexivity | unfold fr, close, ctol, A02_lo, A02_hi, A02_c, A02_e; interval with (i_prec 80)]. Qed.
Lemma d_A02_656u : close ctol (6867892336296229 / 4503599627370496) (volts_A02 (1382211316022975 / 35184372088832)).
Proof. apply (A02_q_volts_mid 1382211316022975 35184372088832 6867892336296229 4503599627370496); [vm_compute; reflexivity | unfold fr, close, ctol, A02_lo, A02_hi, A02_c, A02_e; interval with (i_prec 80)]. Qed.
Lemma r_A21_426 : rio_reads A21_c A21_e A21_lo A21_hi floor_volts ctol (Build_rio (Fin (8308476880671015 / 18014398509481984)) PInf PInf PInf PInf true true true ((Fin (0 / 1)) :: (Fin (0 / 1)) :: (Fin (0 / 1)) :: (Fin (0 / 1)) :: (Fin (27 / 4)) :: (Fin (45 / 1)) :: nil)) (2403342346628931 / 35184372088832).
Proof. apply (A21_rio_fin _ (8308476880671015 / 18014398509481984)); [reflexivity | apply (A21_q_mid 8308476880671015 18014398509481984 2403342346628931 35184372088832); [vm_compute; reflexivity | unfold fr, close, ctol, A21_c, A21_e; interval with (i_prec 80)]]. Qed.
Lemma r_A21_457 : rio_reads A21_c A21_e A21_lo A21_hi floor_volts ctol (Build_rio (Fin (1000000 / 1)) (Fin (5 / 1)) (Fin (3 / 1)) (Fin (6 / 1)) (Fin (12 / 1)) true true true ((Fin (0 / 1)) :: (Fin (0 / 1)) :: (Fin (0 / 1)) :: (Fin (0 / 1)) :: (Fin (27 / 4)) :: (Fin (45 / 1)) :: nil)) (10 / 1).
Proof. apply (A21_rio_fin _ (1000000 / 1)); [reflexivity | apply (A21_q_lo 1000000 1 10 1); [vm_compute; reflexivity | unfold fr, ctol, A21_lo, A21_c, A21_e; interval with (i_prec 80)]]. Qed.
Lemma r_A21_475 : rio_reads A21_c A21_e A21_lo A21_hi floor_volts ctol (Build_rio (Fin (2486611255276321 / 1125899906842624)) (Fin (5 / 1)) (Fin (3715469692580659 / 1125899906842624)) (Fin (6 / 1)) (Fin (12 / 1)) true true true ((Fin (0 / 1)) :: (Fin (1 / 2)) :: (Fin (0 / 1)) :: (Fin (0 / 1)) :: (Fin (27 / 4)) :: (Fin (45 / 1)) :: nil)) (5636408990577189 / 562949953421312).
Proof. apply (A21_rio_fin _ (2486611255276321 / 1125899906842624)); [reflexivity | apply (A21_q_mid 2486611255276321 1125899906842624 5636408990577189 562949953421312); [vm_compute; reflexivity | unfold fr, close, ctol, A21_c, A21_e; interval with (i_prec 80)]]. Qed.
Lemma r_A21_491 : rio_reads A21_c A21_e A21_lo A21_hi floor_volts ctol (Build_rio (Fin (5 / 256)) (Fin (137 / 32)) (Fin (723 / 256)) (Fin (6647 / 1024)) (Fin ((-12) / 1)) true false true ((Fin (171 / 1024)) :: (Fin (347 / 1024)) :: (Fin (665 / 512)) :: (Fin (43405 / 1024)) :: (Fin (4217 / 512)) :: (Fin (31437 / 1024)) :: nil)) (80 / 1).
Proof. apply (A21_rio_fin _ (5 / 256)); [reflexivity | apply (A21_q_hi 5 256 80 1); [vm_compute; reflexivity | unfold fr, ctol, A21_hi, A21_c, A21_e; interval with (i_prec 80)]]. Qed.
Lemma r_A21_507 : rio_reads A21_c A21_e A21_lo A21_hi floor_volts ctol (Build_rio (Fin (85 / 256)) (Fin (5 / 1)) (Fin (3715469692580659 / 1125899906842624)) (Fin (6 / 1)) (Fin (12 / 1)) true true true ((Fin (0 / 1)) :: (Fin (0 / 1)) :: (Fin (0 / 1)) :: (Fin (0 / 1)) :: (Fin (27 / 4)) :: (Fin (45 / 1)) :: nil)) (80 / 1).
Proof. apply (A21_rio_fin _ (85 / 256)); [reflexivity | apply (A21_q_hi 85 256 80 1); [vm_compute; reflexivity | unfold fr, ctol, A21_hi, A21_c, A21_e; interval with (i_prec 80)]]. Qed.
Lemma r_A21_523 : rio_reads A21_c A21_e A21_lo A21_hi floor_volts ctol (Build_rio (Fin (165 / 256)) (Fin (0 / 1)) NInf (Fin (2961 / 512)) (Fin (1 / 1)) true true true ((Fin (1771 / 1024)) :: (Fin (839 / 512)) :: (Fin (1283 / 512)) :: (Fin (56711 / 1024)) :: (Fin (3205 / 512)) :: (Fin (1903 / 128)) :: nil)) (1594505212676079 / 35184372088832).
Proof. apply (A21_rio_fin _ (165 / 256)); [reflexivity | apply (A21_q_mid 165 256 1594505212676079 35184372088832); [vm_compute; reflexivity | unfold fr, close, ctol, A21_c, A21_e; interval with (i_prec 80)]]. Qed.
Lemma r_A21_539 : rio_reads A21_c A21_e A21_lo A21_hi floor_volts ctol (Build_rio (Fin (245 / 256)) (Fin (11431 / 1024)) (Fin (3661 / 1024)) (Fin (6011 / 1024)) (Fin (2985 / 256)) true true true ((Fin (789 / 1024)) :: (Fin (455 / 1024)) :: (Fin (713 / 512)) :: (Fin (20395 / 512)) :: (Fin (3147 / 1024)) :: (Fin (1509 / 1024)) :: nil)) (982072702237737 / 35184372088832).
Proof. apply (A21_rio_fin _ (245 / 256)); [reflexivity | apply (A21_q_mid 245 256 982072702237737 35184372088832); [vm_compute; reflexivity | unfold fr, close, ctol, A21_c, A21_e; interval with (i_prec 80)]]. Qed.
Lemma r_A21_555 : rio_reads A21_c A21_e A21_lo A21_hi floor_volts ctol (Build_rio (Fin (325 / 256)) (Fin (5 / 1)) (Fin (3715469692580659 / 1125899906842624)) (Fin (6 / 1)) (Fin (12 / 1)) true true true ((Fin (0 / 1)) :: (Fin (0 / 1)) :: (Fin (0 / 1)) :: (Fin (0 / 1)) :: (Fin (27 / 4)) :: (Fin (45 / 1)) :: nil)) (2778127987843183 / 140737488355328).
Proof. apply (A21_rio_fin _ (325 / 256)); [reflexivity | apply (A21_q_mid 325 256 2778127987843183 140737488355328); [vm_compute; reflexivity | unfold fr, close, ctol, A21_c, A21_e; interval with (i_prec 80)]]. Qed.
Lemma r_A21_571 : rio_reads A21_c A21_e A21_lo A21_hi floor_volts ctol (Build_rio (Fin (405 / 256)) (Fin (4887 / 1024)) (Fin (375 / 128)) (Fin (4941 / 1024)) PInf true true true ((Fin (2081 / 1024)) :: (Fin (49 / 512)) :: (Fin (1061 / 1024)) :: (Fin (104505 / 1024)) :: (Fin (999 / 256)) :: (Fin (18001 / 256)) :: nil)) (8484795572560115 / 562949953421312).
Proof. apply (A21_rio_fin _ (405 / 256)); [reflexivity | apply (A21_q_mid 405 256 8484795572560115 562949953421312); [vm_compute; reflexivity | unfold fr, close, ctol, A21_c, A21_e; interval with (i_prec 80)]]. Qed.
Lemma r_A21_587 : rio_reads A21_c A21_e A21_lo A21_hi floor_volts ctol (Build_rio (Fin (485 / 256)) (Fin (4869 / 1024)) (Fin (1477 / 512)) (Fin (5003 / 512)) (Fin (1109 / 256)) true true true ((Fin (891 / 512)) :: (Fin (1655 / 1024)) :: (Fin (71 / 32)) :: (Fin (33535 / 512)) :: (Fin (2807 / 512)) :: (Fin (845 / 256)) :: nil)) (6802395364070831 / 562949953421312).
Proof. apply (A21_rio_fin _ (485 / 256)); [reflexivity | apply (A21_q_mid 485 256 6802395364070831 562949953421312); [vm_compute; reflexivity | unfold fr, close, ctol, A21_c, A21_e; interval with (i_prec 80)]]. Qed.
Lemma r_A21_603 : rio_reads A21_c A21_e A21_lo A21_hi floor_volts ctol (Build_rio (Fin (565 / 256)) (Fin (5 / 1)) (Fin (3715469692580659 / 1125899906842624)) (Fin (6 / 1)) (Fin (12 / 1)) true true true ((Fin (0 / 1)) :: (Fin (0 / 1)) :: (Fin (0 / 1)) :: (Fin (0 / 1)) :: (Fin (27 / 4)) :: (Fin (45 / 1)) :: nil)) (2820589266631393 / 281474976710656).
Proof. apply (A21_rio_fin _ (565 / 256)); [reflexivity | apply (A21_q_mid 565 256 2820589266631393 281474976710656); [vm_compute; reflexivity | unfold fr, close, ctol, A21_c, A21_e; interval with (i_prec 80)]]. Qed.
Lemma r_A21_619 : rio_reads A21_c A21_e A21_lo A21_hi floor_volts ctol (Build_rio (Fin (645 / 256)) (Fin (5331 / 1024)) (Fin (915 / 256)) (Fin (6 / 1)) (Fin (327 / 256)) true true false ((Fin (785 / 512)) :: (Fin (389 / 512)) :: (Fin (355 / 256)) :: (Fin (187651 / 1024)) :: (Fin (1095 / 128)) :: (Fin (98577 / 1024)) :: nil)) (10 / 1).
Proof. apply (A21_rio_fin _ (645 / 256)); [reflexivity | apply (A21_q_lo 645 256 10 1); [vm_compute; reflexivity | unfold fr, ctol, A21_lo, A21_c, A21_e; interval with (i_prec 80)]]. Qed.
Lemma r_A21_635 : rio_reads A21_c A21_e A21_lo A21_hi floor_volts ctol (Build_rio (Fin (725 / 256)) (Fin (4939 / 1024)) (Fin (100000000000000001097906362944045541740492309677311846336810682903157585404911491537163328978494688899061249669721172515611590283743140088328307009198146046031271664502933027185697489699588559043338384466165001178426897626212945177628091195786707458122783970171784415105291802893207873272974885715430223118336 / 1)) (Fin (5949 / 1024)) (Fin (12769 / 1024)) true true true ((Fin (1423 / 1024)) :: (Fin (483 / 256)) :: (Fin (1021 / 1024)) :: (Fin (66761 / 1024)) :: (Fin (4907 / 1024)) :: (Fin (45883 / 1024)) :: nil)) (10 / 1).
Proof. apply (A21_rio_fin _ (725 / 256)); [reflexivity | apply (A21_q_lo 725 256 10 1); [vm_compute; reflexivity | unfold fr, ctol, A21_lo, A21_c, A21_e; interval with (i_prec 80)]]. Qed.
Lemma r_A21_651 : rio_reads A21_c A21_e A21_lo A21_hi floor_volts ctol (Build_rio (Fin (805 / 256)) (Fin (5 / 1)) (Fin (3715469692580659 / 1125899906842624)) (Fin (6 / 1)) (Fin (12 / 1)) true true true ((Fin (0 / 1)) :: (Fin (0 / 1)) :: (Fin (0 / 1)) :: (Fin (0 / 1)) :: (Fin (27 / 4)) :: (Fin (45 / 1)) :: nil)) (10 / 1).
Proof. apply (A21_rio_fin _ (805 / 256)); [reflexivity | apply (A21_q_lo 805 256 10 1); [vm_compute; reflexivity | unfold fr, ctol, A21_lo, A21_c, A21_e; interval with (i_prec 80)]]. Qed.
Lemma r_A21_667 : rio_reads A21_c A21_e A21_lo A21_hi floor_volts ctol (Build_rio (Fin (885 / 256)) (Fin (0 / 1)) (Fin (1619 / 512)) (Fin (1539 / 128)) (Fin (5537 / 512)) false true true ((Fin (529 / 1024)) :: (Fin (351 / 512)) :: (Fin (87 / 512)) :: (Fin (131589 / 1024)) :: (Fin (1001 / 256)) :: (Fin (50825 / 512)) :: nil)) (10 / 1).
Proof. apply (A21_rio_fin _ (885 / 256)); [reflexivity | apply (A21_q_lo 885 256 10 1); [vm_compute; reflexivity | unfold fr, ctol, A21_lo, A21_c, A21_e; interval with (i_prec 80)]]. Qed.
Lemma r_A21_683 : rio_reads A21_c A21_e A21_lo A21_hi floor_volts ctol (Build_rio (Fin (965 / 256)) (Fin (2215 / 512)) (Fin (1707 / 512)) (Fin (6555 / 1024)) (Fin ((-1) / 1)) true true true ((Fin (2235 / 1024)) :: (Fin (649 / 512)) :: (Fin (103 / 512)) :: (Fin (62549 / 512)) :: (Fin (6545 / 1024)) :: (Fin (6059 / 128)) :: nil)) (10 / 1).
Proof. apply (A21_rio_fin _ (965 / 256)); [reflexivity | apply (A21_q_lo 965 256 10 1); [vm_compute; reflexivity | unfold fr, ctol, A21_lo, A21_c, A21_e; interval with (i_prec 80)]]. Qed.
Lemma r_A21_699 : rio_reads A21_c A21_e A21_lo A21_hi floor_volts ctol (Build_rio (Fin (1045 / 256)) (Fin (5 / 1)) (Fin (3715469692580659 / 1125899906842624)) (Fin (6 / 1)) (Fin (12 / 1)) true true true ((Fin (0 / 1)) :: (Fin (0 / 1)) :: (Fin (0 / 1)) :: (Fin (0 / 1)) :: (Fin (27 / 4)) :: (Fin (45 / 1)) :: nil)) (10 / 1).
Proof. apply (A21_rio_fin _ (1045 / 256)); [reflexivity | apply (A21_q_lo 1045 256 10 1); [vm_compute; reflexivity | unfold fr, ctol, A21_lo, A21_c, A21_e; interval with (i_prec 80)]]. Qed.
Lemma r_A21_715 : rio_reads A21_c A21_e A21_lo A21_hi floor_volts ctol (Build_rio (Fin (1125 / 256)) (Fin (2561 / 512)) (Fin (1795 / 512)) (Fin (6 / 1)) (Fin (4981 / 512)) false true true ((Fin (1529 / 512)) :: (Fin (1027 / 1024)) :: (Fin (1355 / 512)) :: (Fin (24081 / 256)) :: (Fin (3663 / 1024)) :: (Fin (1045 / 512)) :: nil)) (10 / 1).
Proof. apply (A21_rio_fin _ (1125 / 256)); [reflexivity | apply (A21_q_lo 1125 256 10 1); [vm_compute; reflexivity | unfold fr, ctol, A21_lo, A21_c, A21_e; interval with (i_prec 80)]]. Qed.
Lemma r_A21_731 : rio_reads A21_c A21_e A21_lo A21_hi floor_volts ctol (Build_rio (Fin (1205 / 256)) (Fin (5191 / 1024)) (Fin (1785 / 512)) (Fin (5151 / 1024)) (Fin (2583 / 256)) true true true ((Fin (195 / 512)) :: (Fin (1873 / 1024)) :: (Fin (81 / 512)) :: (Fin (27507 / 256)) :: (Fin (4033 / 1024)) :: (Fin ((-6319) / 1024)) :: nil)) (10 / 1).
Proof. apply (A21_rio_fin _ (1205 / 256)); [reflexivity | apply (A21_q_lo 1205 256 10 1); [vm_compute; reflexivity | unfold fr, ctol, A21_lo, A21_c, A21_e; interval with (i_prec 80)]]. Qed.
Lemma r_A21_747 : rio_reads A21_c A21_e A21_lo A21_hi floor_volts ctol (Build_rio (Fin (366881395577865 / 281474976710656)) (Fin (5 / 1)) (Fin (3715469692580659 / 1125899906842624)) (Fin (6 / 1)) (Fin (12 / 1)) true true true ((Fin (0 / 1)) :: (Fin (0 / 1)) :: (Fin (0 / 1)) :: (Fin (0 / 1)) :: (Fin (27 / 4)) :: (Fin (45 / 1)) :: nil)) (336227905688473 / 17592186044416).
Proof. apply (A21_rio_fin _ (366881395577865 / 281474976710656)); [reflexivity | apply (A21_q_mid 366881395577865 281474976710656 336227905688473 17592186044416); [vm_compute; reflexivity | unfold fr, close, ctol, A21_c, A21_e; interval with (i_prec 80)]]. Qed.
Lemma r_A21_763 : rio_reads A21_c A21_e A21_lo A21_hi floor_volts ctol (Build_rio (Fin (8274965184246391 / 2251799813685248)) (Fin (5835 / 1024)) (Fin (10693 / 1024)) (Fin (1 / 1)) (Fin (12741 / 1024)) true false true ((Fin (2023 / 1024)) :: (Fin (1809 / 1024)) :: (Fin (431 / 1024)) :: (Fin (9519 / 512)) :: (Fin (6783 / 1024)) :: (Fin ((-4977) / 512)) :: nil)) (10 / 1).
Proof. apply (A21_rio_fin _ (8274965184246391 / 2251799813685248)); [reflexivity | apply (A21_q_lo 8274965184246391 2251799813685248 10 1); [vm_compute; reflexivity | unfold fr, ctol, A21_lo, A21_c, A21_e; interval with (i_prec 80)]]. Qed.
Lemma r_A21_779 : rio_reads A21_c A21_e A21_lo A21_hi floor_volts ctol (Build_rio (Fin (1228305380539885 / 562949953421312)) (Fin (597 / 128)) (Fin (8569 / 1024)) (Fin (2617 / 512)) (Fin (12 / 1)) false true true ((Fin (2547 / 1024)) :: (Fin (1471 / 1024)) :: (Fin (789 / 512)) :: (Fin (8689 / 128)) :: (Fin (6563 / 1024)) :: (Fin ((-8101) / 1024)) :: nil)) (2860456961031901 / 281474976710656).
Proof. apply (A21_rio_fin _ (1228305380539885 / 562949953421312)); [reflexivity | apply (A21_q_mid 1228305380539885 562949953421312 2860456961031901 281474976710656); [vm_compute; reflexivity | unfold fr, close, ctol, A21_c, A21_e; interval with (i_prec 80)]]. Qed.
Lemma r_A21_795 : rio_reads A21_c A21_e A21_lo A21_hi floor_volts ctol (Build_rio (Fin (288112044917445 / 9007199254740992)) (Fin (5 / 1)) (Fin (3715469692580659 / 1125899906842624)) (Fin (6 / 1)) (Fin (12 / 1)) true true true ((Fin (0 / 1)) :: (Fin (0 / 1)) :: (Fin (0 / 1)) :: (Fin (0 / 1)) :: (Fin (27 / 4)) :: (Fin (45 / 1)) :: nil)) (80 / 1).
Proof. apply (A21_rio_fin _ (288112044917445 / 9007199254740992)); [reflexivity | apply (A21_q_hi 288112044917445 9007199254740992 80 1); [vm_compute; reflexivity | unfold fr, ctol, A21_hi, A21_c, A21_e; interval with (i_prec 80)]]. Qed.
Lemma r_A21_811 : rio_reads A21_c A21_e A21_lo A21_hi floor_volts ctol (Build_rio (Fin (2441343656232823 / 70368744177664)) (Fin (5 / 1)) (Fin (3585 / 1024)) (Fin (6345 / 1024)) (Fin (801 / 64)) false true true ((Fin (1547 / 1024)) :: (Fin (885 / 1024)) :: (Fin (1345 / 512)) :: (Fin (130263 / 1024)) :: (Fin (1913 / 512)) :: (Fin (83031 / 1024)) :: nil)) (10 / 1).
Proof. apply (A21_rio_fin _ (2441343656232823 / 70368744177664)); [reflexivity | apply (A21_q_lo 2441343656232823 70368744177664 10 1); [vm_compute; reflexivity | unfold fr, ctol, A21_lo, A21_c, A21_e; interval with (i_prec 80)]]. Qed.
Lemma r_A21_834 : rio_reads A21_c A21_e A21_lo A21_hi floor_volts ctol (Build_rio (Fin (841602388774391 / 36028797018963968)) (Fin (4397 / 1024)) (Fin (5902958103587057 / 590295810358705651712)) (Fin (2983 / 512)) (Fin (10571 / 1024)) true false true ((Fin (1871 / 1024)) :: (Fin (427 / 512)) :: (Fin (613 / 256)) :: (Fin (25755 / 1024)) :: (Fin (8457 / 1024)) :: (Fin (3145 / 256)) :: nil)) (80 / 1).
Proof. apply (A21_rio_fin _ (841602388774391 / 36028797018963968)); [reflexivity | apply (A21_q_hi 841602388774391 36028797018963968 80 1); [vm_compute; reflexivity | unfold fr, ctol, A21_hi, A21_c, A21_e; interval with (i_prec 80)]]. Qed.
Lemma d_A21_670u : close ctol (7303775102731699 / 18014398509481984) (volts_A21 (200 / 1)).
Proof. apply (A21_q_volts_hi 200 1 7303775102731699 18014398509481984); [vm_compute; reflexivity | unfold fr, close, ctol, A21_lo, A21_hi, A21_c, A21_e; interval with (i_prec 80)]. Qed.
Lemma d_A21_678u : close ctol (7303775102731699 / 18014398509481984) (volts_A21 (145 / 1)).
Proof. apply (A21_q_volts_hi 145 1 7303775102731699 18014398509481984); [vm_compute; reflexivity | unfold fr, close, ctol, A21_lo, A21_hi, A21_c, A21_e; interval with (i_prec 80)]. Qed.
Lemma d_A21_686u : close ctol (2489100355631953 / 1125899906842624) (volts_A21 (0 / 1)).
Proof. apply (A21_q_volts_lo 0 1 2489100355631953 1125899906842624); [vm_compute; reflexivity | unfold fr, close, ctol, A21_lo, A21_hi, A21_c, A21_e; interval with (i_prec 80)]. Qed.
Lemma d_A21_694u : close ctol (2489100355631953 / 1125899906842624) (volts_A21 (2 / 1)).
Proof. apply (A21_q_volts_lo 2 1 2489100355631953 1125899906842624); [vm_compute; reflexivity | unfold fr, close, ctol, A21_lo, A21_hi, A21_c, A21_e; interval with (i_prec 80)]. Qed.
Lemma d_A21_702u : close ctol (7303775102731699 / 18014398509481984) (volts_A21 (200 / 1)).
Proof. apply (A21_q_volts_hi 200 1 7303775102731699 18014398509481984); [vm_compute; reflexivity | unfold fr, close, ctol, A21_lo, A21_hi, A21_c, A21_e; interval with (i_prec 80)]. Qed.
Lemma d_A21_710u : close ctol (7303775102731699 / 18014398509481984) (volts_A21 (80 / 1)).
Proof. apply (A21_q_volts_hi 80 1 7303775102731699 18014398509481984); [vm_compute; reflexivity | unfold fr, close, ctol, A21_lo, A21_hi, A21_c, A21_e; interval with (i_prec 80)]. Qed.
Lemma d_A21_718u : close ctol (7303775102731699 / 18014398509481984) (volts_A21 (1407374884960655 / 17592186044416)).
Proof. apply (A21_q_volts_hi 1407374884960655 17592186044416 7303775102731699 18014398509481984); [vm_compute; reflexivity | unfold fr, close, ctol, A21_lo, A21_hi, A21_c, A21_e; interval with (i_prec 80)]. Qed.
Lemma d_A21_727u : close ctol (3590776094181299 / 4503599627370496) (volts_A21 (4913856275388215 / 140737488355328)).
Proof. apply (A21_q_volts_mid 4913856275388215 140737488355328 3590776094181299 4503599627370496); [vm_compute; reflexivity | unfold fr, close, ctol, A21_lo, A21_hi, A21_c, A21_e; interval with (i_prec 80)]. Qed.
Lemma d_A21_740u : close ctol (500340411251335 / 1125899906842624) (volts_A21 (1257674332130461 / 17592186044416)).
Proof. apply (A21_q_volts_mid 1257674332130461 17592186044416 500340411251335 1125899906842624); [vm_compute; reflexivity | unfold fr, close, ctol, A21_lo, A21_hi, A21_c, A21_e; interval with (i_prec 80)]. Qed.
Lemma d_A21_752r : rio_reads A21_c A21_e A21_lo A21_hi floor_volts ctol (Build_rio (Fin (1326080900781185 / 1125899906842624)) (Fin (4729 / 1024)) (Fin (3587 / 1024)) (Fin (0 / 1)) (Fin (12 / 1)) true true true ((Fin (197 / 1024)) :: (Fin (933 / 512)) :: (Fin (1139 / 1024)) :: (Fin (7209 / 64)) :: (Fin (8049 / 1024)) :: (Fin (80963 / 1024)) :: nil)) (3045698731436681 / 140737488355328).
Proof. apply (A21_rio_fin _ (1326080900781185 / 1125899906842624)); [reflexivity | apply (A21_q_mid 1326080900781185 1125899906842624 3045698731436681 140737488355328); [vm_compute; reflexivity | unfold fr, close, ctol, A21_c, A21_e; interval with (i_prec 80)]]. Qed.
Lemma d_A21_765u : close ctol (7303775102731699 / 18014398509481984) (volts_A21 (4746487684748871 / 35184372088832)).
Proof. apply (A21_q_volts_hi 4746487684748871 35184372088832 7303775102731699 18014398509481984); [vm_compute; reflexivity | unfold fr, close, ctol, A21_lo, A21_hi, A21_c, A21_e; interval with (i_prec 80)]. Qed.
Lemma d_A21_778u : close ctol (8329388619953115 / 18014398509481984) (volts_A21 (1197973488939727 / 17592186044416)).
Proof. apply (A21_q_volts_mid 1197973488939727 17592186044416 8329388619953115 18014398509481984); [vm_compute; reflexivity | unfold fr, close, ctol, A21_lo, A21_hi, A21_c, A21_e; interval with (i_prec 80)]. Qed.
Lemma d_A21_791u : close ctol (7757513653137375 / 9007199254740992) (volts_A21 (8940797571576827 / 281474976710656)).
Proof. apply (A21_q_volts_mid 8940797571576827 281474976710656 7757513653137375 9007199254740992); [vm_compute; reflexivity | unfold fr, close, ctol, A21_lo, A21_hi, A21_c, A21_e; interval with (i_prec 80)]. Qed.
Lemma d_A21_804u : close ctol (4767703828088425 / 9007199254740992) (volts_A21 (8119680624926601 / 140737488355328)).
Proof. apply (A21_q_volts_mid 8119680624926601 140737488355328 4767703828088425 9007199254740992); [vm_compute; reflexivity | unfold fr, close, ctol, A21_lo, A21_hi, A21_c, A21_e; interval with (i_prec 80)]. Qed.
Lemma d_A21_816r : rio_reads A21_c A21_e A21_lo A21_hi floor_volts ctol (Build_rio (Fin (2389393134546625 / 4503599627370496)) (Fin (5075 / 1024)) (Fin (2867 / 1024)) (Fin (5811 / 1024)) (Fin (12 / 1)) true true true ((Fin (1141 / 512)) :: (Fin (805 / 1024)) :: (Fin (137 / 512)) :: (Fin (23051 / 128)) :: (Fin (1709 / 512)) :: (Fin (76803 / 1024)) :: nil)) (1012075094452337 / 17592186044416).
Proof. apply (A21_rio_fin _ (2389393134546625 / 4503599627370496)); [reflexivity | apply (A21_q_mid 2389393134546625 4503599627370496 1012075094452337 17592186044416); [vm_compute; reflexivity | unfold fr, close, ctol, A21_c, A21_e; interval with (i_prec 80)]]. Qed.
Lemma d_A21_829u : close ctol (8538224735864489 / 18014398509481984) (volts_A21 (290537538128677 / 4398046511104)).
Proof. apply (A21_q_volts_mid 290537538128677 4398046511104 8538224735864489 18014398509481984); [vm_compute; reflexivity | unfold fr, close, ctol, A21_lo, A21_hi, A21_c, A21_e; interval with (i_prec 80)]. Qed.
Lemma d_A21_842u : close ctol (2489100355631953 / 1125899906842624) (volts_A21 (1165882549804507 / 140737488355328)).
Proof. apply (A21_q_volts_lo 1165882549804507 140737488355328 2489100355631953 1125899906842624); [vm_compute; reflexivity | unfold fr, close, ctol, A21_lo, A21_hi, A21_c, A21_e; interval with (i_prec 80)]. Qed.
Lemma d_A21_855u : close ctol (4285993472193277 / 2251799813685248) (volts_A21 (422732292602303 / 35184372088832)).
Proof. apply (A21_q_volts_mid 422732292602303 35184372088832 4285993472193277 2251799813685248); [vm_compute; reflexivity | unfold fr, close, ctol, A21_lo, A21_hi, A21_c, A21_e; interval with (i_prec 80)]. Qed.
Lemma d_A21_868u : close ctol (8483156921384239 / 9007199254740992) (volts_A21 (4006218344610119 / 140737488355328)).
Proof. apply (A21_q_volts_mid 4006218344610119 140737488355328 8483156921384239 9007199254740992); [vm_compute; reflexivity | unfold fr, close, ctol, A21_lo, A21_hi, A21_c, A21_e; interval with (i_prec 80)]. Qed.
Lemma d_A21_880r : rio_reads A21_c A21_e A21_lo A21_hi floor_volts ctol (Build_rio (Fin (4471938619480105 / 2251799813685248)) (Fin (4741 / 1024)) (Fin (1841 / 512)) (Fin (2561 / 512)) (Fin (5155 / 512)) true true true ((Fin (357 / 512)) :: (Fin (393 / 1024)) :: (Fin (35 / 1024)) :: (Fin (15555 / 1024)) :: (Fin (617 / 128)) :: (Fin ((-19491) / 1024)) :: nil)) (6420556331276065 / 562949953421312).
Proof. apply (A21_rio_fin _ (4471938619480105 / 2251799813685248)); [reflexivity | apply (A21_q_mid 4471938619480105 2251799813685248 6420556331276065 562949953421312); [vm_compute; reflexivity | unfold fr, close, ctol, A21_c, A21_e; interval with (i_prec 80)]]. Qed.
Lemma d_A21_893u : close ctol (7303775102731699 / 18014398509481984) (volts_A21 (2727286170131395 / 1099511627776)).
Proof. apply (A21_q_volts_hi 2727286170131395 1099511627776 7303775102731699 18014398509481984); [vm_compute; reflexivity | unfold fr, close, ctol, A21_lo, A21_hi, A21_c, A21_e; interval with (i_prec 80)]. Qed.
Lemma d_A21_906u : close ctol (6013581006278693 / 9007199254740992) (volts_A21 (1527104858260765 / 35184372088832)).
Proof. apply (A21_q_volts_mid 1527104858260765 35184372088832 6013581006278693 9007199254740992); [vm_compute; reflexivity | unfold fr, close, ctol, A21_lo, A21_hi, A21_c, A21_e; interval with (i_prec 80)]. Qed.
Lemma d_A21_919u : close ctol (2969120993278163 / 4503599627370496) (volts_A21 (3101783922794977 / 70368744177664)).
Proof. apply (A21_q_volts_mid 3101783922794977 70368744177664 2969120993278163 4503599627370496); [vm_compute; reflexivity | unfold fr, close, ctol, A21_lo, A21_hi, A21_c, A21_e; interval with (i_prec 80)]. Qed.
Lemma d_A21_932u : close ctol (5580235745793773 / 9007199254740992) (volts_A21 (6694992405813845 / 140737488355328)).
Proof. apply (A21_q_volts_mid 6694992405813845 140737488355328 5580235745793773 9007199254740992); [vm_compute; reflexivity | unfold fr, close, ctol, A21_lo, A21_hi, A21_c, A21_e; interval with (i_prec 80)]. Qed.
Lemma d_A21_944r : rio_reads A21_c A21_e A21_lo A21_hi floor_volts ctol (Build_rio (Fin (6270201302349295 / 9007199254740992)) (Fin (105 / 8)) (Fin (1299 / 512)) (Fin (6 / 1)) (Fin (10133 / 1024)) true true true ((Fin (2265 / 1024)) :: (Fin (447 / 256)) :: (Fin (7 / 8)) :: (Fin (54631 / 1024)) :: (Fin (6067 / 1024)) :: (Fin (11635 / 256)) :: nil)) (5803353315926825 / 140737488355328).
Proof. apply (A21_rio_fin _ (6270201302349295 / 9007199254740992)); [reflexivity | apply (A21_q_mid 6270201302349295 9007199254740992 5803353315926825 140737488355328); [vm_compute; reflexivity | unfold fr, close, ctol, A21_c, A21_e; interval with (i_prec 80)]]. Qed.
Lemma d_A21_957u : close ctol (3635799625880815 / 4503599627370496) (volts_A21 (2419679324231089 / 70368744177664)).
Proof. apply (A21_q_volts_mid 2419679324231089 70368744177664 3635799625880815 4503599627370496); [vm_compute; reflexivity | unfold fr, close, ctol, A21_lo, A21_hi, A21_c, A21_e; interval with (i_prec 80)]. Qed.
Lemma d_A21_970u : close ctol (1112656401144549 / 1125899906842624) (volts_A21 (1888378810541431 / 70368744177664)).
Proof. apply (A21_q_volts_mid 1888378810541431 70368744177664 1112656401144549 1125899906842624); [vm_compute; reflexivity | unfold fr, close, ctol, A21_lo, A21_hi, A21_c, A21_e; interval with (i_prec 80)]. Qed.
Lemma d_A21_983u : close ctol (2489100355631953 / 1125899906842624) (volts_A21 (8576121563648931 / 36028797018963968)).
Proof. apply (A21_q_volts_lo 8576121563648931 36028797018963968 2489100355631953 1125899906842624); [vm_compute; reflexivity | unfold fr, close, ctol, A21_lo, A21_hi, A21_c, A21_e; interval with (i_prec 80)]. Qed.
Lemma d_A21_996u : close ctol (995660197950891 / 2251799813685248) (volts_A21 (2530907687645025 / 35184372088832)).
Proof. apply (A21_q_volts_mid 2530907687645025 35184372088832 995660197950891 2251799813685248); [vm_compute; reflexivity | unfold fr, close, ctol, A21_lo, A21_hi, A21_c, A21_e; interval with (i_prec 80)]. Qed.
Lemma d_A21_1008r : rio_reads A21_c A21_e A21_lo A21_hi floor_volts ctol (Build_rio (Fin (6564478599784363 / 4503599627370496)) (Fin (2449 / 512)) (Fin (1779 / 512)) (Fin (619 / 128)) (Fin (5075 / 512)) true true false ((Fin (1103 / 512)) :: (Fin (1357 / 1024)) :: (Fin (913 / 1024)) :: (Fin (25719 / 512)) :: (Fin (271 / 32)) :: (Fin ((-4981) / 256)) :: nil)) (1172643094263907 / 70368744177664).
Proof. apply (A21_rio_fin _ (6564478599784363 / 4503599627370496)); [reflexivity | apply (A21_q_mid 6564478599784363 4503599627370496 1172643094263907 70368744177664); [vm_compute; reflexivity | unfold fr, close, ctol, A21_c, A21_e; interval with (i_prec 80)]]. Qed.
Lemma d_A21_1021u : close ctol (2489100355631953 / 1125899906842624) (volts_A21 (2553358067812495 / 562949953421312)).
Proof. apply (A21_q_volts_lo 2553358067812495 562949953421312 2489100355631953 1125899906842624); [vm_compute; reflexivity | unfold fr, close, ctol, A21_lo, A21_hi, A21_c, A21_e; interval with (i_prec 80)]. Qed.
Lemma d_A21_1034u : close ctol (2489100355631953 / 1125899906842624) (volts_A21 ((-2597284438827609) / 1125899906842624)).
Proof. apply (A21_q_volts_lo (-2597284438827609) 1125899906842624 2489100355631953 1125899906842624); [vm_compute; reflexivity | unfold fr, close, ctol, A21_lo, A21_hi, A21_c, A21_e; interval with (i_prec 80)]. Qed.
Lemma d_A21_1047u : close ctol (2489100355631953 / 1125899906842624) (volts_A21 (1294372302863273 / 1125899906842624)).
Proof. apply (A21_q_volts_lo 1294372302863273 1125899906842624 2489100355631953 1125899906842624); [vm_compute; reflexivity | unfold fr, close, ctol, A21_lo, A21_hi, A21_c, A21_e; interval with (i_prec 80)]. Qed.
Lemma d_A21_1060u : close ctol (2489100355631953 / 1125899906842624) (volts_A21 ((-247420496438455) / 562949953421312)).
Proof. apply (A21_q_volts_lo (-247420496438455) 562949953421312 2489100355631953 1125899906842624); [vm_compute; reflexivity | unfold fr, close, ctol, A21_lo, A21_hi, A21_c, A21_e; interval with (i_prec 80)]. Qed.
Lemma d_A21_1072r : rio_reads A21_c A21_e A21_lo A21_hi floor_volts ctol (Build_rio (Fin (7353530520850023 / 18014398509481984)) (Fin (1819 / 256)) (Fin (3623 / 1024)) (Fin ((-12) / 1)) (Fin (607 / 256)) true false true ((Fin (2331 / 1024)) :: (Fin (387 / 512)) :: (Fin (1679 / 1024)) :: (Fin (87791 / 1024)) :: (Fin (8879 / 1024)) :: (Fin (9239 / 256)) :: nil)) (5582836607234385 / 70368744177664).
Proof. apply (A21_rio_fin _ (7353530520850023 / 18014398509481984)); [reflexivity | apply (A21_q_mid 7353530520850023 18014398509481984 5582836607234385 70368744177664); [vm_compute; reflexivity | unfold fr, close, ctol, A21_c, A21_e; interval with (i_prec 80)]]. Qed.
Lemma d_A21_1085u : close ctol (8525072936459587 / 4503599627370496) (volts_A21 (3404689076904849 / 281474976710656)).
Proof. apply (A21_q_volts_mid 3404689076904849 281474976710656 8525072936459587 4503599627370496); [vm_compute; reflexivity | unfold fr, close, ctol, A21_lo, A21_hi, A21_c, A21_e; interval with (i_prec 80)]. Qed.
Lemma d_A21_1098u : close ctol (8761794834972363 / 18014398509481984) (volts_A21 (64 / 1)).
Proof. apply (A21_q_volts_mid 64 1 8761794834972363 18014398509481984); [vm_compute; reflexivity | unfold fr, close, ctol, A21_lo, A21_hi, A21_c, A21_e; interval with (i_prec 80)]. Qed.
Lemma d_A21_1111u : close ctol (2489100355631953 / 1125899906842624) (volts_A21 (1463674654215209 / 281474976710656)).
Proof. apply (A21_q_volts_lo 1463674654215209 281474976710656 2489100355631953 1125899906842624); [vm_compute; reflexivity | unfold fr, close, ctol, A21_lo, A21_hi, A21_c, A21_e; interval with (i_prec 80)]. Qed.
Lemma d_A21_1124u : close ctol (2339660407175537 / 4503599627370496) (volts_A21 (8308104910937071 / 140737488355328)).
Proof. apply (A21_q_volts_mid 8308104910937071 140737488355328 2339660407175537 4503599627370496); [vm_compute; reflexivity | unfold fr, close, ctol, A21_lo, A21_hi, A21_c, A21_e; interval with (i_prec 80)]. Qed.
Lemma d_A21_1136r : rio_reads A21_c A21_e A21_lo A21_hi floor_volts ctol (Build_rio (Fin (3002997909532405 / 4503599627370496)) (Fin (1 / 1)) (Fin (2993 / 1024)) (Fin (5403 / 1024)) (Fin (5005 / 512)) true false true ((Fin (2907 / 1024)) :: (Fin (1541 / 1024)) :: (Fin (43 / 32)) :: (Fin (72717 / 1024)) :: (Fin (8711 / 1024)) :: (Fin (7023 / 512)) :: nil)) (3058939405227695 / 70368744177664).
Proof. apply (A21_rio_fin _ (3002997909532405 / 4503599627370496)); [reflexivity | apply (A21_q_mid 3002997909532405 4503599627370496 3058939405227695 70368744177664); [vm_compute; reflexivity | unfold fr, close, ctol, A21_c, A21_e; interval with (i_prec 80)]]. Qed.
Lemma d_A21_1149u : close ctol (7303775102731699 / 18014398509481984) (volts_A21 (2617286084763553 / 137438953472)).
Proof. apply (A21_q_volts_hi 2617286084763553 137438953472 7303775102731699 18014398509481984); [vm_compute; reflexivity | unfold fr, close, ctol, A21_lo, A21_hi, A21_c, A21_e; interval with (i_prec 80)]. Qed.
Lemma d_A21_1162u : close ctol (2489100355631953 / 1125899906842624) (volts_A21 (4241311399874209 / 562949953421312)).
Proof. apply (A21_q_volts_lo 4241311399874209 562949953421312 2489100355631953 1125899906842624); [vm_compute; reflexivity | unfold fr, close, ctol, A21_lo, A21_hi, A21_c, A21_e; interval with (i_prec 80)]. Qed.
Lemma d_A21_1175u : close ctol (8054447344821511 / 18014398509481984) (volts_A21 (1248300295466305 / 17592186044416)).
Proof. apply (A21_q_volts_mid 1248300295466305 17592186044416 8054447344821511 18014398509481984); [vm_compute; reflexivity | unfold fr, close, ctol, A21_lo, A21_hi, A21_c, A21_e; interval with (i_prec 80)]. Qed.
Lemma d_A21_1188u : close ctol (425082773678957 / 562949953421312) (volts_A21 (656593391555807 / 17592186044416)).
Proof. apply (A21_q_volts_mid 656593391555807 17592186044416 425082773678957 562949953421312); [vm_compute; reflexivity | unfold fr, close, ctol, A21_lo, A21_hi, A21_c, A21_e; interval with (i_prec 80)]. Qed.
Lemma d_A21_1200r : rio_reads A21_c A21_e A21_lo A21_hi floor_volts ctol (Build_rio (Fin (5091032517380519 / 9007199254740992)) (Fin (4481 / 1024)) (Fin (3715469692580659 / 1125899906842624)) (Fin (5925 / 1024)) (Fin (4585 / 1024)) true true false ((Fin (717 / 512)) :: (Fin (563 / 512)) :: (Fin (1419 / 512)) :: (Fin (19215 / 512)) :: (Fin (505 / 128)) :: (Fin (67581 / 1024)) :: nil)) (3746037474142831 / 70368744177664).
Proof. apply (A21_rio_fin _ (5091032517380519 / 9007199254740992)); [reflexivity | apply (A21_q_mid 5091032517380519 9007199254740992 3746037474142831 70368744177664); [vm_compute; reflexivity | unfold fr, close, ctol, A21_c, A21_e; interval with (i_prec 80)]]. Qed.
Lemma d_A21_1213u : close ctol (7303775102731699 / 18014398509481984) (volts_A21 (87 / 1)).
Proof. apply (A21_q_volts_hi 87 1 7303775102731699 18014398509481984); [vm_compute; reflexivity | unfold fr, close, ctol, A21_lo, A21_hi, A21_c, A21_e; interval with (i_prec 80)]. Qed.
Lemma d_A21_1226u : close ctol (644962634430823 / 1125899906842624) (volts_A21 (7370015867779443 / 140737488355328)).
Proof. apply (A21_q_volts_mid 7370015867779443 140737488355328 644962634430823 1125899906842624); [vm_compute; reflexivity | unfold fr, close, ctol, A21_lo, A21_hi, A21_c, A21_e; interval with (i_prec 80)]. Qed.
Lemma d_A21_1239u : close ctol (7863405571894837 / 9007199254740992) (volts_A21 (1099176490703161 / 35184372088832)).
Proof. apply (A21_q_volts_mid 1099176490703161 35184372088832 7863405571894837 9007199254740992); [vm_compute; reflexivity | unfold fr, close, ctol, A21_lo, A21_hi, A21_c, A21_e; interval with (i_prec 80)]. Qed.
Lemma d_A21_1252u : close ctol (2489100355631953 / 1125899906842624) (volts_A21 (8979864704733547 / 2251799813685248)).
Proof. apply (A21_q_volts_lo 8979864704733547 2251799813685248 2489100355631953 1125899906842624); [vm_compute; reflexivity | unfold fr, close, ctol, A21_lo, A21_hi, A21_c, A21_e; interval with (i_prec 80)]. Qed.
Lemma d_A21_1264r : rio_reads A21_c A21_e A21_lo A21_hi floor_volts ctol (Build_rio (Fin (7153153442448603 / 9007199254740992)) (Fin (5 / 1)) (Fin ((-12) / 1)) (Fin (2579 / 512)) (Fin (4919 / 512)) true false false ((Fin (985 / 1024)) :: (Fin (291 / 1024)) :: (Fin (221 / 128)) :: (Fin (10277 / 1024)) :: (Fin (7681 / 1024)) :: (Fin (70057 / 1024)) :: nil)) (1234446106474565 / 35184372088832).
Proof. apply (A21_rio_fin _ (7153153442448603 / 9007199254740992)); [reflexivity | apply (A21_q_mid 7153153442448603 9007199254740992 1234446106474565 35184372088832); [vm_compute; reflexivity | unfold fr, close, ctol, A21_c, A21_e; interval with (i_prec 80)]]. Qed.
Lemma d_A21_1277u : close ctol (7888656141386063 / 9007199254740992) (volts_A21 (4379458357632709 / 140737488355328)).
Proof. apply (A21_q_volts_mid 4379458357632709 140737488355328 7888656141386063 9007199254740992); [vm_compute; reflexivity | unfold fr, close, ctol, A21_lo, A21_hi, A21_c, A21_e; interval with (i_prec 80)]. Qed.
Lemma d_A21_1290u : close ctol (7303775102731699 / 18014398509481984) (volts_A21 (3008229188813823 / 17592186044416)).
Proof. apply (A21_q_volts_hi 3008229188813823 17592186044416 7303775102731699 18014398509481984); [vm_compute; reflexivity | unfold fr, close, ctol, A21_lo, A21_hi, A21_c, A21_e; interval with (i_prec 80)]. Qed.
Lemma d_A21_1303u : close ctol (8469093278822277 / 18014398509481984) (volts_A21 (1173791173568827 / 17592186044416)).
Proof. apply (A21_q_volts_mid 1173791173568827 17592186044416 8469093278822277 18014398509481984); [vm_compute; reflexivity | unfold fr, close, ctol, A21_lo, A21_hi, A21_c, A21_e; interval with (i_prec 80)]. Qed.
Lemma d_A21_1316u : close ctol (7303775102731699 / 18014398509481984) (volts_A21 (113 / 1)).
Proof. apply (A21_q_volts_hi 113 1 7303775102731699 18014398509481984); [vm_compute; reflexivity | unfold fr, close, ctol, A21_lo, A21_hi, A21_c, A21_e; interval with (i_prec 80)]. Qed.
Lemma d_A21_1328r : rio_reads A21_c A21_e A21_lo A21_hi floor_volts ctol (Build_rio (Fin (2489100355631953 / 1125899906842624)) (Fin (699 / 128)) (Fin (1 / 202402253307310618352495346718917307049556649764142118356901358027430339567995346891960383701437124495187077864316811911389808737385793476867013399940738509921517424276566361364466907742093216341239767678472745068562007483424692698618103355649159556340810056512358769552333414615230502532186327508646006263307707741093494784)) (Fin (1121 / 128)) (Fin (1 / 1)) false true true ((Fin (99 / 256)) :: (Fin (1477 / 1024)) :: (Fin (179 / 128)) :: (Fin (167131 / 1024)) :: (Fin (1389 / 256)) :: (Fin (93731 / 1024)) :: nil)) (10 / 1).
Proof. apply (A21_rio_fin _ (2489100355631953 / 1125899906842624)); [reflexivity | apply (A21_q_lo 2489100355631953 1125899906842624 10 1); [vm_compute; reflexivity | unfold fr, ctol, A21_lo, A21_c, A21_e; interval with (i_prec 80)]]. Qed.
Lemma r_A41_873 : rio_reads A41_c A41_e A41_lo A41_hi floor_volts ctol (Build_rio (Fin (3246626956972881 / 295147905179352825856)) (Fin (1 / 202402253307310618352495346718917307049556649764142118356901358027430339567995346891960383701437124495187077864316811911389808737385793476867013399940738509921517424276566361364466907742093216341239767678472745068562007483424692698618103355649159556340810056512358769552333414615230502532186327508646006263307707741093494784)) (Fin (3715469692580659 / 1125899906842624)) (Fin (6 / 1)) (Fin (12 / 1)) true true true ((Fin (0 / 1)) :: (Fin (0 / 1)) :: (Fin (0 / 1)) :: (Fin (0 / 1)) :: (Fin (27 / 4)) :: (Fin (45 / 1)) :: nil)) (35 / 1).
Proof. apply (A41_rio_fin _ (3246626956972881 / 295147905179352825856)); [reflexivity | apply (A41_q_hi 3246626956972881 295147905179352825856 35 1); [vm_compute; reflexivity | unfold fr, ctol, A41_hi, A41_c, A41_e; interval with (i_prec 80)]]. Qed.
Lemma r_A41_891 : rio_reads A41_c A41_e A41_lo A41_hi floor_volts ctol (Build_rio (Fin (3245522158846457 / 9007199254740992)) (Fin (5 / 1)) (Fin ((-1) / 1)) (Fin (6 / 1)) (Fin (12 / 1)) true true true ((Fin (0 / 1)) :: (Fin (0 / 1)) :: (Fin (0 / 1)) :: (Fin (0 / 1)) :: (Fin (27 / 4)) :: (Fin (45 / 1)) :: nil)) (2462906043798681 / 70368744177664).
Proof. apply (A41_rio_fin _ (3245522158846457 / 9007199254740992)); [reflexivity | apply (A41_q_mid 3245522158846457 9007199254740992 2462906043798681 70368744177664); [vm_compute; reflexivity | unfold fr, close, ctol, A41_c, A41_e; interval with (i_prec 80)]]. Qed.
Lemma r_A41_907 : rio_reads A41_c A41_e A41_lo A41_hi floor_volts ctol (Build_rio (Fin (11895 / 4096)) (Fin (5 / 1)) (Fin (3715469692580659 / 1125899906842624)) (Fin (6 / 1)) (Fin (12 / 1)) true true true ((Fin (0 / 1)) :: (Fin (0 / 1)) :: (Fin (0 / 1)) :: (Fin (40 / 1)) :: (Fin (27 / 4)) :: (Fin (45 / 1)) :: nil)) (1268087426417127 / 281474976710656).
Proof. apply (A41_rio_fin _ (11895 / 4096)); [reflexivity | apply (A41_q_mid 11895 4096 1268087426417127 281474976710656); [vm_compute; reflexivity | unfold fr, close, ctol, A41_c, A41_e; interval with (i_prec 80)]]. Qed.
Lemma r_A41_923 : rio_reads A41_c A41_e A41_lo A41_hi floor_volts ctol (Build_rio (Fin (45 / 256)) (Fin (3119 / 1024)) (Fin (3081 / 1024)) (Fin (5015 / 1024)) (Fin (2195 / 1024)) true false true ((Fin (385 / 512)) :: (Fin (313 / 512)) :: (Fin (2575 / 1024)) :: (Fin (190477 / 1024)) :: (Fin (4345 / 512)) :: (Fin (24853 / 256)) :: nil)) (35 / 1).
Proof. apply (A41_rio_fin _ (45 / 256)); [reflexivity | apply (A41_q_hi 45 256 35 1); [vm_compute; reflexivity | unfold fr, ctol, A41_hi, A41_c, A41_e; interval with (i_prec 80)]]. Qed.
Lemma r_A41_939 : rio_reads A41_c A41_e A41_lo A41_hi floor_volts ctol (Build_rio (Fin (125 / 256)) (Fin (5 / 1)) (Fin (3201 / 1024)) (Fin (6 / 1)) (Fin (2813 / 256)) true false true ((Fin (133 / 512)) :: (Fin (61 / 64)) :: (Fin (2259 / 1024)) :: (Fin (22589 / 512)) :: (Fin (9131 / 1024)) :: (Fin (10529 / 512)) :: nil)) (456809764003359 / 17592186044416).
Proof. apply (A41_rio_fin _ (125 / 256)); [reflexivity | apply (A41_q_mid 125 256 456809764003359 17592186044416); [vm_compute; reflexivity | unfold fr, close, ctol, A41_c, A41_e; interval with (i_prec 80)]]. Qed.
Lemma r_A41_955 : rio_reads A41_c A41_e A41_lo A41_hi floor_volts ctol (Build_rio (Fin (205 / 256)) (Fin (5 / 1)) (Fin (3715469692580659 / 1125899906842624)) (Fin (6 / 1)) (Fin (12 / 1)) true true true ((Fin (0 / 1)) :: (Fin (0 / 1)) :: (Fin (0 / 1)) :: (Fin (0 / 1)) :: (Fin (27 / 4)) :: (Fin (45 / 1)) :: nil)) (8991305624901375 / 562949953421312).
Proof. apply (A41_rio_fin _ (205 / 256)); [reflexivity | apply (A41_q_mid 205 256 8991305624901375 562949953421312); [vm_compute; reflexivity | unfold fr, close, ctol, A41_c, A41_e; interval with (i_prec 80)]]. Qed.
Lemma r_A41_971 : rio_reads A41_c A41_e A41_lo A41_hi floor_volts ctol (Build_rio (Fin (285 / 256)) (Fin (1189 / 256)) (Fin (2721 / 1024)) (Fin (2595 / 512)) (Fin (11645 / 1024)) true true true ((Fin (829 / 512)) :: (Fin (105 / 256)) :: (Fin (71 / 32)) :: (Fin (101617 / 512)) :: (Fin (4859 / 1024)) :: (Fin (10513 / 512)) :: nil)) (6505042865390235 / 562949953421312).
Proof. apply (A41_rio_fin _ (285 / 256)); [reflexivity | apply (A41_q_mid 285 256 6505042865390235 562949953421312); [vm_compute; reflexivity | unfold fr, close, ctol, A41_c, A41_e; interval with (i_prec 80)]]. Qed.
Lemma r_A41_987 : rio_reads A41_c A41_e A41_lo A41_hi floor_volts ctol (Build_rio (Fin (365 / 256)) PInf (Fin (3715469692580659 / 1125899906842624)) (Fin (6513 / 1024)) (Fin (12 / 1)) true true true ((Fin (851 / 512)) :: (Fin (1811 / 1024)) :: (Fin (1217 / 512)) :: (Fin (140893 / 1024)) :: (Fin (7947 / 1024)) :: (Fin (12689 / 1024)) :: nil)) (5101445403796875 / 562949953421312).
Proof. apply (A41_rio_fin _ (365 / 256)); [reflexivity | apply (A41_q_mid 365 256 5101445403796875 562949953421312); [vm_compute; reflexivity | unfold fr, close, ctol, A41_c, A41_e; interval with (i_prec 80)]]. Qed.
Lemma r_A41_1003 : rio_reads A41_c A41_e A41_lo A41_hi floor_volts ctol (Build_rio (Fin (445 / 256)) (Fin (5 / 1)) (Fin (3715469692580659 / 1125899906842624)) (Fin (6 / 1)) (Fin (12 / 1)) true true true ((Fin (0 / 1)) :: (Fin (0 / 1)) :: (Fin (0 / 1)) :: (Fin (0 / 1)) :: (Fin (27 / 4)) :: (Fin (45 / 1)) :: nil)) (4198951693902727 / 562949953421312).
Proof. apply (A41_rio_fin _ (445 / 256)); [reflexivity | apply (A41_q_mid 445 256 4198951693902727 562949953421312); [vm_compute; reflexivity | unfold fr, close, ctol, A41_c, A41_e; interval with (i_prec 80)]]. Qed.
Lemma r_A41_1019 : rio_reads A41_c A41_e A41_lo A41_hi floor_volts ctol (Build_rio (Fin (525 / 256)) (Fin (5 / 1)) (Fin (5435 / 1024)) (Fin (1951 / 1024)) (Fin (6021 / 512)) false true true ((Fin (509 / 512)) :: (Fin (373 / 512)) :: (Fin (1547 / 1024)) :: (Fin (1553 / 64)) :: (Fin (819 / 256)) :: (Fin (459 / 8)) :: nil)) (7138964941276519 / 1125899906842624).
Proof. apply (A41_rio_fin _ (525 / 256)); [reflexivity | apply (A41_q_mid 525 256 7138964941276519 1125899906842624); [vm_compute; reflexivity | unfold fr, close, ctol, A41_c, A41_e; interval with (i_prec 80)]]. Qed.
Lemma r_A41_1035 : rio_reads A41_c A41_e A41_lo A41_hi floor_volts ctol (Build_rio (Fin (605 / 256)) (Fin (2261 / 512)) (Fin (1395 / 512)) (Fin (5889 / 1024)) (Fin (1195 / 512)) true false true ((Fin (543 / 1024)) :: (Fin (1141 / 1024)) :: (Fin (1073 / 1024)) :: (Fin (42723 / 256)) :: (Fin (7231 / 1024)) :: (Fin (63817 / 1024)) :: nil)) (388153302986681 / 70368744177664).
Proof. apply (A41_rio_fin _ (605 / 256)); [reflexivity | apply (A41_q_mid 605 256 388153302986681 70368744177664); [vm_compute; reflexivity | unfold fr, close, ctol, A41_c, A41_e; interval with (i_prec 80)]]. Qed.
Lemma r_A41_1051 : rio_reads A41_c A41_e A41_lo A41_hi floor_volts ctol (Build_rio (Fin (685 / 256)) (Fin (5 / 1)) (Fin (3715469692580659 / 1125899906842624)) (Fin (6 / 1)) (Fin (12 / 1)) true true true ((Fin (0 / 1)) :: (Fin (0 / 1)) :: (Fin (0 / 1)) :: (Fin (0 / 1)) :: (Fin (27 / 4)) :: (Fin (45 / 1)) :: nil)) (2748573378282573 / 562949953421312).
Proof. apply (A41_rio_fin _ (685 / 256)); [reflexivity | apply (A41_q_mid 685 256 2748573378282573 562949953421312); [vm_compute; reflexivity | unfold fr, close, ctol, A41_c, A41_e; interval with (i_prec 80)]]. Qed.
Lemma r_A41_1067 : rio_reads A41_c A41_e A41_lo A41_hi floor_volts ctol (Build_rio (Fin (385 / 128)) (Fin (5 / 1)) (Fin (2925 / 1024)) (Fin (1301 / 256)) PInf true false false ((Fin (489 / 1024)) :: (Fin (255 / 128)) :: (Fin (401 / 1024)) :: (Fin (15793 / 1024)) :: (Fin (2019 / 256)) :: (Fin (13295 / 512)) :: nil)) (9 / 2).
Proof. apply (A41_rio_fin _ (385 / 128)); [reflexivity | apply (A41_q_lo 385 128 9 2); [vm_compute; reflexivity | unfold fr, ctol, A41_lo, A41_c, A41_e; interval with (i_prec 80)]]. Qed.
Lemma r_A41_1083 : rio_reads A41_c A41_e A41_lo A41_hi floor_volts ctol (Build_rio (Fin (425 / 128)) (Fin (2301 / 512)) (Fin (1605 / 512)) (Fin (6 / 1)) (Fin (771 / 64)) true false true ((Fin (1257 / 512)) :: (Fin (451 / 256)) :: (Fin (399 / 256)) :: (Fin (21323 / 256)) :: (Fin (4319 / 512)) :: (Fin (10391 / 128)) :: nil)) (9 / 2).
Proof. apply (A41_rio_fin _ (425 / 128)); [reflexivity | apply (A41_q_lo 425 128 9 2); [vm_compute; reflexivity | unfold fr, ctol, A41_lo, A41_c, A41_e; interval with (i_prec 80)]]. Qed.
Lemma r_A41_1099 : rio_reads A41_c A41_e A41_lo A41_hi floor_volts ctol (Build_rio (Fin (465 / 128)) (Fin (5 / 1)) (Fin (3715469692580659 / 1125899906842624)) (Fin (6 / 1)) (Fin (12 / 1)) true true true ((Fin (0 / 1)) :: (Fin (0 / 1)) :: (Fin (0 / 1)) :: (Fin (0 / 1)) :: (Fin (27 / 4)) :: (Fin (45 / 1)) :: nil)) (9 / 2).
Proof. apply (A41_rio_fin _ (465 / 128)); [reflexivity | apply (A41_q_lo 465 128 9 2); [vm_compute; reflexivity | unfold fr, ctol, A41_lo, A41_c, A41_e; interval with (i_prec 80)]]. Qed.
Lemma r_A41_1115 : rio_reads A41_c A41_e A41_lo A41_hi floor_volts ctol (Build_rio (Fin (505 / 128)) (Fin (2689 / 512)) (Fin (1639 / 512)) (Fin (1501 / 256)) (Fin (5589 / 512)) true false true ((Fin (681 / 1024)) :: (Fin (119 / 1024)) :: (Fin (1489 / 1024)) :: (Fin (25259 / 256)) :: (Fin (3881 / 1024)) :: (Fin ((-197) / 512)) :: nil)) (9 / 2).
Proof. apply (A41_rio_fin _ (505 / 128)); [reflexivity | apply (A41_q_lo 505 128 9 2); [vm_compute; reflexivity | unfold fr, ctol, A41_lo, A41_c, A41_e; interval with (i_prec 80)]]. Qed.
Lemma r_A41_1131 : rio_reads A41_c A41_e A41_lo A41_hi floor_volts ctol (Build_rio (Fin (545 / 128)) (Fin (5902958103587057 / 590295810358705651712)) (Fin (3715469692580659 / 1125899906842624)) (Fin (6631 / 1024)) (Fin (11507 / 1024)) true false true ((Fin (887 / 1024)) :: (Fin (1267 / 1024)) :: (Fin (1531 / 512)) :: (Fin (1609 / 64)) :: (Fin (123 / 32)) :: (Fin (26587 / 1024)) :: nil)) (9 / 2).
Proof. apply (A41_rio_fin _ (545 / 128)); [reflexivity | apply (A41_q_lo 545 128 9 2); [vm_compute; reflexivity | unfold fr, ctol, A41_lo, A41_c, A41_e; interval with (i_prec 80)]]. Qed.
Lemma r_A41_1147 : rio_reads A41_c A41_e A41_lo A41_hi floor_volts ctol (Build_rio (Fin (585 / 128)) (Fin (5 / 1)) (Fin (3715469692580659 / 1125899906842624)) (Fin (6 / 1)) (Fin (12 / 1)) true true true ((Fin (0 / 1)) :: (Fin (0 / 1)) :: (Fin (0 / 1)) :: (Fin (0 / 1)) :: (Fin (27 / 4)) :: (Fin (45 / 1)) :: nil)) (9 / 2).
Proof. apply (A41_rio_fin _ (585 / 128)); [reflexivity | apply (A41_q_lo 585 128 9 2); [vm_compute; reflexivity | unfold fr, ctol, A41_lo, A41_c, A41_e; interval with (i_prec 80)]]. Qed.
Lemma r_A41_1163 : rio_reads A41_c A41_e A41_lo A41_hi floor_volts ctol (Build_rio (Fin (625 / 128)) (Fin (5 / 1)) (Fin (3097 / 1024)) (Fin (5125 / 1024)) (Fin (12 / 1)) true true true ((Fin (1473 / 512)) :: (Fin (225 / 256)) :: (Fin (1519 / 512)) :: (Fin (199997 / 1024)) :: (Fin (2115 / 512)) :: (Fin (11155 / 256)) :: nil)) (9 / 2).
Proof. apply (A41_rio_fin _ (625 / 128)); [reflexivity | apply (A41_q_lo 625 128 9 2); [vm_compute; reflexivity | unfold fr, ctol, A41_lo, A41_c, A41_e; interval with (i_prec 80)]]. Qed.
Lemma r_A41_1179 : rio_reads A41_c A41_e A41_lo A41_hi floor_volts ctol (Build_rio (Fin (4675103977266121 / 1125899906842624)) (Fin (2145 / 512)) (Fin (0 / 1)) (Fin (6 / 1)) (Fin (45 / 4)) true false false ((Fin (651 / 256)) :: (Fin (559 / 512)) :: (Fin (341 / 256)) :: (Fin (17835 / 128)) :: (Fin (545 / 128)) :: (Fin (46043 / 1024)) :: nil)) (9 / 2).
Proof. apply (A41_rio_fin _ (4675103977266121 / 1125899906842624)); [reflexivity | apply (A41_q_lo 4675103977266121 1125899906842624 9 2); [vm_compute; reflexivity | unfold fr, ctol, A41_lo, A41_c, A41_e; interval with (i_prec 80)]]. Qed.
Lemma r_A41_1195 : rio_reads A41_c A41_e A41_lo A41_hi floor_volts ctol (Build_rio (Fin (4098755875714615 / 1125899906842624)) (Fin (5 / 1)) (Fin (3715469692580659 / 1125899906842624)) (Fin (6 / 1)) (Fin (12 / 1)) true true true ((Fin (0 / 1)) :: (Fin (0 / 1)) :: (Fin (0 / 1)) :: (Fin (0 / 1)) :: (Fin (27 / 4)) :: (Fin (45 / 1)) :: nil)) (9 / 2).
Proof. apply (A41_rio_fin _ (4098755875714615 / 1125899906842624)); [reflexivity | apply (A41_q_lo 4098755875714615 1125899906842624 9 2); [vm_compute; reflexivity | unfold fr, ctol, A41_lo, A41_c, A41_e; interval with (i_prec 80)]]. Qed.
Lemma r_A41_1211 : rio_reads A41_c A41_e A41_lo A41_hi floor_volts ctol (Build_rio (Fin (7624056054624175 / 4503599627370496)) (Fin (5 / 1)) (Fin (3715469692580659 / 1125899906842624)) (Fin (6273 / 1024)) (Fin (10243 / 1024)) true true true ((Fin (1779 / 1024)) :: (Fin (1287 / 1024)) :: (Fin (77 / 64)) :: (Fin (57125 / 1024)) :: (Fin (4379 / 1024)) :: (Fin (48197 / 1024)) :: nil)) (2154777005663299 / 281474976710656).
Proof. apply (A41_rio_fin _ (7624056054624175 / 4503599627370496)); [reflexivity | apply (A41_q_mid 7624056054624175 4503599627370496 2154777005663299 281474976710656); [vm_compute; reflexivity | unfold fr, close, ctol, A41_c, A41_e; interval with (i_prec 80)]]. Qed.
Lemma r_A41_1227 : rio_reads A41_c A41_e A41_lo A41_hi floor_volts ctol (Build_rio (Fin (2819799114561669 / 1125899906842624)) (Fin (2195 / 512)) (Fin (673 / 256)) (Fin (6 / 1)) (Fin (5079 / 512)) true true true ((Fin (631 / 1024)) :: (Fin (355 / 256)) :: (Fin (661 / 256)) :: (Fin (6747 / 64)) :: (Fin (4603 / 1024)) :: (Fin (68489 / 1024)) :: nil)) (733286816287199 / 140737488355328).
Proof. apply (A41_rio_fin _ (2819799114561669 / 1125899906842624)); [reflexivity | apply (A41_q_mid 2819799114561669 1125899906842624 733286816287199 140737488355328); [vm_compute; reflexivity | unfold fr, close, ctol, A41_c, A41_e; interval with (i_prec 80)]]. Qed.
Lemma r_A41_1247 : rio_reads A41_c A41_e A41_lo A41_hi floor_volts ctol (Build_rio (Fin (5380912206325641 / 147573952589676412928)) (Fin (0 / 1)) (Fin (3517 / 1024)) (Fin (1375 / 256)) (Fin (5625 / 512)) true false false ((Fin (2589 / 1024)) :: (Fin (633 / 512)) :: (Fin (109 / 128)) :: (Fin (31549 / 512)) :: (Fin (6839 / 1024)) :: (Fin (43831 / 512)) :: nil)) (35 / 1).
Proof. apply (A41_rio_fin _ (5380912206325641 / 147573952589676412928)); [reflexivity | apply (A41_q_hi 5380912206325641 147573952589676412928 35 1); [vm_compute; reflexivity | unfold fr, ctol, A41_hi, A41_c, A41_e; interval with (i_prec 80)]]. Qed.
Lemma d_A41_1333r : rio_reads A41_c A41_e A41_lo A41_hi floor_volts ctol (Build_rio (Fin (1636741441258383 / 562949953421312)) (Fin (5 / 1)) (Fin (3715469692580659 / 1125899906842624)) (Fin (6 / 1)) (Fin (12 / 1)) true true true ((Fin (0 / 1)) :: (Fin (0 / 1)) :: (Fin (0 / 1)) :: (Fin (0 / 1)) :: (Fin (27 / 4)) :: (Fin (85 / 1)) :: nil)) (9 / 2).
Proof. apply (A41_rio_fin _ (1636741441258383 / 562949953421312)); [reflexivity | apply (A41_q_lo 1636741441258383 562949953421312 9 2); [vm_compute; reflexivity | unfold fr, ctol, A41_lo, A41_c, A41_e; interval with (i_prec 80)]]. Qed.
Lemma d_A41_1341r : rio_reads A41_c A41_e A41_lo A41_hi floor_volts ctol (Build_rio (Fin (6491044311201869 / 18014398509481984)) PInf PInf PInf PInf true true true ((Fin (0 / 1)) :: (Fin (0 / 1)) :: (Fin (0 / 1)) :: (Fin (0 / 1)) :: (Fin (27 / 4)) :: (Fin (45 / 1)) :: nil)) (35 / 1).
Proof. apply (A41_rio_fin _ (6491044311201869 / 18014398509481984)); [reflexivity | apply (A41_q_hi 6491044311201869 18014398509481984 35 1); [vm_compute; reflexivity | unfold fr, ctol, A41_hi, A41_c, A41_e; interval with (i_prec 80)]]. Qed.
Lemma d_A41_1349r : rio_reads A41_c A41_e A41_lo A41_hi floor_volts ctol (Build_rio (Fin (1636741441258383 / 562949953421312)) (Fin (21 / 4)) (Fin (3715469692580659 / 1125899906842624)) (Fin (6 / 1)) (Fin (12 / 1)) true true true ((Fin (0 / 1)) :: (Fin (0 / 1)) :: (Fin (0 / 1)) :: (Fin (0 / 1)) :: (Fin (27 / 4)) :: (Fin (45 / 1)) :: nil)) (9 / 2).
Proof. apply (A41_rio_fin _ (1636741441258383 / 562949953421312)); [reflexivity | apply (A41_q_lo 1636741441258383 562949953421312 9 2); [vm_compute; reflexivity | unfold fr, ctol, A41_lo, A41_c, A41_e; interval with (i_prec 80)]]. Qed.
Lemma d_A41_1357r : rio_reads A41_c A41_e A41_lo A41_hi floor_volts ctol (Build_rio (Fin (1636741441258383 / 562949953421312)) (Fin (5902958103587057 / 590295810358705651712)) (Fin (3715469692580659 / 1125899906842624)) (Fin (6 / 1)) (Fin (12 / 1)) true true true ((Fin (0 / 1)) :: (Fin (0 / 1)) :: (Fin (0 / 1)) :: (Fin (0 / 1)) :: (Fin (27 / 4)) :: (Fin (45 / 1)) :: nil)) (9 / 2).
Proof. apply (A41_rio_fin _ (1636741441258383 / 562949953421312)); [reflexivity | apply (A41_q_lo 1636741441258383 562949953421312 9 2); [vm_compute; reflexivity | unfold fr, ctol, A41_lo, A41_c, A41_e; interval with (i_prec 80)]]. Qed.
Lemma d_A41_1365r : rio_reads A41_c A41_e A41_lo A41_hi floor_volts ctol (Build_rio (Fin (6491044311201869 / 18014398509481984)) (Fin (5 / 1)) (Fin (3715469692580659 / 1125899906842624)) (Fin (6 / 1)) (Fin (3715469692580659 / 281474976710656)) true true true ((Fin (0 / 1)) :: (Fin (0 / 1)) :: (Fin (0 / 1)) :: (Fin (0 / 1)) :: (Fin (27 / 4)) :: (Fin (45 / 1)) :: nil)) (35 / 1).
Proof. apply (A41_rio_fin _ (6491044311201869 / 18014398509481984)); [reflexivity | apply (A41_q_hi 6491044311201869 18014398509481984 35 1); [vm_compute; reflexivity | unfold fr, ctol, A41_hi, A41_c, A41_e; interval with (i_prec 80)]]. Qed.
Lemma d_A41_1373r : rio_reads A41_c A41_e A41_lo A41_hi floor_volts ctol (Build_rio (Fin (6491044311201869 / 18014398509481984)) (Fin (5 / 1)) (Fin (8106479329266893 / 2251799813685248)) (Fin (6 / 1)) (Fin (12 / 1)) true true true ((Fin (0 / 1)) :: (Fin (0 / 1)) :: (Fin (0 / 1)) :: (Fin (0 / 1)) :: (Fin (27 / 4)) :: (Fin (45 / 1)) :: nil)) (35 / 1).
Proof. apply (A41_rio_fin _ (6491044311201869 / 18014398509481984)); [reflexivity | apply (A41_q_hi 6491044311201869 18014398509481984 35 1); [vm_compute; reflexivity | unfold fr, ctol, A41_hi, A41_c, A41_e; interval with (i_prec 80)]]. Qed.
Lemma d_A41_1381r : rio_reads A41_c A41_e A41_lo A41_hi floor_volts ctol (Build_rio (Fin (1636741441258383 / 562949953421312)) (Fin (5 / 1)) (Fin (3715469692580659 / 1125899906842624)) (Fin (0 / 1)) (Fin (12 / 1)) true true true ((Fin (0 / 1)) :: (Fin (0 / 1)) :: (Fin (0 / 1)) :: (Fin (0 / 1)) :: (Fin (27 / 4)) :: (Fin (45 / 1)) :: nil)) (9 / 2).
Proof. apply (A41_rio_fin _ (1636741441258383 / 562949953421312)); [reflexivity | apply (A41_q_lo 1636741441258383 562949953421312 9 2); [vm_compute; reflexivity | unfold fr, ctol, A41_lo, A41_c, A41_e; interval with (i_prec 80)]]. Qed.
Lemma d_A41_1389r : rio_reads A41_c A41_e A41_lo A41_hi floor_volts ctol (Build_rio (Fin (5810820953442543 / 9007199254740992)) (Fin (5 / 1)) (Fin (3715469692580659 / 1125899906842624)) (Fin (6 / 1)) (Fin (12 / 1)) true true true (PInf :: (Fin (0 / 1)) :: (Fin (0 / 1)) :: (Fin (0 / 1)) :: (Fin (27 / 4)) :: (Fin (45 / 1)) :: nil)) (79 / 4).
Proof. apply (A41_rio_fin _ (5810820953442543 / 9007199254740992)); [reflexivity | apply (A41_q_mid 5810820953442543 9007199254740992 79 4); [vm_compute; reflexivity | unfold fr, close, ctol, A41_c, A41_e; interval with (i_prec 80)]]. Qed.
Lemma d_A41_1402u : close ctol (8851364895113649 / 9007199254740992) (volts_A41 (3676638590989743 / 281474976710656)).
Proof. apply (A41_q_volts_mid 3676638590989743 281474976710656 8851364895113649 9007199254740992); [vm_compute; reflexivity | unfold fr, close, ctol, A41_lo, A41_hi, A41_c, A41_e; interval with (i_prec 80)]. Qed.
Lemma d_A41_1415u : close ctol (679542328457553 / 1125899906842624) (volts_A41 (5935108999885331 / 281474976710656)).
Proof. apply (A41_q_volts_mid 5935108999885331 281474976710656 679542328457553 1125899906842624); [vm_compute; reflexivity | unfold fr, close, ctol, A41_lo, A41_hi, A41_c, A41_e; interval with (i_prec 80)]. Qed.
Lemma d_A41_1428u : close ctol (225540406882183 / 140737488355328) (volts_A41 (2274023710109361 / 281474976710656)).
Proof. apply (A41_q_volts_mid 2274023710109361 281474976710656 225540406882183 140737488355328); [vm_compute; reflexivity | unfold fr, close, ctol, A41_lo, A41_hi, A41_c, A41_e; interval with (i_prec 80)]. Qed.
Lemma d_A41_1440r : rio_reads A41_c A41_e A41_lo A41_hi floor_volts ctol (Build_rio (Fin (936118023480091 / 1125899906842624)) (Fin (4679 / 1024)) (Fin (3523 / 1024)) (Fin (6 / 1)) (Fin (6173 / 512)) true true true ((Fin (895 / 512)) :: (Fin (865 / 512)) :: (Fin (1949 / 1024)) :: (Fin (50813 / 1024)) :: (Fin (69 / 16)) :: (Fin (64627 / 1024)) :: nil)) (4332743848358879 / 281474976710656).
Proof. apply (A41_rio_fin _ (936118023480091 / 1125899906842624)); [reflexivity | apply (A41_q_mid 936118023480091 1125899906842624 4332743848358879 281474976710656); [vm_compute; reflexivity | unfold fr, close, ctol, A41_c, A41_e; interval with (i_prec 80)]]. Qed.
Lemma d_A41_1453u : close ctol (6491044311201869 / 18014398509481984) (volts_A41 (1265721627819565 / 17592186044416)).
Proof. apply (A41_q_volts_hi 1265721627819565 17592186044416 6491044311201869 18014398509481984); [vm_compute; reflexivity | unfold fr, close, ctol, A41_lo, A41_hi, A41_c, A41_e; interval with (i_prec 80)]. Qed.
Lemma d_A41_1466u : close ctol (843723779499367 / 2251799813685248) (volts_A41 (592530790843909 / 17592186044416)).
Proof. apply (A41_q_volts_mid 592530790843909 17592186044416 843723779499367 2251799813685248); [vm_compute; reflexivity | unfold fr, close, ctol, A41_lo, A41_hi, A41_c, A41_e; interval with (i_prec 80)]. Qed.
Lemma d_A41_1479u : close ctol (6700895835253591 / 18014398509481984) (volts_A41 (1193555884030629 / 35184372088832)).
Proof. apply (A41_q_volts_mid 1193555884030629 35184372088832 6700895835253591 18014398509481984); [vm_compute; reflexivity | unfold fr, close, ctol, A41_lo, A41_hi, A41_c, A41_e; interval with (i_prec 80)]. Qed.
Lemma d_A41_1492u : close ctol (1741756744478065 / 2251799813685248) (volts_A41 (2325701397364667 / 140737488355328)).
Proof. apply (A41_q_volts_mid 2325701397364667 140737488355328 1741756744478065 2251799813685248); [vm_compute; reflexivity | unfold fr, close, ctol, A41_lo, A41_hi, A41_c, A41_e; interval with (i_prec 80)]. Qed.
Lemma d_A41_1504r : rio_reads A41_c A41_e A41_lo A41_hi floor_volts ctol (Build_rio (Fin (6468108179933603 / 2251799813685248)) (Fin (5 / 1)) (Fin (1 / 1)) (Fin (6 / 1)) (Fin (2263 / 512)) true true true ((Fin (373 / 256)) :: (Fin (739 / 512)) :: (Fin (361 / 512)) :: (Fin (147327 / 1024)) :: (Fin (1351 / 256)) :: (Fin (28927 / 1024)) :: nil)) (5127226069948305 / 1125899906842624).
Proof. apply (A41_rio_fin _ (6468108179933603 / 2251799813685248)); [reflexivity | apply (A41_q_mid 6468108179933603 2251799813685248 5127226069948305 1125899906842624); [vm_compute; reflexivity | unfold fr, close, ctol, A41_c, A41_e; interval with (i_prec 80)]]. Qed.
Lemma d_A41_1517u : close ctol (1636741441258383 / 562949953421312) (volts_A41 (2505920685181833 / 562949953421312)).
Proof. apply (A41_q_volts_lo 2505920685181833 562949953421312 1636741441258383 562949953421312); [vm_compute; reflexivity | unfold fr, close, ctol, A41_lo, A41_hi, A41_c, A41_e; interval with (i_prec 80)]. Qed.
Lemma d_A41_1530u : close ctol (7628818044958253 / 9007199254740992) (volts_A41 (8509377538253183 / 562949953421312)).
Proof. apply (A41_q_volts_mid 8509377538253183 562949953421312 7628818044958253 9007199254740992); [vm_compute; reflexivity | unfold fr, close, ctol, A41_lo, A41_hi, A41_c, A41_e; interval with (i_prec 80)]. Qed.
Lemma d_A41_1543u : close ctol (899065598519215 / 2251799813685248) (volts_A41 (278339882788499 / 8796093022208)).
Proof. apply (A41_q_volts_mid 278339882788499 8796093022208 899065598519215 2251799813685248); [vm_compute; reflexivity | unfold fr, close, ctol, A41_lo, A41_hi, A41_c, A41_e; interval with (i_prec 80)]. Qed.
Lemma d_A41_1556u : close ctol (1750136186931527 / 4503599627370496) (volts_A41 (2286694602133689 / 70368744177664)).
Proof. apply (A41_q_volts_mid 2286694602133689 70368744177664 1750136186931527 4503599627370496); [vm_compute; reflexivity | unfold fr, close, ctol, A41_lo, A41_hi, A41_c, A41_e; interval with (i_prec 80)]. Qed.
Lemma d_A41_1568r : rio_reads A41_c A41_e A41_lo A41_hi floor_volts ctol (Build_rio (Fin (358022228676967 / 562949953421312)) (Fin (5 / 1)) (Fin (3715469692580659 / 1125899906842624)) (Fin (6 / 1)) (Fin (12 / 1)) true true true ((Fin (0 / 1)) :: (Fin (0 / 1)) :: (Fin (0 / 1)) :: (Fin (0 / 1)) :: (Fin (27 / 4)) :: (Fin (45 / 1)) :: nil)) (5637741502241631 / 281474976710656).
Proof. apply (A41_rio_fin _ (358022228676967 / 562949953421312)); [reflexivity | apply (A41_q_mid 358022228676967 562949953421312 5637741502241631 281474976710656); [vm_compute; reflexivity | unfold fr, close, ctol, A41_c, A41_e; interval with (i_prec 80)]]. Qed.
Lemma d_A41_1581u : close ctol (7923738725082479 / 9007199254740992) (volts_A41 (8198130462769565 / 562949953421312)).
Proof. apply (A41_q_volts_mid 8198130462769565 562949953421312 7923738725082479 9007199254740992); [vm_compute; reflexivity | unfold fr, close, ctol, A41_lo, A41_hi, A41_c, A41_e; interval with (i_prec 80)]. Qed.
Lemma d_A41_1594u : close ctol (1636741441258383 / 562949953421312) (volts_A41 ((-3602367655334677) / 4503599627370496)).
Proof. apply (A41_q_volts_lo (-3602367655334677) 4503599627370496 1636741441258383 562949953421312); [vm_compute; reflexivity | unfold fr, close, ctol, A41_lo, A41_hi, A41_c, A41_e; interval with (i_prec 80)]. Qed.
Lemma d_A41_1607u : close ctol (6044386291600877 / 9007199254740992) (volts_A41 (19 / 1)).
Proof. apply (A41_q_volts_mid 19 1 6044386291600877 9007199254740992); [vm_compute; reflexivity | unfold fr, close, ctol, A41_lo, A41_hi, A41_c, A41_e; interval with (i_prec 80)]. Qed.
Lemma d_A41_1620u : close ctol (8649234160240259 / 9007199254740992) (volts_A41 (7522062772361535 / 562949953421312)).
Proof. apply (A41_q_volts_mid 7522062772361535 562949953421312 8649234160240259 9007199254740992); [vm_compute; reflexivity | unfold fr, close, ctol, A41_lo, A41_hi, A41_c, A41_e; interval with (i_prec 80)]. Qed.
Lemma d_A41_1632r : rio_reads A41_c A41_e A41_lo A41_hi floor_volts ctol (Build_rio (Fin (6491044311201869 / 18014398509481984)) (Fin (1169 / 256)) (Fin (1485 / 512)) (Fin (6 / 1)) (Fin (12 / 1)) true true true ((Fin (2777 / 1024)) :: (Fin (933 / 1024)) :: (Fin (2523 / 1024)) :: (Fin (22239 / 512)) :: (Fin (1061 / 128)) :: (Fin (36209 / 1024)) :: nil)) (35 / 1).
Proof. apply (A41_rio_fin _ (6491044311201869 / 18014398509481984)); [reflexivity | apply (A41_q_hi 6491044311201869 18014398509481984 35 1); [vm_compute; reflexivity | unfold fr, ctol, A41_hi, A41_c, A41_e; interval with (i_prec 80)]]. Qed.
Lemma d_A41_1645u : close ctol (3674176540664685 / 9007199254740992) (volts_A41 (8721287477986087 / 281474976710656)).
Proof. apply (A41_q_volts_mid 8721287477986087 281474976710656 3674176540664685 9007199254740992); [vm_compute; reflexivity | unfold fr, close, ctol, A41_lo, A41_hi, A41_c, A41_e; interval with (i_prec 80)]. Qed.
Lemma d_A41_1658u : close ctol (2657814220108035 / 2251799813685248) (volts_A41 (3070980671118401 / 281474976710656)).
Proof. apply (A41_q_volts_mid 3070980671118401 281474976710656 2657814220108035 2251799813685248); [vm_compute; reflexivity | unfold fr, close, ctol, A41_lo, A41_hi, A41_c, A41_e; interval with (i_prec 80)]. Qed.
Lemma d_A41_1671u : close ctol (3555493372303691 / 9007199254740992) (volts_A41 (32 / 1)).
Proof. apply (A41_q_volts_mid 32 1 3555493372303691 9007199254740992); [vm_compute; reflexivity | unfold fr, close, ctol, A41_lo, A41_hi, A41_c, A41_e; interval with (i_prec 80)]. Qed.
Lemma d_A41_1684u : close ctol (6491044311201869 / 18014398509481984) (volts_A41 (5223719916268047 / 140737488355328)).
Proof. apply (A41_q_volts_hi 5223719916268047 140737488355328 6491044311201869 18014398509481984); [vm_compute; reflexivity | unfold fr, close, ctol, A41_lo, A41_hi, A41_c, A41_e; interval with (i_prec 80)]. Qed.
Lemma d_A41_1696r : rio_reads A41_c A41_e A41_lo A41_hi floor_volts ctol (Build_rio (Fin (5082982370654429 / 9007199254740992)) (Fin (3657 / 512)) (Fin ((-1) / 1)) (Fin (1593 / 256)) (Fin (5411 / 512)) true false true ((Fin (565 / 1024)) :: (Fin (1265 / 1024)) :: (Fin (2021 / 1024)) :: (Fin (5161 / 1024)) :: (Fin (3129 / 1024)) :: (Fin (74121 / 1024)) :: nil)) (3170099503745177 / 140737488355328).
Proof. apply (A41_rio_fin _ (5082982370654429 / 9007199254740992)); [reflexivity | apply (A41_q_mid 5082982370654429 9007199254740992 3170099503745177 140737488355328); [vm_compute; reflexivity | unfold fr, close, ctol, A41_c, A41_e; interval with (i_prec 80)]]. Qed.
Lemma d_A41_1709u : close ctol (6491044311201869 / 18014398509481984) (volts_A41 (6479860490575161 / 70368744177664)).
Proof. apply (A41_q_volts_hi 6479860490575161 70368744177664 6491044311201869 18014398509481984); [vm_compute; reflexivity | unfold fr, close, ctol, A41_lo, A41_hi, A41_c, A41_e; interval with (i_prec 80)]. Qed.
Lemma d_A41_1722u : close ctol (633220601006199 / 1125899906842624) (volts_A41 (3180684115224559 / 140737488355328)).
Proof. apply (A41_q_volts_mid 3180684115224559 140737488355328 633220601006199 1125899906842624); [vm_compute; reflexivity | unfold fr, close, ctol, A41_lo, A41_hi, A41_c, A41_e; interval with (i_prec 80)]. Qed.
Lemma d_A41_1735u : close ctol (7580993812738543 / 9007199254740992) (volts_A41 (4281055358535371 / 281474976710656)).
Proof. apply (A41_q_volts_mid 4281055358535371 281474976710656 7580993812738543 9007199254740992); [vm_compute; reflexivity | unfold fr, close, ctol, A41_lo, A41_hi, A41_c, A41_e; interval with (i_prec 80)]. Qed.
Lemma d_A41_1748u : close ctol (8756386400345315 / 9007199254740992) (volts_A41 (7431625260735995 / 562949953421312)).
Proof. apply (A41_q_volts_mid 7431625260735995 562949953421312 8756386400345315 9007199254740992); [vm_compute; reflexivity | unfold fr, close, ctol, A41_lo, A41_hi, A41_c, A41_e; interval with (i_prec 80)]. Qed.
Lemma d_A41_1760r : rio_reads A41_c A41_e A41_lo A41_hi floor_volts ctol (Build_rio (Fin (2686141481086287 / 1125899906842624)) (Fin (5 / 1)) (Fin (3715469692580659 / 1125899906842624)) (Fin (6 / 1)) (Fin (12 / 1)) true true true ((Fin (0 / 1)) :: (Fin (0 / 1)) :: (Fin (0 / 1)) :: (Fin (0 / 1)) :: (Fin (27 / 4)) :: (Fin (45 / 1)) :: nil)) (6152930063260305 / 1125899906842624).
Proof. apply (A41_rio_fin _ (2686141481086287 / 1125899906842624)); [reflexivity | apply (A41_q_mid 2686141481086287 1125899906842624 6152930063260305 1125899906842624); [vm_compute; reflexivity | unfold fr, close, ctol, A41_c, A41_e; interval with (i_prec 80)]]. Qed.
Lemma d_A41_1773u : close ctol (3146834476569505 / 4503599627370496) (volts_A41 (5139852062274811 / 281474976710656)).
Proof. apply (A41_q_volts_mid 5139852062274811 281474976710656 3146834476569505 4503599627370496); [vm_compute; reflexivity | unfold fr, close, ctol, A41_lo, A41_hi, A41_c, A41_e; interval with (i_prec 80)]. Qed.
Lemma d_A41_1786u : close ctol (6230218640891667 / 2251799813685248) (volts_A41 (5319490426964361 / 1125899906842624)).
Proof. apply (A41_q_volts_mid 5319490426964361 1125899906842624 6230218640891667 2251799813685248); [vm_compute; reflexivity | unfold fr, close, ctol, A41_lo, A41_hi, A41_c, A41_e; interval with (i_prec 80)]. Qed.
Lemma d_A41_1799u : close ctol (191095501113505 / 281474976710656) (volts_A41 (5287300726498305 / 281474976710656)).
Proof. apply (A41_q_volts_mid 5287300726498305 281474976710656 191095501113505 281474976710656); [vm_compute; reflexivity | unfold fr, close, ctol, A41_lo, A41_hi, A41_c, A41_e; interval with (i_prec 80)]. Qed.
Lemma d_A41_1812u : close ctol (2308968290016177 / 4503599627370496) (volts_A41 (6966908804309473 / 281474976710656)).
Proof. apply (A41_q_volts_mid 6966908804309473 281474976710656 2308968290016177 4503599627370496); [vm_compute; reflexivity | unfold fr, close, ctol, A41_lo, A41_hi, A41_c, A41_e; interval with (i_prec 80)]. Qed.
Lemma d_A41_1824r : rio_reads A41_c A41_e A41_lo A41_hi floor_volts ctol (Build_rio (Fin (1636741441258383 / 562949953421312)) (Fin (4969 / 1024)) (Fin (3259 / 1024)) (Fin ((-12) / 1)) (Fin (5701 / 512)) true true false ((Fin (1093 / 1024)) :: (Fin (1105 / 1024)) :: (Fin (2385 / 1024)) :: (Fin (54595 / 512)) :: (Fin (3509 / 512)) :: (Fin (93605 / 1024)) :: nil)) (9 / 2).
Proof. apply (A41_rio_fin _ (1636741441258383 / 562949953421312)); [reflexivity | apply (A41_q_lo 1636741441258383 562949953421312 9 2); [vm_compute; reflexivity | unfold fr, ctol, A41_lo, A41_c, A41_e; interval with (i_prec 80)]]. Qed.
Lemma d_A41_1837u : close ctol (1169453240625271 / 1125899906842624) (volts_A41 (6963728569797987 / 562949953421312)).
Proof. apply (A41_q_volts_mid 6963728569797987 562949953421312 1169453240625271 1125899906842624); [vm_compute; reflexivity | unfold fr, close, ctol, A41_lo, A41_hi, A41_c, A41_e; interval with (i_prec 80)]. Qed.
Lemma d_A41_1850u : close ctol (2431220511110305 / 2251799813685248) (volts_A41 (1675969968286957 / 140737488355328)).
Proof. apply (A41_q_volts_mid 1675969968286957 140737488355328 2431220511110305 2251799813685248); [vm_compute; reflexivity | unfold fr, close, ctol, A41_lo, A41_hi, A41_c, A41_e; interval with (i_prec 80)]. Qed.
Lemma d_A41_1863u : close ctol (2563558131683329 / 4503599627370496) (volts_A41 (6286579440088063 / 281474976710656)).
Proof. apply (A41_q_volts_mid 6286579440088063 281474976710656 2563558131683329 4503599627370496); [vm_compute; reflexivity | unfold fr, close, ctol, A41_lo, A41_hi, A41_c, A41_e; interval with (i_prec 80)]. Qed.
Lemma d_A41_1876u : close ctol (8663909589523885 / 9007199254740992) (volts_A41 (7509545529263979 / 562949953421312)).
Proof. apply (A41_q_volts_mid 7509545529263979 562949953421312 8663909589523885 9007199254740992); [vm_compute; reflexivity | unfold fr, close, ctol, A41_lo, A41_hi, A41_c, A41_e; interval with (i_prec 80)]. Qed.
Lemma d_A41_1888r : rio_reads A41_c A41_e A41_lo A41_hi floor_volts ctol (Build_rio (Fin (2242394507318245 / 2251799813685248)) (Fin (597 / 128)) (Fin (1841 / 512)) (Fin (751 / 128)) (Fin (5569 / 512)) true true true ((Fin (687 / 1024)) :: (Fin (983 / 512)) :: (Fin (85 / 32)) :: (Fin (129341 / 1024)) :: (Fin (5 / 1)) :: (Fin (23911 / 1024)) :: nil)) (907257547172651 / 70368744177664).
Proof. apply (A41_rio_fin _ (2242394507318245 / 2251799813685248)); [reflexivity | apply (A41_q_mid 2242394507318245 2251799813685248 907257547172651 70368744177664); [vm_compute; reflexivity | unfold fr, close, ctol, A41_c, A41_e; interval with (i_prec 80)]]. Qed.
Lemma d_A41_1901u : close ctol (6491044311201869 / 18014398509481984) (volts_A41 (5280639585560391 / 8796093022208)).
Proof. apply (A41_q_volts_hi 5280639585560391 8796093022208 6491044311201869 18014398509481984); [vm_compute; reflexivity | unfold fr, close, ctol, A41_lo, A41_hi, A41_c, A41_e; interval with (i_prec 80)]. Qed.
Lemma d_A41_1914u : close ctol (4285234914279313 / 4503599627370496) (volts_A41 (1897492470807925 / 140737488355328)).
Proof. apply (A41_q_volts_mid 1897492470807925 140737488355328 4285234914279313 4503599627370496); [vm_compute; reflexivity | unfold fr, close, ctol, A41_lo, A41_hi, A41_c, A41_e; interval with (i_prec 80)]. Qed.
Lemma d_A41_1927u : close ctol (4683530015133411 / 2251799813685248) (volts_A41 (3520374353468251 / 562949953421312)).
Proof. apply (A41_q_volts_mid 3520374353468251 562949953421312 4683530015133411 2251799813685248); [vm_compute; reflexivity | unfold fr, close, ctol, A41_lo, A41_hi, A41_c, A41_e; interval with (i_prec 80)]. Qed.
Lemma d_A41_1940u : close ctol (1636741441258383 / 562949953421312) (volts_A41 ((-251365753459939) / 1125899906842624)).
Proof. apply (A41_q_volts_lo (-251365753459939) 1125899906842624 1636741441258383 562949953421312); [vm_compute; reflexivity | unfold fr, close, ctol, A41_lo, A41_hi, A41_c, A41_e; interval with (i_prec 80)]. Qed.
Lemma d_A41_1952r : rio_reads A41_c A41_e A41_lo A41_hi floor_volts ctol (Build_rio (Fin (2826221336000337 / 4503599627370496)) (Fin (5 / 1)) (Fin (3715469692580659 / 1125899906842624)) (Fin (6 / 1)) (Fin (12 / 1)) true true true ((Fin (0 / 1)) :: (Fin (0 / 1)) :: (Fin (0 / 1)) :: (Fin (0 / 1)) :: (Fin (27 / 4)) :: (Fin (45 / 1)) :: nil)) (2856057852881257 / 140737488355328).
Proof. apply (A41_rio_fin _ (2826221336000337 / 4503599627370496)); [reflexivity | apply (A41_q_mid 2826221336000337 4503599627370496 2856057852881257 140737488355328); [vm_compute; reflexivity | unfold fr, close, ctol, A41_c, A41_e; interval with (i_prec 80)]]. Qed.
Lemma d_A41_1965u : close ctol (5192118156328479 / 9007199254740992) (volts_A41 (6209252246829459 / 281474976710656)).
Proof. apply (A41_q_volts_mid 6209252246829459 281474976710656 5192118156328479 9007199254740992); [vm_compute; reflexivity | unfold fr, close, ctol, A41_lo, A41_hi, A41_c, A41_e; interval with (i_prec 80)]. Qed.
Lemma d_A41_1978u : close ctol (2677381986756459 / 4503599627370496) (volts_A41 (6023921487530577 / 281474976710656)).
Proof. apply (A41_q_volts_mid 6023921487530577 281474976710656 2677381986756459 4503599627370496); [vm_compute; reflexivity | unfold fr, close, ctol, A41_lo, A41_hi, A41_c, A41_e; interval with (i_prec 80)]. Qed.
Lemma d_A41_1991u : close ctol (6699368224080201 / 18014398509481984) (volts_A41 (596911625950791 / 17592186044416)).
Proof. apply (A41_q_volts_mid 596911625950791 17592186044416 6699368224080201 18014398509481984); [vm_compute; reflexivity | unfold fr, close, ctol, A41_lo, A41_hi, A41_c, A41_e; interval with (i_prec 80)]. Qed.
Lemma r_A02_16 : rio_reads A02_c A02_e A02_lo A02_hi floor_volts ctol (Build_rio (Fin ((-5) / 1)) PInf (Fin (3715469692580659 / 1125899906842624)) (Fin (6 / 1)) (Fin (12 / 1)) true true true ((Fin (0 / 1)) :: (Fin (0 / 1)) :: (Fin (0 / 1)) :: (Fin (0 / 1)) :: (Fin (27 / 4)) :: (Fin (45 / 1)) :: nil)) (435215207548285 / 8796093022208).
Proof. apply (A02_rio_fin _ ((-5) / 1)); [reflexivity | apply (A02_q_floor (-5) 1 435215207548285 8796093022208); vm_compute; reflexivity]. Qed.
Lemma r_A02_382 : rio_reads A02_c A02_e A02_lo A02_hi floor_volts ctol (Build_rio (Fin (6041946814476347 / 9444732965739290427392)) (Fin (5363 / 1024)) (Fin (355 / 128)) (Fin (1 / 1)) (Fin (2659 / 256)) false true true ((Fin (793 / 512)) :: (Fin (521 / 512)) :: (Fin (2545 / 1024)) :: (Fin (7443 / 128)) :: (Fin (4129 / 1024)) :: (Fin (29539 / 1024)) :: nil)) (145 / 1).
Proof. apply (A02_rio_fin _ (6041946814476347 / 9444732965739290427392)); [reflexivity | apply (A02_q_floor 6041946814476347 9444732965739290427392 145 1); vm_compute; reflexivity]. Qed.
Lemma d_A02_4g : get_distance (set_distance A02_c A02_e A02_lo A02_hi sim_init (200 / 1)) = (200 / 1).
Proof. cbn [get_distance set_distance sim_distance]. first [reflexivity | lra]. Qed.
Lemma d_A02_11c : close ctol (7036874417766399 / 281474976710656) (clamp A02_lo A02_hi (25 / 1)).
Proof. apply (A02_q_clamp_mid 25 1 7036874417766399 281474976710656); vm_compute; reflexivity. Qed.
Lemma d_A02_17g : get_distance (set_distance A02_c A02_e A02_lo A02_hi sim_init (9 / 2)) = (9 / 2).
Proof. cbn [get_distance set_distance sim_distance]. first [reflexivity | lra]. Qed.
Lemma d_A02_24c : close ctol (45 / 2) (clamp A02_lo A02_hi ((-100000000000000001097906362944045541740492309677311846336810682903157585404911491537163328978494688899061249669721172515611590283743140088328307009198146046031271664502933027185697489699588559043338384466165001178426897626212945177628091195786707458122783970171784415105291802893207873272974885715430223118336) / 1)).
Proof. apply (A02_q_clamp_lo (-100000000000000001097906362944045541740492309677311846336810682903157585404911491537163328978494688899061249669721172515611590283743140088328307009198146046031271664502933027185697489699588559043338384466165001178426897626212945177628091195786707458122783970171784415105291802893207873272974885715430223118336) 1 45 2); vm_compute; reflexivity. Qed.
Lemma d_A02_32c : close ctol (30 / 1) (clamp A02_lo A02_hi (30 / 1)).
Proof. apply (A02_q_clamp_mid 30 1 30 1); vm_compute; reflexivity. Qed.
Lemma d_A02_40c : close ctol (145 / 1) (clamp A02_lo A02_hi (179769313486231570814527423731704356798070567525844996598917476803157260780028538760589558632766878171540458953514382464234321326889464182768467546703537516986049910576551282076245490090389328944075868508455133942304583236903222948165808559332123348274797826204144723168738177180919299881250404026184124858368 / 1)).
Proof. apply (A02_q_clamp_hi 179769313486231570814527423731704356798070567525844996598917476803157260780028538760589558632766878171540458953514382464234321326889464182768467546703537516986049910576551282076245490090389328944075868508455133942304583236903222948165808559332123348274797826204144723168738177180919299881250404026184124858368 1 145 1); vm_compute; reflexivity. Qed.
Lemma d_A02_49c : close ctol (45 / 2) (clamp A02_lo A02_hi (6333186969656573 / 281474976710656)).
Proof. apply (A02_q_clamp_lo 6333186969656573 281474976710656 45 2); vm_compute; reflexivity. Qed.
Lemma d_A02_57c : close ctol (335 / 4) (clamp A02_lo A02_hi (335 / 4)).
Proof. apply (A02_q_clamp_mid 335 4 335 4); vm_compute; reflexivity. Qed.
Lemma d_A02_65c : close ctol (3195256997452467 / 70368744177664) (clamp A02_lo A02_hi (3195256997452467 / 70368744177664)).
Proof. apply (A02_q_clamp_mid 3195256997452467 70368744177664 3195256997452467 70368744177664); vm_compute; reflexivity. Qed.
Lemma d_A02_73c : close ctol (7295622490989543 / 70368744177664) (clamp A02_lo A02_hi (7295622490989543 / 70368744177664)).
Proof. apply (A02_q_clamp_mid 7295622490989543 70368744177664 7295622490989543 70368744177664); vm_compute; reflexivity. Qed.
Lemma d_A02_81c : close ctol (2638459001001339 / 70368744177664) (clamp A02_lo A02_hi (2638459001001339 / 70368744177664)).
Proof. apply (A02_q_clamp_mid 2638459001001339 70368744177664 2638459001001339 70368744177664); vm_compute; reflexivity. Qed.
Lemma d_A02_89c : close ctol (7734004345272711 / 70368744177664) (clamp A02_lo A02_hi (7734004345272711 / 70368744177664)).
Proof. apply (A02_q_clamp_mid 7734004345272711 70368744177664 7734004345272711 70368744177664); vm_compute; reflexivity. Qed.
Lemma d_A02_97c : close ctol (45 / 2) (clamp A02_lo A02_hi (2816911487806553 / 140737488355328)).
Proof. apply (A02_q_clamp_lo 2816911487806553 140737488355328 45 2); vm_compute; reflexivity. Qed.
Lemma d_A02_105c : close ctol (3792084390409215 / 70368744177664) (clamp A02_lo A02_hi (3792084390409215 / 70368744177664)).
Proof. apply (A02_q_clamp_mid 3792084390409215 70368744177664 3792084390409215 70368744177664); vm_compute; reflexivity. Qed.
Lemma d_A02_113c : close ctol (8367165585081649 / 70368744177664) (clamp A02_lo A02_hi (8367165585081649 / 70368744177664)).
Proof. apply (A02_q_clamp_mid 8367165585081649 70368744177664 8367165585081649 70368744177664); vm_compute; reflexivity. Qed.
Lemma d_A02_121c : close ctol (8881449286571943 / 140737488355328) (clamp A02_lo A02_hi (8881449286571943 / 140737488355328)).
Proof. apply (A02_q_clamp_mid 8881449286571943 140737488355328 8881449286571943 140737488355328); vm_compute; reflexivity. Qed.
Lemma d_A02_129c : close ctol (45 / 2) (clamp A02_lo A02_hi (8994023447536791 / 2251799813685248)).
Proof. apply (A02_q_clamp_lo 8994023447536791 2251799813685248 45 2); vm_compute; reflexivity. Qed.
Lemma d_A02_137c : close ctol (7807531644764103 / 281474976710656) (clamp A02_lo A02_hi (7807531644764103 / 281474976710656)).
Proof. apply (A02_q_clamp_mid 7807531644764103 281474976710656 7807531644764103 281474976710656); vm_compute; reflexivity. Qed.
Lemma d_A02_145c : close ctol (4638953999419935 / 70368744177664) (clamp A02_lo A02_hi (4638953999419935 / 70368744177664)).
Proof. apply (A02_q_clamp_mid 4638953999419935 70368744177664 4638953999419935 70368744177664); vm_compute; reflexivity. Qed.
Lemma d_A02_153c : close ctol (4374254275903893 / 70368744177664) (clamp A02_lo A02_hi (4374254275903893 / 70368744177664)).
Proof. apply (A02_q_clamp_mid 4374254275903893 70368744177664 4374254275903893 70368744177664); vm_compute; reflexivity. Qed.
Lemma d_A02_161c : close ctol (45 / 2) (clamp A02_lo A02_hi (1517826149896231 / 281474976710656)).
Proof. apply (A02_q_clamp_lo 1517826149896231 281474976710656 45 2); vm_compute; reflexivity. Qed.
Lemma d_A02_169c : close ctol (566743484889479 / 8796093022208) (clamp A02_lo A02_hi (566743484889479 / 8796093022208)).
Proof. apply (A02_q_clamp_mid 566743484889479 8796093022208 566743484889479 8796093022208); vm_compute; reflexivity. Qed.
Lemma d_A02_177c : close ctol (5642043580309957 / 140737488355328) (clamp A02_lo A02_hi (5642043580309957 / 140737488355328)).
Proof. apply (A02_q_clamp_mid 5642043580309957 140737488355328 5642043580309957 140737488355328); vm_compute; reflexivity. Qed.
Lemma d_A02_185c : close ctol (45 / 2) (clamp A02_lo A02_hi (5910248427896333 / 72057594037927936)).
Proof. apply (A02_q_clamp_lo 5910248427896333 72057594037927936 45 2); vm_compute; reflexivity. Qed.
Lemma d_A02_193c : close ctol (45 / 2) (clamp A02_lo A02_hi (2386767001115023 / 72057594037927936)).
Proof. apply (A02_q_clamp_lo 2386767001115023 72057594037927936 45 2); vm_compute; reflexivity. Qed.
Lemma d_A02_201c : close ctol (8615548134764839 / 281474976710656) (clamp A02_lo A02_hi (8615548134764839 / 281474976710656)).
Proof. apply (A02_q_clamp_mid 8615548134764839 281474976710656 8615548134764839 281474976710656); vm_compute; reflexivity. Qed.
Lemma d_A02_209c : close ctol (45 / 2) (clamp A02_lo A02_hi ((-4962225027055119) / 562949953421312)).
Proof. apply (A02_q_clamp_lo (-4962225027055119) 562949953421312 45 2); vm_compute; reflexivity. Qed.
Lemma d_A02_217c : close ctol (2309934948831027 / 17592186044416) (clamp A02_lo A02_hi (2309934948831027 / 17592186044416)).
Proof. apply (A02_q_clamp_mid 2309934948831027 17592186044416 2309934948831027 17592186044416); vm_compute; reflexivity. Qed.
Lemma d_A02_225c : close ctol (3754032423097807 / 35184372088832) (clamp A02_lo A02_hi (7508064846195613 / 70368744177664)).
Proof. apply (A02_q_clamp_mid 7508064846195613 70368744177664 3754032423097807 35184372088832); vm_compute; reflexivity. Qed.
Lemma d_A02_233c : close ctol (1167332515356251 / 8796093022208) (clamp A02_lo A02_hi (1167332515356251 / 8796093022208)).
Proof. apply (A02_q_clamp_mid 1167332515356251 8796093022208 1167332515356251 8796093022208); vm_compute; reflexivity. Qed.
Lemma d_A02_241c : close ctol (45 / 2) (clamp A02_lo A02_hi (68513455580583 / 35184372088832)).
Proof. apply (A02_q_clamp_lo 68513455580583 35184372088832 45 2); vm_compute; reflexivity. Qed.
Lemma d_A02_249c : close ctol (6095400130318561 / 70368744177664) (clamp A02_lo A02_hi (6095400130318561 / 70368744177664)).
Proof. apply (A02_q_clamp_mid 6095400130318561 70368744177664 6095400130318561 70368744177664); vm_compute; reflexivity. Qed.
Lemma d_A02_257c : close ctol (45 / 2) (clamp A02_lo A02_hi (970558933214551 / 70368744177664)).
Proof. apply (A02_q_clamp_lo 970558933214551 70368744177664 45 2); vm_compute; reflexivity. Qed.
Lemma d_A02_265c : close ctol (80 / 1) (clamp A02_lo A02_hi (80 / 1)).
Proof. apply (A02_q_clamp_mid 80 1 80 1); vm_compute; reflexivity. Qed.
Lemma d_A02_273c : close ctol (5031197306748417 / 35184372088832) (clamp A02_lo A02_hi (5031197306748417 / 35184372088832)).
Proof. apply (A02_q_clamp_mid 5031197306748417 35184372088832 5031197306748417 35184372088832); vm_compute; reflexivity. Qed.
Lemma d_A02_281c : close ctol (697557752903225 / 8796093022208) (clamp A02_lo A02_hi (697557752903225 / 8796093022208)).
Proof. apply (A02_q_clamp_mid 697557752903225 8796093022208 697557752903225 8796093022208); vm_compute; reflexivity. Qed.
Lemma d_A02_289c : close ctol (45 / 2) (clamp A02_lo A02_hi (2548914235595229 / 140737488355328)).
Proof. apply (A02_q_clamp_lo 2548914235595229 140737488355328 45 2); vm_compute; reflexivity. Qed.
Lemma d_A02_297c : close ctol (8171664597750511 / 140737488355328) (clamp A02_lo A02_hi (4085832298875255 / 70368744177664)).
Proof. apply (A02_q_clamp_mid 4085832298875255 70368744177664 8171664597750511 140737488355328); vm_compute; reflexivity. Qed.
Lemma d_A02_305c : close ctol (2802601805056479 / 35184372088832) (clamp A02_lo A02_hi (2802601805056479 / 35184372088832)).
Proof. apply (A02_q_clamp_mid 2802601805056479 35184372088832 2802601805056479 35184372088832); vm_compute; reflexivity. Qed.
Lemma d_A02_313c : close ctol (5576799202785973 / 70368744177664) (clamp A02_lo A02_hi (5576799202785973 / 70368744177664)).
Proof. apply (A02_q_clamp_mid 5576799202785973 70368744177664 5576799202785973 70368744177664); vm_compute; reflexivity. Qed.
Lemma d_A02_321c : close ctol (1553457404661887 / 17592186044416) (clamp A02_lo A02_hi (6213829618647547 / 70368744177664)).
Proof. apply (A02_q_clamp_mid 6213829618647547 70368744177664 1553457404661887 17592186044416); vm_compute; reflexivity. Qed.
Lemma d_A02_329c : close ctol (145 / 1) (clamp A02_lo A02_hi (3450650604933643 / 8796093022208)).
Proof. apply (A02_q_clamp_hi 3450650604933643 8796093022208 145 1); vm_compute; reflexivity. Qed.
Lemma d_A02_337c : close ctol (3145657076823607 / 35184372088832) (clamp A02_lo A02_hi (3145657076823607 / 35184372088832)).
Proof. apply (A02_q_clamp_mid 3145657076823607 35184372088832 3145657076823607 35184372088832); vm_compute; reflexivity. Qed.
Lemma d_A02_345c : close ctol (145 / 1) (clamp A02_lo A02_hi (212 / 1)).
Proof. apply (A02_q_clamp_hi 212 1 145 1); vm_compute; reflexivity. Qed.
Lemma d_A02_353c : close ctol (4566766336187339 / 140737488355328) (clamp A02_lo A02_hi (4566766336187339 / 140737488355328)).
Proof. apply (A02_q_clamp_mid 4566766336187339 140737488355328 4566766336187339 140737488355328); vm_compute; reflexivity. Qed.
Lemma d_A02_361c : close ctol (45 / 2) (clamp A02_lo A02_hi ((-4179023277895813) / 1125899906842624)).
Proof. apply (A02_q_clamp_lo (-4179023277895813) 1125899906842624 45 2); vm_compute; reflexivity. Qed.
Lemma d_A02_369c : close ctol (2349218337709551 / 17592186044416) (clamp A02_lo A02_hi (2349218337709551 / 17592186044416)).
Proof. apply (A02_q_clamp_mid 2349218337709551 17592186044416 2349218337709551 17592186044416); vm_compute; reflexivity. Qed.
Lemma d_A02_377c : close ctol (45 / 2) (clamp A02_lo A02_hi (2037380875654427 / 281474976710656)).
Proof. apply (A02_q_clamp_lo 2037380875654427 281474976710656 45 2); vm_compute; reflexivity. Qed.
Lemma d_A02_385c : close ctol (2958429939835089 / 70368744177664) (clamp A02_lo A02_hi (2958429939835089 / 70368744177664)).
Proof. apply (A02_q_clamp_mid 2958429939835089 70368744177664 2958429939835089 70368744177664); vm_compute; reflexivity. Qed.
Lemma d_A02_393c : close ctol (45 / 2) (clamp A02_lo A02_hi (4108523515761633 / 281474976710656)).
Proof. apply (A02_q_clamp_lo 4108523515761633 281474976710656 45 2); vm_compute; reflexivity. Qed.
Lemma d_A02_401c : close ctol (6122080743456769 / 70368744177664) (clamp A02_lo A02_hi (87 / 1)).
Proof. apply (A02_q_clamp_mid 87 1 6122080743456769 70368744177664); vm_compute; reflexivity. Qed.
Lemma d_A02_409c : close ctol (45 / 2) (clamp A02_lo A02_hi ((-1232094087619795) / 140737488355328)).
Proof. apply (A02_q_clamp_lo (-1232094087619795) 140737488355328 45 2); vm_compute; reflexivity. Qed.
Lemma d_A02_417c : close ctol (1252626974428555 / 35184372088832) (clamp A02_lo A02_hi (1252626974428555 / 35184372088832)).
Proof. apply (A02_q_clamp_mid 1252626974428555 35184372088832 1252626974428555 35184372088832); vm_compute; reflexivity. Qed.
Lemma d_A02_425c : close ctol (145 / 1) (clamp A02_lo A02_hi (6974228770972619 / 17592186044416)).
Proof. apply (A02_q_clamp_hi 6974228770972619 17592186044416 145 1); vm_compute; reflexivity. Qed.
Lemma d_A02_433c : close ctol (1235811557358555 / 8796093022208) (clamp A02_lo A02_hi (1235811557358555 / 8796093022208)).
Proof. apply (A02_q_clamp_mid 1235811557358555 8796093022208 1235811557358555 8796093022208); vm_compute; reflexivity. Qed.
Lemma d_A02_441c : close ctol (4820691800021957 / 140737488355328) (clamp A02_lo A02_hi (4820691800021957 / 140737488355328)).
Proof. apply (A02_q_clamp_mid 4820691800021957 140737488355328 4820691800021957 140737488355328); vm_compute; reflexivity. Qed.
Lemma d_A02_449c : close ctol (7434900676328865 / 140737488355328) (clamp A02_lo A02_hi (3717450338164433 / 70368744177664)).
Proof. apply (A02_q_clamp_mid 3717450338164433 70368744177664 7434900676328865 140737488355328); vm_compute; reflexivity. Qed.
Lemma d_A02_457c : close ctol (45 / 2) (clamp A02_lo A02_hi (330739707085001 / 17592186044416)).
Proof. apply (A02_q_clamp_lo 330739707085001 17592186044416 45 2); vm_compute; reflexivity. Qed.
Lemma d_A02_465c : close ctol (48959285135199 / 549755813888) (clamp A02_lo A02_hi (48959285135199 / 549755813888)).
Proof. apply (A02_q_clamp_mid 48959285135199 549755813888 48959285135199 549755813888); vm_compute; reflexivity. Qed.
Lemma d_A02_473c : close ctol (8345876608238949 / 70368744177664) (clamp A02_lo A02_hi (8345876608238949 / 70368744177664)).
Proof. apply (A02_q_clamp_mid 8345876608238949 70368744177664 8345876608238949 70368744177664); vm_compute; reflexivity. Qed.
Lemma d_A02_481c : close ctol (1213592124614229 / 17592186044416) (clamp A02_lo A02_hi (1213592124614229 / 17592186044416)).
Proof. apply (A02_q_clamp_mid 1213592124614229 17592186044416 1213592124614229 17592186044416); vm_compute; reflexivity. Qed.
Lemma d_A02_489c : close ctol (5855587031283973 / 140737488355328) (clamp A02_lo A02_hi (5855587031283973 / 140737488355328)).
Proof. apply (A02_q_clamp_mid 5855587031283973 140737488355328 5855587031283973 140737488355328); vm_compute; reflexivity. Qed.
Lemma d_A02_497c : close ctol (1901750535511965 / 35184372088832) (clamp A02_lo A02_hi (7607002142047861 / 140737488355328)).
Proof. apply (A02_q_clamp_mid 7607002142047861 140737488355328 1901750535511965 35184372088832); vm_compute; reflexivity. Qed.
Lemma d_A02_505c : close ctol (3881847258716367 / 35184372088832) (clamp A02_lo A02_hi (3881847258716367 / 35184372088832)).
Proof. apply (A02_q_clamp_mid 3881847258716367 35184372088832 3881847258716367 35184372088832); vm_compute; reflexivity. Qed.
Lemma d_A02_513c : close ctol (1203563033721625 / 8796093022208) (clamp A02_lo A02_hi (1203563033721625 / 8796093022208)).
Proof. apply (A02_q_clamp_mid 1203563033721625 8796093022208 1203563033721625 8796093022208); vm_compute; reflexivity. Qed.
Lemma d_A02_521c : close ctol (7036769386224535 / 70368744177664) (clamp A02_lo A02_hi (879596173278067 / 8796093022208)).
Proof. apply (A02_q_clamp_mid 879596173278067 8796093022208 7036769386224535 70368744177664); vm_compute; reflexivity. Qed.
Lemma d_A02_529c : close ctol (2134575642031463 / 70368744177664) (clamp A02_lo A02_hi (2134575642031463 / 70368744177664)).
Proof. apply (A02_q_clamp_mid 2134575642031463 70368744177664 2134575642031463 70368744177664); vm_compute; reflexivity. Qed.
Lemma d_A02_537c : close ctol (7195587681725547 / 70368744177664) (clamp A02_lo A02_hi (7195587681725547 / 70368744177664)).
Proof. apply (A02_q_clamp_mid 7195587681725547 70368744177664 7195587681725547 70368744177664); vm_compute; reflexivity. Qed.
Lemma d_A02_545c : close ctol (4537540156847397 / 35184372088832) (clamp A02_lo A02_hi (1134385039211849 / 8796093022208)).
Proof. apply (A02_q_clamp_mid 1134385039211849 8796093022208 4537540156847397 35184372088832); vm_compute; reflexivity. Qed.
Lemma d_A02_553c : close ctol (807239865520697 / 8796093022208) (clamp A02_lo A02_hi (807239865520697 / 8796093022208)).
Proof. apply (A02_q_clamp_mid 807239865520697 8796093022208 807239865520697 8796093022208); vm_compute; reflexivity. Qed.
Lemma d_A02_561c : close ctol (3202212406919423 / 140737488355328) (clamp A02_lo A02_hi (6404424813838847 / 281474976710656)).
Proof. apply (A02_q_clamp_mid 6404424813838847 281474976710656 3202212406919423 140737488355328); vm_compute; reflexivity. Qed.
Lemma d_A02_569c : close ctol (5112282091208681 / 70368744177664) (clamp A02_lo A02_hi (5112282091208681 / 70368744177664)).
Proof. apply (A02_q_clamp_mid 5112282091208681 70368744177664 5112282091208681 70368744177664); vm_compute; reflexivity. Qed.
Lemma d_A02_577c : close ctol (7205290978984111 / 70368744177664) (clamp A02_lo A02_hi (7205290978984111 / 70368744177664)).
Proof. apply (A02_q_clamp_mid 7205290978984111 70368744177664 7205290978984111 70368744177664); vm_compute; reflexivity. Qed.
Lemma d_A02_585c : close ctol (2958641694100515 / 70368744177664) (clamp A02_lo A02_hi (2958641694100515 / 70368744177664)).
Proof. apply (A02_q_clamp_mid 2958641694100515 70368744177664 2958641694100515 70368744177664); vm_compute; reflexivity. Qed.
Lemma d_A02_593c : close ctol (59 / 1) (clamp A02_lo A02_hi (59 / 1)).
Proof. apply (A02_q_clamp_mid 59 1 59 1); vm_compute; reflexivity. Qed.
Lemma d_A02_601c : close ctol (4505747705267873 / 70368744177664) (clamp A02_lo A02_hi (4505747705267873 / 70368744177664)).
Proof. apply (A02_q_clamp_mid 4505747705267873 70368744177664 4505747705267873 70368744177664); vm_compute; reflexivity. Qed.
Lemma d_A02_609c : close ctol (8130537445001445 / 70368744177664) (clamp A02_lo A02_hi (8130537445001445 / 70368744177664)).
Proof. apply (A02_q_clamp_mid 8130537445001445 70368744177664 8130537445001445 70368744177664); vm_compute; reflexivity. Qed.
Lemma d_A02_617c : close ctol (674756670237785 / 8796093022208) (clamp A02_lo A02_hi (674756670237785 / 8796093022208)).
Proof. apply (A02_q_clamp_mid 674756670237785 8796093022208 674756670237785 8796093022208); vm_compute; reflexivity. Qed.
Lemma d_A02_625c : close ctol (4486840552629655 / 140737488355328) (clamp A02_lo A02_hi (4486840552629655 / 140737488355328)).
Proof. apply (A02_q_clamp_mid 4486840552629655 140737488355328 4486840552629655 140737488355328); vm_compute; reflexivity. Qed.
Lemma d_A02_633c : close ctol (6316738695684505 / 70368744177664) (clamp A02_lo A02_hi (6316738695684505 / 70368744177664)).
Proof. apply (A02_q_clamp_mid 6316738695684505 70368744177664 6316738695684505 70368744177664); vm_compute; reflexivity. Qed.
Lemma d_A02_641c : close ctol (2328922986291351 / 70368744177664) (clamp A02_lo A02_hi (2328922986291351 / 70368744177664)).
Proof. apply (A02_q_clamp_mid 2328922986291351 70368744177664 2328922986291351 70368744177664); vm_compute; reflexivity. Qed.
Lemma d_A02_649c : close ctol (45 / 2) (clamp A02_lo A02_hi (3338106387012727 / 281474976710656)).
Proof. apply (A02_q_clamp_lo 3338106387012727 281474976710656 45 2); vm_compute; reflexivity. Qed.
Lemma d_A02_657c : close ctol (8933644184240017 / 140737488355328) (clamp A02_lo A02_hi (558352761515001 / 8796093022208)).
Proof. apply (A02_q_clamp_mid 558352761515001 8796093022208 8933644184240017 140737488355328); vm_compute; reflexivity. Qed.
Lemma d_A02_665c : close ctol (4518896531532895 / 140737488355328) (clamp A02_lo A02_hi (4518896531532895 / 140737488355328)).
Proof. apply (A02_q_clamp_mid 4518896531532895 140737488355328 4518896531532895 140737488355328); vm_compute; reflexivity. Qed.
Lemma r_A21_443 : rio_reads A21_c A21_e A21_lo A21_hi floor_volts ctol (Build_rio (Fin (6032057205060441 / 6032057205060440848842124543157735677050252251748505781796615064961622344493727293370973578138265743708225425014400837164813540499979063179105919597766951022193355091707896034850684039059079180396788349106095584290087446076413771468940477241550670753145517602931224392424029547429993824129889235158145614364972941312)) (Fin (1 / 202402253307310618352495346718917307049556649764142118356901358027430339567995346891960383701437124495187077864316811911389808737385793476867013399940738509921517424276566361364466907742093216341239767678472745068562007483424692698618103355649159556340810056512358769552333414615230502532186327508646006263307707741093494784)) (Fin (3715469692580659 / 1125899906842624)) (Fin (6 / 1)) (Fin (12 / 1)) true true true ((Fin (0 / 1)) :: (Fin (0 / 1)) :: (Fin (0 / 1)) :: (Fin (0 / 1)) :: (Fin (27 / 4)) :: (Fin (45 / 1)) :: nil)) (80 / 1).
Proof. apply (A21_rio_fin _ (6032057205060441 / 6032057205060440848842124543157735677050252251748505781796615064961622344493727293370973578138265743708225425014400837164813540499979063179105919597766951022193355091707896034850684039059079180396788349106095584290087446076413771468940477241550670753145517602931224392424029547429993824129889235158145614364972941312)); [reflexivity | apply (A21_q_floor 6032057205060441 6032057205060440848842124543157735677050252251748505781796615064961622344493727293370973578138265743708225425014400837164813540499979063179105919597766951022193355091707896034850684039059079180396788349106095584290087446076413771468940477241550670753145517602931224392424029547429993824129889235158145614364972941312 80 1); vm_compute; reflexivity]. Qed.
Lemma d_A21_667c : close ctol (10 / 1) (clamp A21_lo A21_hi (0 / 1)).
Proof. apply (A21_q_clamp_lo 0 1 10 1); vm_compute; reflexivity. Qed.
Lemma d_A21_675c : close ctol (60 / 1) (clamp A21_lo A21_hi (60 / 1)).
Proof. apply (A21_q_clamp_mid 60 1 60 1); vm_compute; reflexivity. Qed.
Lemma d_A21_683c : close ctol (10 / 1) (clamp A21_lo A21_hi (9 / 2)).
Proof. apply (A21_q_clamp_lo 9 2 10 1); vm_compute; reflexivity. Qed.
Lemma d_A21_691c : close ctol (10 / 1) (clamp A21_lo A21_hi (1 / 202402253307310618352495346718917307049556649764142118356901358027430339567995346891960383701437124495187077864316811911389808737385793476867013399940738509921517424276566361364466907742093216341239767678472745068562007483424692698618103355649159556340810056512358769552333414615230502532186327508646006263307707741093494784)).
Proof. apply (A21_q_clamp_lo 1 202402253307310618352495346718917307049556649764142118356901358027430339567995346891960383701437124495187077864316811911389808737385793476867013399940738509921517424276566361364466907742093216341239767678472745068562007483424692698618103355649159556340810056512358769552333414615230502532186327508646006263307707741093494784 10 1); vm_compute; reflexivity. Qed.
Lemma d_A21_699c : close ctol (50 / 1) (clamp A21_lo A21_hi (50 / 1)).
Proof. apply (A21_q_clamp_mid 50 1 50 1); vm_compute; reflexivity. Qed.
Lemma d_A21_707c : close ctol (80 / 1) (clamp_x A21_lo A21_hi PInf).
Proof. apply (corr_clamp_pinf _ _ _ _ _ A21_admissible _ ctol_ok); apply close_rat; unfold ctol, A21_lo, A21_hi; lra. Qed.
Lemma d_A21_716c : close ctol (1407374884960655 / 140737488355328) (clamp A21_lo A21_hi (1407374884960655 / 140737488355328)).
Proof. apply (A21_q_clamp_mid 1407374884960655 140737488355328 1407374884960655 140737488355328); vm_compute; reflexivity. Qed.
Lemma d_A21_724c : close ctol (4619935803890405 / 70368744177664) (clamp A21_lo A21_hi (1154983950972601 / 17592186044416)).
Proof. apply (A21_q_clamp_mid 1154983950972601 17592186044416 4619935803890405 70368744177664); vm_compute; reflexivity. Qed.
Lemma d_A21_732c : close ctol (3761193550072275 / 140737488355328) (clamp A21_lo A21_hi (3761193550072275 / 140737488355328)).
Proof. apply (A21_q_clamp_mid 3761193550072275 140737488355328 3761193550072275 140737488355328); vm_compute; reflexivity. Qed.
Lemma d_A21_740c : close ctol (1257674332130461 / 17592186044416) (clamp A21_lo A21_hi (1257674332130461 / 17592186044416)).
Proof. apply (A21_q_clamp_mid 1257674332130461 17592186044416 1257674332130461 17592186044416); vm_compute; reflexivity. Qed.
Lemma d_A21_748c : close ctol (7091943411533509 / 281474976710656) (clamp A21_lo A21_hi (3545971705766755 / 140737488355328)).
Proof. apply (A21_q_clamp_mid 3545971705766755 140737488355328 7091943411533509 281474976710656); vm_compute; reflexivity. Qed.
Lemma d_A21_756c : close ctol (10 / 1) (clamp A21_lo A21_hi ((-3231061847386053) / 1125899906842624)).
Proof. apply (A21_q_clamp_lo (-3231061847386053) 1125899906842624 10 1); vm_compute; reflexivity. Qed.
Lemma d_A21_764c : close ctol (2123806041803479 / 140737488355328) (clamp A21_lo A21_hi (8495224167213917 / 562949953421312)).
Proof. apply (A21_q_clamp_mid 8495224167213917 562949953421312 2123806041803479 140737488355328); vm_compute; reflexivity. Qed.
Lemma d_A21_772c : close ctol (80 / 1) (clamp A21_lo A21_hi (140 / 1)).
Proof. apply (A21_q_clamp_hi 140 1 80 1); vm_compute; reflexivity. Qed.
Lemma d_A21_780c : close ctol (1562757797826255 / 35184372088832) (clamp A21_lo A21_hi (1562757797826255 / 35184372088832)).
Proof. apply (A21_q_clamp_mid 1562757797826255 35184372088832 1562757797826255 35184372088832); vm_compute; reflexivity. Qed.
Lemma d_A21_788c : close ctol (1931297342421713 / 35184372088832) (clamp A21_lo A21_hi (1931297342421713 / 35184372088832)).
Proof. apply (A21_q_clamp_mid 1931297342421713 35184372088832 1931297342421713 35184372088832); vm_compute; reflexivity. Qed.
Lemma d_A21_796c : close ctol (5488762045857793 / 70368744177664) (clamp A21_lo A21_hi (78 / 1)).
Proof. apply (A21_q_clamp_mid 78 1 5488762045857793 70368744177664); vm_compute; reflexivity. Qed.
Lemma d_A21_804c : close ctol (8119680624926601 / 140737488355328) (clamp A21_lo A21_hi (8119680624926601 / 140737488355328)).
Proof. apply (A21_q_clamp_mid 8119680624926601 140737488355328 8119680624926601 140737488355328); vm_compute; reflexivity. Qed.
Lemma d_A21_812c : close ctol (80 / 1) (clamp A21_lo A21_hi (6348856923877867 / 35184372088832)).
Proof. apply (A21_q_clamp_hi 6348856923877867 35184372088832 80 1); vm_compute; reflexivity. Qed.
Lemma d_A21_820c : close ctol (7443793648303347 / 140737488355328) (clamp A21_lo A21_hi (7443793648303347 / 140737488355328)).
Proof. apply (A21_q_clamp_mid 7443793648303347 140737488355328 7443793648303347 140737488355328); vm_compute; reflexivity. Qed.
Lemma d_A21_828c : close ctol (5006315286486913 / 70368744177664) (clamp A21_lo A21_hi (5006315286486913 / 70368744177664)).
Proof. apply (A21_q_clamp_mid 5006315286486913 70368744177664 5006315286486913 70368744177664); vm_compute; reflexivity. Qed.
Lemma d_A21_836c : close ctol (10 / 1) (clamp A21_lo A21_hi (8 / 1)).
Proof. apply (A21_q_clamp_lo 8 1 10 1); vm_compute; reflexivity. Qed.
Lemma d_A21_844c : close ctol (4707161922839461 / 70368744177664) (clamp A21_lo A21_hi (4707161922839461 / 70368744177664)).
Proof. apply (A21_q_clamp_mid 4707161922839461 70368744177664 4707161922839461 70368744177664); vm_compute; reflexivity. Qed.
Lemma d_A21_852c : close ctol (2535802388709017 / 70368744177664) (clamp A21_lo A21_hi (2535802388709017 / 70368744177664)).
Proof. apply (A21_q_clamp_mid 2535802388709017 70368744177664 2535802388709017 70368744177664); vm_compute; reflexivity. Qed.
Lemma d_A21_860c : close ctol (3953341989104231 / 140737488355328) (clamp A21_lo A21_hi (3953341989104231 / 140737488355328)).
Proof. apply (A21_q_clamp_mid 3953341989104231 140737488355328 3953341989104231 140737488355328); vm_compute; reflexivity. Qed.
Lemma d_A21_868c : close ctol (4006218344610119 / 140737488355328) (clamp A21_lo A21_hi (4006218344610119 / 140737488355328)).
Proof. apply (A21_q_clamp_mid 4006218344610119 140737488355328 4006218344610119 140737488355328); vm_compute; reflexivity. Qed.
Lemma d_A21_876c : close ctol (5490102425756347 / 70368744177664) (clamp A21_lo A21_hi (5490102425756347 / 70368744177664)).
Proof. apply (A21_q_clamp_mid 5490102425756347 70368744177664 5490102425756347 70368744177664); vm_compute; reflexivity. Qed.
Lemma d_A21_884c : close ctol (2435326994198665 / 70368744177664) (clamp A21_lo A21_hi (2435326994198665 / 70368744177664)).
Proof. apply (A21_q_clamp_mid 2435326994198665 70368744177664 2435326994198665 70368744177664); vm_compute; reflexivity. Qed.
Lemma d_A21_892c : close ctol (947874905953381 / 17592186044416) (clamp A21_lo A21_hi (947874905953381 / 17592186044416)).
Proof. apply (A21_q_clamp_mid 947874905953381 17592186044416 947874905953381 17592186044416); vm_compute; reflexivity. Qed.
Lemma d_A21_900c : close ctol (1380679530396737 / 35184372088832) (clamp A21_lo A21_hi (1380679530396737 / 35184372088832)).
Proof. apply (A21_q_clamp_mid 1380679530396737 35184372088832 1380679530396737 35184372088832); vm_compute; reflexivity. Qed.
Lemma d_A21_908c : close ctol (6207651700289697 / 281474976710656) (clamp A21_lo A21_hi (3103825850144849 / 140737488355328)).
Proof. apply (A21_q_clamp_mid 3103825850144849 140737488355328 6207651700289697 281474976710656); vm_compute; reflexivity. Qed.
Lemma d_A21_916c : close ctol (2983446590259485 / 140737488355328) (clamp A21_lo A21_hi (5966893180518971 / 281474976710656)).
Proof. apply (A21_q_clamp_mid 5966893180518971 281474976710656 2983446590259485 140737488355328); vm_compute; reflexivity. Qed.
Lemma d_A21_924c : close ctol (3053503533345017 / 70368744177664) (clamp A21_lo A21_hi (3053503533345017 / 70368744177664)).
Proof. apply (A21_q_clamp_mid 3053503533345017 70368744177664 3053503533345017 70368744177664); vm_compute; reflexivity. Qed.
Lemma d_A21_932c : close ctol (6694992405813845 / 140737488355328) (clamp A21_lo A21_hi (6694992405813845 / 140737488355328)).
Proof. apply (A21_q_clamp_mid 6694992405813845 140737488355328 6694992405813845 140737488355328); vm_compute; reflexivity. Qed.
Lemma d_A21_940c : close ctol (10 / 1) (clamp A21_lo A21_hi (4422991442567381 / 288230376151711744)).
Proof. apply (A21_q_clamp_lo 4422991442567381 288230376151711744 10 1); vm_compute; reflexivity. Qed.
Lemma d_A21_948c : close ctol (80 / 1) (clamp A21_lo A21_hi (586874084535923 / 4398046511104)).
Proof. apply (A21_q_clamp_hi 586874084535923 4398046511104 80 1); vm_compute; reflexivity. Qed.
Lemma d_A21_956c : close ctol (6618165975764559 / 281474976710656) (clamp A21_lo A21_hi (6618165975764559 / 281474976710656)).
Proof. apply (A21_q_clamp_mid 6618165975764559 281474976710656 6618165975764559 281474976710656); vm_compute; reflexivity. Qed.
Lemma d_A21_964c : close ctol (8736358847026025 / 140737488355328) (clamp A21_lo A21_hi (4368179423513013 / 70368744177664)).
Proof. apply (A21_q_clamp_mid 4368179423513013 70368744177664 8736358847026025 140737488355328); vm_compute; reflexivity. Qed.
Lemma d_A21_972c : close ctol (3967583069010131 / 70368744177664) (clamp A21_lo A21_hi (7935166138020261 / 140737488355328)).
Proof. apply (A21_q_clamp_mid 7935166138020261 140737488355328 3967583069010131 70368744177664); vm_compute; reflexivity. Qed.
Lemma d_A21_980c : close ctol (1315660750239987 / 35184372088832) (clamp A21_lo A21_hi (1315660750239987 / 35184372088832)).
Proof. apply (A21_q_clamp_mid 1315660750239987 35184372088832 1315660750239987 35184372088832); vm_compute; reflexivity. Qed.
Lemma d_A21_988c : close ctol (2666323698305995 / 35184372088832) (clamp A21_lo A21_hi (2666323698305995 / 35184372088832)).
Proof. apply (A21_q_clamp_mid 2666323698305995 35184372088832 2666323698305995 35184372088832); vm_compute; reflexivity. Qed.
Lemma d_A21_996c : close ctol (2530907687645025 / 35184372088832) (clamp A21_lo A21_hi (2530907687645025 / 35184372088832)).
Proof. apply (A21_q_clamp_mid 2530907687645025 35184372088832 2530907687645025 35184372088832); vm_compute; reflexivity. Qed.
Lemma d_A21_1004c : close ctol (10 / 1) (clamp A21_lo A21_hi (74714292113629 / 35184372088832)).
Proof. apply (A21_q_clamp_lo 74714292113629 35184372088832 10 1); vm_compute; reflexivity. Qed.
Lemma d_A21_1012c : close ctol (2405826209688825 / 70368744177664) (clamp A21_lo A21_hi (2405826209688825 / 70368744177664)).
Proof. apply (A21_q_clamp_mid 2405826209688825 70368744177664 2405826209688825 70368744177664); vm_compute; reflexivity. Qed.
Lemma d_A21_1020c : close ctol (1191975717718271 / 35184372088832) (clamp A21_lo A21_hi (1191975717718271 / 35184372088832)).
Proof. apply (A21_q_clamp_mid 1191975717718271 35184372088832 1191975717718271 35184372088832); vm_compute; reflexivity. Qed.
Lemma d_A21_1028c : close ctol (1094575119042667 / 17592186044416) (clamp A21_lo A21_hi (1094575119042667 / 17592186044416)).
Proof. apply (A21_q_clamp_mid 1094575119042667 17592186044416 1094575119042667 17592186044416); vm_compute; reflexivity. Qed.
Lemma d_A21_1036c : close ctol (10 / 1) (clamp A21_lo A21_hi ((-3) / 1)).
Proof. apply (A21_q_clamp_lo (-3) 1 10 1); vm_compute; reflexivity. Qed.
Lemma d_A21_1044c : close ctol (80 / 1) (clamp A21_lo A21_hi (3040760716925865 / 17592186044416)).
Proof. apply (A21_q_clamp_hi 3040760716925865 17592186044416 80 1); vm_compute; reflexivity. Qed.
Lemma d_A21_1052c : close ctol (4029280658029335 / 70368744177664) (clamp A21_lo A21_hi (4029280658029335 / 70368744177664)).
Proof. apply (A21_q_clamp_mid 4029280658029335 70368744177664 4029280658029335 70368744177664); vm_compute; reflexivity. Qed.
Lemma d_A21_1060c : close ctol (10 / 1) (clamp A21_lo A21_hi ((-247420496438455) / 562949953421312)).
Proof. apply (A21_q_clamp_lo (-247420496438455) 562949953421312 10 1); vm_compute; reflexivity. Qed.
Lemma d_A21_1068c : close ctol (2435089328423343 / 35184372088832) (clamp A21_lo A21_hi (2435089328423343 / 35184372088832)).
Proof. apply (A21_q_clamp_mid 2435089328423343 35184372088832 2435089328423343 35184372088832); vm_compute; reflexivity. Qed.
Lemma d_A21_1076c : close ctol (8686346693082697 / 281474976710656) (clamp A21_lo A21_hi (4343173346541349 / 140737488355328)).
Proof. apply (A21_q_clamp_mid 4343173346541349 140737488355328 8686346693082697 281474976710656); vm_compute; reflexivity. Qed.
Lemma d_A21_1084c : close ctol (2341710133713361 / 35184372088832) (clamp A21_lo A21_hi (2341710133713361 / 35184372088832)).
Proof. apply (A21_q_clamp_mid 2341710133713361 35184372088832 2341710133713361 35184372088832); vm_compute; reflexivity. Qed.
Lemma d_A21_1092c : close ctol (4885424747973769 / 70368744177664) (clamp A21_lo A21_hi (4885424747973769 / 70368744177664)).
Proof. apply (A21_q_clamp_mid 4885424747973769 70368744177664 4885424747973769 70368744177664); vm_compute; reflexivity. Qed.
Lemma d_A21_1100c : close ctol (2569793234230839 / 35184372088832) (clamp A21_lo A21_hi (2569793234230839 / 35184372088832)).
Proof. apply (A21_q_clamp_mid 2569793234230839 35184372088832 2569793234230839 35184372088832); vm_compute; reflexivity. Qed.
Lemma d_A21_1108c : close ctol (2297630408789311 / 35184372088832) (clamp A21_lo A21_hi (2297630408789311 / 35184372088832)).
Proof. apply (A21_q_clamp_mid 2297630408789311 35184372088832 2297630408789311 35184372088832); vm_compute; reflexivity. Qed.
Lemma d_A21_1116c : close ctol (8458080688151307 / 281474976710656) (clamp A21_lo A21_hi (8458080688151307 / 281474976710656)).
Proof. apply (A21_q_clamp_mid 8458080688151307 281474976710656 8458080688151307 281474976710656); vm_compute; reflexivity. Qed.
Lemma d_A21_1124c : close ctol (8308104910937071 / 140737488355328) (clamp A21_lo A21_hi (8308104910937071 / 140737488355328)).
Proof. apply (A21_q_clamp_mid 8308104910937071 140737488355328 8308104910937071 140737488355328); vm_compute; reflexivity. Qed.
Lemma d_A21_1132c : close ctol (2866433213812957 / 70368744177664) (clamp A21_lo A21_hi (2866433213812957 / 70368744177664)).
Proof. apply (A21_q_clamp_mid 2866433213812957 70368744177664 2866433213812957 70368744177664); vm_compute; reflexivity. Qed.
Lemma d_A21_1140c : close ctol (4621841676390325 / 140737488355328) (clamp A21_lo A21_hi (4621841676390325 / 140737488355328)).
Proof. apply (A21_q_clamp_mid 4621841676390325 140737488355328 4621841676390325 140737488355328); vm_compute; reflexivity. Qed.
Lemma d_A21_1148c : close ctol (8571568660071523 / 140737488355328) (clamp A21_lo A21_hi (8571568660071523 / 140737488355328)).
Proof. apply (A21_q_clamp_mid 8571568660071523 140737488355328 8571568660071523 140737488355328); vm_compute; reflexivity. Qed.
Lemma d_A21_1156c : close ctol (2353458382616447 / 70368744177664) (clamp A21_lo A21_hi (2353458382616447 / 70368744177664)).
Proof. apply (A21_q_clamp_mid 2353458382616447 70368744177664 2353458382616447 70368744177664); vm_compute; reflexivity. Qed.
Lemma d_A21_1164c : close ctol (8875651541093771 / 140737488355328) (clamp A21_lo A21_hi (4437825770546885 / 70368744177664)).
Proof. apply (A21_q_clamp_mid 4437825770546885 70368744177664 8875651541093771 140737488355328); vm_compute; reflexivity. Qed.
Lemma d_A21_1172c : close ctol (7529006704226357 / 281474976710656) (clamp A21_lo A21_hi (3764503352113179 / 140737488355328)).
Proof. apply (A21_q_clamp_mid 3764503352113179 140737488355328 7529006704226357 281474976710656); vm_compute; reflexivity. Qed.
Lemma d_A21_1180c : close ctol (2726173324248829 / 35184372088832) (clamp A21_lo A21_hi (5452346648497657 / 70368744177664)).
Proof. apply (A21_q_clamp_mid 5452346648497657 70368744177664 2726173324248829 35184372088832); vm_compute; reflexivity. Qed.
Lemma d_A21_1188c : close ctol (656593391555807 / 17592186044416) (clamp A21_lo A21_hi (656593391555807 / 17592186044416)).
Proof. apply (A21_q_clamp_mid 656593391555807 17592186044416 656593391555807 17592186044416); vm_compute; reflexivity. Qed.
Lemma d_A21_1196c : close ctol (2681045496131325 / 70368744177664) (clamp A21_lo A21_hi (2681045496131325 / 70368744177664)).
Proof. apply (A21_q_clamp_mid 2681045496131325 70368744177664 2681045496131325 70368744177664); vm_compute; reflexivity. Qed.
Lemma d_A21_1204c : close ctol (10 / 1) (clamp A21_lo A21_hi (1364519664797407 / 281474976710656)).
Proof. apply (A21_q_clamp_lo 1364519664797407 281474976710656 10 1); vm_compute; reflexivity. Qed.
Lemma d_A21_1212c : close ctol (10 / 1) (clamp A21_lo A21_hi ((-4506952472565369) / 1125899906842624)).
Proof. apply (A21_q_clamp_lo (-4506952472565369) 1125899906842624 10 1); vm_compute; reflexivity. Qed.
Lemma d_A21_1220c : close ctol (3027231102501263 / 70368744177664) (clamp A21_lo A21_hi (6054462205002525 / 140737488355328)).
Proof. apply (A21_q_clamp_mid 6054462205002525 140737488355328 3027231102501263 70368744177664); vm_compute; reflexivity. Qed.
Lemma d_A21_1228c : close ctol (1157795778175191 / 35184372088832) (clamp A21_lo A21_hi (1157795778175191 / 35184372088832)).
Proof. apply (A21_q_clamp_mid 1157795778175191 35184372088832 1157795778175191 35184372088832); vm_compute; reflexivity. Qed.
Lemma d_A21_1236c : close ctol (10 / 1) (clamp A21_lo A21_hi (1734553350824207 / 1125899906842624)).
Proof. apply (A21_q_clamp_lo 1734553350824207 1125899906842624 10 1); vm_compute; reflexivity. Qed.
Lemma d_A21_1244c : close ctol (2308357856355303 / 35184372088832) (clamp A21_lo A21_hi (2308357856355303 / 35184372088832)).
Proof. apply (A21_q_clamp_mid 2308357856355303 35184372088832 2308357856355303 35184372088832); vm_compute; reflexivity. Qed.
Lemma d_A21_1252c : close ctol (10 / 1) (clamp A21_lo A21_hi (8979864704733547 / 2251799813685248)).
Proof. apply (A21_q_clamp_lo 8979864704733547 2251799813685248 10 1); vm_compute; reflexivity. Qed.
Lemma d_A21_1260c : close ctol (2568624814084477 / 70368744177664) (clamp A21_lo A21_hi (2568624814084477 / 70368744177664)).
Proof. apply (A21_q_clamp_mid 2568624814084477 70368744177664 2568624814084477 70368744177664); vm_compute; reflexivity. Qed.
Lemma d_A21_1268c : close ctol (1884686241608835 / 35184372088832) (clamp A21_lo A21_hi (1884686241608835 / 35184372088832)).
Proof. apply (A21_q_clamp_mid 1884686241608835 35184372088832 1884686241608835 35184372088832); vm_compute; reflexivity. Qed.
Lemma d_A21_1276c : close ctol (404290067697909 / 8796093022208) (clamp A21_lo A21_hi (404290067697909 / 8796093022208)).
Proof. apply (A21_q_clamp_mid 404290067697909 8796093022208 404290067697909 8796093022208); vm_compute; reflexivity. Qed.
Lemma d_A21_1284c : close ctol (80 / 1) (clamp A21_lo A21_hi (2202643217220315 / 17592186044416)).
Proof. apply (A21_q_clamp_hi 2202643217220315 17592186044416 80 1); vm_compute; reflexivity. Qed.
Lemma d_A21_1292c : close ctol (80 / 1) (clamp A21_lo A21_hi (1023766273321177 / 4398046511104)).
Proof. apply (A21_q_clamp_hi 1023766273321177 4398046511104 80 1); vm_compute; reflexivity. Qed.
Lemma d_A21_1300c : close ctol (1707638539959661 / 35184372088832) (clamp A21_lo A21_hi (1707638539959661 / 35184372088832)).
Proof. apply (A21_q_clamp_mid 1707638539959661 35184372088832 1707638539959661 35184372088832); vm_compute; reflexivity. Qed.
Lemma d_A21_1308c : close ctol (80 / 1) (clamp A21_lo A21_hi (3732058932656211 / 17592186044416)).
Proof. apply (A21_q_clamp_hi 3732058932656211 17592186044416 80 1); vm_compute; reflexivity. Qed.
Lemma d_A21_1316c : close ctol (80 / 1) (clamp A21_lo A21_hi (113 / 1)).
Proof. apply (A21_q_clamp_hi 113 1 80 1); vm_compute; reflexivity. Qed.
Lemma d_A21_1324c : close ctol (7040922862624055 / 140737488355328) (clamp A21_lo A21_hi (7040922862624055 / 140737488355328)).
Proof. apply (A21_q_clamp_mid 7040922862624055 140737488355328 7040922862624055 140737488355328); vm_compute; reflexivity. Qed.
Lemma d_A21_1332c : close ctol (5532955724574417 / 70368744177664) (clamp A21_lo A21_hi (5532955724574417 / 70368744177664)).
Proof. apply (A21_q_clamp_mid 5532955724574417 70368744177664 5532955724574417 70368744177664); vm_compute; reflexivity. Qed.
Lemma r_A41_869 : rio_reads A41_c A41_e A41_lo A41_hi floor_volts ctol (Build_rio (Fin (7737125245533627 / 77371252455336267181195264)) (Fin ((-1) / 1)) (Fin (3715469692580659 / 1125899906842624)) (Fin (6 / 1)) (Fin (12 / 1)) true true true ((Fin (0 / 1)) :: (Fin (0 / 1)) :: (Fin (0 / 1)) :: (Fin (0 / 1)) :: (Fin (27 / 4)) :: (Fin (45 / 1)) :: nil)) (35 / 1).
Proof. apply (A41_rio_fin _ (7737125245533627 / 77371252455336267181195264)); [reflexivity | apply (A41_q_floor 7737125245533627 77371252455336267181195264 35 1); vm_compute; reflexivity]. Qed.
Lemma d_A41_1333c : close ctol (9 / 2) (clamp A41_lo A41_hi (0 / 1)).
Proof. apply (A41_q_clamp_lo 0 1 9 2); vm_compute; reflexivity. Qed.
Lemma d_A41_1341c : close ctol (35 / 1) (clamp A41_lo A41_hi (60 / 1)).
Proof. apply (A41_q_clamp_hi 60 1 35 1); vm_compute; reflexivity. Qed.
Lemma d_A41_1349c : close ctol (9 / 2) (clamp A41_lo A41_hi (9 / 2)).
Proof. apply (A41_q_clamp_lo 9 2 9 2); vm_compute; reflexivity. Qed.
Lemma d_A41_1357c : close ctol (9 / 2) (clamp A41_lo A41_hi (1 / 202402253307310618352495346718917307049556649764142118356901358027430339567995346891960383701437124495187077864316811911389808737385793476867013399940738509921517424276566361364466907742093216341239767678472745068562007483424692698618103355649159556340810056512358769552333414615230502532186327508646006263307707741093494784)).
Proof. apply (A41_q_clamp_lo 1 202402253307310618352495346718917307049556649764142118356901358027430339567995346891960383701437124495187077864316811911389808737385793476867013399940738509921517424276566361364466907742093216341239767678472745068562007483424692698618103355649159556340810056512358769552333414615230502532186327508646006263307707741093494784 9 2); vm_compute; reflexivity. Qed.
Lemma d_A41_1365c : close ctol (35 / 1) (clamp A41_lo A41_hi (50 / 1)).
Proof. apply (A41_q_clamp_hi 50 1 35 1); vm_compute; reflexivity. Qed.
Lemma d_A41_1373c : close ctol (35 / 1) (clamp_x A41_lo A41_hi PInf).
Proof. apply (corr_clamp_pinf _ _ _ _ _ A41_admissible _ ctol_ok); apply close_rat; unfold ctol, A41_lo, A41_hi; lra. Qed.
Lemma d_A41_1382c : close ctol (2533274792929179 / 562949953421312) (clamp A41_lo A41_hi (2533274792929179 / 562949953421312)).
Proof. apply (A41_q_clamp_mid 2533274792929179 562949953421312 2533274792929179 562949953421312); vm_compute; reflexivity. Qed.
Lemma d_A41_1390c : close ctol (4205266183381061 / 562949953421312) (clamp A41_lo A41_hi (4205266183381061 / 562949953421312)).
Proof. apply (A41_q_clamp_mid 4205266183381061 562949953421312 4205266183381061 562949953421312); vm_compute; reflexivity. Qed.
Lemma d_A41_1398c : close ctol (3413257615572595 / 562949953421312) (clamp A41_lo A41_hi (3413257615572595 / 562949953421312)).
Proof. apply (A41_q_clamp_mid 3413257615572595 562949953421312 3413257615572595 562949953421312); vm_compute; reflexivity. Qed.
Lemma d_A41_1406c : close ctol (926007579011961 / 70368744177664) (clamp A41_lo A41_hi (7408060632095687 / 562949953421312)).
Proof. apply (A41_q_clamp_mid 7408060632095687 562949953421312 926007579011961 70368744177664); vm_compute; reflexivity. Qed.
Lemma d_A41_1414c : close ctol (35 / 1) (clamp A41_lo A41_hi (8392006100922091 / 35184372088832)).
Proof. apply (A41_q_clamp_hi 8392006100922091 35184372088832 35 1); vm_compute; reflexivity. Qed.
Lemma d_A41_1422c : close ctol (8541029796785527 / 562949953421312) (clamp A41_lo A41_hi (8541029796785527 / 562949953421312)).
Proof. apply (A41_q_clamp_mid 8541029796785527 562949953421312 8541029796785527 562949953421312); vm_compute; reflexivity. Qed.
Lemma d_A41_1430c : close ctol (8816730909321619 / 562949953421312) (clamp A41_lo A41_hi (4408365454660809 / 281474976710656)).
Proof. apply (A41_q_clamp_mid 4408365454660809 281474976710656 8816730909321619 562949953421312); vm_compute; reflexivity. Qed.
Lemma d_A41_1438c : close ctol (4543320480459033 / 281474976710656) (clamp A41_lo A41_hi (4543320480459033 / 281474976710656)).
Proof. apply (A41_q_clamp_mid 4543320480459033 281474976710656 4543320480459033 281474976710656); vm_compute; reflexivity. Qed.
Lemma d_A41_1446c : close ctol (1156358488812329 / 70368744177664) (clamp A41_lo A41_hi (1156358488812329 / 70368744177664)).
Proof. apply (A41_q_clamp_mid 1156358488812329 70368744177664 1156358488812329 70368744177664); vm_compute; reflexivity. Qed.
Lemma d_A41_1454c : close ctol (1354197354778555 / 70368744177664) (clamp A41_lo A41_hi (1354197354778555 / 70368744177664)).
Proof. apply (A41_q_clamp_mid 1354197354778555 70368744177664 1354197354778555 70368744177664); vm_compute; reflexivity. Qed.
Lemma d_A41_1462c : close ctol (9 / 2) (clamp A41_lo A41_hi ((-3) / 1)).
Proof. apply (A41_q_clamp_lo (-3) 1 9 2); vm_compute; reflexivity. Qed.
Lemma d_A41_1470c : close ctol (35 / 1) (clamp A41_lo A41_hi (6611364963631993 / 140737488355328)).
Proof. apply (A41_q_clamp_hi 6611364963631993 140737488355328 35 1); vm_compute; reflexivity. Qed.
Lemma d_A41_1478c : close ctol (9 / 2) (clamp A41_lo A41_hi ((-1711910997074369) / 2251799813685248)).
Proof. apply (A41_q_clamp_lo (-1711910997074369) 2251799813685248 9 2); vm_compute; reflexivity. Qed.
Lemma d_A41_1486c : close ctol (5797622228783183 / 281474976710656) (clamp A41_lo A41_hi (5797622228783183 / 281474976710656)).
Proof. apply (A41_q_clamp_mid 5797622228783183 281474976710656 5797622228783183 281474976710656); vm_compute; reflexivity. Qed.
Lemma d_A41_1494c : close ctol (4876990387108745 / 140737488355328) (clamp A41_lo A41_hi (4876990387108745 / 140737488355328)).
Proof. apply (A41_q_clamp_mid 4876990387108745 140737488355328 4876990387108745 140737488355328); vm_compute; reflexivity. Qed.
Lemma d_A41_1502c : close ctol (7881299347898369 / 1125899906842624) (clamp A41_lo A41_hi (7 / 1)).
Proof. apply (A41_q_clamp_mid 7 1 7881299347898369 1125899906842624); vm_compute; reflexivity. Qed.
Lemma d_A41_1510c : close ctol (35 / 1) (clamp A41_lo A41_hi (3151146084916829 / 70368744177664)).
Proof. apply (A41_q_clamp_hi 3151146084916829 70368744177664 35 1); vm_compute; reflexivity. Qed.
Lemma d_A41_1518c : close ctol (9 / 2) (clamp A41_lo A41_hi (284071280211575 / 2251799813685248)).
Proof. apply (A41_q_clamp_lo 284071280211575 2251799813685248 9 2); vm_compute; reflexivity. Qed.
Lemma d_A41_1526c : close ctol (35 / 1) (clamp A41_lo A41_hi (3630552510363375 / 70368744177664)).
Proof. apply (A41_q_clamp_hi 3630552510363375 70368744177664 35 1); vm_compute; reflexivity. Qed.
Lemma d_A41_1534c : close ctol (2319255426939369 / 70368744177664) (clamp A41_lo A41_hi (2319255426939369 / 70368744177664)).
Proof. apply (A41_q_clamp_mid 2319255426939369 70368744177664 2319255426939369 70368744177664); vm_compute; reflexivity. Qed.
Lemma d_A41_1542c : close ctol (645572887960761 / 35184372088832) (clamp A41_lo A41_hi (645572887960761 / 35184372088832)).
Proof. apply (A41_q_clamp_mid 645572887960761 35184372088832 645572887960761 35184372088832); vm_compute; reflexivity. Qed.
Lemma d_A41_1550c : close ctol (8459472318455587 / 1125899906842624) (clamp A41_lo A41_hi (8459472318455587 / 1125899906842624)).
Proof. apply (A41_q_clamp_mid 8459472318455587 1125899906842624 8459472318455587 1125899906842624); vm_compute; reflexivity. Qed.
Lemma d_A41_1558c : close ctol (5473650535457557 / 281474976710656) (clamp A41_lo A41_hi (1368412633864389 / 70368744177664)).
Proof. apply (A41_q_clamp_mid 1368412633864389 70368744177664 5473650535457557 281474976710656); vm_compute; reflexivity. Qed.
Lemma d_A41_1566c : close ctol (1802450137063367 / 140737488355328) (clamp A41_lo A41_hi (7209800548253469 / 562949953421312)).
Proof. apply (A41_q_clamp_mid 7209800548253469 562949953421312 1802450137063367 140737488355328); vm_compute; reflexivity. Qed.
Lemma d_A41_1574c : close ctol (3405172057471725 / 140737488355328) (clamp A41_lo A41_hi (6810344114943449 / 281474976710656)).
Proof. apply (A41_q_clamp_mid 6810344114943449 281474976710656 3405172057471725 140737488355328); vm_compute; reflexivity. Qed.
Lemma d_A41_1582c : close ctol (7881299347898369 / 281474976710656) (clamp A41_lo A41_hi (28 / 1)).
Proof. apply (A41_q_clamp_mid 28 1 7881299347898369 281474976710656); vm_compute; reflexivity. Qed.
Lemma d_A41_1590c : close ctol (35 / 1) (clamp A41_lo A41_hi (3669844770642389 / 35184372088832)).
Proof. apply (A41_q_clamp_hi 3669844770642389 35184372088832 35 1); vm_compute; reflexivity. Qed.
Lemma d_A41_1598c : close ctol (6660448426204873 / 281474976710656) (clamp A41_lo A41_hi (832556053275609 / 35184372088832)).
Proof. apply (A41_q_clamp_mid 832556053275609 35184372088832 6660448426204873 281474976710656); vm_compute; reflexivity. Qed.
Lemma d_A41_1606c : close ctol (9 / 2) (clamp A41_lo A41_hi (4285882953915229 / 1125899906842624)).
Proof. apply (A41_q_clamp_lo 4285882953915229 1125899906842624 9 2); vm_compute; reflexivity. Qed.
Lemma d_A41_1614c : close ctol (35 / 1) (clamp A41_lo A41_hi (61 / 1)).
Proof. apply (A41_q_clamp_hi 61 1 35 1); vm_compute; reflexivity. Qed.
Lemma d_A41_1622c : close ctol (4872374805969445 / 281474976710656) (clamp A41_lo A41_hi (4872374805969445 / 281474976710656)).
Proof. apply (A41_q_clamp_mid 4872374805969445 281474976710656 4872374805969445 281474976710656); vm_compute; reflexivity. Qed.
Lemma d_A41_1630c : close ctol (3991570805572869 / 140737488355328) (clamp A41_lo A41_hi (3991570805572869 / 140737488355328)).
Proof. apply (A41_q_clamp_mid 3991570805572869 140737488355328 3991570805572869 140737488355328); vm_compute; reflexivity. Qed.
Lemma d_A41_1638c : close ctol (521914240409173 / 17592186044416) (clamp A41_lo A41_hi (521914240409173 / 17592186044416)).
Proof. apply (A41_q_clamp_mid 521914240409173 17592186044416 521914240409173 17592186044416); vm_compute; reflexivity. Qed.
Lemma d_A41_1646c : close ctol (1435712382029071 / 70368744177664) (clamp A41_lo A41_hi (1435712382029071 / 70368744177664)).
Proof. apply (A41_q_clamp_mid 1435712382029071 70368744177664 1435712382029071 70368744177664); vm_compute; reflexivity. Qed.
Lemma d_A41_1654c : close ctol (7824307118006855 / 281474976710656) (clamp A41_lo A41_hi (3912153559003427 / 140737488355328)).
Proof. apply (A41_q_clamp_mid 3912153559003427 140737488355328 7824307118006855 281474976710656); vm_compute; reflexivity. Qed.
Lemma d_A41_1662c : close ctol (1204313887751467 / 35184372088832) (clamp A41_lo A41_hi (1204313887751467 / 35184372088832)).
Proof. apply (A41_q_clamp_mid 1204313887751467 35184372088832 1204313887751467 35184372088832); vm_compute; reflexivity. Qed.
Lemma d_A41_1670c : close ctol (4024227709617417 / 140737488355328) (clamp A41_lo A41_hi (8048455419234833 / 281474976710656)).
Proof. apply (A41_q_clamp_mid 8048455419234833 281474976710656 4024227709617417 140737488355328); vm_compute; reflexivity. Qed.
Lemma d_A41_1678c : close ctol (7714911252681937 / 281474976710656) (clamp A41_lo A41_hi (482181953292621 / 17592186044416)).
Proof. apply (A41_q_clamp_mid 482181953292621 17592186044416 7714911252681937 281474976710656); vm_compute; reflexivity. Qed.
Lemma d_A41_1686c : close ctol (9 / 2) (clamp A41_lo A41_hi (6593261555833195 / 1152921504606846976)).
Proof. apply (A41_q_clamp_lo 6593261555833195 1152921504606846976 9 2); vm_compute; reflexivity. Qed.
Lemma d_A41_1694c : close ctol (9 / 2) (clamp A41_lo A41_hi ((-2535187663842293) / 2251799813685248)).
Proof. apply (A41_q_clamp_lo (-2535187663842293) 2251799813685248 9 2); vm_compute; reflexivity. Qed.
Lemma d_A41_1702c : close ctol (679301907896215 / 70368744177664) (clamp A41_lo A41_hi (679301907896215 / 70368744177664)).
Proof. apply (A41_q_clamp_mid 679301907896215 70368744177664 679301907896215 70368744177664); vm_compute; reflexivity. Qed.
Lemma d_A41_1710c : close ctol (6963301918118793 / 1125899906842624) (clamp A41_lo A41_hi (3481650959059397 / 562949953421312)).
Proof. apply (A41_q_clamp_mid 3481650959059397 562949953421312 6963301918118793 1125899906842624); vm_compute; reflexivity. Qed.
Lemma d_A41_1718c : close ctol (8053641622694883 / 1125899906842624) (clamp A41_lo A41_hi (8053641622694883 / 1125899906842624)).
Proof. apply (A41_q_clamp_mid 8053641622694883 1125899906842624 8053641622694883 1125899906842624); vm_compute; reflexivity. Qed.
Lemma d_A41_1726c : close ctol (4372510026382679 / 140737488355328) (clamp A41_lo A41_hi (2186255013191339 / 70368744177664)).
Proof. apply (A41_q_clamp_mid 2186255013191339 70368744177664 4372510026382679 140737488355328); vm_compute; reflexivity. Qed.
Lemma d_A41_1734c : close ctol (35 / 1) (clamp A41_lo A41_hi (66 / 1)).
Proof. apply (A41_q_clamp_hi 66 1 35 1); vm_compute; reflexivity. Qed.
Lemma d_A41_1742c : close ctol (9 / 2) (clamp A41_lo A41_hi ((-158181378458301) / 2251799813685248)).
Proof. apply (A41_q_clamp_lo (-158181378458301) 2251799813685248 9 2); vm_compute; reflexivity. Qed.
Lemma d_A41_1750c : close ctol (7185228799004585 / 281474976710656) (clamp A41_lo A41_hi (7185228799004585 / 281474976710656)).
Proof. apply (A41_q_clamp_mid 7185228799004585 281474976710656 7185228799004585 281474976710656); vm_compute; reflexivity. Qed.
Lemma d_A41_1758c : close ctol (4507870821260353 / 140737488355328) (clamp A41_lo A41_hi (70435481582193 / 2199023255552)).
Proof. apply (A41_q_clamp_mid 70435481582193 2199023255552 4507870821260353 140737488355328); vm_compute; reflexivity. Qed.
Lemma d_A41_1766c : close ctol (9 / 2) (clamp A41_lo A41_hi (8597215009730287 / 576460752303423488)).
Proof. apply (A41_q_clamp_lo 8597215009730287 576460752303423488 9 2); vm_compute; reflexivity. Qed.
Lemma d_A41_1774c : close ctol (3272471021356721 / 140737488355328) (clamp A41_lo A41_hi (3272471021356721 / 140737488355328)).
Proof. apply (A41_q_clamp_mid 3272471021356721 140737488355328 3272471021356721 140737488355328); vm_compute; reflexivity. Qed.
Lemma d_A41_1782c : close ctol (3830857695966003 / 140737488355328) (clamp A41_lo A41_hi (3830857695966003 / 140737488355328)).
Proof. apply (A41_q_clamp_mid 3830857695966003 140737488355328 3830857695966003 140737488355328); vm_compute; reflexivity. Qed.
Lemma d_A41_1790c : close ctol (8766626140640595 / 281474976710656) (clamp A41_lo A41_hi (8766626140640595 / 281474976710656)).
Proof. apply (A41_q_clamp_mid 8766626140640595 281474976710656 8766626140640595 281474976710656); vm_compute; reflexivity. Qed.
Lemma d_A41_1798c : close ctol (54970195392865 / 8796093022208) (clamp A41_lo A41_hi (54970195392865 / 8796093022208)).
Proof. apply (A41_q_clamp_mid 54970195392865 8796093022208 54970195392865 8796093022208); vm_compute; reflexivity. Qed.
Lemma d_A41_1806c : close ctol (35 / 1) (clamp A41_lo A41_hi (4007027452203691 / 1099511627776)).
Proof. apply (A41_q_clamp_hi 4007027452203691 1099511627776 35 1); vm_compute; reflexivity. Qed.
Lemma d_A41_1814c : close ctol (3338698774097781 / 281474976710656) (clamp A41_lo A41_hi (3338698774097781 / 281474976710656)).
Proof. apply (A41_q_clamp_mid 3338698774097781 281474976710656 3338698774097781 281474976710656); vm_compute; reflexivity. Qed.
Lemma d_A41_1822c : close ctol (2712916215501183 / 281474976710656) (clamp A41_lo A41_hi (2712916215501183 / 281474976710656)).
Proof. apply (A41_q_clamp_mid 2712916215501183 281474976710656 2712916215501183 281474976710656); vm_compute; reflexivity. Qed.
Lemma d_A41_1830c : close ctol (2513442193840691 / 140737488355328) (clamp A41_lo A41_hi (2513442193840691 / 140737488355328)).
Proof. apply (A41_q_clamp_mid 2513442193840691 140737488355328 2513442193840691 140737488355328); vm_compute; reflexivity. Qed.
Lemma d_A41_1838c : close ctol (9 / 2) (clamp A41_lo A41_hi (902444575845179 / 1125899906842624)).
Proof. apply (A41_q_clamp_lo 902444575845179 1125899906842624 9 2); vm_compute; reflexivity. Qed.
Lemma d_A41_1846c : close ctol (1131601494185617 / 70368744177664) (clamp A41_lo A41_hi (1131601494185617 / 70368744177664)).
Proof. apply (A41_q_clamp_mid 1131601494185617 70368744177664 1131601494185617 70368744177664); vm_compute; reflexivity. Qed.
Lemma d_A41_1854c : close ctol (6475162146342033 / 281474976710656) (clamp A41_lo A41_hi (6475162146342033 / 281474976710656)).
Proof. apply (A41_q_clamp_mid 6475162146342033 281474976710656 6475162146342033 281474976710656); vm_compute; reflexivity. Qed.
Lemma d_A41_1862c : close ctol (2817082986733599 / 140737488355328) (clamp A41_lo A41_hi (2817082986733599 / 140737488355328)).
Proof. apply (A41_q_clamp_mid 2817082986733599 140737488355328 2817082986733599 140737488355328); vm_compute; reflexivity. Qed.
Lemma d_A41_1870c : close ctol (9 / 2) (clamp A41_lo A41_hi ((-1214471501251013) / 1125899906842624)).
Proof. apply (A41_q_clamp_lo (-1214471501251013) 1125899906842624 9 2); vm_compute; reflexivity. Qed.
Lemma d_A41_1878c : close ctol (35 / 1) (clamp A41_lo A41_hi (8367891079188121 / 549755813888)).
Proof. apply (A41_q_clamp_hi 8367891079188121 549755813888 35 1); vm_compute; reflexivity. Qed.
Lemma d_A41_1886c : close ctol (587764427382415 / 17592186044416) (clamp A41_lo A41_hi (587764427382415 / 17592186044416)).
Proof. apply (A41_q_clamp_mid 587764427382415 17592186044416 587764427382415 17592186044416); vm_compute; reflexivity. Qed.
Lemma d_A41_1894c : close ctol (1073004813594503 / 35184372088832) (clamp A41_lo A41_hi (8584038508756023 / 281474976710656)).
Proof. apply (A41_q_clamp_mid 8584038508756023 281474976710656 1073004813594503 35184372088832); vm_compute; reflexivity. Qed.
Lemma d_A41_1902c : close ctol (9 / 2) (clamp A41_lo A41_hi (306594630754959 / 562949953421312)).
Proof. apply (A41_q_clamp_lo 306594630754959 562949953421312 9 2); vm_compute; reflexivity. Qed.
Lemma d_A41_1910c : close ctol (9 / 2) (clamp A41_lo A41_hi (3643645053841845 / 1125899906842624)).
Proof. apply (A41_q_clamp_lo 3643645053841845 1125899906842624 9 2); vm_compute; reflexivity. Qed.
Lemma d_A41_1918c : close ctol (6791886346304267 / 562949953421312) (clamp A41_lo A41_hi (6791886346304267 / 562949953421312)).
Proof. apply (A41_q_clamp_mid 6791886346304267 562949953421312 6791886346304267 562949953421312); vm_compute; reflexivity. Qed.
Lemma d_A41_1926c : close ctol (6968390057074919 / 281474976710656) (clamp A41_lo A41_hi (3484195028537459 / 140737488355328)).
Proof. apply (A41_q_clamp_mid 3484195028537459 140737488355328 6968390057074919 281474976710656); vm_compute; reflexivity. Qed.
Lemma d_A41_1934c : close ctol (577691462803729 / 17592186044416) (clamp A41_lo A41_hi (577691462803729 / 17592186044416)).
Proof. apply (A41_q_clamp_mid 577691462803729 17592186044416 577691462803729 17592186044416); vm_compute; reflexivity. Qed.
Lemma d_A41_1942c : close ctol (2324576926566441 / 70368744177664) (clamp A41_lo A41_hi (2324576926566441 / 70368744177664)).
Proof. apply (A41_q_clamp_mid 2324576926566441 70368744177664 2324576926566441 70368744177664); vm_compute; reflexivity. Qed.
Lemma d_A41_1950c : close ctol (3032566428569769 / 140737488355328) (clamp A41_lo A41_hi (3032566428569769 / 140737488355328)).
Proof. apply (A41_q_clamp_mid 3032566428569769 140737488355328 3032566428569769 140737488355328); vm_compute; reflexivity. Qed.
Lemma d_A41_1958c : close ctol (35 / 1) (clamp A41_lo A41_hi (4107753877645201 / 70368744177664)).
Proof. apply (A41_q_clamp_hi 4107753877645201 70368744177664 35 1); vm_compute; reflexivity. Qed.
Lemma d_A41_1966c : close ctol (303505918558329 / 35184372088832) (clamp A41_lo A41_hi (303505918558329 / 35184372088832)).
Proof. apply (A41_q_clamp_mid 303505918558329 35184372088832 303505918558329 35184372088832); vm_compute; reflexivity. Qed.
Lemma d_A41_1974c : close ctol (7918706747212487 / 562949953421312) (clamp A41_lo A41_hi (7918706747212487 / 562949953421312)).
Proof. apply (A41_q_clamp_mid 7918706747212487 562949953421312 7918706747212487 562949953421312); vm_compute; reflexivity. Qed.
Lemma d_A41_1982c : close ctol (2659941830306693 / 281474976710656) (clamp A41_lo A41_hi (2659941830306693 / 281474976710656)).
Proof. apply (A41_q_clamp_mid 2659941830306693 281474976710656 2659941830306693 281474976710656); vm_compute; reflexivity. Qed.
Lemma d_A41_1990c : close ctol (6141228394460183 / 562949953421312) (clamp A41_lo A41_hi (6141228394460183 / 562949953421312)).
Proof. apply (A41_q_clamp_mid 6141228394460183 562949953421312 6141228394460183 562949953421312); vm_compute; reflexivity. Qed.
Lemma d_A41_1998c : close ctol (9 / 2) (clamp A41_lo A41_hi (1564560426145441 / 562949953421312)).
Proof. apply (A41_q_clamp_lo 1564560426145441 562949953421312 9 2); vm_compute; reflexivity. Qed.
Check d_A41_1998c.
