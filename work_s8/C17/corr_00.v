From Coq Require Import Reals Lra.
From Interval Require Import Tactic.
From RV Require Import IR.Model IR.Proofs.
Open Scope R_scope.
Lemma r_A02_3 : rio_reads A02_c A02_e A02_lo A02_hi floor_volts ctol (Build_rio (Fin (5902958103587057 / 590295810358705651712)) (Fin (5854679515581645 / 1125899906842624)) (Fin (3715469692580659 / 1125899906842624)) (Fin (6 / 1)) (Fin (12 / 1)) true true true ((Fin (0 / 1)) :: (Fin (0 / 1)) :: (Fin (0 / 1)) :: (Fin (0 / 1)) :: (Fin (27 / 4)) :: (Fin (45 / 1)) :: nil)) (145 / 1).
Proof. apply (A02_rio_fin _ (5902958103587057 / 590295810358705651712)); [reflexivity | apply (A02_q_hi 5902958103587057 590295810358705651712 145 1); [vm_compute; reflexivity | unfold fr, ctol, A02_hi, A02_c, A02_e; interval with (i_prec 80)]]. Qed.
Lemma r_A02_34 : rio_reads A02_c A02_e A02_lo A02_hi floor_volts ctol (Build_rio (Fin (12 / 1)) (Fin (5 / 1)) (Fin (3715469692580659 / 1125899906842624)) (Fin (11 / 2)) (Fin (12 / 1)) true true true ((Fin (0 / 1)) :: (Fin (0 / 1)) :: (Fin (0 / 1)) :: (Fin (0 / 1)) :: (Fin (27 / 4)) :: (Fin (45 / 1)) :: nil)) (45 / 2).
Proof. apply (A02_rio_fin _ (12 / 1)); [reflexivity | apply (A02_q_lo 12 1 45 2); [vm_compute; reflexivity | unfold fr, ctol, A02_lo, A02_c, A02_e; interval with (i_prec 80)]]. Qed.
Lemma r_A02_52 : rio_reads A02_c A02_e A02_lo A02_hi floor_volts ctol (Build_rio (Fin (2857454142463967 / 1125899906842624)) (Fin (5 / 1)) (Fin (3715469692580659 / 1125899906842624)) (Fin (6 / 1)) (Fin (12 / 1)) true true true ((Fin (0 / 1)) :: (Fin (0 / 1)) :: (Fin (0 / 1)) :: (Fin (0 / 1)) :: (Fin (13 / 1)) :: (Fin (45 / 1)) :: nil)) (6340110057599813 / 281474976710656).
Proof. apply (A02_rio_fin _ (2857454142463967 / 1125899906842624)); [reflexivity | apply (A02_q_mid 2857454142463967 1125899906842624 6340110057599813 281474976710656); [vm_compute; reflexivity | unfold fr, close, ctol, A02_c, A02_e; interval with (i_prec 80)]]. Qed.
Lemma r_A02_68 : rio_reads A02_c A02_e A02_lo A02_hi floor_volts ctol (Build_rio (Fin (5 / 256)) (Fin (2519 / 512)) (Fin (1789 / 512)) (Fin (6353 / 1024)) (Fin (13239 / 1024)) true true false ((Fin (955 / 512)) :: (Fin (801 / 1024)) :: (Fin (1539 / 1024)) :: (Fin (4521 / 512)) :: (Fin (3767 / 512)) :: (Fin (1777 / 64)) :: nil)) (145 / 1).
Proof. apply (A02_rio_fin _ (5 / 256)); [reflexivity | apply (A02_q_hi 5 256 145 1); [vm_compute; reflexivity | unfold fr, ctol, A02_hi, A02_c, A02_e; interval with (i_prec 80)]]. Qed.
Lemma r_A02_84 : rio_reads A02_c A02_e A02_lo A02_hi floor_volts ctol (Build_rio (Fin (85 / 256)) (Fin (1 / 202402253307310618352495346718917307049556649764142118356901358027430339567995346891960383701437124495187077864316811911389808737385793476867013399940738509921517424276566361364466907742093216341239767678472745068562007483424692698618103355649159556340810056512358769552333414615230502532186327508646006263307707741093494784)) (Fin (3715469692580659 / 1125899906842624)) (Fin (2785 / 512)) (Fin (2559 / 256)) true true true ((Fin (581 / 1024)) :: (Fin (1309 / 1024)) :: (Fin (97 / 256)) :: (Fin (104097 / 1024)) :: (Fin (805 / 128)) :: (Fin (9541 / 128)) :: nil)) (145 / 1).
Proof. apply (A02_rio_fin _ (85 / 256)); [reflexivity | apply (A02_q_hi 85 256 145 1); [vm_compute; reflexivity | unfold fr, ctol, A02_hi, A02_c, A02_e; interval with (i_prec 80)]]. Qed.
Lemma r_A02_100 : rio_reads A02_c A02_e A02_lo A02_hi floor_volts ctol (Build_rio (Fin (165 / 256)) (Fin (2217 / 512)) (Fin (2747 / 1024)) PInf (Fin (12 / 1)) false true false ((Fin (1711 / 1024)) :: (Fin (341 / 1024)) :: (Fin (595 / 512)) :: (Fin (84137 / 1024)) :: (Fin (4945 / 1024)) :: (Fin (22903 / 1024)) :: nil)) (3540005883411315 / 35184372088832).
Proof. apply (A02_rio_fin _ (165 / 256)); [reflexivity | apply (A02_q_mid 165 256 3540005883411315 35184372088832); [vm_compute; reflexivity | unfold fr, close, ctol, A02_c, A02_e; interval with (i_prec 80)]]. Qed.
Lemma r_A02_116 : rio_reads A02_c A02_e A02_lo A02_hi floor_volts ctol (Build_rio (Fin (245 / 256)) (Fin (5 / 1)) (Fin (3715469692580659 / 1125899906842624)) (Fin (5585 / 1024)) (Fin (12487 / 1024)) true true true ((Fin (83 / 128)) :: (Fin (187 / 128)) :: (Fin (1599 / 1024)) :: (Fin (169851 / 1024)) :: (Fin (485 / 128)) :: (Fin (39459 / 1024)) :: nil)) (574734272140323 / 8796093022208).
Proof. apply (A02_rio_fin _ (245 / 256)); [reflexivity | apply (A02_q_mid 245 256 574734272140323 8796093022208); [vm_compute; reflexivity | unfold fr, close, ctol, A02_c, A02_e; interval with (i_prec 80)]]. Qed.
Lemma r_A02_132 : rio_reads A02_c A02_e A02_lo A02_hi floor_volts ctol (Build_rio (Fin (325 / 256)) (Fin (5 / 1)) (Fin (1617 / 512)) (Fin (2799 / 512)) (Fin (9911 / 1024)) true false true ((Fin (77 / 64)) :: (Fin (19 / 512)) :: (Fin (1287 / 1024)) :: (Fin (83747 / 512)) :: (Fin (4229 / 512)) :: (Fin (8223 / 256)) :: nil)) (6754291689113433 / 140737488355328).
Proof. apply (A02_rio_fin _ (325 / 256)); [reflexivity | apply (A02_q_mid 325 256 6754291689113433 140737488355328); [vm_compute; reflexivity | unfold fr, close, ctol, A02_c, A02_e; interval with (i_prec 80)]]. Qed.
Lemma r_A02_148 : rio_reads A02_c A02_e A02_lo A02_hi floor_volts ctol (Build_rio (Fin (405 / 256)) (Fin (2687 / 512)) (Fin (3265 / 1024)) (Fin (3103 / 512)) (Fin (6327 / 512)) true true true ((Fin (2863 / 1024)) :: (Fin (109 / 256)) :: (Fin (623 / 256)) :: (Fin (79251 / 1024)) :: (Fin (8745 / 1024)) :: (Fin ((-1811) / 512)) :: nil)) (5311480077801007 / 140737488355328).
Proof. apply (A02_rio_fin _ (405 / 256)); [reflexivity | apply (A02_q_mid 405 256 5311480077801007 140737488355328); [vm_compute; reflexivity | unfold fr, close, ctol, A02_c, A02_e; interval with (i_prec 80)]]. Qed.
Lemma r_A02_164 : rio_reads A02_c A02_e A02_lo A02_hi floor_volts ctol (Build_rio (Fin (485 / 256)) (Fin (5207 / 1024)) (Fin (1533 / 512)) (Fin (2957 / 256)) (Fin (10767 / 1024)) true true false ((Fin (3065 / 1024)) :: (Fin (763 / 1024)) :: (Fin (789 / 512)) :: (Fin (43355 / 256)) :: (Fin (4427 / 512)) :: (Fin (1533 / 1024)) :: nil)) (1090602458445045 / 35184372088832).
Proof. apply (A02_rio_fin _ (485 / 256)); [reflexivity | apply (A02_q_mid 485 256 1090602458445045 35184372088832); [vm_compute; reflexivity | unfold fr, close, ctol, A02_c, A02_e; interval with (i_prec 80)]]. Qed.
Lemma r_A02_180 : rio_reads A02_c A02_e A02_lo A02_hi floor_volts ctol (Build_rio (Fin (565 / 256)) (Fin (5 / 1)) (Fin (12749 / 1024)) (Fin (5885 / 1024)) (Fin (3357 / 256)) false true false ((Fin (573 / 256)) :: (Fin (77 / 512)) :: (Fin (189 / 64)) :: (Fin (40049 / 1024)) :: (Fin (4457 / 1024)) :: (Fin (93567 / 1024)) :: nil)) (7384983560335619 / 281474976710656).
Proof. apply (A02_rio_fin _ (565 / 256)); [reflexivity | apply (A02_q_mid 565 256 7384983560335619 281474976710656); [vm_compute; reflexivity | unfold fr, close, ctol, A02_c, A02_e; interval with (i_prec 80)]]. Qed.
Lemma r_A02_196 : rio_reads A02_c A02_e A02_lo A02_hi floor_volts ctol (Build_rio (Fin (645 / 256)) (Fin (1049 / 256)) (Fin (11321 / 1024)) (Fin (3951 / 1024)) (Fin (1345 / 128)) false true true ((Fin (85 / 64)) :: (Fin (1061 / 1024)) :: (Fin (185 / 128)) :: (Fin (8789 / 512)) :: (Fin (821 / 256)) :: (Fin (4741 / 512)) :: nil)) (6390682322118687 / 281474976710656).
Proof. apply (A02_rio_fin _ (645 / 256)); [reflexivity | apply (A02_q_mid 645 256 6390682322118687 281474976710656); [vm_compute; reflexivity | unfold fr, close, ctol, A02_c, A02_e; interval with (i_prec 80)]]. Qed.
Lemma r_A02_212 : rio_reads A02_c A02_e A02_lo A02_hi floor_volts ctol (Build_rio (Fin (365 / 128)) (Fin (5 / 1)) (Fin (101 / 32)) (Fin (5483 / 1024)) (Fin (12023 / 1024)) true true true ((Fin (3009 / 1024)) :: (Fin (1421 / 1024)) :: (Fin (2667 / 1024)) :: (Fin (34513 / 1024)) :: (Fin (2923 / 512)) :: (Fin (72443 / 1024)) :: nil)) (45 / 2).
Proof. apply (A02_rio_fin _ (365 / 128)); [reflexivity | apply (A02_q_lo 365 128 45 2); [vm_compute; reflexivity | unfold fr, ctol, A02_lo, A02_c, A02_e; interval with (i_prec 80)]]. Qed.
Lemma r_A02_228 : rio_reads A02_c A02_e A02_lo A02_hi floor_volts ctol (Build_rio (Fin (405 / 128)) (Fin (3575 / 256)) (Fin (3881 / 1024)) (Fin (199 / 32)) (Fin (14897 / 1024)) true false false ((Fin (1711 / 1024)) :: (Fin (7 / 4)) :: (Fin (1099 / 512)) :: (Fin (13455 / 512)) :: (Fin (2991 / 512)) :: (Fin (3845 / 512)) :: nil)) (45 / 2).
Proof. apply (A02_rio_fin _ (405 / 128)); [reflexivity | apply (A02_q_lo 405 128 45 2); [vm_compute; reflexivity | unfold fr, ctol, A02_lo, A02_c, A02_e; interval with (i_prec 80)]]. Qed.
Lemma r_A02_244 : rio_reads A02_c A02_e A02_lo A02_hi floor_volts ctol (Build_rio (Fin (445 / 128)) (Fin (4925 / 1024)) (Fin (2757 / 1024)) (Fin ((-1) / 1)) (Fin (11259 / 1024)) true true true ((Fin (35 / 16)) :: (Fin (187 / 128)) :: (Fin (109 / 1024)) :: (Fin (173029 / 1024)) :: (Fin (697 / 128)) :: (Fin (5059 / 512)) :: nil)) (45 / 2).
Proof. apply (A02_rio_fin _ (445 / 128)); [reflexivity | apply (A02_q_lo 445 128 45 2); [vm_compute; reflexivity | unfold fr, ctol, A02_lo, A02_c, A02_e; interval with (i_prec 80)]]. Qed.
Lemma r_A02_260 : rio_reads A02_c A02_e A02_lo A02_hi floor_volts ctol (Build_rio (Fin (485 / 128)) (Fin (0 / 1)) (Fin (181 / 64)) (Fin (6471 / 1024)) (Fin (10771 / 1024)) false true true ((Fin (1287 / 512)) :: (Fin (261 / 512)) :: (Fin (3 / 256)) :: (Fin (37079 / 512)) :: (Fin (4749 / 1024)) :: (Fin (1633 / 128)) :: nil)) (45 / 2).
Proof. apply (A02_rio_fin _ (485 / 128)); [reflexivity | apply (A02_q_lo 485 128 45 2); [vm_compute; reflexivity | unfold fr, ctol, A02_lo, A02_c, A02_e; interval with (i_prec 80)]]. Qed.
Lemma r_A02_276 : rio_reads A02_c A02_e A02_lo A02_hi floor_volts ctol (Build_rio (Fin (525 / 128)) (Fin (5 / 1)) (Fin (1829 / 512)) (Fin (6547 / 1024)) (Fin (923 / 128)) false true true ((Fin (429 / 256)) :: (Fin (191 / 512)) :: (Fin (61 / 256)) :: (Fin (26605 / 256)) :: (Fin (6379 / 1024)) :: (Fin (33469 / 1024)) :: nil)) (45 / 2).
Proof. apply (A02_rio_fin _ (525 / 128)); [reflexivity | apply (A02_q_lo 525 128 45 2); [vm_compute; reflexivity | unfold fr, ctol, A02_lo, A02_c, A02_e; interval with (i_prec 80)]]. Qed.
Lemma r_A02_292 : rio_reads A02_c A02_e A02_lo A02_hi floor_volts ctol (Build_rio (Fin (565 / 128)) (Fin (2565 / 512)) (Fin (2941 / 1024)) (Fin (5007 / 1024)) (Fin (12 / 1)) true true false ((Fin (857 / 1024)) :: (Fin (1401 / 1024)) :: (Fin (309 / 128)) :: (Fin (59187 / 512)) :: (Fin (4237 / 1024)) :: (Fin (43481 / 512)) :: nil)) (45 / 2).
Proof. apply (A02_rio_fin _ (565 / 128)); [reflexivity | apply (A02_q_lo 565 128 45 2); [vm_compute; reflexivity | unfold fr, ctol, A02_lo, A02_c, A02_e; interval with (i_prec 80)]]. Qed.
Lemma r_A02_308 : rio_reads A02_c A02_e A02_lo A02_hi floor_volts ctol (Build_rio (Fin (605 / 128)) (Fin (5527 / 1024)) (Fin (2935 / 1024)) (Fin (5755 / 1024)) (Fin (2031 / 512)) true true true ((Fin (349 / 128)) :: (Fin (1001 / 512)) :: (Fin (389 / 1024)) :: (Fin (29589 / 512)) :: (Fin (7293 / 1024)) :: (Fin (4189 / 64)) :: nil)) (45 / 2).
Proof. apply (A02_rio_fin _ (605 / 128)); [reflexivity | apply (A02_q_lo 605 128 45 2); [vm_compute; reflexivity | unfold fr, ctol, A02_lo, A02_c, A02_e; interval with (i_prec 80)]]. Qed.
Lemma r_A02_324 : rio_reads A02_c A02_e A02_lo A02_hi floor_volts ctol (Build_rio (Fin (2732620415647769 / 1125899906842624)) (Fin ((-12) / 1)) (Fin (3715469692580659 / 1125899906842624)) (Fin (1 / 202402253307310618352495346718917307049556649764142118356901358027430339567995346891960383701437124495187077864316811911389808737385793476867013399940738509921517424276566361364466907742093216341239767678472745068562007483424692698618103355649159556340810056512358769552333414615230502532186327508646006263307707741093494784)) (Fin (6189 / 512)) true true true ((Fin (2623 / 1024)) :: (Fin (1071 / 1024)) :: (Fin (447 / 256)) :: (Fin (45185 / 256)) :: (Fin (5143 / 1024)) :: (Fin ((-18389) / 1024)) :: nil)) (6657045939228313 / 281474976710656).
Proof. apply (A02_rio_fin _ (2732620415647769 / 1125899906842624)); [reflexivity | apply (A02_q_mid 2732620415647769 1125899906842624 6657045939228313 281474976710656); [vm_compute; reflexivity | unfold fr, close, ctol, A02_c, A02_e; interval with (i_prec 80)]]. Qed.
Lemma r_A02_340 : rio_reads A02_c A02_e A02_lo A02_hi floor_volts ctol (Build_rio (Fin (613014750309951 / 140737488355328)) (Fin (2237 / 512)) (Fin ((-1) / 1)) (Fin (6 / 1)) (Fin (11633 / 1024)) true true true ((Fin (811 / 512)) :: (Fin (45 / 1024)) :: (Fin (757 / 512)) :: (Fin (7945 / 512)) :: (Fin (3331 / 1024)) :: (Fin ((-1853) / 512)) :: nil)) (45 / 2).
Proof. apply (A02_rio_fin _ (613014750309951 / 140737488355328)); [reflexivity | apply (A02_q_lo 613014750309951 140737488355328 45 2); [vm_compute; reflexivity | unfold fr, ctol, A02_lo, A02_c, A02_e; interval with (i_prec 80)]]. Qed.
Lemma r_A02_356 : rio_reads A02_c A02_e A02_lo A02_hi floor_volts ctol (Build_rio (Fin (5868451841621175 / 4503599627370496)) (Fin (535 / 128)) (Fin (3619 / 1024)) (Fin (6 / 1)) (Fin (11159 / 1024)) true false false ((Fin (13 / 32)) :: (Fin (169 / 128)) :: (Fin (851 / 512)) :: (Fin (140277 / 1024)) :: (Fin (5063 / 1024)) :: (Fin (98293 / 1024)) :: nil)) (6564746537174105 / 140737488355328).
Proof. apply (A02_rio_fin _ (5868451841621175 / 4503599627370496)); [reflexivity | apply (A02_q_mid 5868451841621175 4503599627370496 6564746537174105 140737488355328); [vm_compute; reflexivity | unfold fr, close, ctol, A02_c, A02_e; interval with (i_prec 80)]]. Qed.
Lemma r_A02_372 : rio_reads A02_c A02_e A02_lo A02_hi floor_volts ctol (Build_rio (Fin (5117828240009709 / 1125899906842624)) (Fin (13709 / 1024)) (Fin (0 / 1)) (Fin (2493 / 1024)) (Fin (12 / 1)) true true true ((Fin (575 / 512)) :: (Fin (387 / 256)) :: (Fin (233 / 512)) :: (Fin (15759 / 1024)) :: (Fin (3139 / 1024)) :: (Fin ((-2317) / 256)) :: nil)) (45 / 2).
Proof. apply (A02_rio_fin _ (5117828240009709 / 1125899906842624)); [reflexivity | apply (A02_q_lo 5117828240009709 1125899906842624 45 2); [vm_compute; reflexivity | unfold fr, ctol, A02_lo, A02_c, A02_e; interval with (i_prec 80)]]. Qed.
Lemma r_A02_389 : rio_reads A02_c A02_e A02_lo A02_hi floor_volts ctol (Build_rio (Fin (8325271314722593 / 72057594037927936)) (Fin (5 / 1)) (Fin (3715469692580659 / 1125899906842624)) (Fin (6 / 1)) (Fin (12 / 1)) true true true ((Fin (0 / 1)) :: (Fin (0 / 1)) :: (Fin (0 / 1)) :: (Fin (0 / 1)) :: (Fin (27 / 4)) :: (Fin (45 / 1)) :: nil)) (145 / 1).
Proof. apply (A02_rio_fin _ (8325271314722593 / 72057594037927936)); [reflexivity | apply (A02_q_hi 8325271314722593 72057594037927936 145 1); [vm_compute; reflexivity | unfold fr, ctol, A02_hi, A02_c, A02_e; interval with (i_prec 80)]]. Qed.
Lemma r_A02_408 : rio_reads A02_c A02_e A02_lo A02_hi floor_volts ctol (Build_rio (Fin (5696138037627353 / 562949953421312)) (Fin (1399 / 256)) (Fin (3499 / 1024)) (Fin (6 / 1)) (Fin (0 / 1)) true true false ((Fin (869 / 512)) :: (Fin (1975 / 1024)) :: (Fin (943 / 1024)) :: (Fin (17125 / 256)) :: (Fin (3279 / 1024)) :: (Fin (24219 / 1024)) :: nil)) (45 / 2).
Proof. apply (A02_rio_fin _ (5696138037627353 / 562949953421312)); [reflexivity | apply (A02_q_lo 5696138037627353 562949953421312 45 2); [vm_compute; reflexivity | unfold fr, ctol, A02_lo, A02_c, A02_e; interval with (i_prec 80)]]. Qed.
Lemma d_A02_3u : close ctol (357539307115111 / 140737488355328) (volts_A02 (10 / 1)).
Proof. apply (A02_q_volts_lo 10 1 357539307115111 140737488355328); [vm_compute; reflexivity | unfold fr, close, ctol, A02_lo, A02_hi, A02_c, A02_e; interval with (i_prec 80)]. Qed.
Lemma d_A02_11u : close ctol (1298617710960269 / 562949953421312) (volts_A02 (25 / 1)).
Proof. apply (A02_q_volts_mid 25 1 1298617710960269 562949953421312); [vm_compute; reflexivity | unfold fr, close, ctol, A02_lo, A02_hi, A02_c, A02_e; interval with (i_prec 80)]. Qed.
Lemma d_A02_19u : close ctol (357539307115111 / 140737488355328) (volts_A02 (0 / 1)).
Proof. apply (A02_q_volts_lo 0 1 357539307115111 140737488355328); [vm_compute; reflexivity | unfold fr, close, ctol, A02_lo, A02_hi, A02_c, A02_e; interval with (i_prec 80)]. Qed.
Lemma d_A02_27u : close ctol (357539307115111 / 140737488355328) (volts_A02 (1 / 1)).
Proof. apply (A02_q_volts_lo 1 1 357539307115111 140737488355328); [vm_compute; reflexivity | unfold fr, close, ctol, A02_lo, A02_hi, A02_c, A02_e; interval with (i_prec 80)]. Qed.
Lemma d_A02_35u : close ctol (1459500756917977 / 2251799813685248) (volts_A02 (100 / 1)).
Proof. apply (A02_q_volts_mid 100 1 1459500756917977 2251799813685248); [vm_compute; reflexivity | unfold fr, close, ctol, A02_lo, A02_hi, A02_c, A02_e; interval with (i_prec 80)]. Qed.
Lemma d_A02_43u : close ctol (357539307115111 / 140737488355328) (volts_A02 (45 / 2)).
Proof. apply (A02_q_volts_lo 45 2 357539307115111 140737488355328); [vm_compute; reflexivity | unfold fr, close, ctol, A02_lo, A02_hi, A02_c, A02_e; interval with (i_prec 80)]. Qed.
Lemma d_A02_51u : close ctol (8308476888279511 / 18014398509481984) (volts_A02 (2550866973889453 / 17592186044416)).
Proof. apply (A02_q_volts_mid 2550866973889453 17592186044416 8308476888279511 18014398509481984); [vm_compute; reflexivity | unfold fr, close, ctol, A02_lo, A02_hi, A02_c, A02_e; interval with (i_prec 80)]. Qed.
Lemma d_A02_60u : close ctol (8308476880671015 / 18014398509481984) (volts_A02 (7493889970790595 / 35184372088832)).
Proof. apply (A02_q_volts_hi 7493889970790595 35184372088832 8308476880671015 18014398509481984); [vm_compute; reflexivity | unfold fr, close, ctol, A02_lo, A02_hi, A02_c, A02_e; interval with (i_prec 80)]. Qed.
Lemma d_A02_72r : rio_reads A02_c A02_e A02_lo A02_hi floor_volts ctol (Build_rio (Fin (2307734781178935 / 4503599627370496)) (Fin (2301 / 512)) (Fin (3715469692580659 / 1125899906842624)) (Fin (5547 / 1024)) (Fin ((-12) / 1)) false true true ((Fin (1301 / 1024)) :: (Fin (685 / 1024)) :: (Fin (53 / 128)) :: (Fin (57285 / 1024)) :: (Fin (4765 / 1024)) :: (Fin (33645 / 512)) :: nil)) (4547646353728907 / 35184372088832).
Proof. apply (A02_rio_fin _ (2307734781178935 / 4503599627370496)); [reflexivity | apply (A02_q_mid 2307734781178935 4503599627370496 4547646353728907 35184372088832); [vm_compute; reflexivity | unfold fr, close, ctol, A02_c, A02_e; interval with (i_prec 80)]]. Qed.
Lemma d_A02_85u : close ctol (2482621100127905 / 4503599627370496) (volts_A02 (2099488422141961 / 17592186044416)).
Proof. apply (A02_q_volts_mid 2099488422141961 17592186044416 2482621100127905 4503599627370496); [vm_compute; reflexivity | unfold fr, close, ctol, A02_lo, A02_hi, A02_c, A02_e; interval with (i_prec 80)]. Qed.
Lemma d_A02_98u : close ctol (8412641311184035 / 18014398509481984) (volts_A02 (78637385982289 / 549755813888)).
Proof. apply (A02_q_volts_mid 78637385982289 549755813888 8412641311184035 18014398509481984); [vm_compute; reflexivity | unfold fr, close, ctol, A02_lo, A02_hi, A02_c, A02_e; interval with (i_prec 80)]. Qed.
Lemma d_A02_111u : close ctol (8728215849344707 / 18014398509481984) (volts_A02 (4834422152448211 / 35184372088832)).
Proof. apply (A02_q_volts_mid 4834422152448211 35184372088832 8728215849344707 18014398509481984); [vm_compute; reflexivity | unfold fr, close, ctol, A02_lo, A02_hi, A02_c, A02_e; interval with (i_prec 80)]. Qed.
Lemma d_A02_124u : close ctol (8308476880671015 / 18014398509481984) (volts_A02 (5742890091518885 / 17592186044416)).
Proof. apply (A02_q_volts_hi 5742890091518885 17592186044416 8308476880671015 18014398509481984); [vm_compute; reflexivity | unfold fr, close, ctol, A02_lo, A02_hi, A02_c, A02_e; interval with (i_prec 80)]. Qed.
Lemma d_A02_136r : rio_reads A02_c A02_e A02_lo A02_hi floor_volts ctol (Build_rio (Fin (357539307115111 / 140737488355328)) (Fin (6203 / 1024)) NInf (Fin (6257 / 1024)) NInf false false false ((Fin (2337 / 1024)) :: (Fin (811 / 512)) :: (Fin (1299 / 1024)) :: (Fin (40025 / 1024)) :: (Fin (4787 / 1024)) :: (Fin (927 / 512)) :: nil)) (45 / 2).
Proof. apply (A02_rio_fin _ (357539307115111 / 140737488355328)); [reflexivity | apply (A02_q_lo 357539307115111 140737488355328 45 2); [vm_compute; reflexivity | unfold fr, ctol, A02_lo, A02_c, A02_e; interval with (i_prec 80)]]. Qed.
Lemma d_A02_149u : close ctol (357539307115111 / 140737488355328) (volts_A02 (2530388282986339 / 281474976710656)).
Proof. apply (A02_q_volts_lo 2530388282986339 281474976710656 357539307115111 140737488355328); [vm_compute; reflexivity | unfold fr, close, ctol, A02_lo, A02_hi, A02_c, A02_e; interval with (i_prec 80)]. Qed.
Lemma d_A02_162u : close ctol (357539307115111 / 140737488355328) (volts_A02 (4775319914472953 / 281474976710656)).
Proof. apply (A02_q_volts_lo 4775319914472953 281474976710656 357539307115111 140737488355328); [vm_compute; reflexivity | unfold fr, close, ctol, A02_lo, A02_hi, A02_c, A02_e; interval with (i_prec 80)]. Qed.
Lemma d_A02_175u : close ctol (8450413168909873 / 18014398509481984) (volts_A02 (2504116230027865 / 17592186044416)).
Proof. apply (A02_q_volts_mid 2504116230027865 17592186044416 8450413168909873 18014398509481984); [vm_compute; reflexivity | unfold fr, close, ctol, A02_lo, A02_hi, A02_c, A02_e; interval with (i_prec 80)]. Qed.
Lemma d_A02_188u : close ctol (1127923882343051 / 2251799813685248) (volts_A02 (4661990605327179 / 35184372088832)).
Proof. apply (A02_q_volts_mid 4661990605327179 35184372088832 1127923882343051 2251799813685248); [vm_compute; reflexivity | unfold fr, close, ctol, A02_lo, A02_hi, A02_c, A02_e; interval with (i_prec 80)]. Qed.
Lemma d_A02_200r : rio_reads A02_c A02_e A02_lo A02_hi floor_volts ctol (Build_rio (Fin (8630979334152237 / 18014398509481984)) (Fin (5 / 1)) (Fin (5591 / 1024)) (Fin (1345 / 256)) (Fin (2609 / 256)) true false true ((Fin (2553 / 1024)) :: (Fin (169 / 512)) :: (Fin (1335 / 1024)) :: (Fin (8903 / 256)) :: (Fin (3593 / 1024)) :: (Fin (77571 / 1024)) :: nil)) (2446964076672651 / 17592186044416).
Proof. apply (A02_rio_fin _ (8630979334152237 / 18014398509481984)); [reflexivity | apply (A02_q_mid 8630979334152237 18014398509481984 2446964076672651 17592186044416); [vm_compute; reflexivity | unfold fr, close, ctol, A02_c, A02_e; interval with (i_prec 80)]]. Qed.
Lemma d_A02_213u : close ctol (1276204717171955 / 562949953421312) (volts_A02 (1792983921592549 / 70368744177664)).
Proof. apply (A02_q_volts_mid 1792983921592549 70368744177664 1276204717171955 562949953421312); [vm_compute; reflexivity | unfold fr, close, ctol, A02_lo, A02_hi, A02_c, A02_e; interval with (i_prec 80)]. Qed.
Lemma d_A02_226u : close ctol (8308476880671015 / 18014398509481984) (volts_A02 (212 / 1)).
Proof. apply (A02_q_volts_hi 212 1 8308476880671015 18014398509481984); [vm_compute; reflexivity | unfold fr, close, ctol, A02_lo, A02_hi, A02_c, A02_e; interval with (i_prec 80)]. Qed.
Lemma d_A02_239u : close ctol (243276525109737 / 281474976710656) (volts_A02 (2569598315510865 / 35184372088832)).
Proof. apply (A02_q_volts_mid 2569598315510865 35184372088832 243276525109737 281474976710656); [vm_compute; reflexivity | unfold fr, close, ctol, A02_lo, A02_hi, A02_c, A02_e; interval with (i_prec 80)]. Qed.
Lemma d_A02_252u : close ctol (2522448000521883 / 1125899906842624) (volts_A02 (7265011271392179 / 281474976710656)).
Proof. apply (A02_q_volts_mid 7265011271392179 281474976710656 2522448000521883 1125899906842624); [vm_compute; reflexivity | unfold fr, close, ctol, A02_lo, A02_hi, A02_c, A02_e; interval with (i_prec 80)]. Qed.
Lemma d_A02_264r : rio_reads A02_c A02_e A02_lo A02_hi floor_volts ctol (Build_rio (Fin (357539307115111 / 140737488355328)) (Fin (2323 / 512)) (Fin (0 / 1)) (Fin (6059 / 1024)) (Fin ((-1) / 1)) false true true ((Fin (77 / 32)) :: (Fin (93 / 1024)) :: (Fin (1735 / 1024)) :: (Fin (49223 / 512)) :: (Fin (4261 / 1024)) :: (Fin (26399 / 1024)) :: nil)) (45 / 2).
Proof. apply (A02_rio_fin _ (357539307115111 / 140737488355328)); [reflexivity | apply (A02_q_lo 357539307115111 140737488355328 45 2); [vm_compute; reflexivity | unfold fr, ctol, A02_lo, A02_c, A02_e; interval with (i_prec 80)]]. Qed.
Lemma d_A02_277u : close ctol (3913578324563933 / 4503599627370496) (volts_A02 (1277217457816487 / 17592186044416)).
Proof. apply (A02_q_volts_mid 1277217457816487 17592186044416 3913578324563933 4503599627370496); [vm_compute; reflexivity | unfold fr, close, ctol, A02_lo, A02_hi, A02_c, A02_e; interval with (i_prec 80)]. Qed.
Lemma d_A02_290u : close ctol (357539307115111 / 140737488355328) (volts_A02 (21 / 1)).
Proof. apply (A02_q_volts_lo 21 1 357539307115111 140737488355328); [vm_compute; reflexivity | unfold fr, close, ctol, A02_lo, A02_hi, A02_c, A02_e; interval with (i_prec 80)]. Qed.
Lemma d_A02_303u : close ctol (8312698340880863 / 9007199254740992) (volts_A02 (2391950297768805 / 35184372088832)).
Proof. apply (A02_q_volts_mid 2391950297768805 35184372088832 8312698340880863 9007199254740992); [vm_compute; reflexivity | unfold fr, close, ctol, A02_lo, A02_hi, A02_c, A02_e; interval with (i_prec 80)]. Qed.
Lemma d_A02_316u : close ctol (1478534016413995 / 2251799813685248) (volts_A02 (3469006591578671 / 35184372088832)).
Proof. apply (A02_q_volts_mid 3469006591578671 35184372088832 1478534016413995 2251799813685248); [vm_compute; reflexivity | unfold fr, close, ctol, A02_lo, A02_hi, A02_c, A02_e; interval with (i_prec 80)]. Qed.
Lemma d_A02_328r : rio_reads A02_c A02_e A02_lo A02_hi floor_volts ctol (Build_rio (Fin (8371902246227743 / 4503599627370496)) (Fin (79 / 16)) (Fin (5902958103587057 / 590295810358705651712)) (Fin (733 / 128)) (Fin (12 / 1)) true false true ((Fin (2331 / 1024)) :: (Fin (1835 / 1024)) :: (Fin (249 / 128)) :: (Fin (101903 / 512)) :: (Fin (8515 / 1024)) :: (Fin (41285 / 1024)) :: nil)) (8907415255063761 / 281474976710656).
Proof. apply (A02_rio_fin _ (8371902246227743 / 4503599627370496)); [reflexivity | apply (A02_q_mid 8371902246227743 4503599627370496 8907415255063761 281474976710656); [vm_compute; reflexivity | unfold fr, close, ctol, A02_c, A02_e; interval with (i_prec 80)]]. Qed.
Lemma d_A02_341u : close ctol (5190577739276911 / 2251799813685248) (volts_A02 (3521319035127335 / 140737488355328)).
Proof. apply (A02_q_volts_mid 3521319035127335 140737488355328 5190577739276911 2251799813685248); [vm_compute; reflexivity | unfold fr, close, ctol, A02_lo, A02_hi, A02_c, A02_e; interval with (i_prec 80)]. Qed.
Lemma d_A02_354u : close ctol (2263743203395659 / 4503599627370496) (volts_A02 (4644237538700767 / 35184372088832)).
Proof. apply (A02_q_volts_mid 4644237538700767 35184372088832 2263743203395659 4503599627370496); [vm_compute; reflexivity | unfold fr, close, ctol, A02_lo, A02_hi, A02_c, A02_e; interval with (i_prec 80)]. Qed.
Lemma d_A02_367u : close ctol (8385231225992121 / 18014398509481984) (volts_A02 (5050760393341855 / 35184372088832)).
Proof. apply (A02_q_volts_mid 5050760393341855 35184372088832 8385231225992121 18014398509481984); [vm_compute; reflexivity | unfold fr, close, ctol, A02_lo, A02_hi, A02_c, A02_e; interval with (i_prec 80)]. Qed.
Lemma d_A02_380u : close ctol (8325831834026321 / 4503599627370496) (volts_A02 (4480626021861465 / 140737488355328)).
Proof. apply (A02_q_volts_mid 4480626021861465 140737488355328 8325831834026321 4503599627370496); [vm_compute; reflexivity | unfold fr, close, ctol, A02_lo, A02_hi, A02_c, A02_e; interval with (i_prec 80)]. Qed.
Lemma d_A02_392r : rio_reads A02_c A02_e A02_lo A02_hi floor_volts ctol (Build_rio (Fin (4356322768554865 / 9007199254740992)) (Fin (0 / 1)) (Fin (1691 / 512)) (Fin (11283 / 1024)) (Fin (11111 / 1024)) true true true ((Fin (87 / 128)) :: (Fin (1369 / 1024)) :: (Fin (137 / 128)) :: (Fin (174449 / 1024)) :: (Fin (3745 / 1024)) :: (Fin ((-1461) / 128)) :: nil)) (4843857331943547 / 35184372088832).
Proof. apply (A02_rio_fin _ (4356322768554865 / 9007199254740992)); [reflexivity | apply (A02_q_mid 4356322768554865 9007199254740992 4843857331943547 35184372088832); [vm_compute; reflexivity | unfold fr, close, ctol, A02_c, A02_e; interval with (i_prec 80)]]. Qed.
Lemma d_A02_405u : close ctol (357539307115111 / 140737488355328) (volts_A02 (1461723317940919 / 70368744177664)).
Proof. apply (A02_q_volts_lo 1461723317940919 70368744177664 357539307115111 140737488355328); [vm_compute; reflexivity | unfold fr, close, ctol, A02_lo, A02_hi, A02_c, A02_e; interval with (i_prec 80)]. Qed.
Lemma d_A02_418u : close ctol (5218626930969821 / 4503599627370496) (volts_A02 (1865581628400043 / 35184372088832)).
Proof. apply (A02_q_volts_mid 1865581628400043 35184372088832 5218626930969821 4503599627370496); [vm_compute; reflexivity | unfold fr, close, ctol, A02_lo, A02_hi, A02_c, A02_e; interval with (i_prec 80)]. Qed.
Lemma d_A02_431u : close ctol (3911376070109353 / 4503599627370496) (volts_A02 (1278002759725629 / 17592186044416)).
Proof. apply (A02_q_volts_mid 1278002759725629 17592186044416 3911376070109353 4503599627370496); [vm_compute; reflexivity | unfold fr, close, ctol, A02_lo, A02_hi, A02_c, A02_e; interval with (i_prec 80)]. Qed.
Lemma d_A02_444u : close ctol (357539307115111 / 140737488355328) (volts_A02 (1592280256565057 / 281474976710656)).
Proof. apply (A02_q_volts_lo 1592280256565057 281474976710656 357539307115111 140737488355328); [vm_compute; reflexivity | unfold fr, close, ctol, A02_lo, A02_hi, A02_c, A02_e; interval with (i_prec 80)]. Qed.
Lemma d_A02_456r : rio_reads A02_c A02_e A02_lo A02_hi floor_volts ctol (Build_rio (Fin (357539307115111 / 140737488355328)) (Fin (4979 / 1024)) (Fin (3183 / 1024)) (Fin (6173 / 1024)) (Fin (3309 / 256)) true true true ((Fin (2181 / 1024)) :: (Fin (233 / 128)) :: (Fin (239 / 128)) :: (Fin (132959 / 1024)) :: (Fin (3497 / 512)) :: (Fin ((-9507) / 512)) :: nil)) (45 / 2).
Proof. apply (A02_rio_fin _ (357539307115111 / 140737488355328)); [reflexivity | apply (A02_q_lo 357539307115111 140737488355328 45 2); [vm_compute; reflexivity | unfold fr, ctol, A02_lo, A02_c, A02_e; interval with (i_prec 80)]]. Qed.
Lemma d_A02_469u : close ctol (4850793737430791 / 9007199254740992) (volts_A02 (4307277488181595 / 35184372088832)).
Proof. apply (A02_q_volts_mid 4307277488181595 35184372088832 4850793737430791 9007199254740992); [vm_compute; reflexivity | unfold fr, close, ctol, A02_lo, A02_hi, A02_c, A02_e; interval with (i_prec 80)]. Qed.
Lemma d_A02_482u : close ctol (5384703107871219 / 9007199254740992) (volts_A02 (960775237709841 / 8796093022208)).
Proof. apply (A02_q_volts_mid 960775237709841 8796093022208 5384703107871219 9007199254740992); [vm_compute; reflexivity | unfold fr, close, ctol, A02_lo, A02_hi, A02_c, A02_e; interval with (i_prec 80)]. Qed.
Lemma d_A02_495u : close ctol (4153589738850319 / 2251799813685248) (volts_A02 (4491613202592957 / 140737488355328)).
Proof. apply (A02_q_volts_mid 4491613202592957 140737488355328 4153589738850319 2251799813685248); [vm_compute; reflexivity | unfold fr, close, ctol, A02_lo, A02_hi, A02_c, A02_e; interval with (i_prec 80)]. Qed.
Lemma d_A02_508u : close ctol (7575823762459845 / 4503599627370496) (volts_A02 (4967161302776539 / 140737488355328)).
Proof. apply (A02_q_volts_mid 4967161302776539 140737488355328 7575823762459845 4503599627370496); [vm_compute; reflexivity | unfold fr, close, ctol, A02_lo, A02_hi, A02_c, A02_e; interval with (i_prec 80)]. Qed.
Lemma d_A02_520r : rio_reads A02_c A02_e A02_lo A02_hi floor_volts ctol (Build_rio (Fin (8071594375877171 / 9007199254740992)) (Fin (2447 / 512)) NInf (Fin (777 / 128)) (Fin (10927 / 1024)) true true true ((Fin (1039 / 512)) :: (Fin (727 / 512)) :: (Fin (685 / 512)) :: (Fin (3823 / 512)) :: (Fin (6313 / 1024)) :: (Fin (64447 / 1024)) :: nil)) (2470079040209305 / 35184372088832).
Proof. apply (A02_rio_fin _ (8071594375877171 / 9007199254740992)); [reflexivity | apply (A02_q_mid 8071594375877171 9007199254740992 2470079040209305 35184372088832); [vm_compute; reflexivity | unfold fr, close, ctol, A02_c, A02_e; interval with (i_prec 80)]]. Qed.
Lemma d_A02_533u : close ctol (4500453739417765 / 2251799813685248) (volts_A02 (8229908989743865 / 281474976710656)).
Proof. apply (A02_q_volts_mid 8229908989743865 281474976710656 4500453739417765 2251799813685248); [vm_compute; reflexivity | unfold fr, close, ctol, A02_lo, A02_hi, A02_c, A02_e; interval with (i_prec 80)]. Qed.
Lemma d_A02_546u : close ctol (8670955049696951 / 18014398509481984) (volts_A02 (2434647576928157 / 17592186044416)).
Proof. apply (A02_q_volts_mid 2434647576928157 17592186044416 8670955049696951 18014398509481984); [vm_compute; reflexivity | unfold fr, close, ctol, A02_lo, A02_hi, A02_c, A02_e; interval with (i_prec 80)]. Qed.
Lemma d_A02_559u : close ctol (8308476880671015 / 18014398509481984) (volts_A02 (204218827044535 / 549755813888)).
Proof. apply (A02_q_volts_hi 204218827044535 549755813888 8308476880671015 18014398509481984); [vm_compute; reflexivity | unfold fr, close, ctol, A02_lo, A02_hi, A02_c, A02_e; interval with (i_prec 80)]. Qed.
Lemma d_A02_572u : close ctol (283241636274899 / 281474976710656) (volts_A02 (4352723797501735 / 70368744177664)).
Proof. apply (A02_q_volts_mid 4352723797501735 70368744177664 283241636274899 281474976710656); [vm_compute; reflexivity | unfold fr, close, ctol, A02_lo, A02_hi, A02_c, A02_e; interval with (i_prec 80)]. Qed.
Lemma d_A02_584r : rio_reads A02_c A02_e A02_lo A02_hi floor_volts ctol (Build_rio (Fin (357539307115111 / 140737488355328)) (Fin (309 / 64)) (Fin (14367 / 1024)) (Fin (5515 / 1024)) (Fin (1 / 1)) true false true ((Fin (811 / 1024)) :: (Fin (851 / 512)) :: (Fin (3053 / 1024)) :: (Fin (26073 / 1024)) :: (Fin (1321 / 256)) :: (Fin (53317 / 1024)) :: nil)) (45 / 2).
Proof. apply (A02_rio_fin _ (357539307115111 / 140737488355328)); [reflexivity | apply (A02_q_lo 357539307115111 140737488355328 45 2); [vm_compute; reflexivity | unfold fr, ctol, A02_lo, A02_c, A02_e; interval with (i_prec 80)]]. Qed.
Lemma d_A02_597u : close ctol (357539307115111 / 140737488355328) (volts_A02 (3113968554883079 / 140737488355328)).
Proof. apply (A02_q_volts_lo 3113968554883079 140737488355328 357539307115111 140737488355328); [vm_compute; reflexivity | unfold fr, close, ctol, A02_lo, A02_hi, A02_c, A02_e; interval with (i_prec 80)]. Qed.
Lemma d_A02_610u : close ctol (6057083264185449 / 9007199254740992) (volts_A02 (6759407724606099 / 70368744177664)).
Proof. apply (A02_q_volts_mid 6759407724606099 70368744177664 6057083264185449 9007199254740992); [vm_compute; reflexivity | unfold fr, close, ctol, A02_lo, A02_hi, A02_c, A02_e; interval with (i_prec 80)]. Qed.
Lemma d_A02_623u : close ctol (5849236157065623 / 9007199254740992) (volts_A02 (877764814927347 / 8796093022208)).
Proof. apply (A02_q_volts_mid 877764814927347 8796093022208 5849236157065623 9007199254740992); [vm_compute; reflexivity | unfold fr, close, ctol, A02_lo, A02_hi, A02_c, A02_e; interval with (i_prec 80)]. Qed.
Lemma d_A02_636u : close ctol (7589354440263369 / 4503599627370496) (volts_A02 (2478745835003249 / 70368744177664)).
Proof. apply (A02_q_volts_mid 2478745835003249 70368744177664 7589354440263369 4503599627370496); [vm_compute; reflexivity | unfold fr, close, ctol, A02_lo, A02_hi, A02_c, A02_e; interval with (i_prec 80)]. Qed.
Lemma d_A02_648r : rio_reads A02_c A02_e A02_lo A02_hi floor_volts ctol (Build_rio (Fin (5344078696121663 / 2251799813685248)) (Fin (0 / 1)) (Fin (1585 / 512)) (Fin (6597 / 1024)) (Fin (1507 / 128)) true true false ((Fin (2931 / 1024)) :: (Fin (705 / 512)) :: (Fin (1263 / 1024)) :: (Fin (415 / 4)) :: (Fin (4379 / 1024)) :: (Fin (89 / 64)) :: nil)) (3411016121513453 / 140737488355328).
Proof. apply (A02_rio_fin _ (5344078696121663 / 2251799813685248)); [reflexivity | apply (A02_q_mid 5344078696121663 2251799813685248 3411016121513453 140737488355328); [vm_compute; reflexivity | unfold fr, close, ctol, A02_c, A02_e; interval with (i_prec 80)]]. Qed.
Lemma d_A02_661u : close ctol (2525807783636415 / 4503599627370496) (volts_A02 (4120638898821079 / 35184372088832)).
Proof. apply (A02_q_volts_mid 4120638898821079 35184372088832 2525807783636415 4503599627370496); [vm_compute; reflexivity | unfold fr, close, ctol, A02_lo, A02_hi, A02_c, A02_e; interval with (i_prec 80)]. Qed.
Lemma r_A21_448 : rio_reads A21_c A21_e A21_lo A21_hi floor_volts ctol (Build_rio (Fin (2951479051793529 / 295147905179352825856)) (Fin (5 / 1)) (Fin (3715469692580659 / 1125899906842624)) (Fin (6 / 1)) (Fin (7 / 1)) true true true ((Fin (0 / 1)) :: (Fin (0 / 1)) :: (Fin (0 / 1)) :: (Fin (0 / 1)) :: (Fin (27 / 4)) :: (Fin (45 / 1)) :: nil)) (80 / 1).
Proof. apply (A21_rio_fin _ (2951479051793529 / 295147905179352825856)); [reflexivity | apply (A21_q_hi 2951479051793529 295147905179352825856 80 1); [vm_compute; reflexivity | unfold fr, ctol, A21_hi, A21_c, A21_e; interval with (i_prec 80)]]. Qed.
Lemma r_A21_466 : rio_reads A21_c A21_e A21_lo A21_hi floor_volts ctol (Build_rio (Fin (1825943773856981 / 4503599627370496)) (Fin (5 / 1)) (Fin (3715469692580659 / 1125899906842624)) (Fin (0 / 1)) (Fin (12 / 1)) true true true ((Fin (0 / 1)) :: (Fin (0 / 1)) :: (Fin (0 / 1)) :: (Fin (0 / 1)) :: (Fin (27 / 4)) :: (Fin (45 / 1)) :: nil)) (80 / 1).
Proof. apply (A21_rio_fin _ (1825943773856981 / 4503599627370496)); [reflexivity | apply (A21_q_hi 1825943773856981 4503599627370496 80 1); [vm_compute; reflexivity | unfold fr, ctol, A21_hi, A21_c, A21_e; interval with (i_prec 80)]]. Qed.
Lemma r_A21_482 : rio_reads A21_c A21_e A21_lo A21_hi floor_volts ctol (Build_rio (Fin (1675 / 4096)) (Fin (5 / 1)) (Fin (3715469692580659 / 1125899906842624)) (Fin (6 / 1)) (Fin (12 / 1)) true true true ((Fin (0 / 1)) :: (Fin (0 / 1)) :: (Fin (0 / 1)) :: (Fin (0 / 1)) :: (Fin (27 / 4)) :: (Fin (0 / 1)) :: nil)) (5570577165729607 / 70368744177664).
Proof. apply (A21_rio_fin _ (1675 / 4096)); [reflexivity | apply (A21_q_mid 1675 4096 5570577165729607 70368744177664); [vm_compute; reflexivity | unfold fr, close, ctol, A21_c, A21_e; interval with (i_prec 80)]]. Qed.
Lemma r_A21_498 : rio_reads A21_c A21_e A21_lo A21_hi floor_volts ctol (Build_rio (Fin (5 / 32)) (Fin (269 / 64)) NInf (Fin (1233 / 128)) (Fin (5955 / 1024)) true true true ((Fin (179 / 256)) :: (Fin (947 / 512)) :: (Fin (1059 / 512)) :: (Fin (139573 / 1024)) :: (Fin (6915 / 1024)) :: (Fin (13345 / 512)) :: nil)) (80 / 1).
Proof. apply (A21_rio_fin _ (5 / 32)); [reflexivity | apply (A21_q_hi 5 32 80 1); [vm_compute; reflexivity | unfold fr, ctol, A21_hi, A21_c, A21_e; interval with (i_prec 80)]]. Qed.
Lemma r_A21_514 : rio_reads A21_c A21_e A21_lo A21_hi floor_volts ctol (Build_rio (Fin (15 / 32)) (Fin (2327 / 512)) (Fin (3715469692580659 / 1125899906842624)) NInf (Fin (3249 / 256)) true true true ((Fin (335 / 256)) :: (Fin (71 / 256)) :: (Fin (259 / 128)) :: (Fin (30013 / 256)) :: (Fin (973 / 256)) :: (Fin (87665 / 1024)) :: nil)) (4712105951382425 / 70368744177664).
Proof. apply (A21_rio_fin _ (15 / 32)); [reflexivity | apply (A21_q_mid 15 32 4712105951382425 70368744177664); [vm_compute; reflexivity | unfold fr, close, ctol, A21_c, A21_e; interval with (i_prec 80)]]. Qed.
Lemma r_A21_530 : rio_reads A21_c A21_e A21_lo A21_hi floor_volts ctol (Build_rio (Fin (25 / 32)) (Fin (5167 / 1024)) (Fin (2719 / 1024)) (Fin (5545 / 1024)) (Fin (6013 / 512)) true true true ((Fin (199 / 512)) :: (Fin (967 / 1024)) :: (Fin (1163 / 1024)) :: (Fin (23361 / 128)) :: (Fin (1065 / 128)) :: (Fin (6529 / 128)) :: nil)) (629750453059071 / 17592186044416).
Proof. apply (A21_rio_fin _ (25 / 32)); [reflexivity | apply (A21_q_mid 25 32 629750453059071 17592186044416); [vm_compute; reflexivity | unfold fr, close, ctol, A21_c, A21_e; interval with (i_prec 80)]]. Qed.
Lemma r_A21_546 : rio_reads A21_c A21_e A21_lo A21_hi floor_volts ctol (Build_rio (Fin (35 / 32)) (Fin (5583 / 1024)) (Fin (3641 / 1024)) (Fin (3293 / 512)) (Fin (10783 / 1024)) true true true ((Fin (727 / 1024)) :: (Fin (51 / 64)) :: (Fin (735 / 256)) :: (Fin (92855 / 512)) :: (Fin (2447 / 512)) :: (Fin (1613 / 32)) :: nil)) (6670148448450459 / 281474976710656).
Proof. apply (A21_rio_fin _ (35 / 32)); [reflexivity | apply (A21_q_mid 35 32 6670148448450459 281474976710656); [vm_compute; reflexivity | unfold fr, close, ctol, A21_c, A21_e; interval with (i_prec 80)]]. Qed.
Lemma r_A21_562 : rio_reads A21_c A21_e A21_lo A21_hi floor_volts ctol (Build_rio (Fin (45 / 32)) (Fin (13379 / 1024)) (Fin (5902958103587057 / 590295810358705651712)) (Fin (4999 / 1024)) (Fin (0 / 1)) false true false ((Fin (323 / 128)) :: (Fin (1541 / 1024)) :: (Fin (1865 / 1024)) :: (Fin (6985 / 64)) :: (Fin (5459 / 1024)) :: (Fin (75723 / 1024)) :: nil)) (4901447779831147 / 281474976710656).
Proof. apply (A21_rio_fin _ (45 / 32)); [reflexivity | apply (A21_q_mid 45 32 4901447779831147 281474976710656); [vm_compute; reflexivity | unfold fr, close, ctol, A21_c, A21_e; interval with (i_prec 80)]]. Qed.
Lemma r_A21_578 : rio_reads A21_c A21_e A21_lo A21_hi floor_volts ctol (Build_rio (Fin (55 / 32)) (Fin (31 / 64)) PInf (Fin (6381 / 1024)) (Fin (5691 / 512)) false true false ((Fin (895 / 1024)) :: (Fin (233 / 256)) :: (Fin (2111 / 1024)) :: (Fin (48805 / 1024)) :: (Fin (7347 / 1024)) :: (Fin (19665 / 512)) :: nil)) (3832465593297587 / 281474976710656).
Proof. apply (A21_rio_fin _ (55 / 32)); [reflexivity | apply (A21_q_mid 55 32 3832465593297587 281474976710656); [vm_compute; reflexivity | unfold fr, close, ctol, A21_c, A21_e; interval with (i_prec 80)]]. Qed.
Lemma r_A21_594 : rio_reads A21_c A21_e A21_lo A21_hi floor_volts ctol (Build_rio (Fin (65 / 32)) (Fin (5457 / 1024)) (Fin (49 / 16)) (Fin (6 / 1)) (Fin (11297 / 1024)) true true true ((Fin (75 / 512)) :: (Fin (515 / 512)) :: (Fin (1251 / 512)) :: (Fin (129351 / 1024)) :: (Fin (3453 / 512)) :: (Fin (13015 / 1024)) :: nil)) (6245412703818171 / 562949953421312).
Proof. apply (A21_rio_fin _ (65 / 32)); [reflexivity | apply (A21_q_mid 65 32 6245412703818171 562949953421312); [vm_compute; reflexivity | unfold fr, close, ctol, A21_c, A21_e; interval with (i_prec 80)]]. Qed.
Lemma r_A21_610 : rio_reads A21_c A21_e A21_lo A21_hi floor_volts ctol (Build_rio (Fin (75 / 32)) (Fin (1 / 1)) (Fin (401 / 128)) (Fin (409 / 64)) (Fin (12 / 1)) true false true ((Fin (3003 / 1024)) :: (Fin (141 / 1024)) :: (Fin (2599 / 1024)) :: (Fin (9971 / 1024)) :: (Fin (3447 / 512)) :: (Fin ((-2317) / 1024)) :: nil)) (10 / 1).
Proof. apply (A21_rio_fin _ (75 / 32)); [reflexivity | apply (A21_q_lo 75 32 10 1); [vm_compute; reflexivity | unfold fr, ctol, A21_lo, A21_c, A21_e; interval with (i_prec 80)]]. Qed.
Lemma r_A21_626 : rio_reads A21_c A21_e A21_lo A21_hi floor_volts ctol (Build_rio (Fin (85 / 32)) (Fin (2583 / 512)) (Fin (3715469692580659 / 1125899906842624)) (Fin (6411 / 1024)) (Fin (12 / 1)) true true false ((Fin (919 / 1024)) :: (Fin (87 / 128)) :: (Fin (515 / 512)) :: (Fin (38065 / 256)) :: (Fin (223 / 32)) :: (Fin (2487 / 32)) :: nil)) (10 / 1).
Proof. apply (A21_rio_fin _ (85 / 32)); [reflexivity | apply (A21_q_lo 85 32 10 1); [vm_compute; reflexivity | unfold fr, ctol, A21_lo, A21_c, A21_e; interval with (i_prec 80)]]. Qed.
Lemma r_A21_642 : rio_reads A21_c A21_e A21_lo A21_hi floor_volts ctol (Build_rio (Fin (95 / 32)) (Fin (4901 / 1024)) (Fin (1787 / 512)) (Fin (100000000000000001097906362944045541740492309677311846336810682903157585404911491537163328978494688899061249669721172515611590283743140088328307009198146046031271664502933027185697489699588559043338384466165001178426897626212945177628091195786707458122783970171784415105291802893207873272974885715430223118336 / 1)) (Fin (1 / 1)) true true true ((Fin (1849 / 1024)) :: (Fin (1349 / 1024)) :: (Fin (823 / 512)) :: (Fin (26483 / 512)) :: (Fin (7551 / 1024)) :: (Fin (83385 / 1024)) :: nil)) (10 / 1).
Proof. apply (A21_rio_fin _ (95 / 32)); [reflexivity | apply (A21_q_lo 95 32 10 1); [vm_compute; reflexivity | unfold fr, ctol, A21_lo, A21_c, A21_e; interval with (i_prec 80)]]. Qed.
Lemma r_A21_658 : rio_reads A21_c A21_e A21_lo A21_hi floor_volts ctol (Build_rio (Fin (105 / 32)) (Fin ((-1) / 1)) (Fin (3355 / 1024)) (Fin (0 / 1)) (Fin (10075 / 1024)) true false true ((Fin (879 / 1024)) :: (Fin (115 / 256)) :: (Fin (761 / 512)) :: (Fin (427 / 128)) :: (Fin (1625 / 512)) :: (Fin ((-4067) / 256)) :: nil)) (10 / 1).
Proof. apply (A21_rio_fin _ (105 / 32)); [reflexivity | apply (A21_q_lo 105 32 10 1); [vm_compute; reflexivity | unfold fr, ctol, A21_lo, A21_c, A21_e; interval with (i_prec 80)]]. Qed.
Lemma r_A21_674 : rio_reads A21_c A21_e A21_lo A21_hi floor_volts ctol (Build_rio (Fin (115 / 32)) (Fin (2823 / 512)) (Fin (2777 / 1024)) (Fin (2511 / 512)) (Fin (943 / 64)) true true false ((Fin (339 / 128)) :: (Fin (119 / 256)) :: (Fin (923 / 512)) :: (Fin (201979 / 1024)) :: (Fin (4991 / 1024)) :: (Fin ((-6963) / 512)) :: nil)) (10 / 1).
Proof. apply (A21_rio_fin _ (115 / 32)); [reflexivity | apply (A21_q_lo 115 32 10 1); [vm_compute; reflexivity | unfold fr, ctol, A21_lo, A21_c, A21_e; interval with (i_prec 80)]]. Qed.
Lemma r_A21_690 : rio_reads A21_c A21_e A21_lo A21_hi floor_volts ctol (Build_rio (Fin (125 / 32)) (Fin (5 / 1)) (Fin (6841 / 1024)) (Fin (2851 / 512)) (Fin (1 / 202402253307310618352495346718917307049556649764142118356901358027430339567995346891960383701437124495187077864316811911389808737385793476867013399940738509921517424276566361364466907742093216341239767678472745068562007483424692698618103355649159556340810056512358769552333414615230502532186327508646006263307707741093494784)) false true false ((Fin (2311 / 1024)) :: (Fin (1423 / 1024)) :: (Fin (451 / 256)) :: (Fin (30197 / 512)) :: (Fin (271 / 64)) :: (Fin (39553 / 512)) :: nil)) (10 / 1).
Proof. apply (A21_rio_fin _ (125 / 32)); [reflexivity | apply (A21_q_lo 125 32 10 1); [vm_compute; reflexivity | unfold fr, ctol, A21_lo, A21_c, A21_e; interval with (i_prec 80)]]. Qed.
Lemma r_A21_706 : rio_reads A21_c A21_e A21_lo A21_hi floor_volts ctol (Build_rio (Fin (135 / 32)) (Fin (5215 / 1024)) (Fin (1753 / 512)) (Fin (6231 / 1024)) (Fin (10225 / 1024)) false false true ((Fin (913 / 512)) :: (Fin (1155 / 1024)) :: (Fin (73 / 64)) :: (Fin (47809 / 512)) :: (Fin (859 / 128)) :: (Fin ((-6585) / 512)) :: nil)) (10 / 1).
Proof. apply (A21_rio_fin _ (135 / 32)); [reflexivity | apply (A21_q_lo 135 32 10 1); [vm_compute; reflexivity | unfold fr, ctol, A21_lo, A21_c, A21_e; interval with (i_prec 80)]]. Qed.
Lemma r_A21_722 : rio_reads A21_c A21_e A21_lo A21_hi floor_volts ctol (Build_rio (Fin (145 / 32)) (Fin (693 / 128)) (Fin (1845 / 512)) (Fin (3293 / 512)) (Fin (12307 / 1024)) true true true ((Fin (2391 / 1024)) :: (Fin (769 / 512)) :: (Fin (2423 / 1024)) :: (Fin (123509 / 1024)) :: (Fin (687 / 128)) :: (Fin (26837 / 512)) :: nil)) (10 / 1).
Proof. apply (A21_rio_fin _ (145 / 32)); [reflexivity | apply (A21_q_lo 145 32 10 1); [vm_compute; reflexivity | unfold fr, ctol, A21_lo, A21_c, A21_e; interval with (i_prec 80)]]. Qed.
Lemma r_A21_738 : rio_reads A21_c A21_e A21_lo A21_hi floor_volts ctol (Build_rio (Fin (155 / 32)) NInf (Fin (1759 / 512)) (Fin (379 / 64)) (Fin (12 / 1)) true false true ((Fin (733 / 256)) :: (Fin (337 / 256)) :: (Fin (2167 / 1024)) :: (Fin (14099 / 1024)) :: (Fin (4655 / 1024)) :: (Fin (1055 / 32)) :: nil)) (10 / 1).
Proof. apply (A21_rio_fin _ (155 / 32)); [reflexivity | apply (A21_q_lo 155 32 10 1); [vm_compute; reflexivity | unfold fr, ctol, A21_lo, A21_c, A21_e; interval with (i_prec 80)]]. Qed.
Lemma r_A21_754 : rio_reads A21_c A21_e A21_lo A21_hi floor_volts ctol (Build_rio (Fin (459490124381393 / 281474976710656)) (Fin (5 / 1)) (Fin (3323 / 1024)) (Fin (6 / 1)) (Fin (12 / 1)) true true true ((Fin (509 / 512)) :: (Fin (1015 / 1024)) :: (Fin (763 / 1024)) :: (Fin (53499 / 512)) :: (Fin (4449 / 512)) :: (Fin (68807 / 1024)) :: nil)) (255147696521595 / 17592186044416).
Proof. apply (A21_rio_fin _ (459490124381393 / 281474976710656)); [reflexivity | apply (A21_q_mid 459490124381393 281474976710656 255147696521595 17592186044416); [vm_compute; reflexivity | unfold fr, close, ctol, A21_c, A21_e; interval with (i_prec 80)]]. Qed.
Lemma r_A21_770 : rio_reads A21_c A21_e A21_lo A21_hi floor_volts ctol (Build_rio (Fin (3463052088650579 / 1125899906842624)) (Fin (4653 / 1024)) (Fin (5902958103587057 / 590295810358705651712)) (Fin (6 / 1)) (Fin (10163 / 1024)) true false false ((Fin (1667 / 1024)) :: (Fin (1609 / 1024)) :: (Fin (163 / 64)) :: (Fin (8935 / 1024)) :: (Fin (1123 / 256)) :: (Fin (2911 / 1024)) :: nil)) (10 / 1).
Proof. apply (A21_rio_fin _ (3463052088650579 / 1125899906842624)); [reflexivity | apply (A21_q_lo 3463052088650579 1125899906842624 10 1); [vm_compute; reflexivity | unfold fr, ctol, A21_lo, A21_c, A21_e; interval with (i_prec 80)]]. Qed.
Lemma r_A21_786 : rio_reads A21_c A21_e A21_lo A21_hi floor_volts ctol (Build_rio (Fin (2705606180799525 / 1125899906842624)) (Fin (1397 / 256)) (Fin (3715469692580659 / 1125899906842624)) (Fin (15259 / 1024)) (Fin (6015 / 512)) true false false ((Fin (69 / 256)) :: (Fin (551 / 512)) :: (Fin (853 / 1024)) :: (Fin (54269 / 512)) :: (Fin (485 / 64)) :: (Fin (64035 / 1024)) :: nil)) (10 / 1).
Proof. apply (A21_rio_fin _ (2705606180799525 / 1125899906842624)); [reflexivity | apply (A21_q_lo 2705606180799525 1125899906842624 10 1); [vm_compute; reflexivity | unfold fr, ctol, A21_lo, A21_c, A21_e; interval with (i_prec 80)]]. Qed.
Lemma r_A21_802 : rio_reads A21_c A21_e A21_lo A21_hi floor_volts ctol (Build_rio (Fin (2648968895281855 / 9007199254740992)) (Fin (13371 / 1024)) (Fin (1731 / 512)) (Fin (313 / 64)) (Fin (12 / 1)) true true true ((Fin (207 / 128)) :: (Fin (1889 / 1024)) :: (Fin (1429 / 1024)) :: (Fin (58063 / 512)) :: (Fin (3567 / 1024)) :: (Fin (36237 / 512)) :: nil)) (80 / 1).
Proof. apply (A21_rio_fin _ (2648968895281855 / 9007199254740992)); [reflexivity | apply (A21_q_hi 2648968895281855 9007199254740992 80 1); [vm_compute; reflexivity | unfold fr, ctol, A21_hi, A21_c, A21_e; interval with (i_prec 80)]]. Qed.
Lemma r_A21_822 : rio_reads A21_c A21_e A21_lo A21_hi floor_volts ctol (Build_rio (Fin (1435491787718829 / 1152921504606846976)) (Fin (5 / 1)) (Fin (1 / 202402253307310618352495346718917307049556649764142118356901358027430339567995346891960383701437124495187077864316811911389808737385793476867013399940738509921517424276566361364466907742093216341239767678472745068562007483424692698618103355649159556340810056512358769552333414615230502532186327508646006263307707741093494784)) (Fin (8927 / 1024)) (Fin (3703 / 256)) true false false ((Fin (537 / 256)) :: (Fin (817 / 1024)) :: (Fin (183 / 64)) :: (Fin (98933 / 512)) :: (Fin (7165 / 1024)) :: (Fin (27577 / 512)) :: nil)) (80 / 1).
Proof. apply (A21_rio_fin _ (1435491787718829 / 1152921504606846976)); [reflexivity | apply (A21_q_hi 1435491787718829 1152921504606846976 80 1); [vm_compute; reflexivity | unfold fr, ctol, A21_hi, A21_c, A21_e; interval with (i_prec 80)]]. Qed.
Lemma r_A21_843 : rio_reads A21_c A21_e A21_lo A21_hi floor_volts ctol (Build_rio (Fin (4396020010124125 / 18446744073709551616)) (Fin (5 / 1)) (Fin (3715469692580659 / 1125899906842624)) (Fin (6 / 1)) (Fin (12 / 1)) true true true ((Fin (0 / 1)) :: (Fin (0 / 1)) :: (Fin (0 / 1)) :: (Fin (0 / 1)) :: (Fin (27 / 4)) :: (Fin (45 / 1)) :: nil)) (80 / 1).
Proof. apply (A21_rio_fin _ (4396020010124125 / 18446744073709551616)); [reflexivity | apply (A21_q_hi 4396020010124125 18446744073709551616 80 1); [vm_compute; reflexivity | unfold fr, ctol, A21_hi, A21_c, A21_e; interval with (i_prec 80)]]. Qed.
Lemma d_A21_673r : rio_reads A21_c A21_e A21_lo A21_hi floor_volts ctol (Build_rio (Fin (2489100355631953 / 1125899906842624)) (Fin (2589569785738035 / 562949953421312)) (Fin (3715469692580659 / 1125899906842624)) (Fin (6 / 1)) (Fin (12 / 1)) true true true ((Fin (0 / 1)) :: (Fin (0 / 1)) :: (Fin (0 / 1)) :: (Fin (0 / 1)) :: (Fin (27 / 4)) :: (Fin (45 / 1)) :: nil)) (10 / 1).
Proof. apply (A21_rio_fin _ (2489100355631953 / 1125899906842624)); [reflexivity | apply (A21_q_lo 2489100355631953 1125899906842624 10 1); [vm_compute; reflexivity | unfold fr, ctol, A21_lo, A21_c, A21_e; interval with (i_prec 80)]]. Qed.
Lemma d_A21_681r : rio_reads A21_c A21_e A21_lo A21_hi floor_volts ctol (Build_rio (Fin (7303775102731699 / 18014398509481984)) (Fin (0 / 1)) (Fin (3715469692580659 / 1125899906842624)) (Fin (6 / 1)) (Fin (12 / 1)) true true true ((Fin (0 / 1)) :: (Fin (0 / 1)) :: (Fin (0 / 1)) :: (Fin (0 / 1)) :: (Fin (27 / 4)) :: (Fin (45 / 1)) :: nil)) (80 / 1).
Proof. apply (A21_rio_fin _ (7303775102731699 / 18014398509481984)); [reflexivity | apply (A21_q_hi 7303775102731699 18014398509481984 80 1); [vm_compute; reflexivity | unfold fr, ctol, A21_hi, A21_c, A21_e; interval with (i_prec 80)]]. Qed.
Lemma d_A21_689r : rio_reads A21_c A21_e A21_lo A21_hi floor_volts ctol (Build_rio (Fin (2489100355631953 / 1125899906842624)) NInf (Fin (3715469692580659 / 1125899906842624)) (Fin (6 / 1)) (Fin (12 / 1)) true true true ((Fin (0 / 1)) :: (Fin (0 / 1)) :: (Fin (0 / 1)) :: (Fin (0 / 1)) :: (Fin (27 / 4)) :: (Fin (45 / 1)) :: nil)) (10 / 1).
Proof. apply (A21_rio_fin _ (2489100355631953 / 1125899906842624)); [reflexivity | apply (A21_q_lo 2489100355631953 1125899906842624 10 1); [vm_compute; reflexivity | unfold fr, ctol, A21_lo, A21_c, A21_e; interval with (i_prec 80)]]. Qed.
Lemma d_A21_697r : rio_reads A21_c A21_e A21_lo A21_hi floor_volts ctol (Build_rio (Fin (2357699125463541 / 2251799813685248)) (Fin (5 / 1)) (Fin (3715469692580659 / 1125899906842624)) (Fin (6 / 1)) (Fin (100000000000000001097906362944045541740492309677311846336810682903157585404911491537163328978494688899061249669721172515611590283743140088328307009198146046031271664502933027185697489699588559043338384466165001178426897626212945177628091195786707458122783970171784415105291802893207873272974885715430223118336 / 1)) true true true ((Fin (0 / 1)) :: (Fin (0 / 1)) :: (Fin (0 / 1)) :: (Fin (0 / 1)) :: (Fin (27 / 4)) :: (Fin (45 / 1)) :: nil)) (25 / 1).
Proof. apply (A21_rio_fin _ (2357699125463541 / 2251799813685248)); [reflexivity | apply (A21_q_mid 2357699125463541 2251799813685248 25 1); [vm_compute; reflexivity | unfold fr, close, ctol, A21_c, A21_e; interval with (i_prec 80)]]. Qed.
Lemma d_A21_705r : rio_reads A21_c A21_e A21_lo A21_hi floor_volts ctol (Build_rio (Fin (7303775102731699 / 18014398509481984)) (Fin (5 / 1)) PInf (Fin (6 / 1)) (Fin (12 / 1)) true true true ((Fin (0 / 1)) :: (Fin (0 / 1)) :: (Fin (0 / 1)) :: (Fin (0 / 1)) :: (Fin (27 / 4)) :: (Fin (45 / 1)) :: nil)) (80 / 1).
Proof. apply (A21_rio_fin _ (7303775102731699 / 18014398509481984)); [reflexivity | apply (A21_q_hi 7303775102731699 18014398509481984 80 1); [vm_compute; reflexivity | unfold fr, ctol, A21_hi, A21_c, A21_e; interval with (i_prec 80)]]. Qed.
Lemma d_A21_713r : rio_reads A21_c A21_e A21_lo A21_hi floor_volts ctol (Build_rio (Fin (7303775102731701 / 18014398509481984)) (Fin (5 / 1)) (Fin (3715469692580659 / 1125899906842624)) (Fin (6 / 1)) (Fin (12 / 1)) true false true ((Fin (0 / 1)) :: (Fin (0 / 1)) :: (Fin (0 / 1)) :: (Fin (0 / 1)) :: (Fin (27 / 4)) :: (Fin (45 / 1)) :: nil)) (5629499534213119 / 70368744177664).
Proof. apply (A21_rio_fin _ (7303775102731701 / 18014398509481984)); [reflexivity | apply (A21_q_mid 7303775102731701 18014398509481984 5629499534213119 70368744177664); [vm_compute; reflexivity | unfold fr, close, ctol, A21_c, A21_e; interval with (i_prec 80)]]. Qed.
Lemma d_A21_721r : rio_reads A21_c A21_e A21_lo A21_hi floor_volts ctol (Build_rio (Fin (2489100355631953 / 1125899906842624)) (Fin (5 / 1)) (Fin (3715469692580659 / 1125899906842624)) (Fin (6 / 1)) (Fin (12 / 1)) true true true ((Fin (0 / 1)) :: (Fin (0 / 1)) :: (Fin (0 / 1)) :: (Fin (180 / 1)) :: (Fin (27 / 4)) :: (Fin (45 / 1)) :: nil)) (10 / 1).
Proof. apply (A21_rio_fin _ (2489100355631953 / 1125899906842624)); [reflexivity | apply (A21_q_lo 2489100355631953 1125899906842624 10 1); [vm_compute; reflexivity | unfold fr, ctol, A21_lo, A21_c, A21_e; interval with (i_prec 80)]]. Qed.
Lemma d_A21_732r : rio_reads A21_c A21_e A21_lo A21_hi floor_volts ctol (Build_rio (Fin (8931283793487771 / 9007199254740992)) (Fin (661 / 128)) (Fin (2743 / 1024)) (Fin (6 / 1)) (Fin (12 / 1)) true true true ((Fin (459 / 512)) :: (Fin (65 / 512)) :: (Fin (1865 / 1024)) :: (Fin (7723 / 128)) :: (Fin (3677 / 512)) :: (Fin (48221 / 1024)) :: nil)) (3761193550072275 / 140737488355328).
Proof. apply (A21_rio_fin _ (8931283793487771 / 9007199254740992)); [reflexivity | apply (A21_q_mid 8931283793487771 9007199254740992 3761193550072275 140737488355328); [vm_compute; reflexivity | unfold fr, close, ctol, A21_c, A21_e; interval with (i_prec 80)]]. Qed.
Lemma d_A21_745u : close ctol (2671368452443465 / 4503599627370496) (volts_A21 (3530837339185071 / 70368744177664)).
Proof. apply (A21_q_volts_mid 3530837339185071 70368744177664 2671368452443465 4503599627370496); [vm_compute; reflexivity | unfold fr, close, ctol, A21_lo, A21_hi, A21_c, A21_e; interval with (i_prec 80)]. Qed.
Lemma d_A21_758u : close ctol (5359853538404605 / 9007199254740992) (volts_A21 (3517018335535397 / 70368744177664)).
Proof. apply (A21_q_volts_mid 3517018335535397 70368744177664 5359853538404605 9007199254740992); [vm_compute; reflexivity | unfold fr, close, ctol, A21_lo, A21_hi, A21_c, A21_e; interval with (i_prec 80)]. Qed.
Lemma d_A21_771u : close ctol (7303775102731699 / 18014398509481984) (volts_A21 (6683408637488185 / 35184372088832)).
Proof. apply (A21_q_volts_hi 6683408637488185 35184372088832 7303775102731699 18014398509481984); [vm_compute; reflexivity | unfold fr, close, ctol, A21_lo, A21_hi, A21_c, A21_e; interval with (i_prec 80)]. Qed.
Lemma d_A21_784u : close ctol (2489100355631953 / 1125899906842624) (volts_A21 (1088714296808819 / 140737488355328)).
Proof. apply (A21_q_volts_lo 1088714296808819 140737488355328 2489100355631953 1125899906842624); [vm_compute; reflexivity | unfold fr, close, ctol, A21_lo, A21_hi, A21_c, A21_e; interval with (i_prec 80)]. Qed.
Lemma d_A21_796r : rio_reads A21_c A21_e A21_lo A21_hi floor_volts ctol (Build_rio (Fin (7456171602330719 / 18014398509481984)) (Fin (5 / 1)) (Fin (827 / 256)) (Fin (6 / 1)) (Fin (1345 / 128)) true true true ((Fin (803 / 512)) :: (Fin (563 / 1024)) :: (Fin (991 / 512)) :: (Fin (49545 / 1024)) :: (Fin (279 / 64)) :: (Fin (90515 / 1024)) :: nil)) (5488762045857793 / 70368744177664).
Proof. apply (A21_rio_fin _ (7456171602330719 / 18014398509481984)); [reflexivity | apply (A21_q_mid 7456171602330719 18014398509481984 5488762045857793 70368744177664); [vm_compute; reflexivity | unfold fr, close, ctol, A21_c, A21_e; interval with (i_prec 80)]]. Qed.
Lemma d_A21_809u : close ctol (2489100355631953 / 1125899906842624) (volts_A21 (5063038441788415 / 562949953421312)).
Proof. apply (A21_q_volts_lo 5063038441788415 562949953421312 2489100355631953 1125899906842624); [vm_compute; reflexivity | unfold fr, close, ctol, A21_lo, A21_hi, A21_c, A21_e; interval with (i_prec 80)]. Qed.
Lemma d_A21_822u : close ctol (8853259239636115 / 18014398509481984) (volts_A21 (8893247632774757 / 140737488355328)).
Proof. apply (A21_q_volts_mid 8893247632774757 140737488355328 8853259239636115 18014398509481984); [vm_compute; reflexivity | unfold fr, close, ctol, A21_lo, A21_hi, A21_c, A21_e; interval with (i_prec 80)]. Qed.
Lemma d_A21_835u : close ctol (2856258114823239 / 4503599627370496) (volts_A21 (3252712401143039 / 70368744177664)).
Proof. apply (A21_q_volts_mid 3252712401143039 70368744177664 2856258114823239 4503599627370496); [vm_compute; reflexivity | unfold fr, close, ctol, A21_lo, A21_hi, A21_c, A21_e; interval with (i_prec 80)]. Qed.
Lemma d_A21_848u : close ctol (2489100355631953 / 1125899906842624) (volts_A21 (3415370136343353 / 562949953421312)).
Proof. apply (A21_q_volts_lo 3415370136343353 562949953421312 2489100355631953 1125899906842624); [vm_compute; reflexivity | unfold fr, close, ctol, A21_lo, A21_hi, A21_c, A21_e; interval with (i_prec 80)]. Qed.
Lemma d_A21_860r : rio_reads A21_c A21_e A21_lo A21_hi floor_volts ctol (Build_rio (Fin (2143897703883521 / 2251799813685248)) (Fin (5 / 1)) (Fin (100000000000000001097906362944045541740492309677311846336810682903157585404911491537163328978494688899061249669721172515611590283743140088328307009198146046031271664502933027185697489699588559043338384466165001178426897626212945177628091195786707458122783970171784415105291802893207873272974885715430223118336 / 1)) (Fin (2999 / 512)) (Fin ((-1) / 1)) true true true ((Fin (1471 / 1024)) :: (Fin (1021 / 1024)) :: (Fin (1389 / 512)) :: (Fin (46073 / 512)) :: (Fin (1731 / 512)) :: (Fin (79553 / 1024)) :: nil)) (3953341989104231 / 140737488355328).
Proof. apply (A21_rio_fin _ (2143897703883521 / 2251799813685248)); [reflexivity | apply (A21_q_mid 2143897703883521 2251799813685248 3953341989104231 140737488355328); [vm_compute; reflexivity | unfold fr, close, ctol, A21_c, A21_e; interval with (i_prec 80)]]. Qed.
Lemma d_A21_873u : close ctol (2489100355631953 / 1125899906842624) (volts_A21 (6876860571694309 / 4503599627370496)).
Proof. apply (A21_q_volts_lo 6876860571694309 4503599627370496 2489100355631953 1125899906842624); [vm_compute; reflexivity | unfold fr, close, ctol, A21_lo, A21_hi, A21_c, A21_e; interval with (i_prec 80)]. Qed.
Lemma d_A21_886u : close ctol (8857737486760121 / 9007199254740992) (volts_A21 (3799516649978275 / 140737488355328)).
Proof. apply (A21_q_volts_mid 3799516649978275 140737488355328 8857737486760121 9007199254740992); [vm_compute; reflexivity | unfold fr, close, ctol, A21_lo, A21_hi, A21_c, A21_e; interval with (i_prec 80)]. Qed.
Lemma d_A21_899u : close ctol (2489100355631953 / 1125899906842624) (volts_A21 (5124394658847159 / 562949953421312)).
Proof. apply (A21_q_volts_lo 5124394658847159 562949953421312 2489100355631953 1125899906842624); [vm_compute; reflexivity | unfold fr, close, ctol, A21_lo, A21_hi, A21_c, A21_e; interval with (i_prec 80)]. Qed.
Lemma d_A21_912u : close ctol (1079732650940125 / 2251799813685248) (volts_A21 (4582947291613791 / 70368744177664)).
Proof. apply (A21_q_volts_mid 4582947291613791 70368744177664 1079732650940125 2251799813685248); [vm_compute; reflexivity | unfold fr, close, ctol, A21_lo, A21_hi, A21_c, A21_e; interval with (i_prec 80)]. Qed.
Lemma d_A21_924r : rio_reads A21_c A21_e A21_lo A21_hi floor_volts ctol (Build_rio (Fin (751839421266397 / 1125899906842624)) (Fin (4923 / 1024)) (Fin (2977 / 1024)) (Fin (1291 / 256)) (Fin (12973 / 1024)) true true true ((Fin (11 / 256)) :: (Fin (443 / 256)) :: (Fin (1 / 1)) :: (Fin (124145 / 1024)) :: (Fin (889 / 256)) :: (Fin (96985 / 1024)) :: nil)) (3053503533345017 / 70368744177664).
Proof. apply (A21_rio_fin _ (751839421266397 / 1125899906842624)); [reflexivity | apply (A21_q_mid 751839421266397 1125899906842624 3053503533345017 70368744177664); [vm_compute; reflexivity | unfold fr, close, ctol, A21_c, A21_e; interval with (i_prec 80)]]. Qed.
Lemma d_A21_937u : close ctol (2988215082929637 / 4503599627370496) (volts_A21 (3077502456926909 / 70368744177664)).
Proof. apply (A21_q_volts_mid 3077502456926909 70368744177664 2988215082929637 4503599627370496); [vm_compute; reflexivity | unfold fr, close, ctol, A21_lo, A21_hi, A21_c, A21_e; interval with (i_prec 80)]. Qed.
Lemma d_A21_950u : close ctol (2433150077389997 / 2251799813685248) (volts_A21 (3385146696883685 / 140737488355328)).
Proof. apply (A21_q_volts_mid 3385146696883685 140737488355328 2433150077389997 2251799813685248); [vm_compute; reflexivity | unfold fr, close, ctol, A21_lo, A21_hi, A21_c, A21_e; interval with (i_prec 80)]. Qed.
Lemma d_A21_963u : close ctol (7420263938592347 / 9007199254740992) (volts_A21 (295047542140691 / 8796093022208)).
Proof. apply (A21_q_volts_mid 295047542140691 8796093022208 7420263938592347 9007199254740992); [vm_compute; reflexivity | unfold fr, close, ctol, A21_lo, A21_hi, A21_c, A21_e; interval with (i_prec 80)]. Qed.
Lemma d_A21_976u : close ctol (6136137759480309 / 9007199254740992) (volts_A21 (5959182926959265 / 140737488355328)).
Proof. apply (A21_q_volts_mid 5959182926959265 140737488355328 6136137759480309 9007199254740992); [vm_compute; reflexivity | unfold fr, close, ctol, A21_lo, A21_hi, A21_c, A21_e; interval with (i_prec 80)]. Qed.
Lemma d_A21_988r : rio_reads A21_c A21_e A21_lo A21_hi floor_volts ctol (Build_rio (Fin (3816870095684357 / 9007199254740992)) (Fin (4835 / 1024)) (Fin (3581 / 1024)) (Fin (5047 / 1024)) (Fin (12997 / 1024)) true false true ((Fin (2517 / 1024)) :: (Fin (1353 / 1024)) :: (Fin (149 / 128)) :: (Fin (9445 / 128)) :: (Fin (2175 / 256)) :: (Fin (49657 / 1024)) :: nil)) (2666323698305995 / 35184372088832).
Proof. apply (A21_rio_fin _ (3816870095684357 / 9007199254740992)); [reflexivity | apply (A21_q_mid 3816870095684357 9007199254740992 2666323698305995 35184372088832); [vm_compute; reflexivity | unfold fr, close, ctol, A21_c, A21_e; interval with (i_prec 80)]]. Qed.
Lemma d_A21_1001u : close ctol (8763170010338339 / 18014398509481984) (volts_A21 (9005466371165189 / 140737488355328)).
Proof. apply (A21_q_volts_mid 9005466371165189 140737488355328 8763170010338339 18014398509481984); [vm_compute; reflexivity | unfold fr, close, ctol, A21_lo, A21_hi, A21_c, A21_e; interval with (i_prec 80)]. Qed.
Lemma d_A21_1014u : close ctol (1056604810725907 / 2251799813685248) (volts_A21 (588279549854865 / 8796093022208)).
Proof. apply (A21_q_volts_mid 588279549854865 8796093022208 1056604810725907 2251799813685248); [vm_compute; reflexivity | unfold fr, close, ctol, A21_lo, A21_hi, A21_c, A21_e; interval with (i_prec 80)]. Qed.
Lemma d_A21_1027u : close ctol (617702696487267 / 1125899906842624) (volts_A21 (3885367720953037 / 70368744177664)).
Proof. apply (A21_q_volts_mid 3885367720953037 70368744177664 617702696487267 1125899906842624); [vm_compute; reflexivity | unfold fr, close, ctol, A21_lo, A21_hi, A21_c, A21_e; interval with (i_prec 80)]. Qed.
Lemma d_A21_1040u : close ctol (1895154168156535 / 2251799813685248) (volts_A21 (1149657185912693 / 35184372088832)).
Proof. apply (A21_q_volts_mid 1149657185912693 35184372088832 1895154168156535 2251799813685248); [vm_compute; reflexivity | unfold fr, close, ctol, A21_lo, A21_hi, A21_c, A21_e; interval with (i_prec 80)]. Qed.
Lemma d_A21_1052r : rio_reads A21_c A21_e A21_lo A21_hi floor_volts ctol (Build_rio (Fin (2398588840927127 / 4503599627370496)) NInf (Fin (2909 / 1024)) (Fin (3169 / 512)) (Fin (4579 / 1024)) true false true ((Fin (421 / 1024)) :: (Fin (71 / 128)) :: (Fin (159 / 256)) :: (Fin (112739 / 1024)) :: (Fin (127 / 32)) :: (Fin (44267 / 512)) :: nil)) (4029280658029335 / 70368744177664).
Proof. apply (A21_rio_fin _ (2398588840927127 / 4503599627370496)); [reflexivity | apply (A21_q_mid 2398588840927127 4503599627370496 4029280658029335 70368744177664); [vm_compute; reflexivity | unfold fr, close, ctol, A21_c, A21_e; interval with (i_prec 80)]]. Qed.
Lemma d_A21_1065u : close ctol (8256240524470661 / 18014398509481984) (volts_A21 (1210998915405333 / 17592186044416)).
Proof. apply (A21_q_volts_mid 1210998915405333 17592186044416 8256240524470661 18014398509481984); [vm_compute; reflexivity | unfold fr, close, ctol, A21_lo, A21_hi, A21_c, A21_e; interval with (i_prec 80)]. Qed.
Lemma d_A21_1078u : close ctol (8910369634986225 / 9007199254740992) (volts_A21 (1886009873598355 / 70368744177664)).
Proof. apply (A21_q_volts_mid 1886009873598355 70368744177664 8910369634986225 9007199254740992); [vm_compute; reflexivity | unfold fr, close, ctol, A21_lo, A21_hi, A21_c, A21_e; interval with (i_prec 80)]. Qed.
Lemma d_A21_1091u : close ctol (2778396405279023 / 4503599627370496) (volts_A21 (3364818485167473 / 70368744177664)).
Proof. apply (A21_q_volts_mid 3364818485167473 70368744177664 2778396405279023 4503599627370496); [vm_compute; reflexivity | unfold fr, close, ctol, A21_lo, A21_hi, A21_c, A21_e; interval with (i_prec 80)]. Qed.
Lemma d_A21_1104u : close ctol (7325557112830051 / 9007199254740992) (volts_A21 (2397846996773647 / 70368744177664)).
Proof. apply (A21_q_volts_mid 2397846996773647 70368744177664 7325557112830051 9007199254740992); [vm_compute; reflexivity | unfold fr, close, ctol, A21_lo, A21_hi, A21_c, A21_e; interval with (i_prec 80)]. Qed.
Lemma d_A21_1116r : rio_reads A21_c A21_e A21_lo A21_hi floor_volts ctol (Build_rio (Fin (507298535489909 / 562949953421312)) (Fin (5037 / 1024)) (Fin (825 / 256)) (Fin (6 / 1)) (Fin (12 / 1)) false true true ((Fin (81 / 256)) :: (Fin (1215 / 1024)) :: (Fin (1225 / 512)) :: (Fin (38373 / 256)) :: (Fin (8955 / 1024)) :: (Fin (42333 / 1024)) :: nil)) (8458080688151307 / 281474976710656).
Proof. apply (A21_rio_fin _ (507298535489909 / 562949953421312)); [reflexivity | apply (A21_q_mid 507298535489909 562949953421312 8458080688151307 281474976710656); [vm_compute; reflexivity | unfold fr, close, ctol, A21_c, A21_e; interval with (i_prec 80)]]. Qed.
Lemma d_A21_1129u : close ctol (4730676697060037 / 9007199254740992) (volts_A21 (8197665320868627 / 140737488355328)).
Proof. apply (A21_q_volts_mid 8197665320868627 140737488355328 4730676697060037 9007199254740992); [vm_compute; reflexivity | unfold fr, close, ctol, A21_lo, A21_hi, A21_c, A21_e; interval with (i_prec 80)]. Qed.
Lemma d_A21_1142u : close ctol (2893320319890793 / 4503599627370496) (volts_A21 (1600852118560709 / 35184372088832)).
Proof. apply (A21_q_volts_mid 1600852118560709 35184372088832 2893320319890793 4503599627370496); [vm_compute; reflexivity | unfold fr, close, ctol, A21_lo, A21_hi, A21_c, A21_e; interval with (i_prec 80)]. Qed.
Lemma d_A21_1155u : close ctol (7303775102731699 / 18014398509481984) (volts_A21 (84 / 1)).
Proof. apply (A21_q_volts_hi 84 1 7303775102731699 18014398509481984); [vm_compute; reflexivity | unfold fr, close, ctol, A21_lo, A21_hi, A21_c, A21_e; interval with (i_prec 80)]. Qed.
Lemma d_A21_1168u : close ctol (4167451146443283 / 4503599627370496) (volts_A21 (4093757207835149 / 140737488355328)).
Proof. apply (A21_q_volts_mid 4093757207835149 140737488355328 4167451146443283 4503599627370496); [vm_compute; reflexivity | unfold fr, close, ctol, A21_lo, A21_hi, A21_c, A21_e; interval with (i_prec 80)]. Qed.
Lemma d_A21_1180r : rio_reads A21_c A21_e A21_lo A21_hi floor_volts ctol (Build_rio (Fin (1874191364249753 / 4503599627370496)) (Fin (14543 / 1024)) (Fin (1685 / 512)) (Fin (1507 / 256)) (Fin (3305 / 256)) true true true ((Fin (255 / 1024)) :: (Fin (1359 / 1024)) :: (Fin (303 / 128)) :: (Fin (24617 / 1024)) :: (Fin (3575 / 512)) :: (Fin (79951 / 1024)) :: nil)) (2726173324248829 / 35184372088832).
Proof. apply (A21_rio_fin _ (1874191364249753 / 4503599627370496)); [reflexivity | apply (A21_q_mid 1874191364249753 4503599627370496 2726173324248829 35184372088832); [vm_compute; reflexivity | unfold fr, close, ctol, A21_c, A21_e; interval with (i_prec 80)]]. Qed.
Lemma d_A21_1193u : close ctol (7771799055299073 / 9007199254740992) (volts_A21 (8920653494128975 / 281474976710656)).
Proof. apply (A21_q_volts_mid 8920653494128975 281474976710656 7771799055299073 9007199254740992); [vm_compute; reflexivity | unfold fr, close, ctol, A21_lo, A21_hi, A21_c, A21_e; interval with (i_prec 80)]. Qed.
Lemma d_A21_1206u : close ctol (2489100355631953 / 1125899906842624) (volts_A21 ((-2354630459495559) / 562949953421312)).
Proof. apply (A21_q_volts_lo (-2354630459495559) 562949953421312 2489100355631953 1125899906842624); [vm_compute; reflexivity | unfold fr, close, ctol, A21_lo, A21_hi, A21_c, A21_e; interval with (i_prec 80)]. Qed.
Lemma d_A21_1219u : close ctol (2489100355631953 / 1125899906842624) (volts_A21 (7561869417550663 / 18014398509481984)).
Proof. apply (A21_q_volts_lo 7561869417550663 18014398509481984 2489100355631953 1125899906842624); [vm_compute; reflexivity | unfold fr, close, ctol, A21_lo, A21_hi, A21_c, A21_e; interval with (i_prec 80)]. Qed.
Lemma d_A21_1232u : close ctol (4829404264847699 / 4503599627370496) (volts_A21 (3416880814166255 / 140737488355328)).
Proof. apply (A21_q_volts_mid 3416880814166255 140737488355328 4829404264847699 4503599627370496); [vm_compute; reflexivity | unfold fr, close, ctol, A21_lo, A21_hi, A21_c, A21_e; interval with (i_prec 80)]. Qed.
Lemma d_A21_1244r : rio_reads A21_c A21_e A21_lo A21_hi floor_volts ctol (Build_rio (Fin (4293146210671295 / 9007199254740992)) (Fin (1107 / 256)) (Fin (3597 / 1024)) (Fin (2451 / 256)) (Fin (12 / 1)) true true true ((Fin (3 / 32)) :: (Fin (321 / 1024)) :: (Fin (1311 / 512)) :: (Fin (57609 / 1024)) :: (Fin (6353 / 1024)) :: (Fin (55119 / 1024)) :: nil)) (2308357856355303 / 35184372088832).
Proof. apply (A21_rio_fin _ (4293146210671295 / 9007199254740992)); [reflexivity | apply (A21_q_mid 4293146210671295 9007199254740992 2308357856355303 35184372088832); [vm_compute; reflexivity | unfold fr, close, ctol, A21_c, A21_e; interval with (i_prec 80)]]. Qed.
Lemma d_A21_1257u : close ctol (7303775102731699 / 18014398509481984) (volts_A21 (7337660275309319 / 35184372088832)).
Proof. apply (A21_q_volts_hi 7337660275309319 35184372088832 7303775102731699 18014398509481984); [vm_compute; reflexivity | unfold fr, close, ctol, A21_lo, A21_hi, A21_c, A21_e; interval with (i_prec 80)]. Qed.
Lemma d_A21_1270u : close ctol (7303775102731699 / 18014398509481984) (volts_A21 (3919773064716233 / 17592186044416)).
Proof. apply (A21_q_volts_hi 3919773064716233 17592186044416 7303775102731699 18014398509481984); [vm_compute; reflexivity | unfold fr, close, ctol, A21_lo, A21_hi, A21_c, A21_e; interval with (i_prec 80)]. Qed.
Lemma d_A21_1283u : close ctol (2489100355631953 / 1125899906842624) (volts_A21 (4745145564688715 / 2305843009213693952)).
Proof. apply (A21_q_volts_lo 4745145564688715 2305843009213693952 2489100355631953 1125899906842624); [vm_compute; reflexivity | unfold fr, close, ctol, A21_lo, A21_hi, A21_c, A21_e; interval with (i_prec 80)]. Qed.
Lemma d_A21_1296u : close ctol (3182185371814683 / 4503599627370496) (volts_A21 (1424563828020111 / 35184372088832)).
Proof. apply (A21_q_volts_mid 1424563828020111 35184372088832 3182185371814683 4503599627370496); [vm_compute; reflexivity | unfold fr, close, ctol, A21_lo, A21_hi, A21_c, A21_e; interval with (i_prec 80)]. Qed.
Lemma d_A21_1308r : rio_reads A21_c A21_e A21_lo A21_hi floor_volts ctol (Build_rio (Fin (7303775102731699 / 18014398509481984)) (Fin (4541 / 1024)) (Fin (3715469692580659 / 1125899906842624)) (Fin (2161 / 256)) (Fin (6171 / 512)) true true false ((Fin (1879 / 1024)) :: (Fin (1559 / 1024)) :: (Fin (3049 / 1024)) :: (Fin (28785 / 512)) :: (Fin (4503 / 512)) :: (Fin ((-6607) / 1024)) :: nil)) (80 / 1).
Proof. apply (A21_rio_fin _ (7303775102731699 / 18014398509481984)); [reflexivity | apply (A21_q_hi 7303775102731699 18014398509481984 80 1); [vm_compute; reflexivity | unfold fr, ctol, A21_hi, A21_c, A21_e; interval with (i_prec 80)]]. Qed.
Lemma d_A21_1321u : close ctol (6031937763610667 / 9007199254740992) (volts_A21 (6085636536230265 / 140737488355328)).
Proof. apply (A21_q_volts_mid 6085636536230265 140737488355328 6031937763610667 9007199254740992); [vm_compute; reflexivity | unfold fr, close, ctol, A21_lo, A21_hi, A21_c, A21_e; interval with (i_prec 80)]. Qed.
Lemma r_A41_849 : rio_reads A41_c A41_e A41_lo A41_hi floor_volts ctol (Build_rio (Fin (8106479329266893 / 18014398509481984)) (Fin (5 / 1)) (Fin (3715469692580659 / 1125899906842624)) (Fin (6 / 1)) (Fin (12 / 1)) true true true ((Fin (0 / 1)) :: (Fin (0 / 1)) :: (Fin (0 / 1)) :: (Fin (0 / 1)) :: (Fin (27 / 4)) :: (Fin ((-40) / 1)) :: nil)) (7919337323043831 / 281474976710656).
Proof. apply (A41_rio_fin _ (8106479329266893 / 18014398509481984)); [reflexivity | apply (A41_q_mid 8106479329266893 18014398509481984 7919337323043831 281474976710656); [vm_compute; reflexivity | unfold fr, close, ctol, A41_c, A41_e; interval with (i_prec 80)]]. Qed.
Lemma r_A41_880 : rio_reads A41_c A41_e A41_lo A41_hi floor_volts ctol (Build_rio (Fin (100 / 1)) (Fin (5 / 1)) (Fin (3715469692580659 / 1125899906842624)) (Fin (6 / 1)) (Fin (3715469692580659 / 281474976710656)) true true true ((Fin (0 / 1)) :: (Fin (0 / 1)) :: (Fin (0 / 1)) :: (Fin (0 / 1)) :: (Fin (27 / 4)) :: (Fin (45 / 1)) :: nil)) (9 / 2).
Proof. apply (A41_rio_fin _ (100 / 1)); [reflexivity | apply (A41_q_lo 100 1 9 2); [vm_compute; reflexivity | unfold fr, ctol, A41_lo, A41_c, A41_e; interval with (i_prec 80)]]. Qed.
Lemma r_A41_898 : rio_reads A41_c A41_e A41_lo A41_hi floor_volts ctol (Build_rio (Fin (3273482885790249 / 1125899906842624)) (Fin (5 / 1)) (Fin (3715469692580659 / 1125899906842624)) PInf (Fin (12 / 1)) true true true ((Fin (0 / 1)) :: (Fin (0 / 1)) :: (Fin (0 / 1)) :: (Fin (0 / 1)) :: (Fin (27 / 4)) :: (Fin (45 / 1)) :: nil)) (9 / 2).
Proof. apply (A41_rio_fin _ (3273482885790249 / 1125899906842624)); [reflexivity | apply (A41_q_lo 3273482885790249 1125899906842624 9 2); [vm_compute; reflexivity | unfold fr, ctol, A41_lo, A41_c, A41_e; interval with (i_prec 80)]]. Qed.
Lemma r_A41_914 : rio_reads A41_c A41_e A41_lo A41_hi floor_volts ctol (Build_rio (Fin (5 / 2048)) (Fin (1051 / 256)) (Fin (3715469692580659 / 1125899906842624)) PInf (Fin (12 / 1)) false true false ((Fin (1197 / 512)) :: (Fin (383 / 512)) :: (Fin (2231 / 1024)) :: (Fin (107497 / 1024)) :: (Fin (5315 / 1024)) :: (Fin (12179 / 1024)) :: nil)) (35 / 1).
Proof. apply (A41_rio_fin _ (5 / 2048)); [reflexivity | apply (A41_q_hi 5 2048 35 1); [vm_compute; reflexivity | unfold fr, ctol, A41_hi, A41_c, A41_e; interval with (i_prec 80)]]. Qed.
Lemma r_A41_930 : rio_reads A41_c A41_e A41_lo A41_hi floor_volts ctol (Build_rio (Fin (5 / 16)) (Fin (3295 / 1024)) (Fin (3715469692580659 / 1125899906842624)) PInf (Fin (12 / 1)) false true true ((Fin (2147 / 1024)) :: (Fin (1715 / 1024)) :: (Fin (1623 / 1024)) :: (Fin (80419 / 1024)) :: (Fin (5433 / 1024)) :: (Fin (17451 / 256)) :: nil)) (35 / 1).
Proof. apply (A41_rio_fin _ (5 / 16)); [reflexivity | apply (A41_q_hi 5 16 35 1); [vm_compute; reflexivity | unfold fr, ctol, A41_hi, A41_c, A41_e; interval with (i_prec 80)]]. Qed.
Lemma r_A41_946 : rio_reads A41_c A41_e A41_lo A41_hi floor_volts ctol (Build_rio (Fin (5 / 8)) (Fin (4099 / 1024)) (Fin (1499 / 512)) (Fin (2583 / 512)) (Fin (6353 / 512)) true false true ((Fin (921 / 1024)) :: (Fin (143 / 256)) :: (Fin (589 / 1024)) :: (Fin (114765 / 1024)) :: (Fin (9027 / 1024)) :: (Fin (80173 / 1024)) :: nil)) (2867492501549439 / 140737488355328).
Proof. apply (A41_rio_fin _ (5 / 8)); [reflexivity | apply (A41_q_mid 5 8 2867492501549439 140737488355328); [vm_compute; reflexivity | unfold fr, close, ctol, A41_c, A41_e; interval with (i_prec 80)]]. Qed.
Lemma r_A41_962 : rio_reads A41_c A41_e A41_lo A41_hi floor_volts ctol (Build_rio (Fin (15 / 16)) (Fin (5 / 1)) (Fin (1 / 202402253307310618352495346718917307049556649764142118356901358027430339567995346891960383701437124495187077864316811911389808737385793476867013399940738509921517424276566361364466907742093216341239767678472745068562007483424692698618103355649159556340810056512358769552333414615230502532186327508646006263307707741093494784)) (Fin (6003 / 1024)) (Fin (1 / 1)) true false true ((Fin (1555 / 1024)) :: (Fin (1347 / 1024)) :: (Fin (619 / 1024)) :: (Fin (41615 / 512)) :: (Fin (3539 / 1024)) :: (Fin (19147 / 512)) :: nil)) (3850704865129425 / 281474976710656).
Proof. apply (A41_rio_fin _ (15 / 16)); [reflexivity | apply (A41_q_mid 15 16 3850704865129425 281474976710656); [vm_compute; reflexivity | unfold fr, close, ctol, A41_c, A41_e; interval with (i_prec 80)]]. Qed.
Lemma r_A41_978 : rio_reads A41_c A41_e A41_lo A41_hi floor_volts ctol (Build_rio (Fin (5 / 4)) (Fin (2807 / 512)) (Fin (1843 / 512)) (Fin (3063 / 512)) (Fin (3163 / 256)) true false false ((Fin (843 / 512)) :: (Fin (113 / 512)) :: (Fin (93 / 64)) :: (Fin (4833 / 256)) :: (Fin (3277 / 1024)) :: (Fin (56699 / 1024)) :: nil)) (2902688409791715 / 281474976710656).
Proof. apply (A41_rio_fin _ (5 / 4)); [reflexivity | apply (A41_q_mid 5 4 2902688409791715 281474976710656); [vm_compute; reflexivity | unfold fr, close, ctol, A41_c, A41_e; interval with (i_prec 80)]]. Qed.
Lemma r_A41_994 : rio_reads A41_c A41_e A41_lo A41_hi floor_volts ctol (Build_rio (Fin (25 / 16)) (Fin (681 / 128)) (Fin (3467 / 1024)) (Fin (1631 / 256)) (Fin (1 / 1)) false true true ((Fin (27 / 16)) :: (Fin (773 / 1024)) :: (Fin (2325 / 1024)) :: (Fin (38771 / 256)) :: (Fin (2967 / 512)) :: (Fin ((-5705) / 1024)) :: nil)) (2331288503700723 / 281474976710656).
Proof. apply (A41_rio_fin _ (25 / 16)); [reflexivity | apply (A41_q_mid 25 16 2331288503700723 281474976710656); [vm_compute; reflexivity | unfold fr, close, ctol, A41_c, A41_e; interval with (i_prec 80)]]. Qed.
Lemma r_A41_1010 : rio_reads A41_c A41_e A41_lo A41_hi floor_volts ctol (Build_rio (Fin (15 / 8)) (Fin (5 / 1)) PInf (Fin (2701 / 512)) (Fin (12497 / 1024)) true true false ((Fin (1329 / 1024)) :: (Fin (285 / 512)) :: (Fin (341 / 128)) :: (Fin (20979 / 512)) :: (Fin (2973 / 512)) :: (Fin (97311 / 1024)) :: nil)) (3897968826596787 / 562949953421312).
Proof. apply (A41_rio_fin _ (15 / 8)); [reflexivity | apply (A41_q_mid 15 8 3897968826596787 562949953421312); [vm_compute; reflexivity | unfold fr, close, ctol, A41_c, A41_e; interval with (i_prec 80)]]. Qed.
Lemma r_A41_1026 : rio_reads A41_c A41_e A41_lo A41_hi floor_volts ctol (Build_rio (Fin (35 / 16)) (Fin (2103 / 512)) (Fin (3007 / 1024)) (Fin (6299 / 1024)) (Fin (2765 / 256)) true false true ((Fin (2745 / 1024)) :: (Fin (317 / 512)) :: (Fin (281 / 128)) :: (Fin (82817 / 1024)) :: (Fin (4513 / 512)) :: (Fin (90813 / 1024)) :: nil)) (6700386132612979 / 1125899906842624).
Proof. apply (A41_rio_fin _ (35 / 16)); [reflexivity | apply (A41_q_mid 35 16 6700386132612979 1125899906842624); [vm_compute; reflexivity | unfold fr, close, ctol, A41_c, A41_e; interval with (i_prec 80)]]. Qed.
Lemma r_A41_1042 : rio_reads A41_c A41_e A41_lo A41_hi floor_volts ctol (Build_rio (Fin (5 / 2)) (Fin (21 / 256)) (Fin (100000000000000001097906362944045541740492309677311846336810682903157585404911491537163328978494688899061249669721172515611590283743140088328307009198146046031271664502933027185697489699588559043338384466165001178426897626212945177628091195786707458122783970171784415105291802893207873272974885715430223118336 / 1)) (Fin (6251 / 1024)) (Fin (11857 / 1024)) true true true ((Fin (25 / 256)) :: (Fin (61 / 512)) :: (Fin (417 / 512)) :: (Fin (88281 / 512)) :: (Fin (8181 / 1024)) :: (Fin (71457 / 1024)) :: nil)) (2938316316358775 / 562949953421312).
Proof. apply (A41_rio_fin _ (5 / 2)); [reflexivity | apply (A41_q_mid 5 2 2938316316358775 562949953421312); [vm_compute; reflexivity | unfold fr, close, ctol, A41_c, A41_e; interval with (i_prec 80)]]. Qed.
Lemma r_A41_1058 : rio_reads A41_c A41_e A41_lo A41_hi floor_volts ctol (Build_rio (Fin (45 / 16)) (Fin (2759 / 512)) (Fin (2725 / 1024)) (Fin (3007 / 512)) (Fin (9999 / 1024)) false false true ((Fin (499 / 512)) :: (Fin (1117 / 1024)) :: (Fin (1539 / 1024)) :: (Fin (8795 / 1024)) :: (Fin (3703 / 1024)) :: (Fin ((-867) / 512)) :: nil)) (2617256630416387 / 562949953421312).
Proof. apply (A41_rio_fin _ (45 / 16)); [reflexivity | apply (A41_q_mid 45 16 2617256630416387 562949953421312); [vm_compute; reflexivity | unfold fr, close, ctol, A41_c, A41_e; interval with (i_prec 80)]]. Qed.
Lemma r_A41_1074 : rio_reads A41_c A41_e A41_lo A41_hi floor_volts ctol (Build_rio (Fin (805 / 256)) NInf (Fin (4827 / 512)) (Fin (1 / 1)) (Fin (5173 / 512)) true true false ((Fin (399 / 512)) :: (Fin (467 / 1024)) :: (Fin (283 / 1024)) :: (Fin (18995 / 512)) :: (Fin (3673 / 1024)) :: (Fin ((-16179) / 1024)) :: nil)) (9 / 2).
Proof. apply (A41_rio_fin _ (805 / 256)); [reflexivity | apply (A41_q_lo 805 256 9 2); [vm_compute; reflexivity | unfold fr, ctol, A41_lo, A41_c, A41_e; interval with (i_prec 80)]]. Qed.
Lemma r_A41_1090 : rio_reads A41_c A41_e A41_lo A41_hi floor_volts ctol (Build_rio (Fin (885 / 256)) (Fin (4435 / 1024)) (Fin (2931 / 1024)) (Fin (5902958103587057 / 590295810358705651712)) (Fin (1787 / 256)) true false true ((Fin (605 / 1024)) :: (Fin (231 / 1024)) :: (Fin (711 / 256)) :: (Fin (37589 / 1024)) :: (Fin (3249 / 1024)) :: (Fin ((-8299) / 1024)) :: nil)) (9 / 2).
Proof. apply (A41_rio_fin _ (885 / 256)); [reflexivity | apply (A41_q_lo 885 256 9 2); [vm_compute; reflexivity | unfold fr, ctol, A41_lo, A41_c, A41_e; interval with (i_prec 80)]]. Qed.
Lemma r_A41_1106 : rio_reads A41_c A41_e A41_lo A41_hi floor_volts ctol (Build_rio (Fin (965 / 256)) (Fin (609 / 128)) (Fin (201 / 64)) (Fin (3001 / 512)) (Fin (2851 / 256)) true true true ((Fin (1037 / 1024)) :: (Fin (87 / 512)) :: (Fin (247 / 256)) :: (Fin (29245 / 256)) :: (Fin (4815 / 1024)) :: (Fin (111 / 8)) :: nil)) (9 / 2).
Proof. apply (A41_rio_fin _ (965 / 256)); [reflexivity | apply (A41_q_lo 965 256 9 2); [vm_compute; reflexivity | unfold fr, ctol, A41_lo, A41_c, A41_e; interval with (i_prec 80)]]. Qed.
Lemma r_A41_1122 : rio_reads A41_c A41_e A41_lo A41_hi floor_volts ctol (Build_rio (Fin (1045 / 256)) (Fin (4677 / 1024)) (Fin (3423 / 1024)) (Fin (6601 / 1024)) (Fin (813 / 64)) true true true ((Fin (323 / 256)) :: (Fin (339 / 1024)) :: (Fin (997 / 512)) :: (Fin (12011 / 1024)) :: (Fin (201 / 32)) :: (Fin (90759 / 1024)) :: nil)) (9 / 2).
Proof. apply (A41_rio_fin _ (1045 / 256)); [reflexivity | apply (A41_q_lo 1045 256 9 2); [vm_compute; reflexivity | unfold fr, ctol, A41_lo, A41_c, A41_e; interval with (i_prec 80)]]. Qed.
Lemma r_A41_1138 : rio_reads A41_c A41_e A41_lo A41_hi floor_volts ctol (Build_rio (Fin (1125 / 256)) (Fin (4315 / 1024)) (Fin (10447 / 1024)) (Fin (4273 / 1024)) (Fin (12 / 1)) false false true ((Fin (745 / 512)) :: (Fin (507 / 256)) :: (Fin (1317 / 512)) :: (Fin (48995 / 256)) :: (Fin (3243 / 1024)) :: (Fin (28845 / 512)) :: nil)) (9 / 2).
Proof. apply (A41_rio_fin _ (1125 / 256)); [reflexivity | apply (A41_q_lo 1125 256 9 2); [vm_compute; reflexivity | unfold fr, ctol, A41_lo, A41_c, A41_e; interval with (i_prec 80)]]. Qed.
Lemma r_A41_1154 : rio_reads A41_c A41_e A41_lo A41_hi floor_volts ctol (Build_rio (Fin (1205 / 256)) (Fin (4751 / 1024)) (Fin (3251 / 1024)) (Fin (5902958103587057 / 590295810358705651712)) (Fin (12 / 1)) true true true ((Fin (25 / 256)) :: (Fin (1065 / 1024)) :: (Fin (2199 / 1024)) :: (Fin (25459 / 256)) :: (Fin (7621 / 1024)) :: (Fin (21915 / 512)) :: nil)) (9 / 2).
Proof. apply (A41_rio_fin _ (1205 / 256)); [reflexivity | apply (A41_q_lo 1205 256 9 2); [vm_compute; reflexivity | unfold fr, ctol, A41_lo, A41_c, A41_e; interval with (i_prec 80)]]. Qed.
Lemma r_A41_1170 : rio_reads A41_c A41_e A41_lo A41_hi floor_volts ctol (Build_rio (Fin (5238319809913451 / 1125899906842624)) (Fin (1351 / 128)) (Fin (2861 / 512)) (Fin (203 / 32)) (Fin (12 / 1)) true false true ((Fin (2653 / 1024)) :: (Fin (77 / 64)) :: (Fin (1225 / 1024)) :: (Fin (36063 / 1024)) :: (Fin (2923 / 512)) :: (Fin ((-18957) / 1024)) :: nil)) (9 / 2).
Proof. apply (A41_rio_fin _ (5238319809913451 / 1125899906842624)); [reflexivity | apply (A41_q_lo 5238319809913451 1125899906842624 9 2); [vm_compute; reflexivity | unfold fr, ctol, A41_lo, A41_c, A41_e; interval with (i_prec 80)]]. Qed.
Lemma r_A41_1186 : rio_reads A41_c A41_e A41_lo A41_hi floor_volts ctol (Build_rio (Fin (6384629483399395 / 9007199254740992)) (Fin (5 / 1)) (Fin (0 / 1)) (Fin (3013 / 512)) PInf true true false ((Fin (3047 / 1024)) :: (Fin (247 / 256)) :: (Fin (91 / 128)) :: (Fin (13893 / 1024)) :: (Fin (7551 / 1024)) :: (Fin (25915 / 512)) :: nil)) (1266976336911979 / 70368744177664).
Proof. apply (A41_rio_fin _ (6384629483399395 / 9007199254740992)); [reflexivity | apply (A41_q_mid 6384629483399395 9007199254740992 1266976336911979 70368744177664); [vm_compute; reflexivity | unfold fr, close, ctol, A41_c, A41_e; interval with (i_prec 80)]]. Qed.
Lemma r_A41_1202 : rio_reads A41_c A41_e A41_lo A41_hi floor_volts ctol (Build_rio (Fin (7606594198319595 / 2251799813685248)) (Fin (2481 / 512)) (Fin (3537 / 1024)) (Fin (359 / 256)) (Fin (7433 / 512)) false true false ((Fin (905 / 1024)) :: (Fin (951 / 512)) :: (Fin (121 / 256)) :: (Fin (155669 / 1024)) :: (Fin (5587 / 1024)) :: (Fin (44631 / 512)) :: nil)) (9 / 2).
Proof. apply (A41_rio_fin _ (7606594198319595 / 2251799813685248)); [reflexivity | apply (A41_q_lo 7606594198319595 2251799813685248 9 2); [vm_compute; reflexivity | unfold fr, ctol, A41_lo, A41_c, A41_e; interval with (i_prec 80)]]. Qed.
Lemma r_A41_1218 : rio_reads A41_c A41_e A41_lo A41_hi floor_volts ctol (Build_rio (Fin (1189456681692717 / 562949953421312)) (Fin (5 / 1)) (Fin (203 / 64)) (Fin (6677 / 1024)) (Fin (3015 / 256)) false false true ((Fin (1485 / 1024)) :: (Fin (13 / 1024)) :: (Fin (911 / 512)) :: (Fin (8713 / 64)) :: (Fin (7983 / 1024)) :: (Fin (11547 / 512)) :: nil)) (1733180684959125 / 281474976710656).
Proof. apply (A41_rio_fin _ (1189456681692717 / 562949953421312)); [reflexivity | apply (A41_q_mid 1189456681692717 562949953421312 1733180684959125 281474976710656); [vm_compute; reflexivity | unfold fr, close, ctol, A41_c, A41_e; interval with (i_prec 80)]]. Qed.
Lemma r_A41_1237 : rio_reads A41_c A41_e A41_lo A41_hi floor_volts ctol (Build_rio (Fin (3469973315450559 / 35184372088832)) (Fin (5 / 1)) (Fin (3715469692580659 / 1125899906842624)) (Fin (6 / 1)) (Fin (12 / 1)) true true true ((Fin (0 / 1)) :: (Fin (0 / 1)) :: (Fin (0 / 1)) :: (Fin (0 / 1)) :: (Fin (27 / 4)) :: (Fin (45 / 1)) :: nil)) (9 / 2).
Proof. apply (A41_rio_fin _ (3469973315450559 / 35184372088832)); [reflexivity | apply (A41_q_lo 3469973315450559 35184372088832 9 2); [vm_compute; reflexivity | unfold fr, ctol, A41_lo, A41_c, A41_e; interval with (i_prec 80)]]. Qed.
Lemma r_A41_1258 : rio_reads A41_c A41_e A41_lo A41_hi floor_volts ctol (Build_rio (Fin (3180001389474151 / 4611686018427387904)) (Fin (5 / 1)) (Fin (3715469692580659 / 1125899906842624)) (Fin (7277 / 1024)) (Fin (12 / 1)) true false true ((Fin (1415 / 1024)) :: (Fin (1443 / 1024)) :: (Fin (2113 / 1024)) :: (Fin (30029 / 1024)) :: (Fin (6687 / 1024)) :: (Fin ((-9903) / 1024)) :: nil)) (35 / 1).
Proof. apply (A41_rio_fin _ (3180001389474151 / 4611686018427387904)); [reflexivity | apply (A41_q_hi 3180001389474151 4611686018427387904 35 1); [vm_compute; reflexivity | unfold fr, ctol, A41_hi, A41_c, A41_e; interval with (i_prec 80)]]. Qed.
Lemma d_A41_1337u : close ctol (6491044311201869 / 18014398509481984) (volts_A41 (50 / 1)).
Proof. apply (A41_q_volts_hi 50 1 6491044311201869 18014398509481984); [vm_compute; reflexivity | unfold fr, close, ctol, A41_lo, A41_hi, A41_c, A41_e; interval with (i_prec 80)]. Qed.
Lemma d_A41_1345u : close ctol (5088711070971125 / 9007199254740992) (volts_A41 (45 / 2)).
Proof. apply (A41_q_volts_mid 45 2 5088711070971125 9007199254740992); [vm_compute; reflexivity | unfold fr, close, ctol, A41_lo, A41_hi, A41_c, A41_e; interval with (i_prec 80)]. Qed.
Lemma d_A41_1353u : close ctol (1636741441258383 / 562949953421312) (volts_A41 (0 / 1)).
Proof. apply (A41_q_volts_lo 0 1 1636741441258383 562949953421312); [vm_compute; reflexivity | unfold fr, close, ctol, A41_lo, A41_hi, A41_c, A41_e; interval with (i_prec 80)]. Qed.
Lemma d_A41_1361u : close ctol (5881157630324709 / 2251799813685248) (volts_A41 (5 / 1)).
Proof. apply (A41_q_volts_mid 5 1 5881157630324709 2251799813685248); [vm_compute; reflexivity | unfold fr, close, ctol, A41_lo, A41_hi, A41_c, A41_e; interval with (i_prec 80)]. Qed.
Lemma d_A41_1369u : close ctol (6491044311201869 / 18014398509481984) (volts_A41 (1000 / 1)).
Proof. apply (A41_q_volts_hi 1000 1 6491044311201869 18014398509481984); [vm_compute; reflexivity | unfold fr, close, ctol, A41_lo, A41_hi, A41_c, A41_e; interval with (i_prec 80)]. Qed.
Lemma d_A41_1377u : close ctol (1636741441258383 / 562949953421312) (volts_A41 (5066549580791807 / 1125899906842624)).
Proof. apply (A41_q_volts_lo 5066549580791807 1125899906842624 1636741441258383 562949953421312); [vm_compute; reflexivity | unfold fr, close, ctol, A41_lo, A41_hi, A41_c, A41_e; interval with (i_prec 80)]. Qed.
Lemma d_A41_1385u : close ctol (6491044311201869 / 18014398509481984) (volts_A41 (35 / 1)).
Proof. apply (A41_q_volts_hi 35 1 6491044311201869 18014398509481984); [vm_compute; reflexivity | unfold fr, close, ctol, A41_lo, A41_hi, A41_c, A41_e; interval with (i_prec 80)]. Qed.
Lemma d_A41_1395u : close ctol (3795489739791913 / 4503599627370496) (volts_A41 (8551045664594597 / 562949953421312)).
Proof. apply (A41_q_volts_mid 8551045664594597 562949953421312 3795489739791913 4503599627370496); [vm_compute; reflexivity | unfold fr, close, ctol, A41_lo, A41_hi, A41_c, A41_e; interval with (i_prec 80)]. Qed.
Lemma d_A41_1408u : close ctol (6769838219965953 / 18014398509481984) (volts_A41 (2363227707027783 / 70368744177664)).
Proof. apply (A41_q_volts_mid 2363227707027783 70368744177664 6769838219965953 18014398509481984); [vm_compute; reflexivity | unfold fr, close, ctol, A41_lo, A41_hi, A41_c, A41_e; interval with (i_prec 80)]. Qed.
Lemma d_A41_1420r : rio_reads A41_c A41_e A41_lo A41_hi floor_volts ctol (Build_rio (Fin (1636741441258383 / 562949953421312)) (Fin (5 / 1)) (Fin (1367 / 512)) (Fin (2735 / 512)) (Fin (12 / 1)) true false true ((Fin (967 / 512)) :: (Fin (1171 / 1024)) :: (Fin (45 / 32)) :: (Fin (203647 / 1024)) :: (Fin (8103 / 1024)) :: (Fin (20321 / 512)) :: nil)) (9 / 2).
Proof. apply (A41_rio_fin _ (1636741441258383 / 562949953421312)); [reflexivity | apply (A41_q_lo 1636741441258383 562949953421312 9 2); [vm_compute; reflexivity | unfold fr, ctol, A41_lo, A41_c, A41_e; interval with (i_prec 80)]]. Qed.
Lemma d_A41_1433u : close ctol (4929892747047627 / 9007199254740992) (volts_A41 (3266782937863847 / 140737488355328)).
Proof. apply (A41_q_volts_mid 3266782937863847 140737488355328 4929892747047627 9007199254740992); [vm_compute; reflexivity | unfold fr, close, ctol, A41_lo, A41_hi, A41_c, A41_e; interval with (i_prec 80)]. Qed.
Lemma d_A41_1446u : close ctol (3503422560221713 / 4503599627370496) (volts_A41 (1156358488812329 / 70368744177664)).
Proof. apply (A41_q_volts_mid 1156358488812329 70368744177664 3503422560221713 4503599627370496); [vm_compute; reflexivity | unfold fr, close, ctol, A41_lo, A41_hi, A41_c, A41_e; interval with (i_prec 80)]. Qed.
Lemma d_A41_1459u : close ctol (1636741441258383 / 562949953421312) (volts_A41 (3089002913741371 / 72057594037927936)).
Proof. apply (A41_q_volts_lo 3089002913741371 72057594037927936 1636741441258383 562949953421312); [vm_compute; reflexivity | unfold fr, close, ctol, A41_lo, A41_hi, A41_c, A41_e; interval with (i_prec 80)]. Qed.
Lemma d_A41_1472u : close ctol (5377304587780209 / 9007199254740992) (volts_A41 (1499778471042943 / 70368744177664)).
Proof. apply (A41_q_volts_mid 1499778471042943 70368744177664 5377304587780209 9007199254740992); [vm_compute; reflexivity | unfold fr, close, ctol, A41_lo, A41_hi, A41_c, A41_e; interval with (i_prec 80)]. Qed.
Lemma d_A41_1484r : rio_reads A41_c A41_e A41_lo A41_hi floor_volts ctol (Build_rio (Fin (1636741441258383 / 562949953421312)) (Fin (5 / 1)) (Fin (3715469692580659 / 1125899906842624)) (Fin (6 / 1)) (Fin (12 / 1)) true true true ((Fin (0 / 1)) :: (Fin (0 / 1)) :: (Fin (0 / 1)) :: (Fin (0 / 1)) :: (Fin (27 / 4)) :: (Fin (45 / 1)) :: nil)) (9 / 2).
Proof. apply (A41_rio_fin _ (1636741441258383 / 562949953421312)); [reflexivity | apply (A41_q_lo 1636741441258383 562949953421312 9 2); [vm_compute; reflexivity | unfold fr, ctol, A41_lo, A41_c, A41_e; interval with (i_prec 80)]]. Qed.
Lemma d_A41_1497u : close ctol (1398826405029301 / 1125899906842624) (volts_A41 (5840228238434551 / 562949953421312)).
Proof. apply (A41_q_volts_mid 5840228238434551 562949953421312 1398826405029301 1125899906842624); [vm_compute; reflexivity | unfold fr, close, ctol, A41_lo, A41_hi, A41_c, A41_e; interval with (i_prec 80)]. Qed.
Lemma d_A41_1510u : close ctol (6491044311201869 / 18014398509481984) (volts_A41 (3151146084916829 / 70368744177664)).
Proof. apply (A41_q_volts_hi 3151146084916829 70368744177664 6491044311201869 18014398509481984); [vm_compute; reflexivity | unfold fr, close, ctol, A41_lo, A41_hi, A41_c, A41_e; interval with (i_prec 80)]. Qed.
Lemma d_A41_1523u : close ctol (56466663612527 / 140737488355328) (volts_A41 (4432125173705589 / 140737488355328)).
Proof. apply (A41_q_volts_mid 4432125173705589 140737488355328 56466663612527 140737488355328); [vm_compute; reflexivity | unfold fr, close, ctol, A41_lo, A41_hi, A41_c, A41_e; interval with (i_prec 80)]. Qed.
Lemma d_A41_1536u : close ctol (7147028258118763 / 18014398509481984) (volts_A41 (140040227994295 / 4398046511104)).
Proof. apply (A41_q_volts_mid 140040227994295 4398046511104 7147028258118763 18014398509481984); [vm_compute; reflexivity | unfold fr, close, ctol, A41_lo, A41_hi, A41_c, A41_e; interval with (i_prec 80)]. Qed.
Lemma d_A41_1548r : rio_reads A41_c A41_e A41_lo A41_hi floor_volts ctol (Build_rio (Fin (6491044311201869 / 18014398509481984)) (Fin (2749 / 512)) (Fin (3715469692580659 / 1125899906842624)) (Fin (6079 / 1024)) (Fin (5289 / 512)) true true true ((Fin (565 / 256)) :: (Fin (1455 / 1024)) :: (Fin (303 / 512)) :: (Fin (34929 / 256)) :: (Fin (3249 / 1024)) :: (Fin (62935 / 1024)) :: nil)) (35 / 1).
Proof. apply (A41_rio_fin _ (6491044311201869 / 18014398509481984)); [reflexivity | apply (A41_q_hi 6491044311201869 18014398509481984 35 1); [vm_compute; reflexivity | unfold fr, ctol, A41_hi, A41_c, A41_e; interval with (i_prec 80)]]. Qed.
Lemma d_A41_1561u : close ctol (3476147123215383 / 4503599627370496) (volts_A41 (1165271501117691 / 70368744177664)).
Proof. apply (A41_q_volts_mid 1165271501117691 70368744177664 3476147123215383 4503599627370496); [vm_compute; reflexivity | unfold fr, close, ctol, A41_lo, A41_hi, A41_c, A41_e; interval with (i_prec 80)]. Qed.
Lemma d_A41_1574u : close ctol (4726023498184029 / 9007199254740992) (volts_A41 (6810344114943449 / 281474976710656)).
Proof. apply (A41_q_volts_mid 6810344114943449 281474976710656 4726023498184029 9007199254740992); [vm_compute; reflexivity | unfold fr, close, ctol, A41_lo, A41_hi, A41_c, A41_e; interval with (i_prec 80)]. Qed.
Lemma d_A41_1587u : close ctol (1636741441258383 / 562949953421312) (volts_A41 (1184683648326769 / 562949953421312)).
Proof. apply (A41_q_volts_lo 1184683648326769 562949953421312 1636741441258383 562949953421312); [vm_compute; reflexivity | unfold fr, close, ctol, A41_lo, A41_hi, A41_c, A41_e; interval with (i_prec 80)]. Qed.
Lemma d_A41_1600u : close ctol (4785201456776261 / 4503599627370496) (volts_A41 (3405084986456759 / 281474976710656)).
Proof. apply (A41_q_volts_mid 3405084986456759 281474976710656 4785201456776261 4503599627370496); [vm_compute; reflexivity | unfold fr, close, ctol, A41_lo, A41_hi, A41_c, A41_e; interval with (i_prec 80)]. Qed.
Lemma d_A41_1612r : rio_reads A41_c A41_e A41_lo A41_hi floor_volts ctol (Build_rio (Fin (5248751010035503 / 9007199254740992)) (Fin (1345 / 256)) (Fin (3715469692580659 / 1125899906842624)) (Fin (6 / 1)) (Fin (12 / 1)) true true true ((Fin (1091 / 512)) :: (Fin (783 / 1024)) :: (Fin (1801 / 1024)) :: (Fin (8825 / 512)) :: (Fin (8781 / 1024)) :: (Fin (61237 / 1024)) :: nil)) (6143428663957821 / 281474976710656).
Proof. apply (A41_rio_fin _ (5248751010035503 / 9007199254740992)); [reflexivity | apply (A41_q_mid 5248751010035503 9007199254740992 6143428663957821 281474976710656); [vm_compute; reflexivity | unfold fr, close, ctol, A41_c, A41_e; interval with (i_prec 80)]]. Qed.
Lemma d_A41_1625u : close ctol (1650423811193031 / 4503599627370496) (volts_A41 (4844691666135743 / 140737488355328)).
Proof. apply (A41_q_volts_mid 4844691666135743 140737488355328 1650423811193031 4503599627370496); [vm_compute; reflexivity | unfold fr, close, ctol, A41_lo, A41_hi, A41_c, A41_e; interval with (i_prec 80)]. Qed.
Lemma d_A41_1638u : close ctol (7680498304104901 / 18014398509481984) (volts_A41 (521914240409173 / 17592186044416)).
Proof. apply (A41_q_volts_mid 521914240409173 17592186044416 7680498304104901 18014398509481984); [vm_compute; reflexivity | unfold fr, close, ctol, A41_lo, A41_hi, A41_c, A41_e; interval with (i_prec 80)]. Qed.
Lemma d_A41_1651u : close ctol (1045680543261447 / 1125899906842624) (volts_A41 (971584565204015 / 70368744177664)).
Proof. apply (A41_q_volts_mid 971584565204015 70368744177664 1045680543261447 1125899906842624); [vm_compute; reflexivity | unfold fr, close, ctol, A41_lo, A41_hi, A41_c, A41_e; interval with (i_prec 80)]. Qed.
Lemma d_A41_1664u : close ctol (1217006110378771 / 1125899906842624) (volts_A41 (6696326056215985 / 562949953421312)).
Proof. apply (A41_q_volts_mid 6696326056215985 562949953421312 1217006110378771 1125899906842624); [vm_compute; reflexivity | unfold fr, close, ctol, A41_lo, A41_hi, A41_c, A41_e; interval with (i_prec 80)]. Qed.
Lemma d_A41_1676r : rio_reads A41_c A41_e A41_lo A41_hi floor_volts ctol (Build_rio (Fin (6491044311201869 / 18014398509481984)) (Fin (5 / 1)) (Fin (3715469692580659 / 1125899906842624)) (Fin (6 / 1)) (Fin (12 / 1)) true true true ((Fin (0 / 1)) :: (Fin (0 / 1)) :: (Fin (0 / 1)) :: (Fin (0 / 1)) :: (Fin (27 / 4)) :: (Fin (45 / 1)) :: nil)) (35 / 1).
Proof. apply (A41_rio_fin _ (6491044311201869 / 18014398509481984)); [reflexivity | apply (A41_q_hi 6491044311201869 18014398509481984 35 1); [vm_compute; reflexivity | unfold fr, ctol, A41_hi, A41_c, A41_e; interval with (i_prec 80)]]. Qed.
Lemma d_A41_1689u : close ctol (6772931091154429 / 18014398509481984) (volts_A41 (1181083762003033 / 35184372088832)).
Proof. apply (A41_q_volts_mid 1181083762003033 35184372088832 6772931091154429 18014398509481984); [vm_compute; reflexivity | unfold fr, close, ctol, A41_lo, A41_hi, A41_c, A41_e; interval with (i_prec 80)]. Qed.
Lemma d_A41_1702u : close ctol (6020896318904345 / 4503599627370496) (volts_A41 (679301907896215 / 70368744177664)).
Proof. apply (A41_q_volts_mid 679301907896215 70368744177664 6020896318904345 4503599627370496); [vm_compute; reflexivity | unfold fr, close, ctol, A41_lo, A41_hi, A41_c, A41_e; interval with (i_prec 80)]. Qed.
Lemma d_A41_1715u : close ctol (8493879780543347 / 4503599627370496) (volts_A41 (3875592363107153 / 562949953421312)).
Proof. apply (A41_q_volts_mid 3875592363107153 562949953421312 8493879780543347 4503599627370496); [vm_compute; reflexivity | unfold fr, close, ctol, A41_lo, A41_hi, A41_c, A41_e; interval with (i_prec 80)]. Qed.
Lemma d_A41_1728u : close ctol (4952163656553211 / 9007199254740992) (volts_A41 (1626174766226661 / 70368744177664)).
Proof. apply (A41_q_volts_mid 1626174766226661 70368744177664 4952163656553211 9007199254740992); [vm_compute; reflexivity | unfold fr, close, ctol, A41_lo, A41_hi, A41_c, A41_e; interval with (i_prec 80)]. Qed.
Lemma d_A41_1740r : rio_reads A41_c A41_e A41_lo A41_hi floor_volts ctol (Build_rio (Fin (6491044311201869 / 18014398509481984)) (Fin (5 / 1)) (Fin (0 / 1)) (Fin (3023 / 512)) (Fin (6027 / 512)) false true true ((Fin (587 / 256)) :: (Fin (1917 / 1024)) :: (Fin (1055 / 512)) :: (Fin (101085 / 512)) :: (Fin (4603 / 512)) :: (Fin (89819 / 1024)) :: nil)) (35 / 1).
Proof. apply (A41_rio_fin _ (6491044311201869 / 18014398509481984)); [reflexivity | apply (A41_q_hi 6491044311201869 18014398509481984 35 1); [vm_compute; reflexivity | unfold fr, ctol, A41_hi, A41_c, A41_e; interval with (i_prec 80)]]. Qed.
Lemma d_A41_1753u : close ctol (1636741441258383 / 562949953421312) (volts_A41 (837214677608253 / 281474976710656)).
Proof. apply (A41_q_volts_lo 837214677608253 281474976710656 1636741441258383 562949953421312); [vm_compute; reflexivity | unfold fr, close, ctol, A41_lo, A41_hi, A41_c, A41_e; interval with (i_prec 80)]. Qed.
Lemma d_A41_1766u : close ctol (1636741441258383 / 562949953421312) (volts_A41 (8597215009730287 / 576460752303423488)).
Proof. apply (A41_q_volts_lo 8597215009730287 576460752303423488 1636741441258383 562949953421312); [vm_compute; reflexivity | unfold fr, close, ctol, A41_lo, A41_hi, A41_c, A41_e; interval with (i_prec 80)]. Qed.
Lemma d_A41_1779u : close ctol (7553666215835903 / 4503599627370496) (volts_A41 (4349003134890213 / 562949953421312)).
Proof. apply (A41_q_volts_mid 4349003134890213 562949953421312 7553666215835903 4503599627370496); [vm_compute; reflexivity | unfold fr, close, ctol, A41_lo, A41_hi, A41_c, A41_e; interval with (i_prec 80)]. Qed.
Lemma d_A41_1792u : close ctol (6491044311201869 / 18014398509481984) (volts_A41 (2875810409092751 / 35184372088832)).
Proof. apply (A41_q_volts_hi 2875810409092751 35184372088832 6491044311201869 18014398509481984); [vm_compute; reflexivity | unfold fr, close, ctol, A41_lo, A41_hi, A41_c, A41_e; interval with (i_prec 80)]. Qed.
Lemma d_A41_1804r : rio_reads A41_c A41_e A41_lo A41_hi floor_volts ctol (Build_rio (Fin (3750846365429105 / 9007199254740992)) (Fin (2325 / 512)) (Fin (2783 / 1024)) (Fin (107 / 32)) (Fin (2961 / 512)) true true true ((Fin (379 / 1024)) :: (Fin (173 / 256)) :: (Fin (527 / 1024)) :: (Fin (135833 / 1024)) :: (Fin (953 / 128)) :: (Fin (6257 / 512)) :: nil)) (8546124301991353 / 281474976710656).
Proof. apply (A41_rio_fin _ (3750846365429105 / 9007199254740992)); [reflexivity | apply (A41_q_mid 3750846365429105 9007199254740992 8546124301991353 281474976710656); [vm_compute; reflexivity | unfold fr, close, ctol, A41_c, A41_e; interval with (i_prec 80)]]. Qed.
Lemma d_A41_1817u : close ctol (7146684077418465 / 18014398509481984) (volts_A41 (4481499313892311 / 140737488355328)).
Proof. apply (A41_q_volts_mid 4481499313892311 140737488355328 7146684077418465 18014398509481984); [vm_compute; reflexivity | unfold fr, close, ctol, A41_lo, A41_hi, A41_c, A41_e; interval with (i_prec 80)]. Qed.
Lemma d_A41_1830u : close ctol (6437667335483571 / 9007199254740992) (volts_A41 (2513442193840691 / 140737488355328)).
Proof. apply (A41_q_volts_mid 2513442193840691 140737488355328 6437667335483571 9007199254740992); [vm_compute; reflexivity | unfold fr, close, ctol, A41_lo, A41_hi, A41_c, A41_e; interval with (i_prec 80)]. Qed.
Lemma d_A41_1843u : close ctol (672498176819953 / 281474976710656) (volts_A41 (6144275926960827 / 1125899906842624)).
Proof. apply (A41_q_volts_mid 6144275926960827 1125899906842624 672498176819953 281474976710656); [vm_compute; reflexivity | unfold fr, close, ctol, A41_lo, A41_hi, A41_c, A41_e; interval with (i_prec 80)]. Qed.
Lemma d_A41_1856u : close ctol (4374345621283325 / 9007199254740992) (volts_A41 (7347858463462511 / 281474976710656)).
Proof. apply (A41_q_volts_mid 7347858463462511 281474976710656 4374345621283325 9007199254740992); [vm_compute; reflexivity | unfold fr, close, ctol, A41_lo, A41_hi, A41_c, A41_e; interval with (i_prec 80)]. Qed.
Lemma d_A41_1868r : rio_reads A41_c A41_e A41_lo A41_hi floor_volts ctol (Build_rio (Fin (1636741441258383 / 562949953421312)) (Fin (5 / 1)) (Fin (3715469692580659 / 1125899906842624)) (Fin (6 / 1)) (Fin (12 / 1)) true true true ((Fin (0 / 1)) :: (Fin (0 / 1)) :: (Fin (0 / 1)) :: (Fin (0 / 1)) :: (Fin (27 / 4)) :: (Fin (45 / 1)) :: nil)) (9 / 2).
Proof. apply (A41_rio_fin _ (1636741441258383 / 562949953421312)); [reflexivity | apply (A41_q_lo 1636741441258383 562949953421312 9 2); [vm_compute; reflexivity | unfold fr, ctol, A41_lo, A41_c, A41_e; interval with (i_prec 80)]]. Qed.
Lemma d_A41_1881u : close ctol (4403577869090747 / 4503599627370496) (volts_A41 (1847384272449539 / 140737488355328)).
Proof. apply (A41_q_volts_mid 1847384272449539 140737488355328 4403577869090747 4503599627370496); [vm_compute; reflexivity | unfold fr, close, ctol, A41_lo, A41_hi, A41_c, A41_e; interval with (i_prec 80)]. Qed.
Lemma d_A41_1894u : close ctol (7467966793674869 / 18014398509481984) (volts_A41 (8584038508756023 / 281474976710656)).
Proof. apply (A41_q_volts_mid 8584038508756023 281474976710656 7467966793674869 18014398509481984); [vm_compute; reflexivity | unfold fr, close, ctol, A41_lo, A41_hi, A41_c, A41_e; interval with (i_prec 80)]. Qed.
Lemma d_A41_1907u : close ctol (6044386291600877 / 9007199254740992) (volts_A41 (19 / 1)).
Proof. apply (A41_q_volts_mid 19 1 6044386291600877 9007199254740992); [vm_compute; reflexivity | unfold fr, close, ctol, A41_lo, A41_hi, A41_c, A41_e; interval with (i_prec 80)]. Qed.
Lemma d_A41_1920u : close ctol (6491044311201869 / 18014398509481984) (volts_A41 (38 / 1)).
Proof. apply (A41_q_volts_hi 38 1 6491044311201869 18014398509481984); [vm_compute; reflexivity | unfold fr, close, ctol, A41_lo, A41_hi, A41_c, A41_e; interval with (i_prec 80)]. Qed.
Lemma d_A41_1932r : rio_reads A41_c A41_e A41_lo A41_hi floor_volts ctol (Build_rio (Fin (6491044311201869 / 18014398509481984)) (Fin (5 / 1)) (Fin (5902958103587057 / 590295810358705651712)) (Fin (6 / 1)) (Fin (13445 / 1024)) false false false ((Fin (35 / 256)) :: (Fin (25 / 256)) :: (Fin (1405 / 512)) :: (Fin (177775 / 1024)) :: (Fin (4721 / 1024)) :: (Fin (5555 / 256)) :: nil)) (35 / 1).
Proof. apply (A41_rio_fin _ (6491044311201869 / 18014398509481984)); [reflexivity | apply (A41_q_hi 6491044311201869 18014398509481984 35 1); [vm_compute; reflexivity | unfold fr, ctol, A41_hi, A41_c, A41_e; interval with (i_prec 80)]]. Qed.
Lemma d_A41_1945u : close ctol (3603787219260227 / 4503599627370496) (volts_A41 (1124713134535809 / 70368744177664)).
Proof. apply (A41_q_volts_mid 1124713134535809 70368744177664 3603787219260227 4503599627370496); [vm_compute; reflexivity | unfold fr, close, ctol, A41_lo, A41_hi, A41_c, A41_e; interval with (i_prec 80)]. Qed.
Lemma d_A41_1958u : close ctol (6491044311201869 / 18014398509481984) (volts_A41 (4107753877645201 / 70368744177664)).
Proof. apply (A41_q_volts_hi 4107753877645201 70368744177664 6491044311201869 18014398509481984); [vm_compute; reflexivity | unfold fr, close, ctol, A41_lo, A41_hi, A41_c, A41_e; interval with (i_prec 80)]. Qed.
Lemma d_A41_1971u : close ctol (3598264119550393 / 4503599627370496) (volts_A41 (2252818177340739 / 140737488355328)).
Proof. apply (A41_q_volts_mid 2252818177340739 140737488355328 3598264119550393 4503599627370496); [vm_compute; reflexivity | unfold fr, close, ctol, A41_lo, A41_hi, A41_c, A41_e; interval with (i_prec 80)]. Qed.
Lemma d_A41_1984u : close ctol (1006700777694969 / 1125899906842624) (volts_A41 (4034120305713297 / 281474976710656)).
Proof. apply (A41_q_volts_mid 4034120305713297 281474976710656 1006700777694969 1125899906842624); [vm_compute; reflexivity | unfold fr, close, ctol, A41_lo, A41_hi, A41_c, A41_e; interval with (i_prec 80)]. Qed.
Lemma d_A41_1996r : rio_reads A41_c A41_e A41_lo A41_hi floor_volts ctol (Build_rio (Fin (6491044311201869 / 18014398509481984)) (Fin (5 / 1)) (Fin (3715469692580659 / 1125899906842624)) (Fin (3007 / 512)) (Fin (12 / 1)) true true true ((Fin (659 / 256)) :: (Fin (183 / 256)) :: (Fin (1003 / 512)) :: (Fin (120603 / 1024)) :: (Fin (6341 / 1024)) :: (Fin (10647 / 512)) :: nil)) (35 / 1).
Proof. apply (A41_rio_fin _ (6491044311201869 / 18014398509481984)); [reflexivity | apply (A41_q_hi 6491044311201869 18014398509481984 35 1); [vm_compute; reflexivity | unfold fr, ctol, A41_hi, A41_c, A41_e; interval with (i_prec 80)]]. Qed.
Lemma d_A02_27g : get_distance (set_distance A02_c A02_e A02_lo A02_hi sim_init (1 / 1)) = (1 / 1).
Proof. cbn [get_distance set_distance sim_distance]. first [reflexivity | lra]. Qed.
Lemma d_A02_35g : get_distance (set_distance A02_c A02_e A02_lo A02_hi sim_init (100 / 1)) = (100 / 1).
Proof. cbn [get_distance set_distance sim_distance]. first [reflexivity | lra]. Qed.
Lemma d_A02_44g : get_distance (set_distance A02_c A02_e A02_lo A02_hi sim_init (145 / 1)) = (145 / 1).
Proof. cbn [get_distance set_distance sim_distance]. first [reflexivity | lra]. Qed.
Lemma d_A02_52g : get_distance (set_distance A02_c A02_e A02_lo A02_hi sim_init (2550866978991187 / 17592186044416)) = (2550866978991187 / 17592186044416).
Proof. cbn [get_distance set_distance sim_distance]. first [reflexivity | lra]. Qed.
Lemma d_A02_60g : get_distance (set_distance A02_c A02_e A02_lo A02_hi sim_init (7493889970790595 / 35184372088832)) = (7493889970790595 / 35184372088832).
Proof. cbn [get_distance set_distance sim_distance]. first [reflexivity | lra]. Qed.
Lemma d_A02_68g : get_distance (set_distance A02_c A02_e A02_lo A02_hi sim_init (2477096406231263 / 35184372088832)) = (2477096406231263 / 35184372088832).
Proof. cbn [get_distance set_distance sim_distance]. first [reflexivity | lra]. Qed.
Lemma d_A02_76g : get_distance (set_distance A02_c A02_e A02_lo A02_hi sim_init (4059278731268285 / 35184372088832)) = (4059278731268285 / 35184372088832).
Proof. cbn [get_distance set_distance sim_distance]. first [reflexivity | lra]. Qed.
Lemma d_A02_84g : get_distance (set_distance A02_c A02_e A02_lo A02_hi sim_init (1948756016563839 / 17592186044416)) = (1948756016563839 / 17592186044416).
Proof. cbn [get_distance set_distance sim_distance]. first [reflexivity | lra]. Qed.
Lemma d_A02_92g : get_distance (set_distance A02_c A02_e A02_lo A02_hi sim_init (1135114743504083 / 8796093022208)) = (1135114743504083 / 8796093022208).
Proof. cbn [get_distance set_distance sim_distance]. first [reflexivity | lra]. Qed.
Lemma d_A02_100g : get_distance (set_distance A02_c A02_e A02_lo A02_hi sim_init (131 / 1)) = (131 / 1).
Proof. cbn [get_distance set_distance sim_distance]. first [reflexivity | lra]. Qed.
Lemma d_A02_108g : get_distance (set_distance A02_c A02_e A02_lo A02_hi sim_init (167 / 1)) = (167 / 1).
Proof. cbn [get_distance set_distance sim_distance]. first [reflexivity | lra]. Qed.
Lemma d_A02_116g : get_distance (set_distance A02_c A02_e A02_lo A02_hi sim_init ((-8920843347092071) / 1125899906842624)) = ((-8920843347092071) / 1125899906842624).
Proof. cbn [get_distance set_distance sim_distance]. first [reflexivity | lra]. Qed.
Lemma d_A02_124g : get_distance (set_distance A02_c A02_e A02_lo A02_hi sim_init (5742890091518885 / 17592186044416)) = (5742890091518885 / 17592186044416).
Proof. cbn [get_distance set_distance sim_distance]. first [reflexivity | lra]. Qed.
Lemma d_A02_132g : get_distance (set_distance A02_c A02_e A02_lo A02_hi sim_init (998798472092913 / 35184372088832)) = (998798472092913 / 35184372088832).
Proof. cbn [get_distance set_distance sim_distance]. first [reflexivity | lra]. Qed.
Lemma d_A02_140g : get_distance (set_distance A02_c A02_e A02_lo A02_hi sim_init (7676551098903155 / 140737488355328)) = (7676551098903155 / 140737488355328).
Proof. cbn [get_distance set_distance sim_distance]. first [reflexivity | lra]. Qed.
Lemma d_A02_148g : get_distance (set_distance A02_c A02_e A02_lo A02_hi sim_init (615509043665325 / 2199023255552)) = (615509043665325 / 2199023255552).
Proof. cbn [get_distance set_distance sim_distance]. first [reflexivity | lra]. Qed.
Lemma d_A02_156g : get_distance (set_distance A02_c A02_e A02_lo A02_hi sim_init (4412050147765665 / 35184372088832)) = (4412050147765665 / 35184372088832).
Proof. cbn [get_distance set_distance sim_distance]. first [reflexivity | lra]. Qed.
Lemma d_A02_164g : get_distance (set_distance A02_c A02_e A02_lo A02_hi sim_init (3473443525787203 / 35184372088832)) = (3473443525787203 / 35184372088832).
Proof. cbn [get_distance set_distance sim_distance]. first [reflexivity | lra]. Qed.
Lemma d_A02_172g : get_distance (set_distance A02_c A02_e A02_lo A02_hi sim_init (7759280039883183 / 140737488355328)) = (7759280039883183 / 140737488355328).
Proof. cbn [get_distance set_distance sim_distance]. first [reflexivity | lra]. Qed.
Lemma d_A02_180g : get_distance (set_distance A02_c A02_e A02_lo A02_hi sim_init (5003813694923367 / 35184372088832)) = (5003813694923367 / 35184372088832).
Proof. cbn [get_distance set_distance sim_distance]. first [reflexivity | lra]. Qed.
Lemma d_A02_188g : get_distance (set_distance A02_c A02_e A02_lo A02_hi sim_init (4661990605327179 / 35184372088832)) = (4661990605327179 / 35184372088832).
Proof. cbn [get_distance set_distance sim_distance]. first [reflexivity | lra]. Qed.
Lemma d_A02_196g : get_distance (set_distance A02_c A02_e A02_lo A02_hi sim_init (3606027748196001 / 70368744177664)) = (3606027748196001 / 70368744177664).
Proof. cbn [get_distance set_distance sim_distance]. first [reflexivity | lra]. Qed.
Lemma d_A02_204g : get_distance (set_distance A02_c A02_e A02_lo A02_hi sim_init ((-933500848926831) / 562949953421312)) = ((-933500848926831) / 562949953421312).
Proof. cbn [get_distance set_distance sim_distance]. first [reflexivity | lra]. Qed.
Lemma d_A02_212g : get_distance (set_distance A02_c A02_e A02_lo A02_hi sim_init (8308991043793959 / 70368744177664)) = (8308991043793959 / 70368744177664).
Proof. cbn [get_distance set_distance sim_distance]. first [reflexivity | lra]. Qed.
Lemma d_A02_220g : get_distance (set_distance A02_c A02_e A02_lo A02_hi sim_init (117858845434677 / 2199023255552)) = (117858845434677 / 2199023255552).
Proof. cbn [get_distance set_distance sim_distance]. first [reflexivity | lra]. Qed.
Lemma d_A02_228g : get_distance (set_distance A02_c A02_e A02_lo A02_hi sim_init (4262452737250719 / 70368744177664)) = (4262452737250719 / 70368744177664).
Proof. cbn [get_distance set_distance sim_distance]. first [reflexivity | lra]. Qed.
Lemma d_A02_236g : get_distance (set_distance A02_c A02_e A02_lo A02_hi sim_init (444008085824291 / 17592186044416)) = (444008085824291 / 17592186044416).
Proof. cbn [get_distance set_distance sim_distance]. first [reflexivity | lra]. Qed.
Lemma d_A02_244g : get_distance (set_distance A02_c A02_e A02_lo A02_hi sim_init (4097768949416857 / 35184372088832)) = (4097768949416857 / 35184372088832).
Proof. cbn [get_distance set_distance sim_distance]. first [reflexivity | lra]. Qed.
Lemma d_A02_252g : get_distance (set_distance A02_c A02_e A02_lo A02_hi sim_init (7265011271392179 / 281474976710656)) = (7265011271392179 / 281474976710656).
Proof. cbn [get_distance set_distance sim_distance]. first [reflexivity | lra]. Qed.
Lemma d_A02_260g : get_distance (set_distance A02_c A02_e A02_lo A02_hi sim_init (2198868325044687 / 562949953421312)) = (2198868325044687 / 562949953421312).
Proof. cbn [get_distance set_distance sim_distance]. first [reflexivity | lra]. Qed.
Lemma d_A02_268g : get_distance (set_distance A02_c A02_e A02_lo A02_hi sim_init (2534594337119161 / 8796093022208)) = (2534594337119161 / 8796093022208).
Proof. cbn [get_distance set_distance sim_distance]. first [reflexivity | lra]. Qed.
Lemma d_A02_276g : get_distance (set_distance A02_c A02_e A02_lo A02_hi sim_init (6455379486170655 / 70368744177664)) = (6455379486170655 / 70368744177664).
Proof. cbn [get_distance set_distance sim_distance]. first [reflexivity | lra]. Qed.
Lemma d_A02_284g : get_distance (set_distance A02_c A02_e A02_lo A02_hi sim_init (510707388583633 / 4398046511104)) = (510707388583633 / 4398046511104).
Proof. cbn [get_distance set_distance sim_distance]. first [reflexivity | lra]. Qed.
Lemma d_A02_292g : get_distance (set_distance A02_c A02_e A02_lo A02_hi sim_init (6287177424849927 / 140737488355328)) = (6287177424849927 / 140737488355328).
Proof. cbn [get_distance set_distance sim_distance]. first [reflexivity | lra]. Qed.
Lemma d_A02_300g : get_distance (set_distance A02_c A02_e A02_lo A02_hi sim_init (2527132097463467 / 17592186044416)) = (2527132097463467 / 17592186044416).
Proof. cbn [get_distance set_distance sim_distance]. first [reflexivity | lra]. Qed.
Lemma d_A02_308g : get_distance (set_distance A02_c A02_e A02_lo A02_hi sim_init (2968770165578837 / 17592186044416)) = (2968770165578837 / 17592186044416).
Proof. cbn [get_distance set_distance sim_distance]. first [reflexivity | lra]. Qed.
Lemma d_A02_316g : get_distance (set_distance A02_c A02_e A02_lo A02_hi sim_init (3469006591578671 / 35184372088832)) = (3469006591578671 / 35184372088832).
Proof. cbn [get_distance set_distance sim_distance]. first [reflexivity | lra]. Qed.
Lemma d_A02_324g : get_distance (set_distance A02_c A02_e A02_lo A02_hi sim_init (4631607531504743 / 35184372088832)) = (4631607531504743 / 35184372088832).
Proof. cbn [get_distance set_distance sim_distance]. first [reflexivity | lra]. Qed.
Lemma d_A02_332g : get_distance (set_distance A02_c A02_e A02_lo A02_hi sim_init (1542331593979125 / 17592186044416)) = (1542331593979125 / 17592186044416).
Proof. cbn [get_distance set_distance sim_distance]. first [reflexivity | lra]. Qed.
Lemma d_A02_340g : get_distance (set_distance A02_c A02_e A02_lo A02_hi sim_init (648082180494933 / 8796093022208)) = (648082180494933 / 8796093022208).
Proof. cbn [get_distance set_distance sim_distance]. first [reflexivity | lra]. Qed.
Lemma d_A02_348g : get_distance (set_distance A02_c A02_e A02_lo A02_hi sim_init (2965346099580493 / 35184372088832)) = (2965346099580493 / 35184372088832).
Proof. cbn [get_distance set_distance sim_distance]. first [reflexivity | lra]. Qed.
Lemma d_A02_356g : get_distance (set_distance A02_c A02_e A02_lo A02_hi sim_init (5252586402901421 / 35184372088832)) = (5252586402901421 / 35184372088832).
Proof. cbn [get_distance set_distance sim_distance]. first [reflexivity | lra]. Qed.
Lemma d_A02_364g : get_distance (set_distance A02_c A02_e A02_lo A02_hi sim_init (6749059579787073 / 35184372088832)) = (6749059579787073 / 35184372088832).
Proof. cbn [get_distance set_distance sim_distance]. first [reflexivity | lra]. Qed.
Lemma d_A02_372g : get_distance (set_distance A02_c A02_e A02_lo A02_hi sim_init (2591730046291261 / 70368744177664)) = (2591730046291261 / 70368744177664).
Proof. cbn [get_distance set_distance sim_distance]. first [reflexivity | lra]. Qed.
Lemma d_A02_380g : get_distance (set_distance A02_c A02_e A02_lo A02_hi sim_init (4480626021861465 / 140737488355328)) = (4480626021861465 / 140737488355328).
Proof. cbn [get_distance set_distance sim_distance]. first [reflexivity | lra]. Qed.
Lemma d_A02_388g : get_distance (set_distance A02_c A02_e A02_lo A02_hi sim_init (6432476935739605 / 70368744177664)) = (6432476935739605 / 70368744177664).
Proof. cbn [get_distance set_distance sim_distance]. first [reflexivity | lra]. Qed.
Lemma d_A02_396g : get_distance (set_distance A02_c A02_e A02_lo A02_hi sim_init ((-10131288330937) / 140737488355328)) = ((-10131288330937) / 140737488355328).
Proof. cbn [get_distance set_distance sim_distance]. first [reflexivity | lra]. Qed.
Lemma d_A02_404g : get_distance (set_distance A02_c A02_e A02_lo A02_hi sim_init (1681949334218021 / 35184372088832)) = (1681949334218021 / 35184372088832).
Proof. cbn [get_distance set_distance sim_distance]. first [reflexivity | lra]. Qed.
Lemma d_A02_412g : get_distance (set_distance A02_c A02_e A02_lo A02_hi sim_init (7783301438137761 / 70368744177664)) = (7783301438137761 / 70368744177664).
Proof. cbn [get_distance set_distance sim_distance]. first [reflexivity | lra]. Qed.
Lemma d_A02_420g : get_distance (set_distance A02_c A02_e A02_lo A02_hi sim_init (1635986947785193 / 17592186044416)) = (1635986947785193 / 17592186044416).
Proof. cbn [get_distance set_distance sim_distance]. first [reflexivity | lra]. Qed.
Lemma d_A02_428g : get_distance (set_distance A02_c A02_e A02_lo A02_hi sim_init (3663614092780491 / 35184372088832)) = (3663614092780491 / 35184372088832).
Proof. cbn [get_distance set_distance sim_distance]. first [reflexivity | lra]. Qed.
Lemma d_A02_436g : get_distance (set_distance A02_c A02_e A02_lo A02_hi sim_init (226458394265777 / 140737488355328)) = (226458394265777 / 140737488355328).
Proof. cbn [get_distance set_distance sim_distance]. first [reflexivity | lra]. Qed.
Lemma d_A02_444g : get_distance (set_distance A02_c A02_e A02_lo A02_hi sim_init (1592280256565057 / 281474976710656)) = (1592280256565057 / 281474976710656).
Proof. cbn [get_distance set_distance sim_distance]. first [reflexivity | lra]. Qed.
Lemma d_A02_452g : get_distance (set_distance A02_c A02_e A02_lo A02_hi sim_init (1202903891064861 / 4398046511104)) = (1202903891064861 / 4398046511104).
Proof. cbn [get_distance set_distance sim_distance]. first [reflexivity | lra]. Qed.
Lemma d_A02_460g : get_distance (set_distance A02_c A02_e A02_lo A02_hi sim_init (6912270370075857 / 549755813888)) = (6912270370075857 / 549755813888).
Proof. cbn [get_distance set_distance sim_distance]. first [reflexivity | lra]. Qed.
Lemma d_A02_468g : get_distance (set_distance A02_c A02_e A02_lo A02_hi sim_init (23 / 1)) = (23 / 1).
Proof. cbn [get_distance set_distance sim_distance]. first [reflexivity | lra]. Qed.
Lemma d_A02_476g : get_distance (set_distance A02_c A02_e A02_lo A02_hi sim_init (194995996403015 / 549755813888)) = (194995996403015 / 549755813888).
Proof. cbn [get_distance set_distance sim_distance]. first [reflexivity | lra]. Qed.
Lemma d_A02_484g : get_distance (set_distance A02_c A02_e A02_lo A02_hi sim_init (2040497486976761 / 8796093022208)) = (2040497486976761 / 8796093022208).
Proof. cbn [get_distance set_distance sim_distance]. first [reflexivity | lra]. Qed.
Lemma d_A02_492g : get_distance (set_distance A02_c A02_e A02_lo A02_hi sim_init (2176926572611671 / 17592186044416)) = (2176926572611671 / 17592186044416).
Proof. cbn [get_distance set_distance sim_distance]. first [reflexivity | lra]. Qed.
Lemma d_A02_500g : get_distance (set_distance A02_c A02_e A02_lo A02_hi sim_init ((-7434364711522389) / 1125899906842624)) = ((-7434364711522389) / 1125899906842624).
Proof. cbn [get_distance set_distance sim_distance]. first [reflexivity | lra]. Qed.
Lemma d_A02_508g : get_distance (set_distance A02_c A02_e A02_lo A02_hi sim_init (4967161302776539 / 140737488355328)) = (4967161302776539 / 140737488355328).
Proof. cbn [get_distance set_distance sim_distance]. first [reflexivity | lra]. Qed.
Lemma d_A02_516g : get_distance (set_distance A02_c A02_e A02_lo A02_hi sim_init (5411737279895663 / 35184372088832)) = (5411737279895663 / 35184372088832).
Proof. cbn [get_distance set_distance sim_distance]. first [reflexivity | lra]. Qed.
Lemma d_A02_524g : get_distance (set_distance A02_c A02_e A02_lo A02_hi sim_init (285628062894849 / 4398046511104)) = (285628062894849 / 4398046511104).
Proof. cbn [get_distance set_distance sim_distance]. first [reflexivity | lra]. Qed.
Lemma d_A02_532g : get_distance (set_distance A02_c A02_e A02_lo A02_hi sim_init ((-1290165269311363) / 281474976710656)) = ((-1290165269311363) / 281474976710656).
Proof. cbn [get_distance set_distance sim_distance]. first [reflexivity | lra]. Qed.
Lemma d_A02_540g : get_distance (set_distance A02_c A02_e A02_lo A02_hi sim_init (4861591827957119 / 140737488355328)) = (4861591827957119 / 140737488355328).
Proof. cbn [get_distance set_distance sim_distance]. first [reflexivity | lra]. Qed.
Lemma d_A02_548g : get_distance (set_distance A02_c A02_e A02_lo A02_hi sim_init (7641838827390671 / 140737488355328)) = (7641838827390671 / 140737488355328).
Proof. cbn [get_distance set_distance sim_distance]. first [reflexivity | lra]. Qed.
Lemma d_A02_556g : get_distance (set_distance A02_c A02_e A02_lo A02_hi sim_init (6963672784526801 / 70368744177664)) = (6963672784526801 / 70368744177664).
Proof. cbn [get_distance set_distance sim_distance]. first [reflexivity | lra]. Qed.
Lemma d_A02_564g : get_distance (set_distance A02_c A02_e A02_lo A02_hi sim_init (2459335736829585 / 17592186044416)) = (2459335736829585 / 17592186044416).
Proof. cbn [get_distance set_distance sim_distance]. first [reflexivity | lra]. Qed.
Lemma d_A02_572g : get_distance (set_distance A02_c A02_e A02_lo A02_hi sim_init (4352723797501735 / 70368744177664)) = (4352723797501735 / 70368744177664).
Proof. cbn [get_distance set_distance sim_distance]. first [reflexivity | lra]. Qed.
Lemma d_A02_580g : get_distance (set_distance A02_c A02_e A02_lo A02_hi sim_init (169 / 1)) = (169 / 1).
Proof. cbn [get_distance set_distance sim_distance]. first [reflexivity | lra]. Qed.
Lemma d_A02_588g : get_distance (set_distance A02_c A02_e A02_lo A02_hi sim_init (5605162901133289 / 70368744177664)) = (5605162901133289 / 70368744177664).
Proof. cbn [get_distance set_distance sim_distance]. first [reflexivity | lra]. Qed.
Lemma d_A02_596g : get_distance (set_distance A02_c A02_e A02_lo A02_hi sim_init (178 / 1)) = (178 / 1).
Proof. cbn [get_distance set_distance sim_distance]. first [reflexivity | lra]. Qed.
Lemma d_A02_604g : get_distance (set_distance A02_c A02_e A02_lo A02_hi sim_init (6827612519260485 / 140737488355328)) = (6827612519260485 / 140737488355328).
Proof. cbn [get_distance set_distance sim_distance]. first [reflexivity | lra]. Qed.
Lemma d_A02_612g : get_distance (set_distance A02_c A02_e A02_lo A02_hi sim_init (7890434754362081 / 140737488355328)) = (7890434754362081 / 140737488355328).
Proof. cbn [get_distance set_distance sim_distance]. first [reflexivity | lra]. Qed.
Lemma d_A02_620g : get_distance (set_distance A02_c A02_e A02_lo A02_hi sim_init (8065211112137669 / 70368744177664)) = (8065211112137669 / 70368744177664).
Proof. cbn [get_distance set_distance sim_distance]. first [reflexivity | lra]. Qed.
Lemma d_A02_628g : get_distance (set_distance A02_c A02_e A02_lo A02_hi sim_init (3693828698045843 / 70368744177664)) = (3693828698045843 / 70368744177664).
Proof. cbn [get_distance set_distance sim_distance]. first [reflexivity | lra]. Qed.
Lemma d_A02_636g : get_distance (set_distance A02_c A02_e A02_lo A02_hi sim_init (2478745835003249 / 70368744177664)) = (2478745835003249 / 70368744177664).
Proof. cbn [get_distance set_distance sim_distance]. first [reflexivity | lra]. Qed.
Lemma d_A02_644g : get_distance (set_distance A02_c A02_e A02_lo A02_hi sim_init (5825263639319385 / 35184372088832)) = (5825263639319385 / 35184372088832).
Proof. cbn [get_distance set_distance sim_distance]. first [reflexivity | lra]. Qed.
Lemma d_A02_652g : get_distance (set_distance A02_c A02_e A02_lo A02_hi sim_init (5662745329748993 / 17592186044416)) = (5662745329748993 / 17592186044416).
Proof. cbn [get_distance set_distance sim_distance]. first [reflexivity | lra]. Qed.
Lemma d_A02_660g : get_distance (set_distance A02_c A02_e A02_lo A02_hi sim_init (6776901996686193 / 281474976710656)) = (6776901996686193 / 281474976710656).
Proof. cbn [get_distance set_distance sim_distance]. first [reflexivity | lra]. Qed.
Lemma r_A21_434 : rio_reads A21_c A21_e A21_lo A21_hi floor_volts ctol (Build_rio (Fin ((-1) / 202402253307310618352495346718917307049556649764142118356901358027430339567995346891960383701437124495187077864316811911389808737385793476867013399940738509921517424276566361364466907742093216341239767678472745068562007483424692698618103355649159556340810056512358769552333414615230502532186327508646006263307707741093494784)) (Fin (21 / 4)) (Fin (3715469692580659 / 1125899906842624)) (Fin (6 / 1)) (Fin (12 / 1)) true true true ((Fin (0 / 1)) :: (Fin (0 / 1)) :: (Fin (0 / 1)) :: (Fin (0 / 1)) :: (Fin (27 / 4)) :: (Fin (45 / 1)) :: nil)) (5749786070656609 / 281474976710656).
Proof. apply (A21_rio_fin _ ((-1) / 202402253307310618352495346718917307049556649764142118356901358027430339567995346891960383701437124495187077864316811911389808737385793476867013399940738509921517424276566361364466907742093216341239767678472745068562007483424692698618103355649159556340810056512358769552333414615230502532186327508646006263307707741093494784)); [reflexivity | apply (A21_q_floor (-1) 202402253307310618352495346718917307049556649764142118356901358027430339567995346891960383701437124495187077864316811911389808737385793476867013399940738509921517424276566361364466907742093216341239767678472745068562007483424692698618103355649159556340810056512358769552333414615230502532186327508646006263307707741093494784 5749786070656609 281474976710656); vm_compute; reflexivity]. Qed.
Lemma r_A21_815 : rio_reads A21_c A21_e A21_lo A21_hi floor_volts ctol (Build_rio (Fin (4841699284066343 / 2361183241434822606848)) (Fin (1151 / 256)) (Fin (100000000000000001097906362944045541740492309677311846336810682903157585404911491537163328978494688899061249669721172515611590283743140088328307009198146046031271664502933027185697489699588559043338384466165001178426897626212945177628091195786707458122783970171784415105291802893207873272974885715430223118336 / 1)) PInf (Fin (11255 / 1024)) true true true ((Fin (29 / 512)) :: (Fin (459 / 512)) :: (Fin (93 / 1024)) :: (Fin (33547 / 256)) :: (Fin (2277 / 256)) :: (Fin (28963 / 512)) :: nil)) (80 / 1).
Proof. apply (A21_rio_fin _ (4841699284066343 / 2361183241434822606848)); [reflexivity | apply (A21_q_floor 4841699284066343 2361183241434822606848 80 1); vm_compute; reflexivity]. Qed.
Lemma d_A21_670g : get_distance (set_distance A21_c A21_e A21_lo A21_hi sim_init (200 / 1)) = (200 / 1).
Proof. cbn [get_distance set_distance sim_distance]. first [reflexivity | lra]. Qed.
Lemma d_A21_678g : get_distance (set_distance A21_c A21_e A21_lo A21_hi sim_init (145 / 1)) = (145 / 1).
Proof. cbn [get_distance set_distance sim_distance]. first [reflexivity | lra]. Qed.
Lemma d_A21_686g : get_distance (set_distance A21_c A21_e A21_lo A21_hi sim_init (0 / 1)) = (0 / 1).
Proof. cbn [get_distance set_distance sim_distance]. first [reflexivity | lra]. Qed.
Lemma d_A21_694g : get_distance (set_distance A21_c A21_e A21_lo A21_hi sim_init (2 / 1)) = (2 / 1).
Proof. cbn [get_distance set_distance sim_distance]. first [reflexivity | lra]. Qed.
Lemma d_A21_702g : get_distance (set_distance A21_c A21_e A21_lo A21_hi sim_init (200 / 1)) = (200 / 1).
Proof. cbn [get_distance set_distance sim_distance]. first [reflexivity | lra]. Qed.
Lemma d_A21_711g : get_distance (set_distance A21_c A21_e A21_lo A21_hi sim_init (5629499534213119 / 562949953421312)) = (5629499534213119 / 562949953421312).
Proof. cbn [get_distance set_distance sim_distance]. first [reflexivity | lra]. Qed.
Lemma d_A21_719g : get_distance (set_distance A21_c A21_e A21_lo A21_hi sim_init (80 / 1)) = (80 / 1).
Proof. cbn [get_distance set_distance sim_distance]. first [reflexivity | lra]. Qed.
Lemma d_A21_727g : get_distance (set_distance A21_c A21_e A21_lo A21_hi sim_init (4913856275388215 / 140737488355328)) = (4913856275388215 / 140737488355328).
Proof. cbn [get_distance set_distance sim_distance]. first [reflexivity | lra]. Qed.
Lemma d_A21_735g : get_distance (set_distance A21_c A21_e A21_lo A21_hi sim_init (2529353180470205 / 140737488355328)) = (2529353180470205 / 140737488355328).
Proof. cbn [get_distance set_distance sim_distance]. first [reflexivity | lra]. Qed.
Lemma d_A21_743g : get_distance (set_distance A21_c A21_e A21_lo A21_hi sim_init (133200521211729 / 2199023255552)) = (133200521211729 / 2199023255552).
Proof. cbn [get_distance set_distance sim_distance]. first [reflexivity | lra]. Qed.
Lemma d_A21_751g : get_distance (set_distance A21_c A21_e A21_lo A21_hi sim_init (3216871724865271 / 70368744177664)) = (3216871724865271 / 70368744177664).
Proof. cbn [get_distance set_distance sim_distance]. first [reflexivity | lra]. Qed.
Lemma d_A21_759g : get_distance (set_distance A21_c A21_e A21_lo A21_hi sim_init (6 / 1)) = (6 / 1).
Proof. cbn [get_distance set_distance sim_distance]. first [reflexivity | lra]. Qed.
Lemma d_A21_767g : get_distance (set_distance A21_c A21_e A21_lo A21_hi sim_init (695964949922241 / 8796093022208)) = (695964949922241 / 8796093022208).
Proof. cbn [get_distance set_distance sim_distance]. first [reflexivity | lra]. Qed.
Lemma d_A21_775g : get_distance (set_distance A21_c A21_e A21_lo A21_hi sim_init (2584873417176693 / 35184372088832)) = (2584873417176693 / 35184372088832).
Proof. cbn [get_distance set_distance sim_distance]. first [reflexivity | lra]. Qed.
Lemma d_A21_783g : get_distance (set_distance A21_c A21_e A21_lo A21_hi sim_init (8084244841162551 / 140737488355328)) = (8084244841162551 / 140737488355328).
Proof. cbn [get_distance set_distance sim_distance]. first [reflexivity | lra]. Qed.
Lemma d_A21_791g : get_distance (set_distance A21_c A21_e A21_lo A21_hi sim_init (8940797571576827 / 281474976710656)) = (8940797571576827 / 281474976710656).
Proof. cbn [get_distance set_distance sim_distance]. first [reflexivity | lra]. Qed.
Lemma d_A21_799g : get_distance (set_distance A21_c A21_e A21_lo A21_hi sim_init (3722833673307725 / 281474976710656)) = (3722833673307725 / 281474976710656).
Proof. cbn [get_distance set_distance sim_distance]. first [reflexivity | lra]. Qed.
Lemma d_A21_807g : get_distance (set_distance A21_c A21_e A21_lo A21_hi sim_init ((-5297706783585821) / 1125899906842624)) = ((-5297706783585821) / 1125899906842624).
Proof. cbn [get_distance set_distance sim_distance]. first [reflexivity | lra]. Qed.
Lemma d_A21_815g : get_distance (set_distance A21_c A21_e A21_lo A21_hi sim_init ((-8844230855781771) / 2251799813685248)) = ((-8844230855781771) / 2251799813685248).
Proof. cbn [get_distance set_distance sim_distance]. first [reflexivity | lra]. Qed.
Lemma d_A21_823g : get_distance (set_distance A21_c A21_e A21_lo A21_hi sim_init (7390552497387407 / 35184372088832)) = (7390552497387407 / 35184372088832).
Proof. cbn [get_distance set_distance sim_distance]. first [reflexivity | lra]. Qed.
Lemma d_A21_831g : get_distance (set_distance A21_c A21_e A21_lo A21_hi sim_init (90 / 1)) = (90 / 1).
Proof. cbn [get_distance set_distance sim_distance]. first [reflexivity | lra]. Qed.
Lemma d_A21_839g : get_distance (set_distance A21_c A21_e A21_lo A21_hi sim_init (3684027737758919 / 562949953421312)) = (3684027737758919 / 562949953421312).
Proof. cbn [get_distance set_distance sim_distance]. first [reflexivity | lra]. Qed.
Lemma d_A21_847g : get_distance (set_distance A21_c A21_e A21_lo A21_hi sim_init (7968896585450751 / 140737488355328)) = (7968896585450751 / 140737488355328).
Proof. cbn [get_distance set_distance sim_distance]. first [reflexivity | lra]. Qed.
Lemma d_A21_855g : get_distance (set_distance A21_c A21_e A21_lo A21_hi sim_init (422732292602303 / 35184372088832)) = (422732292602303 / 35184372088832).
Proof. cbn [get_distance set_distance sim_distance]. first [reflexivity | lra]. Qed.
Lemma d_A21_863g : get_distance (set_distance A21_c A21_e A21_lo A21_hi sim_init (7735645931089769 / 35184372088832)) = (7735645931089769 / 35184372088832).
Proof. cbn [get_distance set_distance sim_distance]. first [reflexivity | lra]. Qed.
Lemma d_A21_871g : get_distance (set_distance A21_c A21_e A21_lo A21_hi sim_init (1295429475624039 / 35184372088832)) = (1295429475624039 / 35184372088832).
Proof. cbn [get_distance set_distance sim_distance]. first [reflexivity | lra]. Qed.
Lemma d_A21_879g : get_distance (set_distance A21_c A21_e A21_lo A21_hi sim_init ((-253947150907407) / 281474976710656)) = ((-253947150907407) / 281474976710656).
Proof. cbn [get_distance set_distance sim_distance]. first [reflexivity | lra]. Qed.
Lemma d_A21_887g : get_distance (set_distance A21_c A21_e A21_lo A21_hi sim_init (8147321480414195 / 140737488355328)) = (8147321480414195 / 140737488355328).
Proof. cbn [get_distance set_distance sim_distance]. first [reflexivity | lra]. Qed.
Lemma d_A21_895g : get_distance (set_distance A21_c A21_e A21_lo A21_hi sim_init (4896760440448923 / 35184372088832)) = (4896760440448923 / 35184372088832).
Proof. cbn [get_distance set_distance sim_distance]. first [reflexivity | lra]. Qed.
Lemma d_A21_903g : get_distance (set_distance A21_c A21_e A21_lo A21_hi sim_init (2596299219770989 / 281474976710656)) = (2596299219770989 / 281474976710656).
Proof. cbn [get_distance set_distance sim_distance]. first [reflexivity | lra]. Qed.
Lemma d_A21_911g : get_distance (set_distance A21_c A21_e A21_lo A21_hi sim_init (8379797977063383 / 281474976710656)) = (8379797977063383 / 281474976710656).
Proof. cbn [get_distance set_distance sim_distance]. first [reflexivity | lra]. Qed.
Lemma d_A21_919g : get_distance (set_distance A21_c A21_e A21_lo A21_hi sim_init (3101783922794977 / 70368744177664)) = (3101783922794977 / 70368744177664).
Proof. cbn [get_distance set_distance sim_distance]. first [reflexivity | lra]. Qed.
Lemma d_A21_927g : get_distance (set_distance A21_c A21_e A21_lo A21_hi sim_init (5562068718975821 / 140737488355328)) = (5562068718975821 / 140737488355328).
Proof. cbn [get_distance set_distance sim_distance]. first [reflexivity | lra]. Qed.
Lemma d_A21_935g : get_distance (set_distance A21_c A21_e A21_lo A21_hi sim_init (28 / 1)) = (28 / 1).
Proof. cbn [get_distance set_distance sim_distance]. first [reflexivity | lra]. Qed.
Lemma d_A21_943g : get_distance (set_distance A21_c A21_e A21_lo A21_hi sim_init (6141998864360469 / 281474976710656)) = (6141998864360469 / 281474976710656).
Proof. cbn [get_distance set_distance sim_distance]. first [reflexivity | lra]. Qed.
Lemma d_A21_951g : get_distance (set_distance A21_c A21_e A21_lo A21_hi sim_init (7734684465988801 / 70368744177664)) = (7734684465988801 / 70368744177664).
Proof. cbn [get_distance set_distance sim_distance]. first [reflexivity | lra]. Qed.
Lemma d_A21_959g : get_distance (set_distance A21_c A21_e A21_lo A21_hi sim_init (7428290030955331 / 140737488355328)) = (7428290030955331 / 140737488355328).
Proof. cbn [get_distance set_distance sim_distance]. first [reflexivity | lra]. Qed.
Lemma d_A21_967g : get_distance (set_distance A21_c A21_e A21_lo A21_hi sim_init (3407847446130195 / 140737488355328)) = (3407847446130195 / 140737488355328).
Proof. cbn [get_distance set_distance sim_distance]. first [reflexivity | lra]. Qed.
Lemma d_A21_975g : get_distance (set_distance A21_c A21_e A21_lo A21_hi sim_init (1989797798248539 / 8796093022208)) = (1989797798248539 / 8796093022208).
Proof. cbn [get_distance set_distance sim_distance]. first [reflexivity | lra]. Qed.
Lemma d_A21_983g : get_distance (set_distance A21_c A21_e A21_lo A21_hi sim_init (8576121563648931 / 36028797018963968)) = (8576121563648931 / 36028797018963968).
Proof. cbn [get_distance set_distance sim_distance]. first [reflexivity | lra]. Qed.
Lemma d_A21_991g : get_distance (set_distance A21_c A21_e A21_lo A21_hi sim_init (5571026427745401 / 281474976710656)) = (5571026427745401 / 281474976710656).
Proof. cbn [get_distance set_distance sim_distance]. first [reflexivity | lra]. Qed.
Lemma d_A21_999g : get_distance (set_distance A21_c A21_e A21_lo A21_hi sim_init (2775088118752317 / 140737488355328)) = (2775088118752317 / 140737488355328).
Proof. cbn [get_distance set_distance sim_distance]. first [reflexivity | lra]. Qed.
Lemma d_A21_1007g : get_distance (set_distance A21_c A21_e A21_lo A21_hi sim_init (3924554792823699 / 281474976710656)) = (3924554792823699 / 281474976710656).
Proof. cbn [get_distance set_distance sim_distance]. first [reflexivity | lra]. Qed.
Lemma d_A21_1015g : get_distance (set_distance A21_c A21_e A21_lo A21_hi sim_init (1413279952675363 / 35184372088832)) = (1413279952675363 / 35184372088832).
Proof. cbn [get_distance set_distance sim_distance]. first [reflexivity | lra]. Qed.
Lemma d_A21_1023g : get_distance (set_distance A21_c A21_e A21_lo A21_hi sim_init (1356004457942847 / 17592186044416)) = (1356004457942847 / 17592186044416).
Proof. cbn [get_distance set_distance sim_distance]. first [reflexivity | lra]. Qed.
Lemma d_A21_1031g : get_distance (set_distance A21_c A21_e A21_lo A21_hi sim_init (592401281503585 / 35184372088832)) = (592401281503585 / 35184372088832).
Proof. cbn [get_distance set_distance sim_distance]. first [reflexivity | lra]. Qed.
Lemma d_A21_1039g : get_distance (set_distance A21_c A21_e A21_lo A21_hi sim_init ((-3748646096537905) / 2251799813685248)) = ((-3748646096537905) / 2251799813685248).
Proof. cbn [get_distance set_distance sim_distance]. first [reflexivity | lra]. Qed.
Lemma d_A21_1047g : get_distance (set_distance A21_c A21_e A21_lo A21_hi sim_init (1294372302863273 / 1125899906842624)) = (1294372302863273 / 1125899906842624).
Proof. cbn [get_distance set_distance sim_distance]. first [reflexivity | lra]. Qed.
Lemma d_A21_1055g : get_distance (set_distance A21_c A21_e A21_lo A21_hi sim_init (7371668768512625 / 281474976710656)) = (7371668768512625 / 281474976710656).
Proof. cbn [get_distance set_distance sim_distance]. first [reflexivity | lra]. Qed.
Lemma d_A21_1063g : get_distance (set_distance A21_c A21_e A21_lo A21_hi sim_init (2635697612360337 / 140737488355328)) = (2635697612360337 / 140737488355328).
Proof. cbn [get_distance set_distance sim_distance]. first [reflexivity | lra]. Qed.
Lemma d_A21_1071g : get_distance (set_distance A21_c A21_e A21_lo A21_hi sim_init (6878048208860543 / 281474976710656)) = (6878048208860543 / 281474976710656).
Proof. cbn [get_distance set_distance sim_distance]. first [reflexivity | lra]. Qed.
Lemma d_A21_1079g : get_distance (set_distance A21_c A21_e A21_lo A21_hi sim_init (1702680079177857 / 140737488355328)) = (1702680079177857 / 140737488355328).
Proof. cbn [get_distance set_distance sim_distance]. first [reflexivity | lra]. Qed.
Lemma d_A21_1087g : get_distance (set_distance A21_c A21_e A21_lo A21_hi sim_init (5064786575407693 / 281474976710656)) = (5064786575407693 / 281474976710656).
Proof. cbn [get_distance set_distance sim_distance]. first [reflexivity | lra]. Qed.
Lemma d_A21_1095g : get_distance (set_distance A21_c A21_e A21_lo A21_hi sim_init (2155421086200155 / 35184372088832)) = (2155421086200155 / 35184372088832).
Proof. cbn [get_distance set_distance sim_distance]. first [reflexivity | lra]. Qed.
Lemma d_A21_1103g : get_distance (set_distance A21_c A21_e A21_lo A21_hi sim_init (7179863083614901 / 140737488355328)) = (7179863083614901 / 140737488355328).
Proof. cbn [get_distance set_distance sim_distance]. first [reflexivity | lra]. Qed.
Lemma d_A21_1111g : get_distance (set_distance A21_c A21_e A21_lo A21_hi sim_init (1463674654215209 / 281474976710656)) = (1463674654215209 / 281474976710656).
Proof. cbn [get_distance set_distance sim_distance]. first [reflexivity | lra]. Qed.
Lemma d_A21_1119g : get_distance (set_distance A21_c A21_e A21_lo A21_hi sim_init (76977025539227 / 1099511627776)) = (76977025539227 / 1099511627776).
Proof. cbn [get_distance set_distance sim_distance]. first [reflexivity | lra]. Qed.
Lemma d_A21_1127g : get_distance (set_distance A21_c A21_e A21_lo A21_hi sim_init (1400533675978345 / 35184372088832)) = (1400533675978345 / 35184372088832).
Proof. cbn [get_distance set_distance sim_distance]. first [reflexivity | lra]. Qed.
Lemma d_A21_1135g : get_distance (set_distance A21_c A21_e A21_lo A21_hi sim_init (2732455911754817 / 17592186044416)) = (2732455911754817 / 17592186044416).
Proof. cbn [get_distance set_distance sim_distance]. first [reflexivity | lra]. Qed.
Lemma d_A21_1143g : get_distance (set_distance A21_c A21_e A21_lo A21_hi sim_init (4371398809267291 / 4503599627370496)) = (4371398809267291 / 4503599627370496).
Proof. cbn [get_distance set_distance sim_distance]. first [reflexivity | lra]. Qed.
Lemma d_A21_1151g : get_distance (set_distance A21_c A21_e A21_lo A21_hi sim_init (2209585555036365 / 17592186044416)) = (2209585555036365 / 17592186044416).
Proof. cbn [get_distance set_distance sim_distance]. first [reflexivity | lra]. Qed.
Lemma d_A21_1159g : get_distance (set_distance A21_c A21_e A21_lo A21_hi sim_init (1324274832767391 / 17592186044416)) = (1324274832767391 / 17592186044416).
Proof. cbn [get_distance set_distance sim_distance]. first [reflexivity | lra]. Qed.
Lemma d_A21_1167g : get_distance (set_distance A21_c A21_e A21_lo A21_hi sim_init (1902077766710645 / 35184372088832)) = (1902077766710645 / 35184372088832).
Proof. cbn [get_distance set_distance sim_distance]. first [reflexivity | lra]. Qed.
Lemma d_A21_1175g : get_distance (set_distance A21_c A21_e A21_lo A21_hi sim_init (1248300295466305 / 17592186044416)) = (1248300295466305 / 17592186044416).
Proof. cbn [get_distance set_distance sim_distance]. first [reflexivity | lra]. Qed.
Lemma d_A21_1183g : get_distance (set_distance A21_c A21_e A21_lo A21_hi sim_init (3629364955637919 / 70368744177664)) = (3629364955637919 / 70368744177664).
Proof. cbn [get_distance set_distance sim_distance]. first [reflexivity | lra]. Qed.
Lemma d_A21_1191g : get_distance (set_distance A21_c A21_e A21_lo A21_hi sim_init (8607831711000107 / 140737488355328)) = (8607831711000107 / 140737488355328).
Proof. cbn [get_distance set_distance sim_distance]. first [reflexivity | lra]. Qed.
Lemma d_A21_1199g : get_distance (set_distance A21_c A21_e A21_lo A21_hi sim_init (3332847690628081 / 140737488355328)) = (3332847690628081 / 140737488355328).
Proof. cbn [get_distance set_distance sim_distance]. first [reflexivity | lra]. Qed.
Lemma d_A21_1207g : get_distance (set_distance A21_c A21_e A21_lo A21_hi sim_init (1702800165831977 / 35184372088832)) = (1702800165831977 / 35184372088832).
Proof. cbn [get_distance set_distance sim_distance]. first [reflexivity | lra]. Qed.
Lemma d_A21_1215g : get_distance (set_distance A21_c A21_e A21_lo A21_hi sim_init (4966697337447379 / 562949953421312)) = (4966697337447379 / 562949953421312).
Proof. cbn [get_distance set_distance sim_distance]. first [reflexivity | lra]. Qed.
Lemma d_A21_1223g : get_distance (set_distance A21_c A21_e A21_lo A21_hi sim_init (2997865023124249 / 70368744177664)) = (2997865023124249 / 70368744177664).
Proof. cbn [get_distance set_distance sim_distance]. first [reflexivity | lra]. Qed.
Lemma d_A21_1231g : get_distance (set_distance A21_c A21_e A21_lo A21_hi sim_init (15 / 1)) = (15 / 1).
Proof. cbn [get_distance set_distance sim_distance]. first [reflexivity | lra]. Qed.
Lemma d_A21_1239g : get_distance (set_distance A21_c A21_e A21_lo A21_hi sim_init (1099176490703161 / 35184372088832)) = (1099176490703161 / 35184372088832).
Proof. cbn [get_distance set_distance sim_distance]. first [reflexivity | lra]. Qed.
Lemma d_A21_1247g : get_distance (set_distance A21_c A21_e A21_lo A21_hi sim_init (1012962920691343 / 35184372088832)) = (1012962920691343 / 35184372088832).
Proof. cbn [get_distance set_distance sim_distance]. first [reflexivity | lra]. Qed.
Lemma d_A21_1255g : get_distance (set_distance A21_c A21_e A21_lo A21_hi sim_init (104 / 1)) = (104 / 1).
Proof. cbn [get_distance set_distance sim_distance]. first [reflexivity | lra]. Qed.
Lemma d_A21_1263g : get_distance (set_distance A21_c A21_e A21_lo A21_hi sim_init (611821538517725 / 17592186044416)) = (611821538517725 / 17592186044416).
Proof. cbn [get_distance set_distance sim_distance]. first [reflexivity | lra]. Qed.
Lemma d_A21_1271g : get_distance (set_distance A21_c A21_e A21_lo A21_hi sim_init (7538465393658539 / 35184372088832)) = (7538465393658539 / 35184372088832).
Proof. cbn [get_distance set_distance sim_distance]. first [reflexivity | lra]. Qed.
Lemma d_A21_1279g : get_distance (set_distance A21_c A21_e A21_lo A21_hi sim_init (5495571263513539 / 140737488355328)) = (5495571263513539 / 140737488355328).
Proof. cbn [get_distance set_distance sim_distance]. first [reflexivity | lra]. Qed.
Lemma d_A21_1287g : get_distance (set_distance A21_c A21_e A21_lo A21_hi sim_init (6604870974674651 / 281474976710656)) = (6604870974674651 / 281474976710656).
Proof. cbn [get_distance set_distance sim_distance]. first [reflexivity | lra]. Qed.
Lemma d_A21_1295g : get_distance (set_distance A21_c A21_e A21_lo A21_hi sim_init (2486219786141735 / 35184372088832)) = (2486219786141735 / 35184372088832).
Proof. cbn [get_distance set_distance sim_distance]. first [reflexivity | lra]. Qed.
Lemma d_A21_1303g : get_distance (set_distance A21_c A21_e A21_lo A21_hi sim_init (1173791173568827 / 17592186044416)) = (1173791173568827 / 17592186044416).
Proof. cbn [get_distance set_distance sim_distance]. first [reflexivity | lra]. Qed.
Lemma d_A21_1311g : get_distance (set_distance A21_c A21_e A21_lo A21_hi sim_init (376778542267667 / 35184372088832)) = (376778542267667 / 35184372088832).
Proof. cbn [get_distance set_distance sim_distance]. first [reflexivity | lra]. Qed.
Lemma d_A21_1319g : get_distance (set_distance A21_c A21_e A21_lo A21_hi sim_init (571423691501011 / 4398046511104)) = (571423691501011 / 4398046511104).
Proof. cbn [get_distance set_distance sim_distance]. first [reflexivity | lra]. Qed.
Lemma d_A21_1327g : get_distance (set_distance A21_c A21_e A21_lo A21_hi sim_init (6809201431514565 / 562949953421312)) = (6809201431514565 / 562949953421312).
Proof. cbn [get_distance set_distance sim_distance]. first [reflexivity | lra]. Qed.
Lemma r_A41_860 : rio_reads A41_c A41_e A41_lo A41_hi floor_volts ctol (Build_rio (Fin ((-1152921504606847) / 1152921504606846976)) (Fin (2589569785738035 / 562949953421312)) (Fin (3715469692580659 / 1125899906842624)) (Fin (6 / 1)) (Fin (12 / 1)) true true true ((Fin (0 / 1)) :: (Fin (0 / 1)) :: (Fin (0 / 1)) :: (Fin (0 / 1)) :: (Fin (27 / 4)) :: (Fin (45 / 1)) :: nil)) (5876659090025575 / 562949953421312).
Proof. apply (A41_rio_fin _ ((-1152921504606847) / 1152921504606846976)); [reflexivity | apply (A41_q_floor (-1152921504606847) 1152921504606846976 5876659090025575 562949953421312); vm_compute; reflexivity]. Qed.
Lemma r_A41_1236 : rio_reads A41_c A41_e A41_lo A41_hi floor_volts ctol (Build_rio (Fin (5122532112211331 / 18889465931478580854784)) (Fin (5451 / 1024)) (Fin (12389 / 1024)) (Fin (6 / 1)) (Fin (11237 / 1024)) true true true ((Fin (103 / 128)) :: (Fin (1841 / 1024)) :: (Fin (701 / 512)) :: (Fin (9851 / 64)) :: (Fin (1141 / 128)) :: (Fin (17527 / 256)) :: nil)) (35 / 1).
Proof. apply (A41_rio_fin _ (5122532112211331 / 18889465931478580854784)); [reflexivity | apply (A41_q_floor 5122532112211331 18889465931478580854784 35 1); vm_compute; reflexivity]. Qed.
Lemma d_A41_1336g : get_distance (set_distance A41_c A41_e A41_lo A41_hi sim_init (200 / 1)) = (200 / 1).
Proof. cbn [get_distance set_distance sim_distance]. first [reflexivity | lra]. Qed.
Lemma d_A41_1344g : get_distance (set_distance A41_c A41_e A41_lo A41_hi sim_init (145 / 1)) = (145 / 1).
Proof. cbn [get_distance set_distance sim_distance]. first [reflexivity | lra]. Qed.
Lemma d_A41_1352g : get_distance (set_distance A41_c A41_e A41_lo A41_hi sim_init (0 / 1)) = (0 / 1).
Proof. cbn [get_distance set_distance sim_distance]. first [reflexivity | lra]. Qed.
Lemma d_A41_1360g : get_distance (set_distance A41_c A41_e A41_lo A41_hi sim_init (2 / 1)) = (2 / 1).
Proof. cbn [get_distance set_distance sim_distance]. first [reflexivity | lra]. Qed.
Lemma d_A41_1368g : get_distance (set_distance A41_c A41_e A41_lo A41_hi sim_init (200 / 1)) = (200 / 1).
Proof. cbn [get_distance set_distance sim_distance]. first [reflexivity | lra]. Qed.
Lemma d_A41_1377g : get_distance (set_distance A41_c A41_e A41_lo A41_hi sim_init (5066549580791807 / 1125899906842624)) = (5066549580791807 / 1125899906842624).
Proof. cbn [get_distance set_distance sim_distance]. first [reflexivity | lra]. Qed.
Lemma d_A41_1385g : get_distance (set_distance A41_c A41_e A41_lo A41_hi sim_init (35 / 1)) = (35 / 1).
Proof. cbn [get_distance set_distance sim_distance]. first [reflexivity | lra]. Qed.
Lemma d_A41_1393g : get_distance (set_distance A41_c A41_e A41_lo A41_hi sim_init (1454562989013769 / 140737488355328)) = (1454562989013769 / 140737488355328).
Proof. cbn [get_distance set_distance sim_distance]. first [reflexivity | lra]. Qed.
Lemma d_A41_1401g : get_distance (set_distance A41_c A41_e A41_lo A41_hi sim_init (2768856241979979 / 140737488355328)) = (2768856241979979 / 140737488355328).
Proof. cbn [get_distance set_distance sim_distance]. first [reflexivity | lra]. Qed.
Lemma d_A41_1409g : get_distance (set_distance A41_c A41_e A41_lo A41_hi sim_init (2767895073544991 / 562949953421312)) = (2767895073544991 / 562949953421312).
Proof. cbn [get_distance set_distance sim_distance]. first [reflexivity | lra]. Qed.
Lemma d_A41_1417g : get_distance (set_distance A41_c A41_e A41_lo A41_hi sim_init (7138753143724297 / 562949953421312)) = (7138753143724297 / 562949953421312).
Proof. cbn [get_distance set_distance sim_distance]. first [reflexivity | lra]. Qed.
Lemma d_A41_1425g : get_distance (set_distance A41_c A41_e A41_lo A41_hi sim_init (50 / 1)) = (50 / 1).
Proof. cbn [get_distance set_distance sim_distance]. first [reflexivity | lra]. Qed.
Lemma d_A41_1433g : get_distance (set_distance A41_c A41_e A41_lo A41_hi sim_init (3266782937863847 / 140737488355328)) = (3266782937863847 / 140737488355328).
Proof. cbn [get_distance set_distance sim_distance]. first [reflexivity | lra]. Qed.
Lemma d_A41_1441g : get_distance (set_distance A41_c A41_e A41_lo A41_hi sim_init (4501196496471817 / 140737488355328)) = (4501196496471817 / 140737488355328).
Proof. cbn [get_distance set_distance sim_distance]. first [reflexivity | lra]. Qed.
Lemma d_A41_1449g : get_distance (set_distance A41_c A41_e A41_lo A41_hi sim_init (2272245156244847 / 70368744177664)) = (2272245156244847 / 70368744177664).
Proof. cbn [get_distance set_distance sim_distance]. first [reflexivity | lra]. Qed.
Lemma d_A41_1457g : get_distance (set_distance A41_c A41_e A41_lo A41_hi sim_init ((-5332799153009439) / 4503599627370496)) = ((-5332799153009439) / 4503599627370496).
Proof. cbn [get_distance set_distance sim_distance]. first [reflexivity | lra]. Qed.
Lemma d_A41_1465g : get_distance (set_distance A41_c A41_e A41_lo A41_hi sim_init (1335079862739137 / 70368744177664)) = (1335079862739137 / 70368744177664).
Proof. cbn [get_distance set_distance sim_distance]. first [reflexivity | lra]. Qed.
Lemma d_A41_1473g : get_distance (set_distance A41_c A41_e A41_lo A41_hi sim_init (2514182122612107 / 70368744177664)) = (2514182122612107 / 70368744177664).
Proof. cbn [get_distance set_distance sim_distance]. first [reflexivity | lra]. Qed.
Lemma d_A41_1481g : get_distance (set_distance A41_c A41_e A41_lo A41_hi sim_init (4208638056154537 / 140737488355328)) = (4208638056154537 / 140737488355328).
Proof. cbn [get_distance set_distance sim_distance]. first [reflexivity | lra]. Qed.
Lemma d_A41_1489g : get_distance (set_distance A41_c A41_e A41_lo A41_hi sim_init (3242318075058653 / 35184372088832)) = (3242318075058653 / 35184372088832).
Proof. cbn [get_distance set_distance sim_distance]. first [reflexivity | lra]. Qed.
Lemma d_A41_1497g : get_distance (set_distance A41_c A41_e A41_lo A41_hi sim_init (5840228238434551 / 562949953421312)) = (5840228238434551 / 562949953421312).
Proof. cbn [get_distance set_distance sim_distance]. first [reflexivity | lra]. Qed.
Lemma d_A41_1505g : get_distance (set_distance A41_c A41_e A41_lo A41_hi sim_init (2765247958489453 / 35184372088832)) = (2765247958489453 / 35184372088832).
Proof. cbn [get_distance set_distance sim_distance]. first [reflexivity | lra]. Qed.
Lemma d_A41_1513g : get_distance (set_distance A41_c A41_e A41_lo A41_hi sim_init (1837144548231049 / 70368744177664)) = (1837144548231049 / 70368744177664).
Proof. cbn [get_distance set_distance sim_distance]. first [reflexivity | lra]. Qed.
Lemma d_A41_1521g : get_distance (set_distance A41_c A41_e A41_lo A41_hi sim_init (7350242645512635 / 70368744177664)) = (7350242645512635 / 70368744177664).
Proof. cbn [get_distance set_distance sim_distance]. first [reflexivity | lra]. Qed.
Lemma d_A41_1529g : get_distance (set_distance A41_c A41_e A41_lo A41_hi sim_init (499314241565751 / 17592186044416)) = (499314241565751 / 17592186044416).
Proof. cbn [get_distance set_distance sim_distance]. first [reflexivity | lra]. Qed.
Lemma d_A41_1537g : get_distance (set_distance A41_c A41_e A41_lo A41_hi sim_init (1070954735827735 / 140737488355328)) = (1070954735827735 / 140737488355328).
Proof. cbn [get_distance set_distance sim_distance]. first [reflexivity | lra]. Qed.
Lemma d_A41_1545g : get_distance (set_distance A41_c A41_e A41_lo A41_hi sim_init (7189992083037363 / 70368744177664)) = (7189992083037363 / 70368744177664).
Proof. cbn [get_distance set_distance sim_distance]. first [reflexivity | lra]. Qed.
Lemma d_A41_1553g : get_distance (set_distance A41_c A41_e A41_lo A41_hi sim_init ((-8706992995830187) / 4503599627370496)) = ((-8706992995830187) / 4503599627370496).
Proof. cbn [get_distance set_distance sim_distance]. first [reflexivity | lra]. Qed.
Lemma d_A41_1561g : get_distance (set_distance A41_c A41_e A41_lo A41_hi sim_init (1165271501117691 / 70368744177664)) = (1165271501117691 / 70368744177664).
Proof. cbn [get_distance set_distance sim_distance]. first [reflexivity | lra]. Qed.
Lemma d_A41_1569g : get_distance (set_distance A41_c A41_e A41_lo A41_hi sim_init ((-2212905795162223) / 1125899906842624)) = ((-2212905795162223) / 1125899906842624).
Proof. cbn [get_distance set_distance sim_distance]. first [reflexivity | lra]. Qed.
Lemma d_A41_1577g : get_distance (set_distance A41_c A41_e A41_lo A41_hi sim_init (6503954184973541 / 281474976710656)) = (6503954184973541 / 281474976710656).
Proof. cbn [get_distance set_distance sim_distance]. first [reflexivity | lra]. Qed.
Lemma d_A41_1585g : get_distance (set_distance A41_c A41_e A41_lo A41_hi sim_init (56 / 1)) = (56 / 1).
Proof. cbn [get_distance set_distance sim_distance]. first [reflexivity | lra]. Qed.
Lemma d_A41_1593g : get_distance (set_distance A41_c A41_e A41_lo A41_hi sim_init (2953866954979931 / 562949953421312)) = (2953866954979931 / 562949953421312).
Proof. cbn [get_distance set_distance sim_distance]. first [reflexivity | lra]. Qed.
Lemma d_A41_1601g : get_distance (set_distance A41_c A41_e A41_lo A41_hi sim_init (7354799287847149 / 70368744177664)) = (7354799287847149 / 70368744177664).
Proof. cbn [get_distance set_distance sim_distance]. first [reflexivity | lra]. Qed.
Lemma d_A41_1609g : get_distance (set_distance A41_c A41_e A41_lo A41_hi sim_init (1283825509186917 / 2251799813685248)) = (1283825509186917 / 2251799813685248).
Proof. cbn [get_distance set_distance sim_distance]. first [reflexivity | lra]. Qed.
Lemma d_A41_1617g : get_distance (set_distance A41_c A41_e A41_lo A41_hi sim_init (16 / 1)) = (16 / 1).
Proof. cbn [get_distance set_distance sim_distance]. first [reflexivity | lra]. Qed.
Lemma d_A41_1625g : get_distance (set_distance A41_c A41_e A41_lo A41_hi sim_init (4844691666135743 / 140737488355328)) = (4844691666135743 / 140737488355328).
Proof. cbn [get_distance set_distance sim_distance]. first [reflexivity | lra]. Qed.
Lemma d_A41_1633g : get_distance (set_distance A41_c A41_e A41_lo A41_hi sim_init (316444315641805 / 4398046511104)) = (316444315641805 / 4398046511104).
Proof. cbn [get_distance set_distance sim_distance]. first [reflexivity | lra]. Qed.
Lemma d_A41_1641g : get_distance (set_distance A41_c A41_e A41_lo A41_hi sim_init (4755445114320613 / 140737488355328)) = (4755445114320613 / 140737488355328).
Proof. cbn [get_distance set_distance sim_distance]. first [reflexivity | lra]. Qed.
Lemma d_A41_1649g : get_distance (set_distance A41_c A41_e A41_lo A41_hi sim_init (3668720932076907 / 562949953421312)) = (3668720932076907 / 562949953421312).
Proof. cbn [get_distance set_distance sim_distance]. first [reflexivity | lra]. Qed.
Lemma d_A41_1657g : get_distance (set_distance A41_c A41_e A41_lo A41_hi sim_init (2439734766524855 / 140737488355328)) = (2439734766524855 / 140737488355328).
Proof. cbn [get_distance set_distance sim_distance]. first [reflexivity | lra]. Qed.
Lemma d_A41_1665g : get_distance (set_distance A41_c A41_e A41_lo A41_hi sim_init (38 / 1)) = (38 / 1).
Proof. cbn [get_distance set_distance sim_distance]. first [reflexivity | lra]. Qed.
Lemma d_A41_1673g : get_distance (set_distance A41_c A41_e A41_lo A41_hi sim_init (267226042330407 / 70368744177664)) = (267226042330407 / 70368744177664).
Proof. cbn [get_distance set_distance sim_distance]. first [reflexivity | lra]. Qed.
Lemma d_A41_1681g : get_distance (set_distance A41_c A41_e A41_lo A41_hi sim_init ((-4239254397580267) / 2251799813685248)) = ((-4239254397580267) / 2251799813685248).
Proof. cbn [get_distance set_distance sim_distance]. first [reflexivity | lra]. Qed.
Lemma d_A41_1689g : get_distance (set_distance A41_c A41_e A41_lo A41_hi sim_init (1181083762003033 / 35184372088832)) = (1181083762003033 / 35184372088832).
Proof. cbn [get_distance set_distance sim_distance]. first [reflexivity | lra]. Qed.
Lemma d_A41_1697g : get_distance (set_distance A41_c A41_e A41_lo A41_hi sim_init (903776377448535 / 8796093022208)) = (903776377448535 / 8796093022208).
Proof. cbn [get_distance set_distance sim_distance]. first [reflexivity | lra]. Qed.
Lemma d_A41_1705g : get_distance (set_distance A41_c A41_e A41_lo A41_hi sim_init (6790160901562835 / 1125899906842624)) = (6790160901562835 / 1125899906842624).
Proof. cbn [get_distance set_distance sim_distance]. first [reflexivity | lra]. Qed.
Lemma d_A41_1713g : get_distance (set_distance A41_c A41_e A41_lo A41_hi sim_init (7157653734464399 / 281474976710656)) = (7157653734464399 / 281474976710656).
Proof. cbn [get_distance set_distance sim_distance]. first [reflexivity | lra]. Qed.
Lemma d_A41_1721g : get_distance (set_distance A41_c A41_e A41_lo A41_hi sim_init ((-415564093489679) / 2251799813685248)) = ((-415564093489679) / 2251799813685248).
Proof. cbn [get_distance set_distance sim_distance]. first [reflexivity | lra]. Qed.
Lemma d_A41_1729g : get_distance (set_distance A41_c A41_e A41_lo A41_hi sim_init (69126579002359 / 140737488355328)) = (69126579002359 / 140737488355328).
Proof. cbn [get_distance set_distance sim_distance]. first [reflexivity | lra]. Qed.
Lemma d_A41_1737g : get_distance (set_distance A41_c A41_e A41_lo A41_hi sim_init (288520822597467 / 8796093022208)) = (288520822597467 / 8796093022208).
Proof. cbn [get_distance set_distance sim_distance]. first [reflexivity | lra]. Qed.
Lemma d_A41_1745g : get_distance (set_distance A41_c A41_e A41_lo A41_hi sim_init (2653581662617145 / 281474976710656)) = (2653581662617145 / 281474976710656).
Proof. cbn [get_distance set_distance sim_distance]. first [reflexivity | lra]. Qed.
Lemma d_A41_1753g : get_distance (set_distance A41_c A41_e A41_lo A41_hi sim_init (837214677608253 / 281474976710656)) = (837214677608253 / 281474976710656).
Proof. cbn [get_distance set_distance sim_distance]. first [reflexivity | lra]. Qed.
Lemma d_A41_1761g : get_distance (set_distance A41_c A41_e A41_lo A41_hi sim_init (8372758651664957 / 562949953421312)) = (8372758651664957 / 562949953421312).
Proof. cbn [get_distance set_distance sim_distance]. first [reflexivity | lra]. Qed.
Lemma d_A41_1769g : get_distance (set_distance A41_c A41_e A41_lo A41_hi sim_init (3611959954209421 / 140737488355328)) = (3611959954209421 / 140737488355328).
Proof. cbn [get_distance set_distance sim_distance]. first [reflexivity | lra]. Qed.
Lemma d_A41_1777g : get_distance (set_distance A41_c A41_e A41_lo A41_hi sim_init (1964848097941383 / 70368744177664)) = (1964848097941383 / 70368744177664).
Proof. cbn [get_distance set_distance sim_distance]. first [reflexivity | lra]. Qed.
Lemma d_A41_1785g : get_distance (set_distance A41_c A41_e A41_lo A41_hi sim_init (766740799286449 / 70368744177664)) = (766740799286449 / 70368744177664).
Proof. cbn [get_distance set_distance sim_distance]. first [reflexivity | lra]. Qed.
Lemma d_A41_1793g : get_distance (set_distance A41_c A41_e A41_lo A41_hi sim_init (6011488675084089 / 281474976710656)) = (6011488675084089 / 281474976710656).
Proof. cbn [get_distance set_distance sim_distance]. first [reflexivity | lra]. Qed.
Lemma d_A41_1801g : get_distance (set_distance A41_c A41_e A41_lo A41_hi sim_init (1200473598588081 / 35184372088832)) = (1200473598588081 / 35184372088832).
Proof. cbn [get_distance set_distance sim_distance]. first [reflexivity | lra]. Qed.
Lemma d_A41_1809g : get_distance (set_distance A41_c A41_e A41_lo A41_hi sim_init (863731356229935 / 8796093022208)) = (863731356229935 / 8796093022208).
Proof. cbn [get_distance set_distance sim_distance]. first [reflexivity | lra]. Qed.
Lemma d_A41_1817g : get_distance (set_distance A41_c A41_e A41_lo A41_hi sim_init (4481499313892311 / 140737488355328)) = (4481499313892311 / 140737488355328).
Proof. cbn [get_distance set_distance sim_distance]. first [reflexivity | lra]. Qed.
Lemma d_A41_1825g : get_distance (set_distance A41_c A41_e A41_lo A41_hi sim_init (1005748325373483 / 140737488355328)) = (1005748325373483 / 140737488355328).
Proof. cbn [get_distance set_distance sim_distance]. first [reflexivity | lra]. Qed.
Lemma d_A41_1833g : get_distance (set_distance A41_c A41_e A41_lo A41_hi sim_init (8757548191025589 / 562949953421312)) = (8757548191025589 / 562949953421312).
Proof. cbn [get_distance set_distance sim_distance]. first [reflexivity | lra]. Qed.
Lemma d_A41_1841g : get_distance (set_distance A41_c A41_e A41_lo A41_hi sim_init (3811125167164735 / 140737488355328)) = (3811125167164735 / 140737488355328).
Proof. cbn [get_distance set_distance sim_distance]. first [reflexivity | lra]. Qed.
Lemma d_A41_1849g : get_distance (set_distance A41_c A41_e A41_lo A41_hi sim_init (1336547543133357 / 70368744177664)) = (1336547543133357 / 70368744177664).
Proof. cbn [get_distance set_distance sim_distance]. first [reflexivity | lra]. Qed.
Lemma d_A41_1857g : get_distance (set_distance A41_c A41_e A41_lo A41_hi sim_init (161710631793627 / 8796093022208)) = (161710631793627 / 8796093022208).
Proof. cbn [get_distance set_distance sim_distance]. first [reflexivity | lra]. Qed.
Lemma d_A41_1865g : get_distance (set_distance A41_c A41_e A41_lo A41_hi sim_init (3034923662118613 / 140737488355328)) = (3034923662118613 / 140737488355328).
Proof. cbn [get_distance set_distance sim_distance]. first [reflexivity | lra]. Qed.
Lemma d_A41_1873g : get_distance (set_distance A41_c A41_e A41_lo A41_hi sim_init (1821537124330525 / 140737488355328)) = (1821537124330525 / 140737488355328).
Proof. cbn [get_distance set_distance sim_distance]. first [reflexivity | lra]. Qed.
Lemma d_A41_1881g : get_distance (set_distance A41_c A41_e A41_lo A41_hi sim_init (1847384272449539 / 140737488355328)) = (1847384272449539 / 140737488355328).
Proof. cbn [get_distance set_distance sim_distance]. first [reflexivity | lra]. Qed.
Lemma d_A41_1889g : get_distance (set_distance A41_c A41_e A41_lo A41_hi sim_init (2389933960538835 / 140737488355328)) = (2389933960538835 / 140737488355328).
Proof. cbn [get_distance set_distance sim_distance]. first [reflexivity | lra]. Qed.
Lemma d_A41_1897g : get_distance (set_distance A41_c A41_e A41_lo A41_hi sim_init (24 / 1)) = (24 / 1).
Proof. cbn [get_distance set_distance sim_distance]. first [reflexivity | lra]. Qed.
Lemma d_A41_1905g : get_distance (set_distance A41_c A41_e A41_lo A41_hi sim_init (16250091144037 / 1099511627776)) = (16250091144037 / 1099511627776).
Proof. cbn [get_distance set_distance sim_distance]. first [reflexivity | lra]. Qed.
Lemma d_A41_1913g : get_distance (set_distance A41_c A41_e A41_lo A41_hi sim_init (7832757805141005 / 562949953421312)) = (7832757805141005 / 562949953421312).
Proof. cbn [get_distance set_distance sim_distance]. first [reflexivity | lra]. Qed.
Lemma d_A41_1921g : get_distance (set_distance A41_c A41_e A41_lo A41_hi sim_init (7590576513696833 / 1125899906842624)) = (7590576513696833 / 1125899906842624).
Proof. cbn [get_distance set_distance sim_distance]. first [reflexivity | lra]. Qed.
Lemma d_A41_1929g : get_distance (set_distance A41_c A41_e A41_lo A41_hi sim_init (6893603703268405 / 281474976710656)) = (6893603703268405 / 281474976710656).
Proof. cbn [get_distance set_distance sim_distance]. first [reflexivity | lra]. Qed.
Lemma d_A41_1937g : get_distance (set_distance A41_c A41_e A41_lo A41_hi sim_init (2629387251451277 / 70368744177664)) = (2629387251451277 / 70368744177664).
Proof. cbn [get_distance set_distance sim_distance]. first [reflexivity | lra]. Qed.
Lemma d_A41_1945g : get_distance (set_distance A41_c A41_e A41_lo A41_hi sim_init (1124713134535809 / 70368744177664)) = (1124713134535809 / 70368744177664).
Proof. cbn [get_distance set_distance sim_distance]. first [reflexivity | lra]. Qed.
Lemma d_A41_1953g : get_distance (set_distance A41_c A41_e A41_lo A41_hi sim_init (7342830912472741 / 70368744177664)) = (7342830912472741 / 70368744177664).
Proof. cbn [get_distance set_distance sim_distance]. first [reflexivity | lra]. Qed.
Lemma d_A41_1961g : get_distance (set_distance A41_c A41_e A41_lo A41_hi sim_init (6751141321332679 / 1125899906842624)) = (6751141321332679 / 1125899906842624).
Proof. cbn [get_distance set_distance sim_distance]. first [reflexivity | lra]. Qed.
Lemma d_A41_1969g : get_distance (set_distance A41_c A41_e A41_lo A41_hi sim_init (6248405552910335 / 281474976710656)) = (6248405552910335 / 281474976710656).
Proof. cbn [get_distance set_distance sim_distance]. first [reflexivity | lra]. Qed.
Lemma d_A41_1977g : get_distance (set_distance A41_c A41_e A41_lo A41_hi sim_init (7101717021574991 / 281474976710656)) = (7101717021574991 / 281474976710656).
Proof. cbn [get_distance set_distance sim_distance]. first [reflexivity | lra]. Qed.
Lemma d_A41_1985g : get_distance (set_distance A41_c A41_e A41_lo A41_hi sim_init (1189291650580619 / 70368744177664)) = (1189291650580619 / 70368744177664).
Proof. cbn [get_distance set_distance sim_distance]. first [reflexivity | lra]. Qed.
Lemma d_A41_1993g : get_distance (set_distance A41_c A41_e A41_lo A41_hi sim_init (4567692200769835 / 281474976710656)) = (4567692200769835 / 281474976710656).
Proof. cbn [get_distance set_distance sim_distance]. first [reflexivity | lra]. Qed.
Check d_A41_1993g.
